(* Proofs about coq/model/Frozen.v (property C11), part 2: an object built by
   the current constructors reads no container that the caller can still
   mutate; hence any later mutation of those containers leaves every
   observation of the object unchanged. *)
From Coq Require Import List NArith Bool Arith Lia.
From SWH.lib Require Import Bytes Order StableSort.
From SWH Require Import Generated.
From SWH.model Require Import Frozen.
From SWH.proofs Require Import FrozenProofs.
Import ListNotations.
Local Open Scope nat_scope.

(* ------------------------------------------------------------------ *)
(* dict primitives only rearrange / drop / overwrite entries *)

Lemma dict_set_In : forall {A} k (v : A) it p, In p (dict_set k v it) -> p = (k, v) \/ In p it.
Proof.
  induction it as [|[k' v'] it IH]; intros p H; simpl in H.
  - destruct H as [H|[]]. left. auto.
  - destruct (beqb k k').
    + destruct H as [H|H]; [left; auto | right; right; exact H].
    + destruct H as [H|H]; [right; left; exact H|]. destruct (IH p H); [left; auto | right; right; auto].
Qed.

Lemma dict_del_In : forall {A} k (it : list (atom * A)) p, In p (dict_del k it) -> In p it.
Proof.
  induction it as [|[k' v'] it IH]; intros p H; simpl in H; [contradiction|].
  destruct (beqb k k'); [right; exact H|]. destruct H as [H|H]; [left; exact H | right; auto].
Qed.

Lemma dict_of_pairs_In : forall {A} (kvs : list (atom * A)) p, In p (dict_of_pairs kvs) -> In p kvs.
Proof.
  intros A kvs p. unfold dict_of_pairs.
  assert (G : forall kvs acc, In p (fold_left (fun d kv => dict_set (fst kv) (snd kv) d) kvs acc) -> In p acc \/ In p kvs).
  { induction kvs0 as [|kv kvs0 IH]; intros acc H; simpl in H; [left; exact H|].
    destruct (IH _ H) as [H1|H1]; [|right; right; exact H1].
    destruct (dict_set_In _ _ _ _ H1) as [E|E]; [right; left; destruct kv; simpl in E; auto | left; exact E]. }
  intro H. destruct (G kvs [] H) as [[]|H1]. exact H1.
Qed.

Lemma assoc_In_pair : forall {A} k (l : list (atom * A)) v, assoc k l = Some v -> In (k, v) l.
Proof.
  induction l as [|[k' v'] l IH]; intros v H; simpl in H; [discriminate|].
  destruct (beqb k k') eqn:E.
  - apply beqb_eq in E. inversion H; subst. left. reflexivity.
  - right. auto.
Qed.

Lemma set_field_Forall : forall (P : pyval -> Prop) name x rows vals,
  Forall P vals -> P x -> Forall P (set_field name x rows vals).
Proof.
  induction rows as [|r rows IH]; intros vals HF Hx; simpl; [exact HF|].
  destruct vals as [|v vals]; [exact HF|]. inversion HF; subst.
  destruct (beqb name (f_name r)); constructor; auto.
Qed.

Lemma atom_pairs_hfree : forall t, atom_pairs t = true -> hfree t = true.
Proof.
  intros [] H; simpl in H; try discriminate. simpl. rewrite forallb_forall in *. intros p Hp.
  specialize (H p Hp). destruct p as [| |[|k [|x [|? ?]]]| | | | |]; try discriminate.
  apply andb_true_iff in H. destruct H as [Hk Hx].
  destruct k; try discriminate. destruct x; try discriminate. reflexivity.
Qed.

(* ------------------------------------------------------------------ *)
Section Alias.
  Variable hs : list handle.      (* the handles the caller goes on mutating *)

  (* reading v never meets a handle of hs, in the store s and in every store
     obtained from it by allocation *)
  Definition Good (f : nat) (s : store) (v : pyval) : Prop := forall e, safe f (s ++ e) hs v = true.

  Lemma Good_of_safe : forall f s v, safe f s hs v = true -> Good f s v.
  Proof. intros f s v H e. apply safe_ext. exact H. Qed.

  Lemma Good_ext : forall f s e v, Good f s v -> Good f (s ++ e) v.
  Proof. intros f s e v H e'. rewrite <- app_assoc. apply H. Qed.

  Lemma Good_le : forall g f s v, g <= f -> Good f s v -> Good g s v.
  Proof. intros g f s v Hle H e. eapply safe_le; [exact Hle | apply H]. Qed.

  Lemma Good_hfree : forall f s v, hfree v = true -> Good f s v.
  Proof. intros f s v H e. apply hfree_safe. exact H. Qed.

  Lemma Good_safe : forall f s v, Good f s v -> safe f s hs v = true.
  Proof. intros f s v H. specialize (H []). rewrite app_nil_r in H. exact H. Qed.

  Lemma Good_fresh_idict : forall f s fac it,
    memh (length s) hs = false ->
    (forall x, In x (map snd it) -> Good (pred f) s x) ->
    Good f (s ++ [PyDict fac it]) (VIDict (length s)).
  Proof.
    intros f s fac it Hm H e. destruct f as [|f]; [reflexivity|]. simpl. rewrite Hm. simpl.
    rewrite lookup_fresh. simpl. rewrite forallb_forall. intros x Hx.
    specialize (H x Hx ([PyDict fac it] ++ e)). rewrite app_assoc in H. exact H.
  Qed.

  Lemma Good_values_of_ref : forall F s h c,
    Good F s (VRef h) -> lookup s h = Some c -> forall x, In x (cell_values c) -> Good (pred F) s x.
  Proof.
    intros F s h c H L x Hx e. specialize (H e). destruct F as [|F]; [reflexivity|]. simpl in *.
    apply andb_true_iff in H. destruct H as [_ H]. rewrite (lookup_app1 _ _ _ _ L) in H.
    rewrite forallb_forall in H. auto.
  Qed.

  Lemma Good_values_of_idict : forall F s h c,
    Good F s (VIDict h) -> lookup s h = Some c -> forall x, In x (cell_values c) -> Good (pred F) s x.
  Proof.
    intros F s h c H L x Hx e. specialize (H e). destruct F as [|F]; [reflexivity|]. simpl in *.
    apply andb_true_iff in H. destruct H as [_ H]. rewrite (lookup_app1 _ _ _ _ L) in H.
    rewrite forallb_forall in H. auto.
  Qed.

  Lemma Good_elems : forall F s l,
    (Good F s (VTuple l) \/ Good F s (VOList l)) -> forall x, In x l -> Good (pred F) s x.
  Proof.
    intros F s l H x Hx e. destruct F as [|F]; [reflexivity|].
    destruct H as [H|H]; specialize (H e); simpl in *; rewrite forallb_forall in H; auto.
  Qed.

  Definition HV (s : store) : Prop := forall h, In h hs -> h < length s.

  Lemma HV_fresh : forall s, HV s -> memh (length s) hs = false.
  Proof. intros s H. apply memh_false. intro Hin. specialize (H _ Hin). lia. Qed.

  Lemma HV_ext : forall s e, HV s -> HV (s ++ e).
  Proof. intros s e H h Hin. rewrite app_length. specialize (H h Hin). lia. Qed.

  (* an element (k, x) unpacked from a readable pair: x is readable *)
  Lemma as_kv_good : forall F s el k x, Good F s el -> as_kv s el = Some (k, x) -> Good (pred F) s x.
  Proof.
    intros F s el k x HG H. unfold as_kv in H.
    destruct (as_pair s el) as [[k0 x0]|] eqn:E; [|discriminate].
    destruct k0; try discriminate. inversion H; subst. clear H.
    unfold as_pair in E. destruct el; try discriminate.
    - destruct l as [|a [|b [|? ?]]]; try discriminate. inversion E; subst.
      apply (Good_elems F s [VAtom k; x]); [left; exact HG | right; left; reflexivity].
    - destruct (lookup s h) as [[fac it|l]|] eqn:L; try discriminate.
      destruct l as [|a [|b [|? ?]]]; try discriminate. inversion E; subst.
      apply (Good_values_of_ref F s h (PyList [VAtom k; x]) HG L). right; left; reflexivity.
    - destruct l as [|a [|b [|? ?]]]; try discriminate. inversion E; subst.
      apply (Good_elems F s [VAtom k; x]); [right; exact HG | right; left; reflexivity].
  Qed.

  Lemma idict_of_seq_good : forall G s l v' s',
    HV s -> (forall el, In el l -> Good G s el) ->
    idict_of_seq s l = Ok (v', s') ->
    (exists e, s' = s ++ e) /\ Good G s' v'.
  Proof.
    intros G s l v' s' Hv Hl H. unfold idict_of_seq in H.
    destruct (seq_opt (map (as_kv s) l)) as [kvs|] eqn:E; [|discriminate].
    unfold alloc in H. inversion H; subst. split; [eexists; reflexivity|].
    apply Good_fresh_idict; [apply HV_fresh; exact Hv|].
    intros x Hx. apply in_map_iff in Hx. destruct Hx as [[k x0] [Ex Hin]]. simpl in Ex. subst x0.
    apply dict_of_pairs_In in Hin.
    destruct (seq_opt_In _ _ _ E _ Hin) as [el [Hel Hk]].
    eapply as_kv_good; [apply Hl; exact Hel | exact Hk].
  Qed.

  (* what the no-alias theorem asks of a container argument, as a Prop closed
     under allocation *)
  Definition SepP (F : nat) (s : store) (v : pyval) : Prop :=
    Good F s v \/
    exists h c, v = VRef h /\ lookup s h = Some c /\ forall x, In x (cell_values c) -> Good F s x.

  Lemma SepP_ext : forall F s e v, SepP F s v -> SepP F (s ++ e) v.
  Proof.
    intros F s e v [H|[h [c [E [L H]]]]]; [left; apply Good_ext; exact H|].
    right. exists h, c. split; [exact E|]. split; [apply lookup_app1; exact L|].
    intros x Hx. apply Good_ext. auto.
  Qed.

  Lemma sep_container_SepP : forall F s v, sep_container F s hs v = true -> SepP F s v.
  Proof.
    intros F s v H. unfold sep_container in H. apply orb_true_iff in H. destruct H as [H|H].
    - left. apply Good_of_safe. exact H.
    - destruct v; try discriminate. destruct (lookup s h) as [c|] eqn:L; [|discriminate].
      right. exists h, c. split; [reflexivity|]. split; [exact L|].
      rewrite forallb_forall in H. intros x Hx. apply Good_of_safe. auto.
  Qed.

  Lemma idict_init_good : forall F s v v' s',
    HV s -> SepP F s v -> idict_init New s v = Ok (v', s') ->
    (exists e, s' = s ++ e) /\ Good (pred F) s' v'.
  Proof.
    intros F s v v' s' Hv Hsep H. unfold idict_init in H. destruct v; try discriminate.
    - (* tuple of pairs *)
      destruct Hsep as [Hg|[h [c [E _]]]]; [|discriminate].
      eapply idict_of_seq_good; [exact Hv | | exact H].
      intros el Hel. apply (Good_elems F s l); [left; exact Hg | exact Hel].
    - (* an ImmutableDict: shared *)
      inversion H; subst. split; [exists []; rewrite app_nil_r; reflexivity|].
      destruct Hsep as [Hg|[h0 [c [E _]]]]; [|discriminate]. eapply Good_le; [|exact Hg]. lia.
    - destruct (lookup s h) as [[fac it|l]|] eqn:L; [| |discriminate].
      + (* a dict: copied into a fresh cell *)
        unfold alloc in H. inversion H; subst. split; [eexists; reflexivity|].
        apply Good_fresh_idict; [apply HV_fresh; exact Hv|].
        intros x Hx. destruct Hsep as [Hg|[h0 [c [E [L' Hc]]]]].
        * eapply Good_le; [|apply (Good_values_of_ref F s h (PyDict fac it) Hg L x Hx)]. lia.
        * inversion E; subst. rewrite L in L'. inversion L'; subst.
          eapply Good_le; [|apply Hc; exact Hx]. lia.
      + (* a list of pairs *)
        destruct Hsep as [Hg|[h0 [c [E [L' Hc]]]]].
        * eapply idict_of_seq_good; [exact Hv | | exact H].
          intros el Hel. apply (Good_values_of_ref F s h (PyList l) Hg L el Hel).
        * inversion E; subst. rewrite L in L'. inversion L'; subst.
          destruct (idict_of_seq_good F s l v' s' Hv Hc H) as [He Hg]. split; [exact He|].
          eapply Good_le; [|exact Hg]. lia.
  Qed.

  Definition ArgP (F : nat) (s : store) (rt : route) (cls fname : bytes) (v : pyval) : Prop :=
    match arg_kind cls fname with
    | KUnchecked => Good F s v
    | KChecked => match rt with Ctor => is_container v = true \/ Good F s v | FromDict => True end
    | KTuplify => True
    | KFreezeDict =>
        if match rt with FromDict => is_rebuild cls fname | Ctor => false end then True else SepP F s v
    end.

  Lemma ArgP_ext : forall F s e rt cls fname v, ArgP F s rt cls fname v -> ArgP F (s ++ e) rt cls fname v.
  Proof.
    intros F s e rt cls fname v. unfold ArgP. destruct (arg_kind cls fname).
    - destruct rt; [|auto]. intros [H|H]; [left; exact H | right; apply Good_ext; exact H].
    - destruct (match rt with FromDict => is_rebuild cls fname | Ctor => false end); [auto | apply SepP_ext].
    - auto.
    - apply Good_ext.
  Qed.

  Lemma sep_arg_ArgP : forall F s rt cls fname v, sep_arg F s hs rt cls fname v = true -> ArgP F s rt cls fname v.
  Proof.
    intros F s rt cls fname v. unfold sep_arg, ArgP. destruct (arg_kind cls fname).
    - destruct rt; [|auto]. intro H. apply orb_true_iff in H. destruct H as [H|H]; [left; exact H | right; apply Good_of_safe; exact H].
    - destruct (match rt with FromDict => is_rebuild cls fname | Ctor => false end); [auto | apply sep_container_SepP].
    - auto.
    - apply Good_of_safe.
  Qed.

  Lemma conv_one_good : forall F f rt cls fname s v v' s',
    HV s -> ArgP F s rt cls fname v ->
    conv_one New f rt cls fname s v = Ok (v', s') ->
    (exists e, s' = s ++ e) /\ Good (pred F) s' v'.
  Proof.
    intros F f rt cls fname s v v' s' Hv Ha H. unfold conv_one in H. unfold ArgP in Ha.
    assert (Hnil : exists e, s = s ++ e) by (exists []; rewrite app_nil_r; reflexivity).
    destruct (arg_kind cls fname).
    - (* checked *)
      destruct rt.
      + destruct (checked_ok v) eqn:C; [|discriminate]. inversion H; subst. split; [exact Hnil|].
        destruct Ha as [Hc|Hg].
        * unfold checked_ok in C. rewrite Hc in C. discriminate.
        * eapply Good_le; [|exact Hg]. lia.
      + destruct (freeze f s v) as [z|] eqn:Z; [|discriminate]. inversion H; subst. split; [exact Hnil|].
        apply Good_hfree. eapply freeze_hfree. exact Z.
    - (* freeze_optional_dict *)
      destruct (match rt with FromDict => is_rebuild cls fname | Ctor => false end).
      + destruct (freeze f s v) as [z|] eqn:Z; [|discriminate]. destruct z; try discriminate.
        eapply idict_of_seq_good; [exact Hv | | exact H].
        intros el Hel. apply Good_hfree. apply freeze_hfree in Z. simpl in Z.
        rewrite forallb_forall in Z. auto.
      + destruct v; try discriminate.
        * inversion H; subst. split; [exact Hnil|]. apply Good_hfree. reflexivity.
        * inversion H; subst. split; [exact Hnil|].
          destruct Ha as [Hg|[h0 [c [E _]]]]; [|discriminate]. eapply Good_le; [|exact Hg]. lia.
        * destruct (lookup s h) as [[fac it|l]|] eqn:L; try discriminate.
          eapply idict_init_good; eauto.
    - (* tuplify_extra_headers + validator *)
      destruct (tuplify s v) as [t|] eqn:T; [|discriminate].
      destruct (atom_pairs t) eqn:P; [|discriminate]. inversion H; subst. split; [exact Hnil|].
      apply Good_hfree. apply atom_pairs_hfree. exact P.
    - (* unchecked: stored as is *)
      inversion H; subst. split; [exact Hnil|]. eapply Good_le; [|exact Ha]. lia.
  Qed.

  Fixpoint ArgsP (F : nat) (s : store) (rt : route) (cls : bytes) (rows : list field_row) (args : list pyval) : Prop :=
    match rows, args with
    | r :: rows', a :: args' => ArgP F s rt cls (f_name r) a /\ ArgsP F s rt cls rows' args'
    | _, _ => True
    end.

  Lemma ArgsP_ext : forall F s e rt cls rows args, ArgsP F s rt cls rows args -> ArgsP F (s ++ e) rt cls rows args.
  Proof.
    induction rows as [|r rows IH]; intros args H; simpl in *; [exact I|].
    destruct args as [|a args]; [exact I|]. destruct H as [H1 H2]. split; [apply ArgP_ext; exact H1 | apply IH; exact H2].
  Qed.

  Lemma sep_args_ArgsP : forall F s rt cls rows args, sep_args F s hs rt cls rows args = true -> ArgsP F s rt cls rows args.
  Proof.
    induction rows as [|r rows IH]; intros args H; simpl in *; [exact I|].
    destruct args as [|a args]; [exact I|]. apply andb_true_iff in H. destruct H as [H1 H2].
    split; [apply sep_arg_ArgP; exact H1 | apply IH; exact H2].
  Qed.

  Lemma conv_fields_good : forall F f rt cls rows args s vals s',
    HV s -> ArgsP F s rt cls rows args ->
    conv_fields New f rt cls rows args s = Ok (vals, s') ->
    (exists e, s' = s ++ e) /\ Forall (Good (pred F) s') vals.
  Proof.
    induction rows as [|r rows IH]; intros args s vals s' Hv Ha H; simpl in H.
    - destruct args; [|discriminate]. inversion H; subst. split; [exists []; rewrite app_nil_r; reflexivity | constructor].
    - destruct args as [|a args]; [discriminate|]. simpl in Ha. destruct Ha as [Ha1 Ha2].
      destruct (conv_one New f rt cls (f_name r) s a) as [[v s1]|] eqn:C; [|discriminate].
      destruct (conv_fields New f rt cls rows args s1) as [[vs s2]|] eqn:C2; [|discriminate].
      inversion H; subst.
      destruct (conv_one_good F f rt cls (f_name r) s a v s1 Hv Ha1 C) as [[e1 E1] G1]. subst s1.
      destruct (IH args (s ++ e1) vs s' (HV_ext _ _ Hv) (ArgsP_ext _ _ _ _ _ _ _ Ha2) C2) as [[e2 E2] G2].
      subst s'. split; [exists (e1 ++ e2); rewrite app_assoc; reflexivity|].
      constructor; [apply Good_ext; exact G1 | exact G2].
  Qed.

  Section WithHash.
    Variable Hid : rval -> atom.
    Variable Hpy : rval -> N.

    Lemma post_id_good : forall G f cls rows vals s,
      Forall (Good G s) vals -> Forall (Good G s) (post_id Hid f cls rows vals s).
    Proof.
      intros G f cls rows vals s H. unfold post_id.
      destruct (get_field ID rows vals) as [[]|]; try exact H.
      destruct (beqb a EMPTY_BYTES); [|exact H].
      apply set_field_Forall; [exact H | apply Good_hfree; reflexivity].
    Qed.

    (* current copy_pop: a fresh cell holding handle-free copies; the popped value is handle-free *)
    Lemma copy_pop_good : forall G f s v k x md s',
      HV s -> copy_pop New f s v k = Ok (x, md, s') ->
      (exists e, s' = s ++ e) /\ hfree x = true /\ Good G s' md.
    Proof.
      intros G f s v k x md s' Hv H. unfold copy_pop in H. destruct v; try discriminate.
      destruct (lookup s h) as [[fac it|l]|]; try discriminate.
      destruct (deepcopy f s (VIDict h)) as [[| | | | | | |m kvs]|] eqn:D1; try discriminate.
      unfold alloc in H. inversion H; subst. apply deepcopy_hfree in D1. simpl in D1.
      rewrite forallb_forall in D1. split; [eexists; reflexivity|]. split.
      - unfold popped. destruct (assoc k kvs) as [x0|] eqn:A0; [|reflexivity].
        apply assoc_In_pair in A0. apply (D1 _ A0).
      - apply Good_fresh_idict; [apply HV_fresh; exact Hv|].
        intros x0 Hx. apply Good_hfree. apply in_map_iff in Hx. destruct Hx as [kv [E Hin]]. subst x0.
        apply D1. eapply dict_del_In. exact Hin.
    Qed.

    Lemma post_revision_good : forall G f cls rows vals s vals' s',
      HV s -> Forall (Good G s) vals ->
      post_revision New f cls rows vals s = Ok (vals', s') ->
      (exists e, s' = s ++ e) /\ Forall (Good G s') vals'.
    Proof.
      intros G f cls rows vals s vals' s' Hv HF H. unfold post_revision in H.
      assert (Triv : forall vals0 s0, Ok (vals, s) = Ok (vals0, s0) ->
                     (exists e, s0 = s ++ e) /\ Forall (Good G s0) vals0).
      { intros vals0 s0 E. inversion E; subst. split; [exists []; rewrite app_nil_r; reflexivity | exact HF]. }
      destruct (negb (beqb cls (bs "Revision"))); [apply Triv; exact H|].
      destruct (get_field K_META rows vals) as [[| | | |hm| | |]|]; try (apply Triv; exact H).
      destruct (get_field K_XH rows vals) as [[| |[|? ?]| | | | |]|]; try (apply Triv; exact H).
      destruct (lookup s hm) as [[fac it|l]|]; try (apply Triv; exact H).
      destruct (assoc XH_KEY it) as [xh|]; [|apply Triv; exact H].
      destruct (copy_pop New f s (VIDict hm) XH_KEY) as [[[xh' md] s2]|] eqn:CP; [|discriminate].
      destruct (tuplify s2 xh') as [t|] eqn:T; [|discriminate].
      destruct (atom_pairs t) eqn:P; [|discriminate].
      inversion H; subst.
      destruct (copy_pop_good G f s (VIDict hm) XH_KEY xh' md s' Hv CP) as [[e E] [_ Gmd]]. subst s'.
      split; [exists e; reflexivity|].
      apply set_field_Forall; [apply set_field_Forall|].
      - eapply Forall_impl; [|exact HF]. intros a Ha. apply Good_ext. exact Ha.
      - exact Gmd.
      - apply Good_hfree. apply atom_pairs_hfree. exact P.
    Qed.

    Definition SeparatedP (F : nat) (s : store) (rt : route) (cls : bytes) (args : list pyval) : Prop :=
      HV s /\
      if beqb cls IDICT then match args with [v] => SepP F s v | _ => True end
      else match class_fields ALL_CLASSES cls with
           | Some rows => ArgsP F s rt cls rows args
           | None => True
           end.

    Lemma separated_SeparatedP : forall F s rt cls args,
      separated F s hs rt cls args = true -> SeparatedP F s rt cls args.
    Proof.
      intros F s rt cls args H. unfold separated in H. apply andb_true_iff in H. destruct H as [H1 H2].
      split.
      - intros h Hin. rewrite forallb_forall in H1. apply Nat.ltb_lt. auto.
      - destruct (beqb cls IDICT).
        + destruct args as [|v [|? ?]]; auto. apply sep_container_SepP. exact H2.
        + destruct (class_fields ALL_CLASSES cls); [apply sep_args_ArgsP; exact H2 | exact I].
    Qed.

    Lemma Good_obj : forall G s cls vals, Forall (Good G s) vals -> Good G s (VObj cls vals).
    Proof.
      intros G s cls vals H e. destruct G as [|G]; [reflexivity|]. simpl. rewrite forallb_forall.
      intros x Hx. rewrite Forall_forall in H. eapply safe_pred. apply H. exact Hx.
    Qed.

    Lemma construct_good : forall F f rt cls s args o s1,
      SeparatedP F s rt cls args ->
      construct Hid New f rt cls s args = Ok (o, s1) ->
      Good (pred F) s1 o.
    Proof.
      intros F f rt cls s args o s1 [Hv Hs] H. unfold construct in H.
      destruct (beqb cls IDICT).
      - destruct args as [|v [|? ?]]; try discriminate.
        destruct (idict_init_good F s v o s1 Hv Hs H) as [_ G]. exact G.
      - destruct (class_fields ALL_CLASSES cls) as [rows|]; [|discriminate].
        destruct (conv_fields New f rt cls rows args s) as [[vals s2]|] eqn:C; [|discriminate].
        destruct (conv_fields_good F f rt cls rows args s vals s2 Hv Hs C) as [[e1 E1] G1]. subst s2.
        destruct (post_revision New f cls rows (post_id Hid f cls rows vals (s ++ e1)) (s ++ e1)) as [[vals' s3]|] eqn:R; [|discriminate].
        inversion H; subst.
        destruct (post_revision_good (pred F) f cls rows _ (s ++ e1) vals' s1 (HV_ext _ _ Hv)
                    (post_id_good _ f cls rows vals (s ++ e1) G1) R) as [_ G2].
        apply Good_obj. exact G2.
    Qed.

    (* THE no-alias theorem, general form: [hs] is any set of caller handles *)
    Theorem no_alias : forall g f s0 rt cls args o s1 ms,
      separated (S g) s0 hs rt cls args = true ->
      construct Hid New f rt cls s0 args = Ok (o, s1) ->
      Forall (fun m => In (mut_target m) hs) ms ->
      observe Hid Hpy g (apply_muts s1 ms) o = observe Hid Hpy g s1 o.
    Proof.
      intros g f s0 rt cls args o s1 ms Hsep Hc Hms.
      pose proof (construct_good (S g) f rt cls s0 args o s1 (separated_SeparatedP _ _ _ _ _ Hsep) Hc) as G.
      simpl in G. unfold observe. f_equal. symmetry. apply (resolve_frame g s1 _ hs).
      - intros h Hm. symmetry. apply (apply_muts_other ms s1 hs h Hms). apply memh_false. exact Hm.
      - apply Good_safe. exact G.
    Qed.
  End WithHash.
End Alias.

(* the arguments from_dict reads out of its dictionary *)
Definition from_dict_reads (s : store) (cls : bytes) (d : pyval) : option (list pyval) :=
  match d with
  | VRef hd =>
      match lookup s hd, class_fields ALL_CLASSES cls with
      | Some (PyDict _ items), Some rows => from_dict_args rows items
      | _, _ => None
      end
  | _ => None
  end.

Theorem no_alias_args : forall Hid Hpy g f s0 cls args o s1 ms,
  separated (S g) s0 (arg_handles args) Ctor cls args = true ->
  construct Hid New f Ctor cls s0 args = Ok (o, s1) ->
  Forall (fun m => In (mut_target m) (arg_handles args)) ms ->
  observe Hid Hpy g (apply_muts s1 ms) o = observe Hid Hpy g s1 o.
Proof. intros. eapply no_alias; eauto. Qed.

Theorem no_alias_from_dict : forall Hid Hpy hs g f s0 cls d args o s1 ms,
  from_dict_reads s0 cls d = Some args ->
  separated (S g) s0 hs FromDict cls args = true ->
  from_dict Hid New f cls s0 d = Ok (o, s1) ->
  Forall (fun m => In (mut_target m) hs) ms ->
  observe Hid Hpy g (apply_muts s1 ms) o = observe Hid Hpy g s1 o.
Proof.
  intros Hid Hpy hs g f s0 cls d args o s1 ms Hr Hsep Hc Hms.
  unfold from_dict_reads in Hr. unfold from_dict in Hc. destruct d; try discriminate.
  destruct (lookup s0 h) as [[? items|?]|]; try discriminate.
  destruct (class_fields ALL_CLASSES cls) as [rows|]; try discriminate.
  rewrite Hr in Hc. eapply no_alias; eauto.
Qed.

(* ------------------------------------------------------------------ *)
(* No write operation on the object *)
Theorem no_write_op : forall s o c,
  let '(e, s', o') := obj_mutate s o c in s' = s /\ o' = o.
Proof. intros s o c. destruct o; destruct c; simpl; auto. Qed.

Theorem no_write_op_observe : forall Hid Hpy f s o c,
  let '(e, s', o') := obj_mutate s o c in observe Hid Hpy f s' o' = observe Hid Hpy f s o.
Proof. intros Hid Hpy f s o c. destruct o; destruct c; simpl; auto. Qed.
