(* Examples moved out of model/Dedup.v so that the model (and its extraction) still builds when a
   regenerated table makes one of them false; they are part of the proof cone of the properties. *)
From Coq Require Import List NArith Bool.
From SWH.lib Require Import Bytes Dec Hex Order StableSort GitHeader.
From SWH.model Require Import Dir.
From SWH Require Import Generated.
Import ListNotations.
Open Scope N_scope.
From SWH.model Require Import Dedup.

Example ex_files_names :
  match repair (fun m => m) ex_files [] None with
  | RepOk f d => (f, map e_name (o_entries d))
  | _ => (false, [])
  end = (true, [bs "a"; bs "a_0202020202_1"; bs "a_0202020202_2"; bs "a_0202020202"]).
Proof. vm_compute. reflexivity. Qed.

Example ex_files_old : repair_old (fun m => m) ex_files [] None = RepValueError.
Proof. vm_compute. reflexivity. Qed.
