(* Cross-model consistency C06 x C01: the leaf ids of the on-disk tree model
   (model/FromDisk.v: blob_id, mt_id of the MLeaf built by from_file) are the
   sha1_git values that the content-hashing model (model/Hashutil.v:
   disk_from_file = from_disk.Content.from_file, through MultiHash) computes
   for the same file-system object.

   Parametrisation of the hash.  Hashutil quantifies over
   [H : algo name -> data -> digest] (hashlib.new(name)), FromDisk over one
   function [bytes -> bytes] standing for SHA-1.  The bridge instantiates the
   latter with [H SHA1] (SHA1 = "sha1", the base algorithm of "sha1_git"):
   every theorem below holds for EVERY H.

   File-system objects.  FromDisk.fsnode: Reg data mode | Lnk text | Special
   mode; Hashutil.fsobj: FReg data sched | FSymlink target | FOther.  The mode
   plays no role for the id, the read schedule [sched] (how os.read chops the
   file) none either - both are universally quantified. *)
From Coq Require Import List NArith Bool.
From SWH.lib Require Import Bytes Dec GitHeader Hex.
From SWH Require Import Generated.
From SWH.model Require Import Dir FromDisk.
From SWH.model Require Hashutil.
From SWH.proofs Require HashutilProofs.
Import ListNotations.
Open Scope N_scope.

(* the Hashutil view of a FromDisk leaf node *)
Definition fsobj_of (t : fsnode) (sched : list nat) : Hashutil.fsobj :=
  match t with
  | Reg data _ => Hashutil.FReg data sched
  | Lnk text => Hashutil.FSymlink text
  | _ => Hashutil.FOther
  end.

Section Bridge.
  Variable H : bytes -> bytes -> bytes.
  Local Notation H1 := (H Hashutil.SHA1).

  (* both are the hash of "blob <len>\0<data>" *)
  Lemma blob_id_is_blob_manifest : forall d, blob_id H1 d = H Hashutil.SHA1 (Hashutil.blob_manifest d).
  Proof.
    intro d. unfold blob_id. rewrite HashutilProofs.blob_manifest_git_object. reflexivity.
  Qed.

  Lemma blob_id_is_expected : forall d, blob_id H1 d = Hashutil.c_sha1_git (Hashutil.expected H d).
  Proof. intro d. rewrite blob_id_is_blob_manifest. reflexivity. Qed.

  Lemma too_large_same : forall limit n,
    too_large limit n = match limit with Some m => m <? n | None => false end.
  Proof. reflexivity. Qed.

  Lemma disk_from_bytes_expected : forall d, Hashutil.disk_from_bytes H d = Hashutil.Ok (Hashutil.expected H d).
  Proof.
    intro d. pose proof (HashutilProofs.routes_agree H d) as R. cbv zeta in R.
    exact (proj1 (proj2 (proj2 (proj2 (proj2 (proj2 (proj2 (proj2 R)))))))).
  Qed.

  Lemma disk_from_file_reg : forall d sched limit,
    Hashutil.disk_from_file H (Hashutil.FReg d sched) limit
    = Hashutil.Ok (Hashutil.expected H d, too_large limit (lenN d)).
  Proof.
    intros d sched limit. pose proof (HashutilProofs.routes_agree H d) as R. cbv zeta in R.
    destruct (proj1 (proj2 (proj2 (proj2 (proj2 (proj2 (proj2 (proj2 (proj2 R)))))))) sched limit) as [ab Hab].
    rewrite Hab. unfold Hashutil.disk_from_file in Hab.
    destruct (Hashutil.mh_from_path DEFAULT_ALGORITHMS d sched) as [c|e]; [|discriminate].
    destruct (Hashutil.content_of_dict Hashutil.KeyError (fst (Hashutil.cell_digest H c)) (lenN d)) as [r|e];
      [|discriminate].
    inversion Hab. reflexivity.
  Qed.

  (* The leaf that FromDisk.from_file builds for a regular file, a symbolic
     link or a special file carries, as its Merkle id, exactly the sha1_git of
     the Content record that Hashutil's from_disk.Content.from_file route
     returns for that object; the two models also agree on the length, on the
     "absent" (skipped) status and on when the call raises. *)
  Theorem leaf_ids_are_C01_blob_ids :
    (forall d, blob_id H1 d = H Hashutil.SHA1 (Hashutil.blob_manifest d)) /\
    (forall (t : fsnode) (sched : list nat) (limit : option N), is_fdir t = false ->
       match from_file limit t with
       | FdOk ci =>
           exists c, Hashutil.disk_from_file H (fsobj_of t sched) limit = Hashutil.Ok (c, ci_skipped ci)
             /\ c = Hashutil.expected H (ci_data ci)
             /\ mt_id H1 (MLeaf ci) = Hashutil.c_sha1_git c
             /\ mt_id H1 (MLeaf ci) = H Hashutil.SHA1 (Hashutil.blob_manifest (ci_data ci))
             /\ node_id H1 t = Hashutil.c_sha1_git c
             /\ Hashutil.c_length c = lenN (ci_data ci)
       | FdSymlinkTooLarge =>
           Hashutil.disk_from_file H (fsobj_of t sched) limit = Hashutil.Err Hashutil.OtherException
       end).
  Proof.
    split; [exact blob_id_is_blob_manifest|].
    intros t sched limit Hd. destruct t as [data mode | text | mode | cs]; [| | |discriminate];
      cbn [from_file fsobj_of].
    - (* regular file *)
      exists (Hashutil.expected H data). cbn [ci_skipped ci_data mt_id node_id].
      split; [apply disk_from_file_reg|]. split; [reflexivity|].
      rewrite <- blob_id_is_expected, <- blob_id_is_blob_manifest. repeat split; reflexivity.
    - (* symbolic link *)
      unfold Hashutil.disk_from_file. rewrite <- too_large_same.
      destruct (too_large limit (lenN text)); [reflexivity|].
      exists (Hashutil.expected H text). cbn [ci_skipped ci_data mt_id node_id].
      rewrite disk_from_bytes_expected. split; [reflexivity|]. split; [reflexivity|].
      rewrite <- blob_id_is_expected, <- blob_id_is_blob_manifest. repeat split; reflexivity.
    - (* fifo, socket, device *)
      exists (Hashutil.expected H []). cbn [ci_skipped ci_data mt_id node_id].
      unfold Hashutil.disk_from_file. rewrite disk_from_bytes_expected.
      split; [reflexivity|]. split; [reflexivity|].
      rewrite <- blob_id_is_expected, <- blob_id_is_blob_manifest. repeat split; reflexivity.
  Qed.
End Bridge.

(* non-vacuity, with real SHA-1 for "sha1": the leaf of the regular file "abc"
   carries git's blob id of "abc", which is what C01_satisfiable computes by
   the MultiHash route *)
Example leaf_example :
  match from_file (Some 2) (Reg (bs "abc") 420) with
  | FdOk ci => (hexlify (mt_id (Hashutil.Hexec Hashutil.SHA1) (MLeaf ci)), ci_skipped ci)
  | FdSymlinkTooLarge => ([], false)
  end = (bs "f2ba8f84ab5c1bce84a7b441cb1959cfc7093b7f", true).
Proof. vm_compute. reflexivity. Qed.
