(* Proofs about coq/model/Frozen.v (property C11), part 5: a frozen mapping
   that exists never changes, whatever the program does next with the current
   code: constructor calls (ImmutableDict(x) included, which SHARES the cell
   of an ImmutableDict argument), from_dict calls, copy_pop calls (also the one
   made by Revision.__attrs_post_init__ on the caller's frozen metadata) and
   mutations of containers the caller owns.  The current operations only
   ALLOCATE; the only writes are the caller's, to its own containers. *)
From Coq Require Import List NArith Bool Arith Lia.
From SWH.lib Require Import Bytes Order StableSort.
From SWH Require Import Generated.
From SWH.model Require Import Frozen.
From SWH.proofs Require Import FrozenProofs.
Import ListNotations.
Local Open Scope nat_scope.

(* reading depends only on the cells it goes through: those are valid and outside hs *)
Lemma resolve_frame_gen : forall f s s' hs v,
  (forall h c, lookup s h = Some c -> memh h hs = false -> lookup s' h = Some c) ->
  safe f s hs v = true -> resolve f s v = resolve f s' v.
Proof.
  induction f as [|f IH]; intros s s' hs v Hag Hs; [reflexivity|].
  assert (HL : forall l, forallb (safe f s hs) l = true -> map (resolve f s) l = map (resolve f s') l).
  { intros l Hl. apply map_ext_in. intros x Hx. rewrite forallb_forall in Hl. apply (IH s s' hs); auto. }
  assert (HI : forall it, forallb (safe f s hs) (map snd it) = true ->
               map (fun kv : atom * pyval => (fst kv, resolve f s (snd kv))) it =
               map (fun kv : atom * pyval => (fst kv, resolve f s' (snd kv))) it).
  { intros it Hl. apply map_ext_in. intros x Hx. rewrite forallb_forall in Hl. f_equal.
    apply (IH s s' hs); auto. apply Hl. apply in_map. exact Hx. }
  destruct v; simpl in *; try reflexivity.
  - f_equal. apply HL. exact Hs.
  - f_equal. apply HL. exact Hs.
  - apply andb_true_iff in Hs. destruct Hs as [Hm Hc]. apply negb_true_iff in Hm.
    destruct (lookup s h) as [c|] eqn:L; [|discriminate]. rewrite (Hag _ _ L Hm).
    destruct c as [fac it|l]; [|reflexivity]. f_equal. apply HI. exact Hc.
  - apply andb_true_iff in Hs. destruct Hs as [Hm Hc]. apply negb_true_iff in Hm.
    destruct (lookup s h) as [c|] eqn:L; [|discriminate]. rewrite (Hag _ _ L Hm).
    destruct c as [fac it|l].
    + f_equal. apply HI. exact Hc.
    + f_equal. apply HL. exact Hc.
  - f_equal. apply HL. exact Hs.
  - f_equal. apply map_ext_in. intros x Hx. rewrite forallb_forall in Hs. f_equal.
    apply (IH s s' hs); auto.
Qed.

(* ------------------------------------------------------------------ *)
(* the current constructors and copy_pop only allocate *)

Definition Ext (s s' : store) : Prop := exists e, s' = s ++ e.

Lemma Ext_refl : forall s, Ext s s.
Proof. intro s. exists []. rewrite app_nil_r. reflexivity. Qed.

Lemma Ext_trans : forall a b c, Ext a b -> Ext b c -> Ext a c.
Proof. intros a b c [e1 E1] [e2 E2]. subst. exists (e1 ++ e2). rewrite app_assoc. reflexivity. Qed.

Lemma Ext_alloc : forall s c, Ext s (s ++ [c]).
Proof. intros s c. exists [c]. reflexivity. Qed.

Lemma Ext_lookup : forall s s' h c, Ext s s' -> lookup s h = Some c -> lookup s' h = Some c.
Proof. intros s s' h c [e E] L. subst. apply lookup_app1. exact L. Qed.

Lemma idict_of_seq_ext : forall s l v s', idict_of_seq s l = Ok (v, s') -> Ext s s'.
Proof.
  intros s l v s' H. unfold idict_of_seq in H. destruct (seq_opt (map (as_kv s) l)); [|discriminate].
  unfold alloc in H. inversion H; subst. apply Ext_alloc.
Qed.

Lemma idict_init_ext : forall s v v' s', idict_init New s v = Ok (v', s') -> Ext s s'.
Proof.
  intros s v v' s' H. unfold idict_init in H. destruct v; try discriminate.
  - eapply idict_of_seq_ext; eauto.
  - inversion H; subst. apply Ext_refl.
  - destruct (lookup s h) as [[fac it|l]|]; try discriminate.
    + unfold alloc in H. inversion H; subst. apply Ext_alloc.
    + eapply idict_of_seq_ext; eauto.
Qed.

Lemma conv_one_ext : forall f rt cls fname s v v' s',
  conv_one New f rt cls fname s v = Ok (v', s') -> Ext s s'.
Proof.
  intros f rt cls fname s v v' s' H. unfold conv_one in H. destruct (arg_kind cls fname).
  - destruct rt.
    + destruct (checked_ok v); [|discriminate]. inversion H; subst. apply Ext_refl.
    + destruct (freeze f s v); [|discriminate]. inversion H; subst. apply Ext_refl.
  - destruct (match rt with FromDict => is_rebuild cls fname | Ctor => false end).
    + destruct (freeze f s v) as [[]|]; try discriminate. eapply idict_of_seq_ext; eauto.
    + destruct v; try discriminate; try (inversion H; subst; apply Ext_refl).
      destruct (lookup s h) as [[fac it|l]|]; try discriminate. eapply idict_init_ext; eauto.
  - destruct (tuplify s v); [|discriminate]. destruct (atom_pairs a); [|discriminate].
    inversion H; subst. apply Ext_refl.
  - inversion H; subst. apply Ext_refl.
Qed.

Lemma conv_fields_ext : forall f rt cls rows args s vals s',
  conv_fields New f rt cls rows args s = Ok (vals, s') -> Ext s s'.
Proof.
  induction rows as [|r rows IH]; intros args s vals s' H; simpl in H.
  - destruct args; [|discriminate]. inversion H; subst. apply Ext_refl.
  - destruct args as [|a args]; [discriminate|].
    destruct (conv_one New f rt cls (f_name r) s a) as [[v s1]|] eqn:C; [|discriminate].
    destruct (conv_fields New f rt cls rows args s1) as [[vs s2]|] eqn:C2; [|discriminate].
    inversion H; subst. eapply Ext_trans; [eapply conv_one_ext; eauto | eapply IH; eauto].
Qed.

Lemma copy_pop_ext : forall f s v k x md s', copy_pop New f s v k = Ok (x, md, s') -> Ext s s'.
Proof.
  intros f s v k x md s' H. unfold copy_pop in H. destruct v; try discriminate.
  destruct (lookup s h) as [[fac it|l]|]; try discriminate.
  destruct (deepcopy f s (VIDict h)) as [[| | | | | | |m kvs]|]; try discriminate.
  unfold alloc in H. inversion H; subst. apply Ext_alloc.
Qed.

Section WithHash.
  Variable Hid : rval -> atom.
  Variable Hpy : rval -> N.

  Lemma post_revision_ext : forall f cls rows vals s vals' s',
    post_revision New f cls rows vals s = Ok (vals', s') -> Ext s s'.
  Proof.
    intros f cls rows vals s vals' s' H. unfold post_revision in H.
    assert (Triv : forall vals0 s0, Ok (vals, s) = Ok (vals0, s0) -> Ext s s0).
    { intros vals0 s0 E. inversion E; subst. apply Ext_refl. }
    destruct (negb (beqb cls (bs "Revision"))); [eapply Triv; exact H|].
    destruct (get_field K_META rows vals) as [[| | | |hm| | |]|]; try (eapply Triv; exact H).
    destruct (get_field K_XH rows vals) as [[| |[|? ?]| | | | |]|]; try (eapply Triv; exact H).
    destruct (lookup s hm) as [[fac it|l]|]; try (eapply Triv; exact H).
    destruct (assoc XH_KEY it) as [xh|]; [|eapply Triv; exact H].
    destruct (copy_pop New f s (VIDict hm) XH_KEY) as [[[xh' md] s2]|] eqn:CP; [|discriminate].
    destruct (tuplify s2 xh') as [t|]; [|discriminate].
    destruct (atom_pairs t); [|discriminate]. inversion H; subst. eapply copy_pop_ext; eauto.
  Qed.

  Lemma construct_ext : forall f rt cls s args o s', construct Hid New f rt cls s args = Ok (o, s') -> Ext s s'.
  Proof.
    intros f rt cls s args o s' H. unfold construct in H. destruct (beqb cls IDICT).
    - destruct args as [|v [|? ?]]; try discriminate. eapply idict_init_ext; eauto.
    - destruct (class_fields ALL_CLASSES cls) as [rows|]; [|discriminate].
      destruct (conv_fields New f rt cls rows args s) as [[vals s2]|] eqn:C; [|discriminate].
      destruct (post_revision New f cls rows (post_id Hid f cls rows vals s2) s2) as [[vals' s3]|] eqn:R; [|discriminate].
      inversion H; subst. eapply Ext_trans; [eapply conv_fields_ext; eauto | eapply post_revision_ext; eauto].
  Qed.

  Lemma from_dict_ext : forall f cls s d o s', from_dict Hid New f cls s d = Ok (o, s') -> Ext s s'.
  Proof.
    intros f cls s d o s' H. unfold from_dict in H. destruct d; try discriminate.
    destruct (lookup s h) as [[? items|?]|]; try discriminate.
    destruct (class_fields ALL_CLASSES cls) as [rows|]; try discriminate.
    destruct (from_dict_args rows items); [|discriminate]. eapply construct_ext; eauto.
  Qed.

  (* one operation keeps every cell that the caller does not mutate *)
  Lemma run_op_keeps : forall f s o hs h c,
    (forall m, o = OMut m -> In (mut_target m) hs) ->
    lookup s h = Some c -> memh h hs = false ->
    lookup (run_op Hid New f s o) h = Some c.
  Proof.
    intros f s o hs h c Hm L Hh. destruct o; simpl.
    - destruct (construct Hid New f rt cls s args) as [[o s']|] eqn:E; [|exact L].
      eapply Ext_lookup; [eapply construct_ext; eauto | exact L].
    - destruct (from_dict Hid New f cls s d) as [[o s']|] eqn:E; [|exact L].
      eapply Ext_lookup; [eapply from_dict_ext; eauto | exact L].
    - destruct (copy_pop New f s v k) as [[[x md] s']|] eqn:E; [|exact L].
      eapply Ext_lookup; [eapply copy_pop_ext; eauto | exact L].
    - rewrite apply_mut_other; [exact L|]. intro E. subst h.
      apply memh_false in Hh. apply Hh. apply Hm. reflexivity.
  Qed.

  Lemma run_ops_keeps : forall f ops s hs h c,
    (forall m, In (OMut m) ops -> In (mut_target m) hs) ->
    lookup s h = Some c -> memh h hs = false ->
    lookup (run_ops Hid New f s ops) h = Some c.
  Proof.
    unfold run_ops. induction ops as [|o ops IH]; intros s hs h c Hm L Hh; simpl; [exact L|].
    apply (IH _ hs); [intros m Hin; apply Hm; right; exact Hin | | exact Hh].
    apply (run_op_keeps f s o hs); [intros m E; apply Hm; left; exact E | exact L | exact Hh].
  Qed.

  (* the cell itself: literally the same items *)
  Theorem frozen_cell_never_written : forall f ops s h c,
    lookup s h = Some c -> ~ In h (op_mut_targets ops) ->
    lookup (run_ops Hid New f s ops) h = Some c.
  Proof.
    intros f ops s h c L Hn. apply (run_ops_keeps f ops s (op_mut_targets ops)); [|exact L|apply memh_false; exact Hn].
    intros m Hin. unfold op_mut_targets. apply in_flat_map. exists (OMut m). split; [exact Hin | left; reflexivity].
  Qed.

  (* every observation of an existing value (in particular of an existing
     ImmutableDict [VIDict h]) whose reading does not go through a container
     the caller mutates *)
  Theorem frozen_mapping_never_changes : forall g f ops s v,
    safe g s (op_mut_targets ops) v = true ->
    observe Hid Hpy g (run_ops Hid New f s ops) v = observe Hid Hpy g s v.
  Proof.
    intros g f ops s v Hs. unfold observe. f_equal. symmetry.
    apply (resolve_frame_gen g s _ (op_mut_targets ops)); [|exact Hs].
    intros h c L Hh. apply (run_ops_keeps f ops s (op_mut_targets ops)); [|exact L|exact Hh].
    intros m Hin. unfold op_mut_targets. apply in_flat_map. exists (OMut m). split; [exact Hin | left; reflexivity].
  Qed.
End WithHash.
