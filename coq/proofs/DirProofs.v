(* Proofs for C02 (and reused by C06/C13/C19): directory manifests. *)
From Coq Require Import List NArith Bool Lia Permutation Sorted Arith.
From SWH.lib Require Import Bytes Dec Hex Order StableSort GitHeader ListAux.
From SWH.model Require Import Dir.
Import ListNotations.
Open Scope N_scope.

(* ------------------------------------------------------------------ basics *)
Lemma entry_leb_total : forall x y, entry_leb x y = true \/ entry_leb y x = true.
Proof. intros. apply bleb_total. Qed.
Lemma entry_leb_trans : forall x y z, entry_leb x y = true -> entry_leb y z = true -> entry_leb x z = true.
Proof. intros x y z. apply bleb_trans. Qed.

Lemma concat_entry_parts : forall e, concat (entry_parts e) = enc e.
Proof. intro e. unfold entry_parts, enc. cbn [concat]. rewrite app_nil_r. reflexivity. Qed.

Lemma concat_flat_map_parts : forall l, concat (flat_map entry_parts l) = concat (map enc l).
Proof.
  induction l as [|e l IH]; [reflexivity|].
  cbn [flat_map map concat]. rewrite concat_app, IH, concat_entry_parts. reflexivity.
Qed.

Lemma dir_manifest_spec : forall es,
  dir_manifest es = git_object (bs "tree") (concat (map enc (sort entry_leb es))).
Proof. intro es. unfold dir_manifest, tree_parts. rewrite from_parts_git_object, concat_flat_map_parts. reflexivity. Qed.

(* ------------------------------------------------------------------ validators *)
Lemma nodup_names_spec : forall es seen, nodup_names seen es = true ->
  NoDup (map e_name es) /\ forall e, In e es -> ~ In (e_name e) seen.
Proof.
  induction es as [|e es IH]; intros seen H; cbn [nodup_names map] in *.
  - split; [constructor | intros ? []].
  - destruct (mem_bytes (e_name e) seen) eqn:M; [discriminate|].
    destruct (IH _ H) as [ND Hs]. split.
    + constructor; [|exact ND]. intro Hin. apply in_map_iff in Hin. destruct Hin as [e' [E He']].
      apply (Hs e' He'). left. symmetry. exact E.
    + intros e' [<-|He'].
      * intro Hin. apply mem_bytes_In in Hin. congruence.
      * intro Hin. apply (Hs e' He'). right. exact Hin.
Qed.

Lemma nodup_names_complete : forall es seen,
  NoDup (map e_name es) -> (forall e, In e es -> ~ In (e_name e) seen) -> nodup_names seen es = true.
Proof.
  induction es as [|e es IH]; intros seen ND Hs; cbn [nodup_names map] in *; [reflexivity|].
  inversion ND as [|? ? Hn ND']; subst.
  destruct (mem_bytes (e_name e) seen) eqn:M.
  - apply mem_bytes_In in M. exfalso. apply (Hs e); [left; reflexivity | exact M].
  - apply IH; [exact ND'|]. intros e' He' [E|Hin].
    + apply Hn. apply in_map_iff. exists e'. split; [symmetry; exact E | exact He'].
    + apply (Hs e'); [right; exact He' | exact Hin].
Qed.

Definition Valid (es : list entry) : Prop :=
  (forall e, In e es -> ~ In SLASH (e_name e)) /\ NoDup (map e_name es).

Lemma valid_dir_Valid : forall es, valid_dir es = true <-> Valid es.
Proof.
  intro es. unfold valid_dir, Valid. rewrite andb_true_iff, forallb_forall. split.
  - intros [H1 H2]. split.
    + intros e He. specialize (H1 e He). unfold name_ok in H1. apply negb_true_iff, memb_false in H1. exact H1.
    + apply (nodup_names_spec es [] H2).
  - intros [H1 H2]. split.
    + intros e He. unfold name_ok. apply negb_true_iff, memb_false. apply H1. exact He.
    + apply nodup_names_complete; [exact H2 | intros ? ? []].
Qed.

Lemma Valid_perm : forall es es', Permutation es es' -> Valid es -> Valid es'.
Proof.
  intros es es' P [H1 H2]. split.
  - intros e He. apply H1. apply (Permutation_in _ (Permutation_sym P)). exact He.
  - apply (Permutation_NoDup (Permutation_map e_name P)). exact H2.
Qed.

(* ------------------------------------------------------------------ sort key *)
Lemma sort_key_name : forall a b, ~ In SLASH (e_name a) -> ~ In SLASH (e_name b) ->
  sort_key a = sort_key b -> e_name a = e_name b.
Proof.
  intros a b Ha Hb. unfold sort_key.
  destruct (e_type a); destruct (e_type b); intro E; auto.
  - exfalso. apply Ha. rewrite E. apply in_or_app. right. left. reflexivity.
  - exfalso. apply Hb. rewrite <- E. apply in_or_app. right. left. reflexivity.
  - apply app_inj_tail in E. tauto.
  - exfalso. apply Hb. rewrite <- E. apply in_or_app. right. left. reflexivity.
  - exfalso. apply Ha. rewrite E. apply in_or_app. right. left. reflexivity.
Qed.

Lemma entry_leb_antisym_on : forall es, Valid es ->
  forall x y, In x es -> In y es -> entry_leb x y = true -> entry_leb y x = true -> x = y.
Proof.
  intros es [H1 H2] x y Hx Hy L1 L2. unfold entry_leb in *.
  pose proof (bleb_antisym _ _ L1 L2) as E.
  apply (NoDup_map_inj e_name es); auto. apply sort_key_name; auto.
Qed.

(* ------------------------------------------------------------------ C02_order_free *)
Theorem dir_manifest_order_free : forall es es',
  valid_dir es = true -> Permutation es es' -> dir_manifest es = dir_manifest es'.
Proof.
  intros es es' V P. rewrite !dir_manifest_spec. f_equal. f_equal. f_equal.
  apply sort_perm_eq.
  - apply entry_leb_total.
  - apply entry_leb_trans.
  - apply entry_leb_antisym_on. apply valid_dir_Valid. exact V.
  - exact P.
Qed.

(* ------------------------------------------------------------------ git's ordering rule *)
Definition nul_free (l : bytes) : Prop := ~ In NUL l.

Lemma bcompare_nil_l : forall l, bcompare [] l = match l with [] => Eq | _ => Lt end.
Proof. destruct l; reflexivity. Qed.

Definition suffix (d : bool) : bytes := if d then [SLASH] else [].

Lemma git_cmp_is_key_order : forall n1 n2 d1 d2,
  ~ In NUL n1 -> ~ In NUL n2 -> ~ In SLASH n1 -> ~ In SLASH n2 ->
  git_cmp n1 d1 n2 d2 = bcompare (n1 ++ suffix d1) (n2 ++ suffix d2).
Proof.
  induction n1 as [|x r1 IH]; intros n2 d1 d2 Z1 Z2 S1 S2.
  - destruct n2 as [|y r2].
    + destruct d1, d2; reflexivity.
    + cbn [git_cmp term app].
      assert (Hy0 : y <> NUL) by (intro E; apply Z2; left; auto).
      assert (Hys : y <> SLASH) by (intro E; apply S2; left; auto).
      destruct d1; cbn [suffix bcompare].
      * destruct (N.compare_spec SLASH y) as [E|E|E]; [congruence | reflexivity | reflexivity].
      * unfold NUL in *. destruct (N.compare_spec 0 y) as [E|E|E]; [congruence | reflexivity | lia].
  - destruct n2 as [|y r2].
    + cbn [git_cmp term app].
      assert (Hx0 : x <> NUL) by (intro E; apply Z1; left; auto).
      assert (Hxs : x <> SLASH) by (intro E; apply S1; left; auto).
      destruct d2; cbn [suffix bcompare].
      * destruct (N.compare_spec x SLASH) as [E|E|E]; [congruence | reflexivity | reflexivity].
      * unfold NUL in *. destruct (N.compare_spec x 0) as [E|E|E]; [congruence | lia | reflexivity].
    + cbn [git_cmp app bcompare]. destruct (N.compare x y); try reflexivity.
      apply IH; intro Hin; [apply Z1 | apply Z2 | apply S1 | apply S2]; right; exact Hin.
Qed.

Lemma sort_key_suffix : forall e, sort_key e = e_name e ++ suffix (is_dir e).
Proof. intro e. unfold sort_key, is_dir. destruct (e_type e); cbn [ety_eqb suffix]; rewrite ?app_nil_r; reflexivity. Qed.

Definition WfNames (es : list entry) : Prop :=
  forall e, In e es -> ~ In NUL (e_name e) /\ ~ In SLASH (e_name e).

Lemma git_entry_cmp_key : forall a b,
  ~ In NUL (e_name a) -> ~ In SLASH (e_name a) -> ~ In NUL (e_name b) -> ~ In SLASH (e_name b) ->
  git_entry_cmp a b = bcompare (sort_key a) (sort_key b).
Proof. intros. unfold git_entry_cmp. rewrite !sort_key_suffix. apply git_cmp_is_key_order; assumption. Qed.

(* the code's order (byte order of the slash-suffixed key) IS git's order *)
Theorem sort_is_git_sort : forall es, WfNames es -> sort entry_leb es = sort git_leb es.
Proof.
  intros es W. apply sort_ext. intros x y Hx Hy. unfold entry_leb, git_leb, bleb.
  destruct (W x Hx), (W y Hy). rewrite git_entry_cmp_key by assumption. reflexivity.
Qed.

Theorem dir_manifest_is_git_tree : forall es, WfNames es -> dir_manifest es = git_tree_object es.
Proof.
  intros es W. rewrite dir_manifest_spec. unfold git_tree_object, git_tree_payload.
  rewrite sort_is_git_sort by exact W. reflexivity.
Qed.

(* strictly increasing for git's comparison *)
Definition git_lt (a b : entry) : Prop := git_entry_cmp a b = Lt.

Lemma strict_from_sorted : forall (R : entry -> entry -> Prop) l,
  StronglySorted (le entry_leb) l -> NoDup l ->
  (forall x y, In x l -> In y l -> entry_leb x y = true -> x <> y -> R x y) ->
  StronglySorted R l.
Proof.
  intros R. induction l as [|x l IH]; intros S ND HR; [constructor|].
  inversion S as [|? ? S' F]; subst. inversion ND as [|? ? Hn ND']; subst.
  constructor.
  - apply IH; [exact S' | exact ND' |]. intros a b Ha Hb. apply HR; right; assumption.
  - rewrite Forall_forall in *. intros z Hz. apply HR.
    + left; reflexivity.
    + right; exact Hz.
    + apply F. exact Hz.
    + intro E. subst z. apply Hn. exact Hz.
Qed.

Theorem sorted_entries_git_strict : forall es, Valid es -> WfNames es ->
  StronglySorted git_lt (sort entry_leb es).
Proof.
  intros es V W. apply strict_from_sorted.
  - apply sort_sorted; [apply entry_leb_total | apply entry_leb_trans].
  - apply (Permutation_NoDup (Permutation_sym (sort_perm entry_leb es))).
    destruct V as [_ ND]. apply NoDup_map_inv in ND. exact ND.
  - intros x y Hx Hy L Hne. apply sort_In in Hx, Hy.
    destruct (W x Hx), (W y Hy). unfold git_lt. rewrite git_entry_cmp_key by assumption.
    unfold entry_leb, bleb in L.
    destruct (bcompare (sort_key x) (sort_key y)) eqn:C; [|reflexivity|discriminate].
    exfalso. apply Hne. apply bcompare_eq in C. destruct V as [V1 V2].
    apply (NoDup_map_inj e_name es); auto. apply sort_key_name; auto.
Qed.

(* ------------------------------------------------------------------ decoding *)
Definition Decodable (es : list entry) : Prop :=
  forall e, In e es -> ~ In NUL (e_name e) /\ length (e_target e) = 20%nat.

Lemma enc_cons : forall e rest,
  enc e ++ rest = oct (e_perms e) ++ SP :: (e_name e ++ NUL :: (e_target e ++ rest)).
Proof. intros. unfold enc. repeat (rewrite <- app_assoc; cbn [app]). reflexivity. Qed.

Lemma decode_tree_ok : forall l fuel, Decodable l -> (length l < fuel)%nat ->
  decode_tree fuel (concat (map enc l)) = Some (map triple_of l).
Proof.
  induction l as [|e l IH]; intros fuel D Hf.
  - destruct fuel; reflexivity.
  - destruct fuel as [|fuel]; [cbn [length] in Hf; lia|].
    cbn [map concat]. rewrite enc_cons.
    pose proof (oct_nonempty (e_perms e)) as NE.
    destruct (oct (e_perms e)) as [|c o] eqn:EO; [congruence|].
    cbn [app decode_tree]. change (c :: o ++ SP :: ?r) with ((c :: o) ++ SP :: r). rewrite <- EO.
    rewrite cut_app by (apply oct_no; reflexivity).
    rewrite parse_oct_oct.
    destruct (D e (or_introl eq_refl)) as [Hn Ht].
    rewrite cut_app by exact Hn.
    assert (L : Nat.leb 20 (length (e_target e ++ concat (map enc l))) = true).
    { apply Nat.leb_le. rewrite app_length. lia. }
    rewrite L.
    replace (skipn 20 (e_target e ++ concat (map enc l))) with (concat (map enc l))
      by (rewrite <- Ht; symmetry; apply drop_app_length).
    replace (firstn 20 (e_target e ++ concat (map enc l))) with (e_target e)
      by (rewrite <- Ht; symmetry; apply take_app_length).
    rewrite IH.
    + reflexivity.
    + intros e' He'. apply D. right. exact He'.
    + cbn [length] in Hf. lia.
Qed.

Lemma enc_length : forall e, (1 <= length (enc e))%nat.
Proof. intro e. unfold enc. rewrite !app_length. cbn [length]. lia. Qed.

Lemma concat_enc_length : forall l, (length l <= length (concat (map enc l)))%nat.
Proof.
  induction l as [|e l IH]; [cbn; lia|]. cbn [map concat length]. rewrite app_length.
  pose proof (enc_length e). lia.
Qed.

Lemma tree_type_no_sp : ~ In SP (bs "tree").
Proof. apply memb_false. vm_compute. reflexivity. Qed.

Theorem decode_dir_manifest : forall es, Decodable es ->
  decode_tree_object (dir_manifest es) = Some (map triple_of (sort entry_leb es)).
Proof.
  intros es D. rewrite dir_manifest_spec. unfold decode_tree_object.
  rewrite parse_git_object_ok by exact tree_type_no_sp. rewrite beqb_refl.
  apply decode_tree_ok.
  - intros e He. apply D. apply sort_In in He. exact He.
  - pose proof (concat_enc_length (sort entry_leb es)). lia.
Qed.

(* equal manifests => same (mode, name, target) entry set *)
Theorem dir_manifest_injective : forall es es', Decodable es -> Decodable es' ->
  dir_manifest es = dir_manifest es' ->
  Permutation (map triple_of es) (map triple_of es').
Proof.
  intros es es' D D' E.
  assert (X : decode_tree_object (dir_manifest es) = decode_tree_object (dir_manifest es')) by (rewrite E; reflexivity).
  rewrite !decode_dir_manifest in X by assumption. inversion X as [X'].
  rewrite <- (Permutation_map triple_of (sort_perm entry_leb es)).
  rewrite X'. apply Permutation_map. apply sort_perm.
Qed.

(* ------------------------------------------------------------------ modes *)
Theorem mode_octal_roundtrip : forall n, parse_oct (oct n) = Some n /\ (oct n <> [48] -> hd 0 (oct n) <> 48 \/ n = 0).
Proof.
  intro n. split; [apply parse_oct_oct|]. intro H. destruct (N.eq_dec n 0) as [->|Hn]; [right; reflexivity|left].
  (* leading digit is non-zero for n > 0: if it were 0, stripping it would give a shorter encoding of the same value;
     shown through the value function: a leading zero digit contributes nothing, so the fuel bound would be violated.
     We prove it directly on oct_aux. *)
  unfold oct.
  assert (G : forall f m acc, m <> 0 -> m < 2 ^ N.of_nat f -> hd 0 (oct_aux f m acc) <> 48).
  { induction f as [|f IH]; intros m acc Hm Hb.
    - cbn in Hb. lia.
    - cbn [oct_aux]; cbv zeta. destruct (N.ltb_spec m 8) as [L|L].
      + cbn [hd]. rewrite N.mod_small by exact L. lia.
      + apply IH.
        * intro E. apply N.div_small_iff in E; lia.
        * rewrite Nat2N.inj_succ, N.pow_succ_r' in Hb. apply N.div_lt_upper_bound; [discriminate|].
          generalize dependent (2 ^ N.of_nat f). intros. lia. }
  apply G; [exact Hn | apply n_len_bound].
Qed.

(* ------------------------------------------------------------------ only the entries matter *)
Section WithHash.
  Variable H : bytes -> bytes.

  Theorem dir_id_only_entries : forall d d',
    d_raw_manifest d = None -> d_raw_manifest d' = None ->
    valid_dir (d_entries d) = true -> Permutation (d_entries d) (d_entries d') ->
    dir_compute_hash H d = dir_compute_hash H d'.
  Proof.
    intros d d' R R' V P. unfold dir_compute_hash. rewrite R, R'. f_equal.
    apply dir_manifest_order_free; assumption.
  Qed.
End WithHash.

(* ------------------------------------------------------------------ non-vacuity *)
Definition ex_entries : list entry :=
  [ {| e_name := bs "a.b"; e_type := EFile; e_target := repeat 1 20; e_perms := 33188 |};
    {| e_name := bs "a";   e_type := EDir;  e_target := repeat 2 20; e_perms := 16384 |};
    {| e_name := bs "a-";  e_type := EFile; e_target := repeat 3 20; e_perms := 33261 |};
    {| e_name := bs "a0";  e_type := ERev;  e_target := repeat 4 20; e_perms := 57344 |} ].

Lemma dec_In : forall (c : N) l, memb c l = false -> ~ In c l.
Proof. intros. apply memb_false. assumption. Qed.

Example ex_entries_ok : valid_dir ex_entries = true /\ WfNames ex_entries /\ Decodable ex_entries /\
  map e_name (sort entry_leb ex_entries) = [bs "a-"; bs "a.b"; bs "a"; bs "a0"].
Proof.
  split; [vm_compute; reflexivity|]. split; [|split].
  - intros e He. cbn in He. repeat (destruct He as [<-|He]; [split; apply dec_In; vm_compute; reflexivity|]). destruct He.
  - intros e He. cbn in He. repeat (destruct He as [<-|He]; [split; [apply dec_In; vm_compute; reflexivity | reflexivity]|]). destruct He.
  - vm_compute. reflexivity.
Qed.

Theorem oct_no_leading_zero : forall n, n <> 0 -> hd 0 (oct n) <> 48.
Proof.
  intros n Hn. destruct (mode_octal_roundtrip n) as [_ H].
  destruct (list_eq_dec N.eq_dec (oct n) [48]) as [E|E].
  - exfalso. pose proof (parse_oct_oct n) as P. rewrite E in P. vm_compute in P. congruence.
  - destruct (H E) as [G|G]; [exact G | congruence].
Qed.

(* table side conditions on the regenerated constants *)
From SWH Require Import Generated.
Lemma tree_is_git_type : mem_bytes (bs "tree") GIT_OBJECT_TYPES = true.
Proof. vm_compute. reflexivity. Qed.

(* ------------------------------------------------------------------ additions (dimension audit) *)
(* contrapositive of injectivity: entry sets with different (mode, name, target)
   triples never share a manifest (used for the one-field variants of the harness:
   a changed / swapped target or mode, a renamed, dropped or added entry) *)
Theorem dir_manifest_separates : forall es es', Decodable es -> Decodable es' ->
  ~ Permutation (map triple_of es) (map triple_of es') -> dir_manifest es <> dir_manifest es'.
Proof.
  intros es es' D D' NP E. apply NP. apply dir_manifest_injective; assumption.
Qed.

Section WithHashRaw.
  Variable H : bytes -> bytes.

  (* a recorded raw manifest replaces the entries in compute_hash, whatever it is (b"" included) *)
  Theorem dir_raw_manifest_wins : forall d m,
    d_raw_manifest d = Some m -> dir_compute_hash H d = H m.
  Proof. intros d m R. unfold dir_compute_hash. rewrite R. reflexivity. Qed.

  (* raw_manifest=None given explicitly is the default: the id of the entries *)
  Theorem dir_no_raw_is_dir_id : forall es,
    dir_compute_hash H {| d_entries := es; d_raw_manifest := None |} = dir_id H es.
  Proof. intros es. reflexivity. Qed.
End WithHashRaw.
