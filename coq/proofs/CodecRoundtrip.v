(* Proofs about model/Codec.v (property C12), part 2: the round trip
   from_dict (to_dict o) = o for each of the 18 classes. *)
From Coq Require Import List NArith ZArith Bool Lia.
From SWH.lib Require Import Bytes Dec Hex.
From SWH Require Import Generated.
From SWH.model Require Import Codec.
From SWH.proofs Require Import CodecProofs.
Import ListNotations.

(* types whose values dictify leaves alone *)
Fixpoint direct (t : ty) : bool :=
  match t with
  | TBytes | TStr | TInt | TBool | TDate | TAny | TObject | TPairBytes => true
  | TOpt t' | TTupleOf t' => direct t'
  | _ => false
  end.

(* a field that BaseModel.from_dict can take back without decoding *)
Definition undict_ok_field (f : field) : bool :=
  match fconv f with
  | CFreeze => match fty f with TOpt (TIDict kt vt) => direct kt && direct vt | _ => false end
  | _ => direct (fty f)
  end.

Definition is_generic (c : cls) : bool :=
  match c with
  | cTimestamp | cOrigin | cOriginVisit | cOriginVisitStatus | cDirectoryEntry | cMetadataFetcher => true
  | _ => false
  end.

Lemma wf_schema_all : forall c, wf_schema (schema c).
Proof.
  intro c. split.
  - destruct c; vm_compute; reflexivity.
  - destruct c; cbv [schema fld fldc opt]; repeat constructor; cbn [felide fdefault]; intros; (discriminate || reflexivity).
Qed.

Lemma names_nodup : forall c, bytes_nodup (names c) = true.
Proof. intro c. apply (wf_schema_all c). Qed.


Section Roundtrip.
  Variable idf : cls -> fields -> result bytes.
  Variable swhid_str : swhid_kind -> text -> bytes -> text.
  Variable swhid_parse : swhid_kind -> text -> result (text * bytes).
  Variable dateparse : text -> result pyval.
  (* property C08 (proved elsewhere): parsing the printed form of a valid SWHID
     gives it back; the printed form is never the empty string *)
  Hypothesis swhid_rt : forall k t i, In t (swhid_tags k) -> length i = 20%nat -> wf_bytes i = true ->
    swhid_parse k (swhid_str k t i) = Ok (t, i).
  Hypothesis swhid_nonempty : forall k t i, swhid_str k t i <> [].

  Notation dictify := (dictify swhid_str).
  Notation construct := (construct idf).
  Notation from_dict := (from_dict idf swhid_str swhid_parse dateparse).
  Notation wf := (wf idf).

  Lemma conforms_direct : forall t v, direct t = true -> conforms t v -> dictify v = v.
  Proof.
    induction t; intros v Hd Hc; simpl in Hd; try discriminate; simpl in Hc.
    - destruct v; try discriminate; reflexivity.
    - destruct v; try discriminate; reflexivity.
    - destruct v; try discriminate; reflexivity.
    - destruct v; try discriminate; reflexivity.
    - destruct v; try discriminate; reflexivity.
    - apply dictify_plain. exact Hc.
    - apply dictify_plain. exact Hc.
    - destruct Hc as [->|Hc]; [reflexivity | apply IHt; assumption].
    - destruct Hc as [l [-> Hl]]. simpl. f_equal. induction Hl; [reflexivity|]. simpl.
      rewrite (IHt x) by assumption. rewrite IHHl. reflexivity.
    - destruct v; try discriminate. destruct l as [|a [|b [|c l]]]; try discriminate.
      + destruct a; discriminate.
      + destruct a; try discriminate. destruct b; try discriminate. reflexivity.
      + destruct a; try discriminate. destruct b; discriminate.
  Qed.

  Lemma undict_ok : forall f v, undict_ok_field f = true -> conforms (fty f) v ->
    apply_conv (fconv f) (dictify v) = apply_conv (fconv f) v.
  Proof.
    intros f v Hu Hc. unfold undict_ok_field in Hu. destruct (fconv f) eqn:Ec;
      try (rewrite (conforms_direct _ _ Hu Hc); reflexivity).
    destruct (fty f) eqn:Et; try discriminate. destruct t; try discriminate.
    apply andb_true_iff in Hu. destruct Hu as [Hk Hv]. simpl in Hc. destruct Hc as [->|[l [-> Hl]]]; [reflexivity|].
    simpl. f_equal. f_equal. induction Hl as [|[k x] r [Hck Hcx] Hr IH]; [reflexivity|]. simpl in *.
    rewrite (conforms_direct _ _ Hv Hcx). rewrite IH. reflexivity.
  Qed.

  Lemma generic_fields_ok : forall c, is_generic c = true -> forallb undict_ok_field (schema c) = true.
  Proof. intros c H. destruct c; try discriminate; vm_compute; reflexivity. Qed.

  Lemma Forall2_undict : forall s (fs : fields), forallb undict_ok_field s = true ->
    Forall2 (fun f nv => conforms (fty f) (snd nv)) s fs ->
    Forall2 (fun f nv => apply_conv (fconv f) (dictify (snd nv)) = apply_conv (fconv f) (snd nv)) s fs.
  Proof.
    intros s fs Hs H. induction H; [constructor|]. simpl in Hs. apply andb_true_iff in Hs.
    constructor; [apply undict_ok; tauto | apply IHForall2; tauto].
  Qed.

  (* the six classes that keep BaseModel.from_dict *)
  Lemma rt_generic : forall c fs, is_generic c = true -> wf (VObj c fs) ->
    fd_generic idf c (dictify (VObj c fs)) = (Ok (VObj c fs), dictify (VObj c fs)).
  Proof.
    intros c fs Hg Hwf. apply wf_obj in Hwf. destruct Hwf as [Hn [Hc [Hty _]]].
    rewrite dictify_obj. unfold fd_generic, on_dict, run, construct_d. cbn [dv_init cur caller].
    f_equal. rewrite <- Hc. rewrite !construct_is_g.
    apply (generic_roundtrip swhid_str (schema c)); [apply wf_schema_all | exact Hn |].
    apply Forall2_undict; [apply generic_fields_ok; exact Hg | exact Hty].
  Qed.

  (* ---------------------------------------------------------------- tools for the overrides *)
  Definition arg (KW : dict) (f : field) : option pyval :=
    match dget (fname f) KW with Some v => Some v | None => fdefault f end.

  Lemma construct_via : forall c KW fs, map fst fs = names c -> keys_known (schema c) KW = true ->
    Forall2 (fun f nv => exists x, arg KW f = Some x /\ apply_conv (fconv f) x = apply_conv (fconv f) (snd nv))
            (schema c) fs ->
    construct c KW = construct c (as_kwargs fs).
  Proof.
    intros c KW fs Hn Hk H. rewrite !construct_is_g. apply construct_g_same.
    rewrite (bind_args_as_kwargs (schema c) fs Hn (names_nodup c)). cbn [rbind].
    unfold names in Hn. revert Hn Hk H. generalize (schema c) as s. intros s Hn Hk H.
    assert (E : exists xs, Forall2 (fun f nv => bind_field KW f = Ok nv) s xs /\ convert s xs = convert s fs).
    { clear Hk. revert Hn. induction H as [|f [n v] s fs [x [Ha Hc]] Hr IH]; intro Hn.
      - exists []. split; constructor.
      - simpl in Hn. injection Hn as Hn1 Hn2. destruct (IH Hn2) as [xs [Hb Hcv]].
        exists ((fname f, x) :: xs). split.
        + constructor; [|exact Hb]. unfold bind_field. unfold arg in Ha.
          destruct (dget (fname f) KW); [injection Ha as ->; reflexivity|]. rewrite Ha. reflexivity.
        + subst n. simpl. simpl in Hc. rewrite Hc, Hcv. reflexivity. }
    destruct E as [xs [Hb Hcv]]. rewrite (bind_args_fields s KW xs Hk Hb). exact Hcv.
  Qed.

  Lemma truthy_dictify_obj : forall c fs, elided c = [] -> fs <> [] -> truthy (dictify (VObj c fs)) = true.
  Proof.
    intros c fs He Hf. rewrite dictify_obj, He, elide_nil. destruct fs; [congruence | reflexivity].
  Qed.

  (* ------------------------------------------------------------------ tactics for the per-class proofs *)
  Ltac explicit_fields Hn :=
    unfold names in Hn; cbn [schema map fname fld fldc opt] in Hn;
    repeat (match type of Hn with
            | map fst ?fs = _ :: _ =>
                destruct fs as [|[? ?] fs]; [discriminate Hn|]; cbn [map fst] in Hn; injection Hn as ? Hn; subst
            end);
    match type of Hn with map fst ?fs = [] => destruct fs; [|discriminate Hn] end; clear Hn.
  Ltac invert_conf H :=
    cbn [schema fld fldc opt] in H;
    repeat match type of H with
           | Forall2 _ (_ :: _) (_ :: _) =>
               let H1 := fresh "Hcf" in let H2 := fresh "Hrest" in
               inversion H as [| ? ? ? ? H1 H2]; subst; clear H; rename H2 into H;
               cbn [fty snd fld fldc opt md_ty md_any] in H1
           end;
    clear H.
  Ltac invert_all H :=
    repeat match type of H with
           | Forall _ (_ :: _) =>
               let H1 := fresh "Hw" in let H2 := fresh "Hrest" in
               inversion H as [| ? ? H1 H2]; subst; clear H; rename H2 into H; cbn [snd] in H1
           end;
    clear H.
  Ltac mstep := unfold bind, pop_req, pop_opt; cbn [bind get_opt get_req copy setk pop_req pop_opt lift ret fail construct_d construct_with
                        dv_init cur caller aliased fst snd get_default].
  Ltac eval_keys :=
    repeat match goal with
           | |- context [beqb ?a ?b] => let r := eval vm_compute in (beqb a b) in change (beqb a b) with r
           | |- context [mem_bytes ?a (elided ?c)] =>
               let r := eval vm_compute in (mem_bytes a (elided c)) in change (mem_bytes a (elided c)) with r
           end.
  Ltac dlook :=
    repeat first [ rewrite dget_dset | rewrite dget_ddel | rewrite dget_cons_str
                 | rewrite dget_to_dict by reflexivity ];
    cbn [ffind]; eval_keys; cbv beta iota; cbn [andb].
  Ltac kk :=
    repeat lazymatch goal with
           | |- keys_known _ (ddel _ _) = true => apply keys_known_ddel
           | |- keys_known _ (dset _ _ _) = true => apply keys_known_dset; [reflexivity|]
           | |- keys_known _ (elide _ _) = true => apply keys_known_to_dict; reflexivity
           | |- keys_known _ (_ ++ _) = true => rewrite keys_known_app; apply andb_true_intro; split; [reflexivity|]
           end.
  Ltac use_direct :=
    repeat match goal with
           | H : conforms ?t ?v |- context [dictify ?v] => rewrite (conforms_direct t v eq_refl H)
           | H : has_type ?t ?v = true |- context [dictify ?v] => rewrite (conforms_direct t v eq_refl H)
           end.
  Ltac field_goal :=
    unfold arg; cbn [fname fdefault fconv fld fldc opt snd app]; dlook;
    try match goal with
        | |- context [is_none ?v] =>
            let E := fresh "E" in destruct (is_none v) eqn:E; [destruct v; try discriminate E|]
        end;
    cbv beta iota; eexists; (split; [reflexivity|]); use_direct; try reflexivity;
    try match goal with
        | H : conforms ?t ?v |- apply_conv CFreeze (dictify ?v) = _ =>
            apply (undict_ok (mkField [] t None CFreeze true false) v eq_refl H)
        end.
  Ltac fields_goal :=
    cbn [schema fld fldc opt]; repeat (apply Forall2_cons); [.. | apply Forall2_nil]; field_goal.
  (* a value of an object type is an object of that class *)
  Ltac as_obj H v fs :=
    destruct v as [| | | | | | | | | | | |?c fs]; try discriminate H; destruct c; try discriminate H; clear H.
  

  Lemma open_wf : forall c fs, wf (VObj c fs) ->
    map fst fs = names c /\ construct c (as_kwargs fs) = Ok (VObj c fs)
    /\ Forall2 (fun f nv => conforms (fty f) (snd nv)) (schema c) fs /\ Forall (fun nv => wf (snd nv)) fs.
  Proof. intros c fs H. apply wf_obj in H. exact H. Qed.

  Lemma enum_of_wf : forall e s, wf (VEnum e s) -> enum_of e (VStr s) = Ok (VEnum e s).
  Proof.
    intros e s H. change (In s (members e)) in H. apply mem_bytes_In in H. unfold enum_of. rewrite H. reflexivity.
  Qed.

  (* ---------------------------------------------------------------- Person *)
  Lemma rt_Person : forall fs, wf (VObj cPerson fs) ->
    fd_Person idf (dictify (VObj cPerson fs)) = (Ok (VObj cPerson fs), dictify (VObj cPerson fs)).
  Proof.
    intros fs Hwf. apply open_wf in Hwf. destruct Hwf as [Hn [Hc [Hty Hall]]].
    explicit_fields Hn. invert_conf Hty.
    rewrite dictify_obj. unfold fd_Person, on_dict, run.
    repeat (mstep; dlook).
    f_equal. rewrite <- Hc. apply construct_via; [reflexivity | kk | fields_goal].
  Qed.

  (* ---------------------------------------------------------------- SnapshotBranch *)
  Lemma rt_SnapshotBranch : forall fs, wf (VObj cSnapshotBranch fs) ->
    fd_SnapshotBranch idf (dictify (VObj cSnapshotBranch fs)) =
    (Ok (VObj cSnapshotBranch fs), dictify (VObj cSnapshotBranch fs)).
  Proof.
    intros fs Hwf. apply open_wf in Hwf. destruct Hwf as [Hn [Hc [Hty Hall]]].
    explicit_fields Hn. invert_conf Hty. invert_all Hall.
    rewrite dictify_obj. unfold fd_SnapshotBranch, on_dict, run.
    repeat (mstep; dlook).
    destruct p0; try discriminate Hcf0. destruct e; try discriminate Hcf0. cbn [dictify].
    rewrite (enum_of_wf _ _ Hw0). mstep.
    f_equal. rewrite <- Hc. use_direct. reflexivity.
  Qed.

  (* ---------------------------------------------------------------- TimestampWithTimezone *)
  Lemma rt_TimestampWithTimezone : forall fs, wf (VObj cTimestampWithTimezone fs) ->
    fd_TimestampWithTimezone idf (dictify (VObj cTimestampWithTimezone fs)) =
    (Ok (VObj cTimestampWithTimezone fs), dictify (VObj cTimestampWithTimezone fs)).
  Proof.
    intros fs Hwf. apply open_wf in Hwf. destruct Hwf as [Hn [Hc [Hty Hall]]].
    explicit_fields Hn. invert_conf Hty. invert_all Hall.
    as_obj Hcf p tfs.
    apply open_wf in Hw. destruct Hw as [Hn' [Hc' [Hty' Hall']]].
    explicit_fields Hn'. invert_conf Hty'.
    rewrite dictify_obj. unfold fd_TimestampWithTimezone, on_dict, run.
    mstep. dlook. rewrite dictify_obj. mstep. dlook. unfold mk_timestamp.
    use_direct. cbn [as_kwargs map fst snd] in Hc'. unfold kw1. rewrite Hc'.
    repeat (mstep; dlook). rewrite <- dictify_obj. f_equal. rewrite <- Hc. use_direct. reflexivity.
  Qed.

  (* ---------------------------------------------------------------- MetadataAuthority *)
  Lemma rt_MetadataAuthority : forall fs, wf (VObj cMetadataAuthority fs) ->
    fd_MetadataAuthority idf (dictify (VObj cMetadataAuthority fs)) =
    (Ok (VObj cMetadataAuthority fs), dictify (VObj cMetadataAuthority fs)).
  Proof.
    intros fs Hwf. apply open_wf in Hwf. destruct Hwf as [Hn [Hc [Hty Hall]]].
    explicit_fields Hn. invert_conf Hty. invert_all Hall.
    destruct p; try discriminate Hcf. destruct e; try discriminate Hcf.
    rewrite dictify_obj. unfold fd_MetadataAuthority, on_dict, run.
    mstep. dlook. cbn [dictify]. rewrite (enum_of_wf _ _ Hw). repeat (mstep; dlook).
    f_equal. rewrite <- Hc. apply construct_via; [reflexivity | kk | fields_goal].
  Qed.

  (* ---------------------------------------------------------------- Content / SkippedContent *)
  Lemma rt_Content : forall fs, wf (VObj cContent fs) ->
    fd_Content idf dateparse (dictify (VObj cContent fs)) = (Ok (VObj cContent fs), dictify (VObj cContent fs)).
  Proof.
    intros fs Hwf. apply open_wf in Hwf. destruct Hwf as [Hn [Hc [Hty Hall]]].
    explicit_fields Hn. invert_conf Hty. destruct Hcf6 as [->|[]].
    rewrite dictify_obj. unfold fd_Content, on_dict, run.
    mstep. dlook.
    assert (Hct : p7 = VNone \/ exists a b, p7 = VDate a b).
    { destruct Hcf7 as [->|H]; [left; reflexivity|]. destruct p7; try discriminate H. right. eauto. }
    destruct Hct as [->|[a [b ->]]]; cbn [is_none dictify]; cbv beta iota; repeat (mstep; dlook);
      (f_equal; rewrite <- Hc; apply construct_via; [reflexivity | kk | fields_goal]).
  Qed.

  Lemma rt_SkippedContent : forall fs, wf (VObj cSkippedContent fs) ->
    fd_SkippedContent idf (dictify (VObj cSkippedContent fs)) =
    (Ok (VObj cSkippedContent fs), dictify (VObj cSkippedContent fs)).
  Proof.
    intros fs Hwf. apply open_wf in Hwf. destruct Hwf as [Hn [Hc [Hty Hall]]].
    explicit_fields Hn. invert_conf Hty.
    rewrite dictify_obj. unfold fd_SkippedContent, on_dict, run.
    repeat (mstep; dlook).
    f_equal. rewrite <- Hc. apply construct_via; [reflexivity | kk | fields_goal].
  Qed.

  (* ---------------------------------------------------------------- ExtID *)
  Lemma swhid_of_wf : forall k t i, wf (VSwhid k t i) ->
    swhid_of swhid_parse k (dictify (VSwhid k t i)) = Ok (VSwhid k t i).
  Proof.
    intros k t i [Ht [Hi Hb]]. cbn [dictify]. unfold swhid_of. rewrite (swhid_rt k t i Ht Hi Hb). reflexivity.
  Qed.

  Lemma rt_ExtID : forall fs, wf (VObj cExtID fs) ->
    fd_ExtID idf swhid_parse (dictify (VObj cExtID fs)) = (Ok (VObj cExtID fs), dictify (VObj cExtID fs)).
  Proof.
    intros fs Hwf. apply open_wf in Hwf. destruct Hwf as [Hn [Hc [Hty Hall]]].
    explicit_fields Hn. invert_conf Hty. invert_all Hall.
    destruct p1; try discriminate Hcf1. destruct k; try discriminate Hcf1.
    rewrite dictify_obj. unfold fd_ExtID, extid_prog, on_dict, run.
    mstep. dlook. mstep. dlook. mstep. dlook. rewrite (swhid_of_wf _ _ _ Hw1).
    repeat (mstep; dlook). unfold kw1. cbn [app].
    f_equal. rewrite <- Hc. apply construct_via; [reflexivity | reflexivity | fields_goal].
  Qed.

  (* ---------------------------------------------------------------- nested decoding steps *)
  Lemma decode_if_truthy_obj : forall k c' (dec : pyval -> result pyval * pyval) v cu cal,
    (v = VNone \/ exists fs, v = VObj c' fs) -> wf v -> elided c' = [] -> names c' <> [] ->
    (forall fs, wf (VObj c' fs) -> dec (dictify (VObj c' fs)) = (Ok (VObj c' fs), dictify (VObj c' fs))) ->
    dget k cu = Some (dictify v) ->
    decode_if_truthy k dec (mkDvar cu cal false) = (Ok tt, mkDvar (dset k v cu) cal false).
  Proof.
    intros k c' dec v cu cal Hv Hwf He Hnn Hdec Hg. unfold decode_if_truthy. mstep. rewrite Hg.
    destruct Hv as [->|[fs ->]].
    - cbn [dictify truthy]. mstep. rewrite (dset_same k VNone cu Hg). reflexivity.
    - rewrite truthy_dictify_obj; [| exact He |].
      + mstep. rewrite (Hdec fs Hwf). mstep. reflexivity.
      + apply open_wf in Hwf. destruct Hwf as [Hn _]. intros ->. apply Hnn. rewrite <- Hn. reflexivity.
  Qed.

  Lemma pop_decode_obj : forall k c' (dec : pyval -> result pyval * pyval) v cu cal,
    (v = VNone \/ exists fs, v = VObj c' fs) -> wf v -> elided c' = [] -> names c' <> [] ->
    (forall fs, wf (VObj c' fs) -> dec (dictify (VObj c' fs)) = (Ok (VObj c' fs), dictify (VObj c' fs))) ->
    dget k cu = Some (dictify v) ->
    pop_decode k dec (mkDvar cu cal false) = (Ok v, mkDvar (ddel k cu) cal false).
  Proof.
    intros k c' dec v cu cal Hv Hwf He Hnn Hdec Hg. unfold pop_decode. unfold bind, pop_req. cbn [cur caller aliased]. rewrite Hg.
    destruct Hv as [->|[fs ->]].
    - cbn [dictify truthy]. mstep. reflexivity.
    - rewrite truthy_dictify_obj; [| exact He |].
      + mstep. rewrite (Hdec fs Hwf). mstep. reflexivity.
      + apply open_wf in Hwf. destruct Hwf as [Hn _]. intros ->. apply Hnn. rewrite <- Hn. reflexivity.
  Qed.

  Lemma opt_obj : forall c' v, conforms (TOpt (TObj c')) v -> v = VNone \/ exists fs, v = VObj c' fs.
  Proof.
    intros c' v [->|H]; [left; reflexivity|]. right. simpl in H. destruct v; try discriminate.
    destruct c'; destruct c; try discriminate; eauto.
  Qed.

  (* ---------------------------------------------------------------- Release *)
  Lemma rt_Release : forall fs, wf (VObj cRelease fs) ->
    fd_Release idf (dictify (VObj cRelease fs)) = (Ok (VObj cRelease fs), dictify (VObj cRelease fs)).
  Proof.
    intros fs Hwf. apply open_wf in Hwf. destruct Hwf as [Hn [Hc [Hty Hall]]].
    explicit_fields Hn. invert_conf Hty. invert_all Hall.
    destruct p2; try discriminate Hcf2. destruct e; try discriminate Hcf2.
    rewrite dictify_obj. unfold fd_Release, on_dict, run.
    mstep.
    rewrite (decode_if_truthy_obj k_author cPerson (fd_Person idf) p4);
      [| apply opt_obj; exact Hcf4 | exact Hw4 | reflexivity | discriminate | exact rt_Person | dlook; reflexivity].
    mstep.
    rewrite (decode_if_truthy_obj k_date cTimestampWithTimezone (fd_TimestampWithTimezone idf) p5);
      [| apply opt_obj; exact Hcf5 | exact Hw5 | reflexivity | discriminate | exact rt_TimestampWithTimezone
       | dlook; reflexivity].
    mstep. dlook. cbn [dictify]. mstep. rewrite (enum_of_wf _ _ Hw2). mstep.
    f_equal. rewrite <- Hc. unfold kw1. apply construct_via; [reflexivity | kk | fields_goal].
  Qed.

  (* ---------------------------------------------------------------- Revision *)
  Lemma rt_Revision : forall fs, wf (VObj cRevision fs) ->
    fd_Revision idf (dictify (VObj cRevision fs)) = (Ok (VObj cRevision fs), dictify (VObj cRevision fs)).
  Proof.
    intros fs Hwf. apply open_wf in Hwf. destruct Hwf as [Hn [Hc [Hty Hall]]].
    explicit_fields Hn. invert_conf Hty. invert_all Hall.
    destruct p4; try discriminate Hcf4. destruct e; try discriminate Hcf4.
    rewrite dictify_obj. unfold fd_Revision, on_dict, run.
    mstep.
    rewrite (pop_decode_obj k_date cTimestampWithTimezone (fd_TimestampWithTimezone idf) p2);
      [| apply opt_obj; exact Hcf2 | exact Hw2 | reflexivity | discriminate | exact rt_TimestampWithTimezone
       | dlook; reflexivity].
    mstep.
    rewrite (pop_decode_obj k_committer_date cTimestampWithTimezone (fd_TimestampWithTimezone idf) p3);
      [| apply opt_obj; exact Hcf3 | exact Hw3 | reflexivity | discriminate | exact rt_TimestampWithTimezone
       | dlook; reflexivity].
    mstep.
    rewrite (pop_decode_obj k_author cPerson (fd_Person idf) p0);
      [| apply opt_obj; exact Hcf0 | exact Hw0 | reflexivity | discriminate | exact rt_Person | dlook; reflexivity].
    mstep.
    rewrite (pop_decode_obj k_committer cPerson (fd_Person idf) p1);
      [| apply opt_obj; exact Hcf1 | exact Hw1 | reflexivity | discriminate | exact rt_Person | dlook; reflexivity].
    mstep. dlook. cbn [dictify]. mstep. rewrite (enum_of_wf _ _ Hw4). mstep. dlook.
    rewrite (conforms_direct (TTupleOf TBytes) p8 eq_refl Hcf8). destruct Hcf8 as [l [-> Hl]]. cbn [iter_values]. mstep.
    f_equal. rewrite <- Hc. unfold kw1. apply construct_via; [reflexivity | kk | fields_goal].
  Qed.

  (* ---------------------------------------------------------------- Directory *)
  Lemma rmap_entries : forall l, Forall (fun v => has_type (TObj cDirectoryEntry) v = true) l -> Forall wf l ->
    rmap (fun e => fst (fd_generic idf cDirectoryEntry e)) (map dictify l) = Ok l.
  Proof.
    intros l Ht Hw. induction l as [|x r IH]; [reflexivity|].
    inversion Ht as [|? ? Hx Hr]; subst. inversion Hw as [|? ? Hwx Hwr]; subst.
    as_obj Hx x fs. cbn [map rmap]. rewrite (rt_generic cDirectoryEntry fs eq_refl Hwx). cbn [fst].
    rewrite (IH Hr Hwr). reflexivity.
  Qed.

  Lemma rt_Directory : forall fs, wf (VObj cDirectory fs) ->
    fd_Directory idf (dictify (VObj cDirectory fs)) = (Ok (VObj cDirectory fs), dictify (VObj cDirectory fs)).
  Proof.
    intros fs Hwf. apply open_wf in Hwf. destruct Hwf as [Hn [Hc [Hty Hall]]].
    explicit_fields Hn. invert_conf Hty. invert_all Hall.
    destruct Hcf as [l [-> Hl]]. change (Forall (fun v => has_type (TObj cDirectoryEntry) v = true) l) in Hl.
    cbn [Codec.wf] in Hw. apply wf_all_list in Hw.
    rewrite dictify_obj. unfold fd_Directory, on_dict, run.
    mstep. dlook. cbn [dictify iter_values]. mstep. rewrite (rmap_entries l Hl Hw). mstep.
    f_equal. rewrite <- Hc. unfold kw1. apply construct_via; [reflexivity | kk | fields_goal].
  Qed.

  (* ---------------------------------------------------------------- Snapshot *)
  Lemma rmap_branches : forall l : dict,
    Forall (fun kv => conforms TBytes (fst kv) /\ conforms (TOpt (TObj cSnapshotBranch)) (snd kv)) l ->
    Forall (fun kv => plain (fst kv) = true /\ wf (snd kv)) l ->
    rmap (fun kv => if truthy (snd kv)
                    then rbind (fst (fd_SnapshotBranch idf (snd kv))) (fun o => Ok (fst kv, o))
                    else Ok (fst kv, VNone))
         (map (fun kv => (fst kv, dictify (snd kv))) l) = Ok l.
  Proof.
    intros l Ht Hw. induction l as [|[k x] r IH]; [reflexivity|].
    inversion Ht as [|? ? [Hk Hx] Hr]; subst. inversion Hw as [|? ? [Hpk Hwx] Hwr]; subst.
    cbn [map rmap fst snd] in *. rewrite (IH Hr Hwr).
    destruct (opt_obj _ _ Hx) as [->|[fs ->]].
    - reflexivity.
    - rewrite truthy_dictify_obj; [| reflexivity |].
      + rewrite (rt_SnapshotBranch fs Hwx). reflexivity.
      + apply open_wf in Hwx. destruct Hwx as [Hn _]. intros ->. discriminate Hn.
  Qed.

  Lemma rt_Snapshot : forall fs, wf (VObj cSnapshot fs) ->
    fd_Snapshot idf (dictify (VObj cSnapshot fs)) = (Ok (VObj cSnapshot fs), dictify (VObj cSnapshot fs)).
  Proof.
    intros fs Hwf. apply open_wf in Hwf. destruct Hwf as [Hn [Hc [Hty Hall]]].
    explicit_fields Hn. invert_conf Hty. invert_all Hall.
    destruct Hcf as [l [-> Hl]]. cbn [Codec.wf] in Hw. apply wf_all_dict in Hw.
    rewrite dictify_obj. unfold fd_Snapshot, on_dict, run.
    mstep. dlook. cbn [dictify items_of]. mstep. rewrite (rmap_branches l Hl Hw). mstep.
    f_equal. rewrite <- Hc. unfold kw1. apply construct_via; [reflexivity | kk | fields_goal].
  Qed.

  (* ---------------------------------------------------------------- RawExtrinsicMetadata *)
  Definition dset_opt (k : text) (v : pyval) (d : dict) : dict := if is_none v then d else dset k v d.

  Lemma dget_dset_opt : forall k' k v d,
    dget k' (dset_opt k v d) = if beqb k' k then (if is_none v then dget k' d else Some v) else dget k' d.
  Proof.
    intros. unfold dset_opt. destruct (is_none v).
    - destruct (beqb k' k); reflexivity.
    - apply dget_dset.
  Qed.

  Lemma keys_known_dset_opt : forall s k v d, mem_bytes k (map fname s) = true -> keys_known s d = true ->
    keys_known s (dset_opt k v d) = true.
  Proof. intros. unfold dset_opt. destruct (is_none v); [assumption | apply keys_known_dset; assumption]. Qed.

  Lemma opt_core : forall v, conforms (TOpt (TSwhid Core)) v -> v = VNone \/ exists t i, v = VSwhid Core t i.
  Proof.
    intros v [->|H]; [left; reflexivity|]. right. simpl in H. destruct v; try discriminate.
    destruct k; try discriminate. eauto.
  Qed.

  Lemma decode_swhid_step : forall k v cu cal,
    conforms (TOpt (TSwhid Core)) v -> wf v ->
    dget k cu = (if is_none v then None else Some (dictify v)) ->
    decode_swhid_if_truthy swhid_parse k (mkDvar cu cal false) = (Ok tt, mkDvar (dset_opt k v cu) cal false).
  Proof.
    intros k v cu cal Hc Hw Hg. unfold decode_swhid_if_truthy, dset_opt. mstep. rewrite Hg.
    destruct (opt_core v Hc) as [->|[t [i ->]]].
    - reflexivity.
    - cbn [is_none]. cbv beta iota.
      assert (truthy (dictify (VSwhid Core t i)) = true) as ->.
      { cbn [dictify truthy]. pose proof (swhid_nonempty Core t i) as Hne.
        destruct (swhid_str Core t i); [congruence | reflexivity]. }
      mstep. rewrite (swhid_of_wf _ _ _ Hw). mstep. reflexivity.
  Qed.

  Lemma rt_RawExtrinsicMetadata : forall fs, wf (VObj cRawExtrinsicMetadata fs) ->
    fd_RawExtrinsicMetadata idf swhid_str swhid_parse (dictify (VObj cRawExtrinsicMetadata fs)) =
    (Ok (VObj cRawExtrinsicMetadata fs), dictify (VObj cRawExtrinsicMetadata fs)).
  Proof.
    intros fs Hwf. apply open_wf in Hwf. destruct Hwf as [Hn [Hc [Hty Hall]]].
    explicit_fields Hn. invert_conf Hty. invert_all Hall.
    destruct p; try discriminate Hcf. destruct k; try discriminate Hcf.
    as_obj Hcf1 p1 afs. as_obj Hcf2 p2 ffs.
    rewrite dictify_obj. unfold fd_RawExtrinsicMetadata, rem_legacy, rem_tail, on_dict, run.
    mstep. dlook. mstep. dlook. rewrite (swhid_of_wf _ _ _ Hw). mstep. dlook.
    rewrite (rt_MetadataAuthority afs Hw1). mstep. dlook.
    rewrite (rt_generic cMetadataFetcher ffs eq_refl Hw2). mstep.
    cbn [fold_right]. mstep.
    rewrite (decode_swhid_step k_snapshot p7); [| exact Hcf7 | exact Hw7 | dlook; reflexivity]. mstep.
    rewrite (decode_swhid_step k_release p8); [| exact Hcf8 | exact Hw8 | rewrite ?dget_dset_opt; dlook; reflexivity]. mstep.
    rewrite (decode_swhid_step k_revision p9); [| exact Hcf9 | exact Hw9 | rewrite ?dget_dset_opt; dlook; reflexivity]. mstep.
    rewrite (decode_swhid_step k_directory p11); [| exact Hcf11 | exact Hw11 | rewrite ?dget_dset_opt; dlook; reflexivity]. mstep.
    f_equal. rewrite <- Hc. apply construct_via; [reflexivity | |].
    - repeat (apply keys_known_dset_opt; [reflexivity|]). kk.
    - cbn [schema fld fldc opt]. repeat (apply Forall2_cons); [.. | apply Forall2_nil];
        (unfold arg; cbn [fname fdefault fconv fld fldc opt snd]; rewrite ?dget_dset_opt; eval_keys; cbv beta iota;
         field_goal).
  Qed.

  (* ---------------------------------------------------------------- all 18 classes *)
  Theorem roundtrip_all : forall c fs, wf (VObj c fs) ->
    from_dict c (to_dict swhid_str (VObj c fs)) = (Ok (VObj c fs), to_dict swhid_str (VObj c fs)).
  Proof.
    intros c fs H. unfold to_dict. destruct c; cbn [Codec.from_dict].
    - apply rt_Person; exact H.
    - apply (rt_generic cTimestamp); [reflexivity | exact H].
    - apply rt_TimestampWithTimezone; exact H.
    - apply (rt_generic cOrigin); [reflexivity | exact H].
    - apply (rt_generic cOriginVisit); [reflexivity | exact H].
    - apply (rt_generic cOriginVisitStatus); [reflexivity | exact H].
    - apply rt_SnapshotBranch; exact H.
    - apply rt_Snapshot; exact H.
    - apply rt_Release; exact H.
    - apply rt_Revision; exact H.
    - apply (rt_generic cDirectoryEntry); [reflexivity | exact H].
    - apply rt_Directory; exact H.
    - apply rt_Content; exact H.
    - apply rt_SkippedContent; exact H.
    - apply rt_MetadataAuthority; exact H.
    - apply (rt_generic cMetadataFetcher); [reflexivity | exact H].
    - apply rt_RawExtrinsicMetadata; exact H.
    - apply rt_ExtID; exact H.
  Qed.

  Corollary roundtrip_class : forall c fs, wf (VObj c fs) ->
    fst (from_dict c (to_dict swhid_str (VObj c fs))) = Ok (VObj c fs).
  Proof. intros c fs H. rewrite (roundtrip_all c fs H). reflexivity. Qed.

  (* the decoded object carries the same id attribute (and, being the same
     object, the oracle computes the same id for it) *)
  Corollary same_id : forall c fs, wf (VObj c fs) ->
    exists fs', fst (from_dict c (to_dict swhid_str (VObj c fs))) = Ok (VObj c fs')
                /\ fget k_id fs' = fget k_id fs /\ idf c (fdel k_id fs') = idf c (fdel k_id fs)
                /\ fget k_sha1_git fs' = fget k_sha1_git fs.
  Proof. intros c fs H. exists fs. rewrite (roundtrip_class c fs H). auto. Qed.

  Corollary to_dict_idempotent : forall c fs, wf (VObj c fs) ->
    exists o2, fst (from_dict c (to_dict swhid_str (VObj c fs))) = Ok o2
               /\ to_dict swhid_str o2 = to_dict swhid_str (VObj c fs).
  Proof. intros c fs H. exists (VObj c fs). rewrite (roundtrip_class c fs H). auto. Qed.
End Roundtrip.
