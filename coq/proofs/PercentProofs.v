(* Round-trip facts about the percent-encoding used by the SWHID printer:
     unquote_to_bytes (quote_from_bytes p) = p            for every byte string
     unquote (escaped origin) = origin                     for every text, whitespace
                                                           and lone surrogates included
   and the character-set facts the parser proofs need (no ';', no whitespace
   in what the printer emits). *)
From Coq Require Import List NArith ZArith Bool Lia Arith.
From SWH.lib Require Import Bytes Dec Hex Utf8 Percent.
From SWH.model Require Import Swhid.
From SWH.proofs Require Import SwhidLib.
Import ListNotations.
Open Scope N_scope.

Ltac b2p H := repeat (rewrite ?orb_true_iff, ?andb_true_iff, ?N.leb_le, ?N.ltb_lt, ?N.eqb_eq, ?negb_true_iff,
                              ?N.eqb_neq, ?N.leb_gt, ?N.ltb_ge, ?orb_false_iff, ?andb_false_iff in H).

(* ---------------------------------------------------------------- quote_from_bytes *)
Lemma hexval_upper : forall n, n < 16 -> hexval (hexdigit_upper n) = Some n.
Proof.
  assert (H : forallb (fun n => match hexval (hexdigit_upper n) with Some m => m =? n | None => false end) (below 16) = true)
    by (vm_compute; reflexivity).
  intros n Hn. pose proof (forall_below _ 16 H n Hn) as X. cbv beta in X.
  destruct (hexval (hexdigit_upper n)); [|discriminate]. apply N.eqb_eq in X. subst. reflexivity.
Qed.

Lemma hexdigit_upper_safe : forall n, n < 16 -> always_safe (hexdigit_upper n) = true.
Proof.
  assert (H : forallb (fun n => always_safe (hexdigit_upper n)) (below 16) = true) by (vm_compute; reflexivity).
  intros n Hn. exact (forall_below _ 16 H n Hn).
Qed.

Lemma safe_not_pct : forall b, always_safe b || (b =? 47) = true -> b <> 37.
Proof. intros b H E. subst. vm_compute in H. discriminate. Qed.

Lemma unquote_bytes_quote_byte : forall b rest, b < 256 ->
  unquote_bytes (quote_byte b ++ rest) = b :: unquote_bytes rest.
Proof.
  intros b rest Hb. unfold quote_byte. destruct (always_safe b || (b =? 47)) eqn:S.
  - apply safe_not_pct in S. apply N.eqb_neq in S. cbn [app unquote_bytes]. rewrite S. reflexivity.
  - unfold pct_byte. cbn [app]. cbn [unquote_bytes]. rewrite N.eqb_refl.
    rewrite !hexval_upper.
    + f_equal. symmetry. apply N.div_mod. discriminate.
    + apply N.mod_lt. discriminate.
    + apply N.div_lt_upper_bound; [discriminate | exact Hb].
Qed.

Lemma unquote_bytes_quote : forall p, wf_bytes p = true -> unquote_bytes (quote_from_bytes p) = p.
Proof.
  induction p as [|b p IH]; intro H; [reflexivity|].
  cbn [wf_bytes forallb] in H. apply andb_true_iff in H. destruct H as [Hb Hp].
  unfold wf_byte in Hb. apply N.ltb_lt in Hb.
  unfold quote_from_bytes. cbn [flat_map]. rewrite unquote_bytes_quote_byte by exact Hb.
  f_equal. apply IH. exact Hp.
Qed.

(* what quote_from_bytes can emit *)
Definition qsafe (c : N) : bool := always_safe c || (c =? 47) || (c =? 37).

Lemma quote_qsafe : forall p, wf_bytes p = true -> forallb qsafe (quote_from_bytes p) = true.
Proof.
  induction p as [|b p IH]; intro H; [reflexivity|].
  cbn [wf_bytes forallb] in H. apply andb_true_iff in H. destruct H as [Hb Hp].
  unfold wf_byte in Hb. apply N.ltb_lt in Hb.
  unfold quote_from_bytes. cbn [flat_map]. rewrite forallb_app. apply andb_true_iff. split; [|apply IH, Hp].
  unfold quote_byte. destruct (always_safe b || (b =? 47)) eqn:S.
  - cbn [forallb]. unfold qsafe. rewrite S. reflexivity.
  - unfold pct_byte. cbn [forallb]. unfold qsafe at 1. cbn [N.eqb orb].
    unfold qsafe. rewrite !hexdigit_upper_safe.
    + rewrite orb_true_r. reflexivity.
    + apply N.mod_lt. discriminate.
    + apply N.div_lt_upper_bound; [discriminate | exact Hb].
Qed.

Lemma qsafe_ascii : forall c, qsafe c = true -> c < 128.
Proof. intros c H. unfold qsafe, always_safe in H. b2p H. lia. Qed.

Lemma qsafe_props : forall c, qsafe c = true ->
  is_ascii c = true /\ is_space c = false /\ c <> 59 /\ is_scalar c = true.
Proof.
  assert (H : forallb (fun c => implb (qsafe c) (is_ascii c && negb (is_space c) && negb (c =? 59) && is_scalar c))
                      (below 128) = true) by (vm_compute; reflexivity).
  intros c Hc. pose proof (forall_below _ 128 H c (qsafe_ascii c Hc)) as X. cbv beta in X.
  rewrite Hc in X. cbn [implb] in X. b2p X. tauto.
Qed.

Lemma quote_ascii : forall p, wf_bytes p = true -> forallb is_ascii (quote_from_bytes p) = true.
Proof. intros p H. eapply forallb_imp; [|apply quote_qsafe, H]. intros c Hc. apply qsafe_props, Hc. Qed.

Lemma quote_no_space : forall p, wf_bytes p = true ->
  forallb (fun x => negb (is_space x)) (quote_from_bytes p) = true.
Proof.
  intros p H. eapply forallb_imp; [|apply quote_qsafe, H]. intros c Hc.
  destruct (qsafe_props c Hc) as [_ [S _]]. rewrite S. reflexivity.
Qed.

Lemma quote_no_semicolon : forall p, wf_bytes p = true -> ~ In 59 (quote_from_bytes p).
Proof. intros p H. eapply forallb_not_In; [apply quote_qsafe, H | reflexivity]. Qed.

Lemma quote_scalar : forall p, wf_bytes p = true -> forallb is_scalar (quote_from_bytes p) = true.
Proof. intros p H. eapply forallb_imp; [|apply quote_qsafe, H]. intros c Hc. apply qsafe_props, Hc. Qed.

Theorem unquote_to_bytes_quote : forall p, wf_bytes p = true ->
  unquote_to_bytes (quote_from_bytes p) = Some p.
Proof.
  intros p H. unfold unquote_to_bytes. rewrite utf8_encode_ascii by (apply quote_ascii, H).
  rewrite unquote_bytes_quote by exact H. reflexivity.
Qed.

(* ---------------------------------------------------------------- whitespace table *)
Lemma is_space_cases : forall (P : N -> Prop), Forall P WS_TABLE -> forall c, is_space c = true -> P c.
Proof.
  intros P H c Hc. unfold is_space in Hc. apply memb_In in Hc. rewrite Forall_forall in H. apply H, Hc.
Qed.

(* the origin escaping, one character at a time *)
Definition esc_char (c : N) : text :=
  if c =? 37 then S_pct25
  else if c =? 59 then S_pct3B
  else if is_space c then match quote_text [c] with Some q => q | None => [] end
  else [c].

(* UTF-8 bytes of one code point ([] where there is none) *)
Definition enc1 (c : N) : bytes := match enc_cp c with Some b => b | None => [] end.

Lemma ws_quote_some : forall c, is_space c = true -> exists q, quote_text [c] = Some q.
Proof. apply is_space_cases. repeat constructor; eexists; vm_compute; reflexivity. Qed.

Lemma quote_spaces_flat : forall t,
  quote_spaces t = Some (flat_map (fun c => if is_space c
                                            then match quote_text [c] with Some q => q | None => [] end
                                            else [c]) t).
Proof.
  induction t as [|c t IH]; [reflexivity|].
  cbn [quote_spaces flat_map]. rewrite IH. destruct (is_space c) eqn:S.
  - destruct (ws_quote_some c S) as [q Hq]. rewrite Hq. reflexivity.
  - reflexivity.
Qed.

Lemma esc_origin_flat : forall o, esc_origin o = Some (flat_map esc_char o).
Proof.
  intro o. unfold esc_origin. rewrite quote_spaces_flat. f_equal.
  unfold replace_char. rewrite !flat_map_flat_map. apply flat_map_ext_in. intros c _.
  unfold esc_char. destruct (N.eqb_spec c 37) as [E|E].
  - subst. vm_compute. reflexivity.
  - cbn [flat_map]. rewrite app_nil_r. destruct (N.eqb_spec c 59) as [E2|E2].
    + subst. vm_compute. reflexivity.
    + cbn [flat_map]. rewrite !app_nil_r. reflexivity.
Qed.

(* per-character facts, by enumeration of the whitespace table *)
Definition ws_facts (c : N) : Prop :=
  forallb is_ascii (esc_char c) = true /\
  forallb (fun x => negb (is_space x) && negb (x =? 59)) (esc_char c) = true /\
  memb 37 (esc_char c) = true /\
  (forall rest, unquote_bytes (esc_char c ++ rest) = enc1 c ++ unquote_bytes rest) /\
  (forall rest, utf8_decode_replace (enc1 c ++ rest) = c :: utf8_decode_replace rest).

Lemma ws_facts_all : forall c, is_space c = true -> ws_facts c.
Proof.
  apply is_space_cases.
  repeat constructor; try (vm_compute; reflexivity); intro rest; reflexivity.
Qed.

(* ascii-or-whitespace: the characters that end up inside one ASCII run *)
Definition aw (c : N) : bool := (c <? 128) || is_space c.

Lemma esc_char_ascii : forall c, aw c = true -> forallb is_ascii (esc_char c) = true.
Proof.
  intros c H. destruct (is_space c) eqn:S; [apply ws_facts_all, S|].
  unfold aw in H. rewrite S, orb_false_r in H. unfold esc_char. rewrite S.
  destruct (c =? 37); [reflexivity|]. destruct (c =? 59); [reflexivity|].
  cbn [forallb]. unfold is_ascii. rewrite H. reflexivity.
Qed.

Lemma esc_char_unquote_bytes : forall c rest, aw c = true ->
  unquote_bytes (esc_char c ++ rest) = enc1 c ++ unquote_bytes rest.
Proof.
  intros c rest H. destruct (is_space c) eqn:S; [apply ws_facts_all, S|].
  unfold aw in H. rewrite S, orb_false_r in H. unfold esc_char. rewrite S.
  destruct (N.eqb_spec c 37) as [E|E]; [subst; reflexivity|].
  destruct (N.eqb_spec c 59) as [E2|E2]; [subst; reflexivity|].
  unfold enc1, enc_cp. rewrite H. cbn [app unquote_bytes]. apply N.eqb_neq in E. rewrite E. reflexivity.
Qed.

Lemma enc1_decode : forall c rest, aw c = true ->
  utf8_decode_replace (enc1 c ++ rest) = c :: utf8_decode_replace rest.
Proof.
  intros c rest H. destruct (is_space c) eqn:S; [apply ws_facts_all, S|].
  unfold aw in H. rewrite S, orb_false_r in H. unfold enc1, enc_cp. rewrite H.
  apply utf8_decode_ascii_cons. apply N.ltb_lt. exact H.
Qed.

Lemma flush_esc : forall pre, forallb aw pre = true ->
  utf8_decode_replace (unquote_bytes (flat_map esc_char pre)) = pre.
Proof.
  intros pre H.
  assert (A : forall pre, forallb aw pre = true -> unquote_bytes (flat_map esc_char pre) = flat_map enc1 pre).
  { induction pre0 as [|c p IH]; intro Hp; [reflexivity|].
    cbn [forallb] in Hp. apply andb_true_iff in Hp. destruct Hp as [Hc Hp].
    cbn [flat_map]. rewrite esc_char_unquote_bytes by exact Hc. rewrite IH by exact Hp. reflexivity. }
  rewrite A by exact H. clear A. induction pre as [|c p IH]; [reflexivity|].
  cbn [forallb] in H. apply andb_true_iff in H. destruct H as [Hc Hp].
  cbn [flat_map]. rewrite enc1_decode by exact Hc. rewrite IH by exact Hp. reflexivity.
Qed.

Lemma flush_run_eq : forall acc, flush_run acc = utf8_decode_replace (unquote_bytes (rev acc)).
Proof. intros [|a acc]; reflexivity. Qed.

Lemma unquote_runs_ascii_app : forall w acc t, forallb is_ascii w = true ->
  unquote_runs acc (w ++ t) = unquote_runs (rev w ++ acc) t.
Proof.
  induction w as [|x w IH]; intros acc t H; [reflexivity|].
  cbn [forallb] in H. apply andb_true_iff in H. destruct H as [Hx Hw].
  cbn [app unquote_runs]. unfold is_ascii in Hx. rewrite Hx. rewrite IH by exact Hw.
  cbn [rev]. rewrite <- app_assoc. reflexivity.
Qed.

Lemma esc_char_other : forall c, aw c = false -> esc_char c = [c] /\ (c <? 128) = false.
Proof.
  intros c H. unfold aw in H. apply orb_false_iff in H. destruct H as [H1 H2].
  unfold esc_char. rewrite H2. apply N.ltb_ge in H1.
  destruct (N.eqb_spec c 37); [lia|]. destruct (N.eqb_spec c 59); [lia|]. split; [reflexivity|].
  apply N.ltb_ge. exact H1.
Qed.

Lemma unquote_runs_esc : forall o pre, forallb aw pre = true ->
  unquote_runs (rev (flat_map esc_char pre)) (flat_map esc_char o) = pre ++ o.
Proof.
  induction o as [|c o IH]; intros pre Hpre.
  - cbn [flat_map unquote_runs]. rewrite flush_run_eq, rev_involutive, flush_esc by exact Hpre.
    rewrite app_nil_r. reflexivity.
  - cbn [flat_map]. destruct (aw c) eqn:A.
    + rewrite unquote_runs_ascii_app by (apply esc_char_ascii, A).
      rewrite <- rev_app_distr.
      replace (flat_map esc_char pre ++ esc_char c) with (flat_map esc_char (pre ++ [c]))
        by (rewrite flat_map_app; cbn [flat_map]; rewrite app_nil_r; reflexivity).
      rewrite IH.
      * rewrite <- app_assoc. reflexivity.
      * rewrite forallb_app, Hpre. cbn [forallb]. rewrite A. reflexivity.
    + destruct (esc_char_other c A) as [E L]. rewrite E. cbn [app unquote_runs]. rewrite L.
      rewrite flush_run_eq, rev_involutive, flush_esc by exact Hpre.
      specialize (IH [] eq_refl). cbn [flat_map rev app] in IH. rewrite IH. reflexivity.
Qed.

Lemma esc_char_no_pct : forall c, ~ In 37 (esc_char c) -> esc_char c = [c].
Proof.
  intros c H. unfold esc_char in *. destruct (N.eqb_spec c 37) as [E|E].
  - exfalso. apply H. vm_compute. tauto.
  - destruct (N.eqb_spec c 59) as [E2|E2].
    + exfalso. apply H. vm_compute. tauto.
    + destruct (is_space c) eqn:S; [|reflexivity].
      exfalso. apply H. destruct (ws_facts_all c S) as [_ [_ [M _]]].
      unfold esc_char in M. apply N.eqb_neq in E, E2. rewrite E, E2, S in M. apply memb_In. exact M.
Qed.

(* urllib.parse.unquote undoes the origin escaping, for every text *)
Theorem unquote_esc_origin : forall o, unquote (flat_map esc_char o) = o.
Proof.
  intro o. unfold unquote. destruct (memb 37 (flat_map esc_char o)) eqn:M.
  - apply (unquote_runs_esc o [] eq_refl).
  - apply memb_false in M. induction o as [|c o IH]; [reflexivity|].
    cbn [flat_map] in *. apply not_In_app in M. destruct M as [M1 M2].
    rewrite (esc_char_no_pct c M1). cbn [app]. f_equal. apply IH, M2.
Qed.

(* the escaped origin contains neither ';' nor whitespace *)
Lemma esc_char_clean : forall c,
  forallb (fun x => negb (is_space x) && negb (x =? 59)) (esc_char c) = true.
Proof.
  intro c. destruct (is_space c) eqn:S; [apply ws_facts_all, S|].
  unfold esc_char. rewrite S. destruct (N.eqb_spec c 37); [reflexivity|].
  destruct (N.eqb_spec c 59) as [E|E]; [reflexivity|].
  cbn [forallb]. rewrite S. apply N.eqb_neq in E. rewrite E. reflexivity.
Qed.

Lemma esc_origin_clean : forall o,
  forallb (fun x => negb (is_space x) && negb (x =? 59)) (flat_map esc_char o) = true.
Proof.
  intro o. rewrite forallb_flat_map. apply forallb_forall. intros c _. apply esc_char_clean.
Qed.

Lemma esc_origin_no_space : forall o, forallb (fun x => negb (is_space x)) (flat_map esc_char o) = true.
Proof.
  intro o. eapply forallb_imp; [|apply esc_origin_clean]. intros c H. cbv beta in H.
  apply andb_true_iff in H. tauto.
Qed.

Lemma esc_origin_no_semicolon : forall o, ~ In 59 (flat_map esc_char o).
Proof. intro o. eapply forallb_not_In; [apply esc_origin_clean | reflexivity]. Qed.

(* when the origin has no whitespace, the escaping is the two replacements only *)
Lemma esc_origin_old_eq : forall o, forallb (fun x => negb (is_space x)) o = true ->
  esc_origin_old o = esc_origin o.
Proof.
  intros o H. rewrite esc_origin_flat. unfold esc_origin_old. f_equal.
  unfold replace_char. rewrite flat_map_flat_map. apply flat_map_ext_in. intros c Hc.
  rewrite forallb_forall in H. specialize (H c Hc). apply negb_true_iff in H.
  unfold esc_char. rewrite H. destruct (N.eqb_spec c 37) as [E|E]; [subst; reflexivity|].
  cbn [flat_map]. rewrite app_nil_r. reflexivity.
Qed.
