(* Proofs for C03: revision (commit) manifests. *)
From Coq Require Import List NArith ZArith Bool Lia.
From SWH.lib Require Import Bytes Dec Hex GitHeader Headers.
From SWH.model Require Import Time Rel Rev.
From SWH Require Import Generated.
Import ListNotations.
Open Scope N_scope.

Lemma commit_no_sp : ~ In SP (bs "commit").
Proof. apply memb_false. vm_compute. reflexivity. Qed.

Definition key_ok (h : header) : bool := wf_key (fst h).

Lemma wf_extra_keys : forall hs, wf_extra hs = true -> forallb key_ok hs = true.
Proof.
  intros hs H. unfold wf_extra in H. rewrite forallb_forall in *. intros h Hh.
  specialize (H h Hh). apply andb_true_iff in H. unfold key_ok. tauto.
Qed.

Lemma rev_headers_wf : forall r, wf_extra (effective_extra r) = true ->
  forallb (fun h => wf_key (fst h)) (rev_headers r) = true.
Proof.
  intros r H. unfold rev_headers. cbn [forallb]. rewrite !forallb_app.
  apply wf_extra_keys in H. unfold key_ok in H. unfold header in *. rewrite H.
  assert (P : forallb (fun h : bytes * bytes => wf_key (fst h))
               (map (fun p => (bs "parent", hexlify p)) (filter nonempty (v_parents r))) = true).
  { apply forallb_forall. intros h Hh. apply in_map_iff in Hh. destruct Hh as [p [<- _]]. reflexivity. }
  rewrite P. destruct (v_author r), (v_committer r); reflexivity.
Qed.

Definition head_key_not (k : bytes) (hs : list header) : Prop :=
  match hs with (k', _) :: _ => beqb k' k = false | [] => True end.

Lemma take_parents_app : forall ps rest, head_key_not (bs "parent") rest ->
  take_parents (map (fun p => (bs "parent", hexlify p)) ps ++ rest) = (map hexlify ps, rest).
Proof.
  induction ps as [|p ps IH]; intros rest Hr.
  - cbn [map app]. destruct rest as [|[k v] rest]; [reflexivity|]. cbn [take_parents]. unfold head_key_not in Hr. rewrite Hr. reflexivity.
  - cbn [map app take_parents]. rewrite beqb_refl. rewrite IH by exact Hr. reflexivity.
Qed.

Lemma take_named_miss : forall name hs, head_key_not name hs -> take_named name hs = (None, hs).
Proof. intros name [|[k v] hs] H; [reflexivity|]. unfold head_key_not in H. cbn [take_named]. rewrite H. reflexivity. Qed.

Lemma take_named_hit : forall name v hs, take_named name ((name, v) :: hs) = (Some v, hs).
Proof. intros. cbn [take_named]. rewrite beqb_refl. reflexivity. Qed.

Lemma wf_extra_head : forall hs k, wf_extra hs = true -> reserved_key k = true -> head_key_not k hs.
Proof.
  intros [|[k' v] hs] k H R; [exact I|]. cbn [wf_extra forallb fst] in H. cbn [head_key_not].
  apply andb_true_iff in H. destruct H as [H _]. apply andb_true_iff in H. destruct H as [_ H].
  apply negb_true_iff in H. destruct (beqb k' k) eqn:E; [|reflexivity].
  apply beqb_eq in E. subst. congruence.
Qed.

Definition author_line (r : revision) : option bytes :=
  match v_author r with Some a => Some (format_author a (v_date r)) | None => None end.
Definition committer_line (r : revision) : option bytes :=
  match v_committer r with Some c => Some (format_author c (v_committer_date r)) | None => None end.

Definition commit_fields_of (r : revision) : commit_fields :=
  {| c_tree := hexlify (v_directory r);
     c_parents := map hexlify (filter nonempty (v_parents r));
     c_author := author_line r; c_committer := committer_line r;
     c_extra := effective_extra r; c_message := v_message r |}.

(* An independent positional commit parser recovers tree, parents, author and
   committer lines, the extra headers with their original (multi-line) values,
   and the message - values, names, offsets and messages are arbitrary bytes *)
Theorem parse_commit_ok : forall r, wf_extra (effective_extra r) = true ->
  parse_commit (rev_manifest r) = Some (commit_fields_of r).
Proof.
  intros r W. unfold parse_commit, rev_manifest.
  rewrite parse_object_ok; [|exact commit_no_sp | apply rev_headers_wf; exact W].
  rewrite beqb_refl. unfold rev_headers. rewrite beqb_refl.
  set (ex := effective_extra r) in *.
  assert (Hp : head_key_not (bs "parent") ex) by (apply wf_extra_head; [exact W | reflexivity]).
  assert (Ha : head_key_not (bs "author") ex) by (apply wf_extra_head; [exact W | reflexivity]).
  assert (Hc : head_key_not (bs "committer") ex) by (apply wf_extra_head; [exact W | reflexivity]).
  unfold commit_fields_of, author_line, committer_line.
  destruct (v_author r) as [a|]; destruct (v_committer r) as [c|]; cbn [app].
  - rewrite take_parents_app by reflexivity. rewrite take_named_hit, take_named_hit. reflexivity.
  - rewrite take_parents_app by reflexivity. rewrite take_named_hit, take_named_miss by exact Hc. reflexivity.
  - rewrite take_parents_app by reflexivity.
    rewrite take_named_miss by reflexivity. rewrite take_named_hit. reflexivity.
  - rewrite take_parents_app by exact Hp.
    rewrite take_named_miss by exact Ha. rewrite take_named_miss by exact Hc. reflexivity.
Qed.

(* full strength (arbitrary header KEYS) is false: the commit format itself is
   ambiguous for exotic keys.  Two revisions with different fields, same manifest. *)
Definition amb1 : revision :=
  {| v_message := None; v_author := None; v_committer := None; v_date := None; v_committer_date := None;
     v_type := RtGit; v_directory := repeat 1 20; v_synthetic := false; v_meta_extra := None; v_meta_other := [];
     v_parents := [repeat 2 20]; v_extra_headers := []; v_raw_manifest := None |}.
Definition amb2 : revision :=
  {| v_message := None; v_author := None; v_committer := None; v_date := None; v_committer_date := None;
     v_type := RtGit; v_directory := repeat 1 20; v_synthetic := false; v_meta_extra := None; v_meta_other := [];
     v_parents := []; v_extra_headers := [(bs "parent", hexlify (repeat 2 20))]; v_raw_manifest := None |}.
Definition amb3 : revision :=
  {| v_message := None; v_author := None; v_committer := None; v_date := None; v_committer_date := None;
     v_type := RtGit; v_directory := repeat 1 20; v_synthetic := false; v_meta_extra := None; v_meta_other := [];
     v_parents := []; v_extra_headers := [(bs "a b", bs "c")]; v_raw_manifest := None |}.
Definition amb4 : revision :=
  {| v_message := None; v_author := None; v_committer := None; v_date := None; v_committer_date := None;
     v_type := RtGit; v_directory := repeat 1 20; v_synthetic := false; v_meta_extra := None; v_meta_other := [];
     v_parents := []; v_extra_headers := [(bs "a", bs "b c")]; v_raw_manifest := None |}.

Theorem parse_commit_full_refuted :
  (rev_manifest amb1 = rev_manifest amb2 /\ commit_fields_of amb1 <> commit_fields_of amb2) /\
  (rev_manifest amb3 = rev_manifest amb4 /\ commit_fields_of amb3 <> commit_fields_of amb4).
Proof.
  split; split; try (vm_compute; reflexivity); intro H; inversion H.
Qed.

(* attributes that are not part of a commit never influence the manifest *)
Theorem revision_irrelevant_fields : forall r r',
  v_message r = v_message r' -> v_directory r = v_directory r' -> v_parents r = v_parents r' ->
  option_map fullname (v_author r) = option_map fullname (v_author r') ->
  option_map fullname (v_committer r) = option_map fullname (v_committer r') ->
  v_date r = v_date r' -> v_committer_date r = v_committer_date r' ->
  effective_extra r = effective_extra r' ->
  rev_manifest r = rev_manifest r'.
Proof.
  intros r r' E1 E2 E3 E4 E5 E6 E7 E8. unfold rev_manifest, rev_headers, format_author.
  rewrite E1, E2, E3, E6, E7, E8.
  destruct (v_author r) as [a|], (v_author r') as [a'|]; cbn in E4; try discriminate;
  destruct (v_committer r) as [c|], (v_committer r') as [c'|]; cbn in E5; try discriminate;
  try (inversion E4 as [X4]; rewrite X4); try (inversion E5 as [X5]; rewrite X5); reflexivity.
Qed.

(* legacy extra headers: attribute or inside metadata - same manifest; after
   post-init the attribute holds them and the metadata no longer does *)
Theorem legacy_extra_headers_same : forall r l,
  v_extra_headers r = [] -> v_meta_extra r = Some l ->
  rev_manifest (post_init r) = rev_manifest r /\
  v_extra_headers (post_init r) = l /\ v_meta_extra (post_init r) = None.
Proof.
  intros r l E1 E2. unfold post_init. rewrite E1, E2. repeat split.
  unfold rev_manifest, rev_headers, effective_extra. cbn. rewrite E1, E2.
  destruct l; reflexivity.
Qed.

Theorem post_init_manifest : forall r, rev_manifest (post_init r) = rev_manifest r.
Proof.
  intro r. destruct (v_extra_headers r) as [|h hs] eqn:E1.
  - destruct (v_meta_extra r) as [l|] eqn:E2.
    + apply (legacy_extra_headers_same r l E1 E2).
    + unfold post_init. rewrite E1, E2. reflexivity.
  - unfold post_init. rewrite E1. reflexivity.
Qed.

Theorem post_init_idempotent : forall r, post_init (post_init r) = post_init r.
Proof.
  intro r. destruct (v_extra_headers r) as [|h hs] eqn:E1; [destruct (v_meta_extra r) as [l|] eqn:E2|].
  - destruct (legacy_extra_headers_same r l E1 E2) as [_ [_ HN]].
    generalize dependent (post_init r). intros r' HN. unfold post_init. rewrite HN.
    destruct (v_extra_headers r'); reflexivity.
  - assert (X : post_init r = r) by (unfold post_init; rewrite E1, E2; reflexivity). rewrite !X. reflexivity.
  - assert (X : post_init r = r) by (unfold post_init; rewrite E1; reflexivity). rewrite !X. reflexivity.
Qed.

Theorem revision_presence : forall r,
  revision_valid r = true <->
  ((v_date r <> None -> v_author r <> None) /\ (v_committer_date r <> None -> v_committer r <> None)).
Proof.
  intro r. unfold revision_valid. rewrite andb_true_iff.
  destruct (v_author r), (v_date r), (v_committer r), (v_committer_date r); split; intro H;
    try (split; reflexivity); try (split; intro; discriminate); try (destruct H; discriminate);
    try (split; intros _; discriminate).
  all: try (destruct H as [H1 H2]; exfalso; first [apply H1; [discriminate|reflexivity] | apply H2; [discriminate|reflexivity]]).
  all: try (split; intro K; congruence).
Qed.

(* injectivity of the manifest on the commit fields *)
Theorem rev_manifest_injective : forall r r',
  wf_extra (effective_extra r) = true -> wf_extra (effective_extra r') = true ->
  rev_manifest r = rev_manifest r' -> commit_fields_of r = commit_fields_of r'.
Proof.
  intros r r' W W' E. pose proof (parse_commit_ok r W) as P. rewrite E in P.
  rewrite (parse_commit_ok r' W') in P. congruence.
Qed.

Lemma commit_is_git_type : mem_bytes (bs "commit") GIT_OBJECT_TYPES = true.
Proof. vm_compute. reflexivity. Qed.

(* non-vacuity: merge commit, author+committer with dates, multi-line gpgsig header, empty message *)
Definition ex_revision : revision :=
  {| v_message := Some []; 
     v_author := Some {| fullname := bs "A <a@b>"; p_name := None; p_email := None |};
     v_committer := Some {| fullname := [10]; p_name := None; p_email := None |};
     v_date := Some (mkTstz (mkTs 1 1) (bs "+0100")); v_committer_date := Some (mkTstz (mkTs (-5) 0) (bs "junk"));
     v_type := RtGit; v_directory := repeat 1 20; v_synthetic := false; v_meta_extra := None; v_meta_other := [];
     v_parents := [repeat 2 20; []; repeat 3 20];
     v_extra_headers := [(bs "gpgsig", [45; 10; 32; 10; 10]); (bs "x", [])]; v_raw_manifest := None |}.
Example ex_revision_ok : revision_valid ex_revision = true /\ wf_extra (effective_extra ex_revision) = true.
Proof. split; vm_compute; reflexivity. Qed.

(* ---- dimensions added by the audit: raw manifest, both routes at once ---- *)
(* a verbatim raw manifest takes precedence over the fields for the id (and only for the id:
   rev_manifest never reads it), whatever its bytes - the empty byte string included *)
Theorem rev_raw_manifest_precedence : forall (H : bytes -> bytes) r m,
  v_raw_manifest r = Some m -> rev_compute_hash H r = H m.
Proof. intros H r m R. unfold rev_compute_hash. rewrite R. reflexivity. Qed.

(* extra headers given BOTH as the attribute and inside legacy metadata: the attribute
   decides, and construction leaves the object (metadata key included) as it is *)
Theorem extra_attribute_wins : forall r, v_extra_headers r <> [] ->
  effective_extra r = v_extra_headers r /\ post_init r = r.
Proof.
  intros r N. unfold effective_extra, post_init.
  destruct (v_extra_headers r) as [|h hs] eqn:E; [congruence|]. split; reflexivity.
Qed.

Definition ex_both : revision :=
  {| v_message := None; v_author := None; v_committer := None; v_date := None; v_committer_date := None;
     v_type := RtGit; v_directory := repeat 1 20; v_synthetic := false;
     v_meta_extra := Some [(bs "mergetag", [1])]; v_meta_other := [];
     v_parents := []; v_extra_headers := [(bs "gpgsig", [2])]; v_raw_manifest := Some [] |}.
Example ex_both_ok : v_extra_headers ex_both <> [] /\ effective_extra ex_both = [(bs "gpgsig", [2])] /\
  rev_compute_hash (fun b => 7 :: b) ex_both = [7].
Proof. repeat split; vm_compute; congruence. Qed.
