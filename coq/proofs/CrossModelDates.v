(* Cross-model consistency C03 / C04 x C16: the author, committer and tagger
   lines of commit and tag manifests (model/Rev.v, model/Rel.v, through
   Rel.format_author) end with Time.author_date_part, whose date text
   TimeProofs.format_date_exact (C16_format_date_exact) characterises.  Here the
   two are put together: the line is EXACTLY
       fullname SP <decimal seconds>[.<microseconds, 1-6 digits, no trailing 0>] SP offset_bytes
   and the independent readers (Rev.parse_commit / Rel.parse_tag for the line,
   [parse_author_line] below + Time.parse_date for its date) give back the
   fullname, (seconds, microseconds) and the offset bytes. *)
From Coq Require Import List NArith ZArith Bool Lia.
From SWH.lib Require Import Bytes Dec DecPad Hex GitHeader Headers CutLast.
From SWH.model Require Import Time Rel Rev.
From SWH.proofs Require Import TimeProofs RelProofs RevProofs.
Import ListNotations.

(* independent reader of an author line, the way git reads an ident line from
   the right: the last space-free word is the offset, the word before it the
   date, the rest (which may itself contain spaces, newlines, "<>") the name *)
Definition parse_author_line (l : bytes) : option (bytes * (Z * Z) * bytes) :=
  match cut_last SP l with
  | Some (a, ob) =>
      match cut_last SP a with
      | Some (fn, txt) => match parse_date txt with Some su => Some (fn, su, ob) | None => None end
      | None => None
      end
  | None => None
  end.

(* what "the line is exact" means, for the person name fn and the date x *)
Definition date_line_exact (fn : bytes) (x : tstz) (line : bytes) : Prop :=
  let s := seconds (ts x) in
  let us := microseconds (ts x) in
  let txt := format_date (ts x) in
  line = fn ++ [SP] ++ txt ++ [SP] ++ offset_bytes x /\
  parse_date txt = Some (s, us) /\
  (us = 0%Z -> txt = dec_Z s) /\
  (us <> 0%Z -> exists frac,
      txt = dec_Z s ++ [DOT] ++ frac /\ frac <> [] /\ forallb is_digit frac = true /\
      last frac 0%N <> ZERO /\ exists k, frac ++ repeat ZERO k = dec_pad 6 (Z.to_N us)) /\
  ~ In SP txt /\
  (~ In SP (offset_bytes x) -> parse_author_line line = Some (fn, (s, us), offset_bytes x)).

Lemma sp_not_in_dec_Z : forall z, ~ In SP (dec_Z z).
Proof. intro z. apply dec_Z_no; [reflexivity | discriminate]. Qed.

Lemma format_date_no_sp : forall s us, (0 <= us < 1000000)%Z -> ~ In SP (format_date (mkTs s us)).
Proof.
  intros s us Hu. destruct (format_date_exact s us Hu) as [_ [E0 [E1 _]]].
  destruct (Z.eq_dec us 0) as [Z0|NZ].
  - rewrite (E0 Z0). apply sp_not_in_dec_Z.
  - destruct (E1 NZ) as [frac [E [_ [DF _]]]]. rewrite E. intro K.
    apply in_app_or in K. destruct K as [K|K]; [exact (sp_not_in_dec_Z s K)|].
    destruct K as [K|K]; [discriminate K|]. revert K. apply digits_not_In; [reflexivity | exact DF].
Qed.

(* the bridge: format_author with a date = fullname, then C16's date part *)
Theorem format_author_exact : forall (p : person) (x : tstz),
  (0 <= microseconds (ts x) < 1000000)%Z ->
  date_line_exact (fullname p) x (format_author p (Some x)).
Proof.
  intros p [[s us] ob] Hu. cbn [ts microseconds] in Hu.
  unfold date_line_exact. cbn [ts seconds microseconds offset_bytes]. cbv zeta.
  destruct (format_date_exact s us Hu) as [P [E0 [E1 _]]].
  pose proof (format_date_no_sp s us Hu) as NS.
  split; [reflexivity|]. split; [exact P|]. split; [exact E0|]. split; [|split; [exact NS|]].
  - intro NZ. destruct (E1 NZ) as [frac [A [B [C [D [_ F]]]]]]. exists frac. repeat split; assumption.
  - intro NO. unfold parse_author_line, format_author, author_date_part. cbn [ts offset_bytes].
    replace (fullname p ++ [SP] ++ format_date (mkTs s us) ++ [SP] ++ ob)
      with ((fullname p ++ [SP] ++ format_date (mkTs s us)) ++ SP :: ob)
      by (rewrite <- !app_assoc; reflexivity).
    rewrite (cut_last_app SP _ ob NO).
    change (fullname p ++ [SP] ++ format_date (mkTs s us)) with (fullname p ++ SP :: format_date (mkTs s us)).
    rewrite (cut_last_app SP _ _ NS). rewrite P. reflexivity.
Qed.

Lemma format_author_no_date : forall p, format_author p None = fullname p.
Proof. intro p. unfold format_author. apply app_nil_r. Qed.

(* ---------------------------------------------------------------- C03: commits *)
Theorem rev_author_date_exact : forall (r : revision),
  (forall a x, v_author r = Some a -> v_date r = Some x ->
     (0 <= microseconds (ts x) < 1000000)%Z ->
     exists line,
       In (bs "author", line) (rev_headers r) /\
       (wf_extra (effective_extra r) = true ->
          option_map c_author (parse_commit (rev_manifest r)) = Some (Some line)) /\
       date_line_exact (fullname a) x line) /\
  (forall c y, v_committer r = Some c -> v_committer_date r = Some y ->
     (0 <= microseconds (ts y) < 1000000)%Z ->
     exists line,
       In (bs "committer", line) (rev_headers r) /\
       (wf_extra (effective_extra r) = true ->
          option_map c_committer (parse_commit (rev_manifest r)) = Some (Some line)) /\
       date_line_exact (fullname c) y line) /\
  (forall a, v_author r = Some a -> v_date r = None -> In (bs "author", fullname a) (rev_headers r)) /\
  (forall c, v_committer r = Some c -> v_committer_date r = None -> In (bs "committer", fullname c) (rev_headers r)).
Proof.
  intro r. split; [|split; [|split]].
  - intros a x Ha Hx Hu. exists (format_author a (Some x)). split; [|split].
    + unfold rev_headers. rewrite Ha, Hx. right. apply in_or_app. right. apply in_or_app. left. left. reflexivity.
    + intro W. rewrite (parse_commit_ok r W). cbn [option_map commit_fields_of c_author].
      unfold author_line. rewrite Ha, Hx. reflexivity.
    + apply format_author_exact. exact Hu.
  - intros c y Hc Hy Hu. exists (format_author c (Some y)). split; [|split].
    + unfold rev_headers. rewrite Hc, Hy. right. apply in_or_app. right. apply in_or_app. right.
      apply in_or_app. left. left. reflexivity.
    + intro W. rewrite (parse_commit_ok r W). cbn [option_map commit_fields_of c_committer].
      unfold committer_line. rewrite Hc, Hy. reflexivity.
    + apply format_author_exact. exact Hu.
  - intros a Ha Hx. unfold rev_headers. rewrite Ha, Hx, format_author_no_date.
    right. apply in_or_app. right. apply in_or_app. left. left. reflexivity.
  - intros c Hc Hy. unfold rev_headers. rewrite Hc, Hy, format_author_no_date.
    right. apply in_or_app. right. apply in_or_app. right. apply in_or_app. left. left. reflexivity.
Qed.

(* ---------------------------------------------------------------- C04: tags *)
Theorem rel_tagger_date_exact : forall (r : release) (t m : bytes),
  r_target r = Some t -> release_git_object r = MOk m ->
  (forall a x, r_author r = Some a -> r_date r = Some x ->
     (0 <= microseconds (ts x) < 1000000)%Z ->
     exists line,
       In (bs "tagger", line) (rel_headers r t) /\
       option_map t_tagger (parse_tag m) = Some (Some line) /\
       date_line_exact (fullname a) x line) /\
  (forall a, r_author r = Some a -> r_date r = None ->
     option_map t_tagger (parse_tag m) = Some (Some (fullname a))) /\
  (r_author r = None -> option_map t_tagger (parse_tag m) = Some None).
Proof.
  intros r t m Ht Hm. rewrite (parse_tag_ok r t m Ht Hm). cbn [option_map t_tagger]. unfold tagger_line.
  split; [|split].
  - intros a x Ha Hx Hu. exists (format_author a (Some x)). split; [|split].
    + unfold rel_headers. rewrite Ha, Hx. apply in_or_app. right. left. reflexivity.
    + rewrite Ha, Hx. reflexivity.
    + apply format_author_exact. exact Hu.
  - intros a Ha Hx. rewrite Ha, Hx, format_author_no_date. reflexivity.
  - intro Ha. rewrite Ha. reflexivity.
Qed.

(* ---------------------------------------------------------------- non-vacuity *)
(* the release example of C04 (date -1.5 s, offset "-0000", a fullname with
   newline and spaces) and the revision example of C03 *)
Example ex_tagger_line :
  exists a x, r_author ex_release = Some a /\ r_date ex_release = Some x /\
    (0 <= microseconds (ts x) < 1000000)%Z /\ ~ In SP (offset_bytes x) /\
    format_author a (Some x) = fullname a ++ [SP] ++ [45; 49; 46; 53]%N ++ [SP] ++ [45; 48; 48; 48; 48]%N /\
    parse_author_line (format_author a (Some x)) = Some (fullname a, ((-1)%Z, 500000%Z), offset_bytes x).
Proof.
  eexists. eexists. split; [reflexivity|]. split; [reflexivity|]. split; [cbn; lia|].
  split; [apply memb_false; vm_compute; reflexivity|]. split; vm_compute; reflexivity.
Qed.
