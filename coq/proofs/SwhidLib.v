(* Generic lemmas about the str primitives of model/Swhid.v: split, cut, span,
   dict, first_some, bounded case analysis, infixes. *)
From Coq Require Import List NArith ZArith Bool Lia Arith.
From SWH.lib Require Import Bytes Dec Hex Utf8 Percent.
From SWH.model Require Import Swhid.
Import ListNotations.
Open Scope N_scope.

(* ---------------------------------------------------------------- bounded case analysis *)
Definition below (n : nat) : list N := map N.of_nat (seq 0 n).

Lemma below_In : forall n c, c < N.of_nat n -> In c (below n).
Proof.
  intros n c H. unfold below. apply in_map_iff. exists (N.to_nat c). split.
  - apply N2Nat.id.
  - apply in_seq. lia.
Qed.

Lemma forall_below : forall (P : N -> bool) n,
  forallb P (below n) = true -> forall c, c < N.of_nat n -> P c = true.
Proof. intros P n H c Hc. rewrite forallb_forall in H. apply H, below_In, Hc. Qed.

(* ---------------------------------------------------------------- is_nil *)
Lemma is_nil_true : forall A (l : list A), is_nil l = true <-> l = [].
Proof. intros A [|x l]; simpl; split; congruence. Qed.
Lemma is_nil_false : forall A (l : list A), is_nil l = false <-> l <> [].
Proof. intros A [|x l]; simpl; split; congruence. Qed.

(* ---------------------------------------------------------------- cut *)
Lemma cut_none_inv : forall c l a, cut c l = (a, None) -> a = l /\ ~ In c l.
Proof.
  induction l as [|x l IH]; intros a H; simpl in H.
  - inversion H. split; [reflexivity | intros []].
  - destruct (N.eqb_spec x c) as [E|E]; [discriminate|].
    destruct (cut c l) as [a' r'] eqn:Ec. inversion H; subst.
    destruct (IH a' eq_refl) as [H1 H2]. subst. split; [reflexivity|].
    intros [Hx|Hx]; [congruence | auto].
Qed.

Lemma memb_app : forall c a b, memb c (a ++ b) = memb c a || memb c b.
Proof. intros. unfold memb. apply existsb_app. Qed.

Lemma not_In_app : forall (c : N) a b, ~ In c (a ++ b) <-> ~ In c a /\ ~ In c b.
Proof. intros. rewrite in_app_iff. tauto. Qed.

(* ---------------------------------------------------------------- split_on / join *)
Definition join (c : N) (ps : list text) : text :=
  match ps with
  | [] => []
  | p :: rest => p ++ flat_map (fun q => c :: q) rest
  end.

Lemma split_on_nonnil : forall c l, split_on c l <> [].
Proof.
  intros c l. destruct l as [|x l]; simpl; [discriminate|].
  destruct (x =? c); [discriminate|]. destruct (split_on c l); discriminate.
Qed.

Lemma split_on_cons_ne : forall c x l, x <> c ->
  split_on c (x :: l) = match split_on c l with p :: ps => (x :: p) :: ps | [] => [[x]] end.
Proof. intros c x l H. simpl. apply N.eqb_neq in H. rewrite H. reflexivity. Qed.

Lemma split_on_no_sep : forall c p, ~ In c p -> split_on c p = [p].
Proof.
  induction p as [|x p IH]; intro H; [reflexivity|].
  rewrite split_on_cons_ne by (intro E; apply H; left; exact E).
  rewrite IH by (intro Hin; apply H; right; exact Hin). reflexivity.
Qed.

Lemma split_on_app_sep : forall c p l, ~ In c p -> split_on c (p ++ c :: l) = p :: split_on c l.
Proof.
  induction p as [|x p IH]; intros l H.
  - simpl. rewrite N.eqb_refl. reflexivity.
  - simpl app. rewrite split_on_cons_ne by (intro E; apply H; left; exact E).
    rewrite IH by (intro Hin; apply H; right; exact Hin). reflexivity.
Qed.

Lemma split_on_join : forall c p ps, (forall q, In q (p :: ps) -> ~ In c q) ->
  split_on c (join c (p :: ps)) = p :: ps.
Proof.
  intros c p ps. revert p. induction ps as [|q ps IH]; intros p H.
  - simpl. rewrite app_nil_r. apply split_on_no_sep. apply H. left. reflexivity.
  - simpl join. simpl flat_map. rewrite split_on_app_sep by (apply H; left; reflexivity).
    f_equal. apply (IH q). intros r Hr. apply H. right. exact Hr.
Qed.

Lemma join_split_on : forall c l, join c (split_on c l) = l.
Proof.
  induction l as [|x l IH]; [reflexivity|].
  simpl split_on. destruct (N.eqb_spec x c) as [E|E].
  - subst. simpl. destruct (split_on c l) as [|p ps] eqn:Es.
    + exfalso. exact (split_on_nonnil c l Es).
    + simpl in IH. simpl. rewrite IH. reflexivity.
  - destruct (split_on c l) as [|p ps] eqn:Es.
    + exfalso. exact (split_on_nonnil c l Es).
    + simpl in *. rewrite IH. reflexivity.
Qed.

Lemma split_on_pieces_no_sep : forall c l q, In q (split_on c l) -> ~ In c q.
Proof.
  induction l as [|x l IH]; intros q H.
  - simpl in H. destruct H as [H|[]]. subst. intros [].
  - simpl in H. destruct (N.eqb_spec x c) as [E|E].
    + destruct H as [H|H]; [subst; intros [] | apply IH; exact H].
    + destruct (split_on c l) as [|p ps] eqn:Es.
      * exfalso. exact (split_on_nonnil c l Es).
      * destruct H as [H|H].
        -- subst. intros [Hx|Hx]; [congruence|]. apply (IH p); [left; reflexivity | exact Hx].
        -- apply IH. right. exact H.
Qed.

(* ---------------------------------------------------------------- infix *)
Definition infix (a s : text) : Prop := exists x y, s = x ++ a ++ y.

Lemma infix_refl : forall a, infix a a.
Proof. intro a. exists [], []. simpl. rewrite app_nil_r. reflexivity. Qed.

Lemma infix_trans : forall a b c, infix a b -> infix b c -> infix a c.
Proof.
  intros a b c [x [y H1]] [x' [y' H2]]. subst. exists (x' ++ x), (y ++ y').
  rewrite <- !app_assoc. reflexivity.
Qed.

Lemma infix_app_l : forall a x s, infix a s -> infix a (x ++ s).
Proof. intros a x s [u [v H]]. subst. exists (x ++ u), v. rewrite <- app_assoc. reflexivity. Qed.
Lemma infix_app_r : forall a y s, infix a s -> infix a (s ++ y).
Proof. intros a y s [u [v H]]. subst. exists u, (v ++ y). rewrite <- !app_assoc. reflexivity. Qed.
Lemma infix_cons : forall a x s, infix a s -> infix a (x :: s).
Proof. intros a x s H. apply (infix_app_l a [x] s H). Qed.

Lemma infix_join : forall c ps q, In q ps -> infix q (join c ps).
Proof.
  intros c ps q H. destruct ps as [|p rest]; [destruct H|]. simpl.
  destruct H as [H|H].
  - subst. apply infix_app_r, infix_refl.
  - apply infix_app_l. induction rest as [|r rest IH]; [destruct H|].
    simpl. destruct H as [H|H].
    + subst. apply infix_cons, infix_app_r, infix_refl.
    + apply infix_cons, infix_app_l, IH, H.
Qed.

Lemma infix_split_on : forall c l q, In q (split_on c l) -> infix q l.
Proof. intros c l q H. rewrite <- (join_split_on c l). apply infix_join, H. Qed.

Lemma infix_cut : forall c l a b, cut c l = (a, Some b) -> infix a l /\ infix b l.
Proof.
  intros c l a b H. apply cut_some_inv in H. destruct H as [H _]. subst. split.
  - apply infix_app_r, infix_refl.
  - apply infix_app_l, infix_cons, infix_refl.
Qed.

(* ---------------------------------------------------------------- span *)
Lemma span_spec : forall p l a r, span p l = (a, r) ->
  l = a ++ r /\ forallb p a = true /\ match r with [] => True | x :: _ => p x = false end.
Proof.
  induction l as [|x l IH]; intros a r H; simpl in H.
  - inversion H. repeat split.
  - destruct (p x) eqn:Px.
    + destruct (span p l) as [a' r'] eqn:Es. inversion H; subst.
      destruct (IH a' r eq_refl) as [H1 [H2 H3]]. subst. simpl. rewrite Px, H2. repeat split. exact H3.
    + inversion H; subst. repeat split. exact Px.
Qed.

Lemma span_all : forall p a r, forallb p a = true -> match r with [] => True | x :: _ => p x = false end ->
  span p (a ++ r) = (a, r).
Proof.
  induction a as [|x a IH]; intros r Ha Hr.
  - simpl. destruct r as [|y r]; [reflexivity|]. simpl. rewrite Hr. reflexivity.
  - simpl in Ha. apply andb_true_iff in Ha. destruct Ha as [Hx Ha]. simpl. rewrite Hx, (IH r Ha Hr). reflexivity.
Qed.

(* ---------------------------------------------------------------- first_some *)
Lemma first_some_inv : forall A B (f : A -> option B) l y,
  first_some f l = Some y -> exists x, In x l /\ f x = Some y.
Proof.
  induction l as [|x l IH]; intros y H; simpl in H; [discriminate|].
  destruct (f x) eqn:E.
  - inversion H; subst. exists x. split; [left; reflexivity | exact E].
  - destruct (IH y H) as [x' [H1 H2]]. exists x'. split; [right; exact H1 | exact H2].
Qed.

Lemma first_some_unique : forall A B (f : A -> option B) l t y,
  (forall x z, In x l -> f x = Some z -> x = t) -> In t l -> f t = Some y -> first_some f l = Some y.
Proof.
  induction l as [|x l IH]; intros t y Hu Hin Hf; [destruct Hin|].
  simpl. destruct (f x) eqn:E.
  - assert (x = t) by (apply (Hu x b); [left; reflexivity | exact E]). subst. congruence.
  - destruct Hin as [Hin|Hin]; [subst; congruence|].
    apply (IH t y); auto. intros x' z Hx' Hz. apply (Hu x' z); [right; exact Hx' | exact Hz].
Qed.

Lemma first_some_none : forall A B (f : A -> option B) l,
  first_some f l = None -> forall x, In x l -> f x = None.
Proof.
  induction l as [|x l IH]; intros H y Hy; [destruct Hy|].
  simpl in H. destruct (f x) eqn:E; [discriminate|]. destruct Hy as [Hy|Hy]; [subst; exact E | apply IH; assumption].
Qed.

(* ---------------------------------------------------------------- dict *)
Lemma dict_get_fold : forall k d acc,
  fold_left (fun acc kv => if beqb (fst kv) k then Some (snd kv) else acc) d acc =
  match dict_get k d with Some x => Some x | None => acc end.
Proof.
  intros k d. unfold dict_get. induction d as [|[k' v'] d IH]; intro acc; simpl; [reflexivity|].
  rewrite IH. rewrite (IH (if beqb k' k then Some v' else None)).
  destruct (fold_left _ d None); [reflexivity|]. destruct (beqb k' k); reflexivity.
Qed.

Lemma dict_get_cons : forall k k' v' d,
  dict_get k ((k', v') :: d) =
  match dict_get k d with Some x => Some x | None => if beqb k' k then Some v' else None end.
Proof. intros. unfold dict_get at 1. simpl. apply dict_get_fold. Qed.

Lemma dict_get_app1 : forall k d k' v',
  dict_get k (d ++ [(k', v')]) = if beqb k' k then Some v' else dict_get k d.
Proof. intros. unfold dict_get. rewrite fold_left_app. reflexivity. Qed.

Lemma dict_get_in_keys : forall k d v, dict_get k d = Some v -> In k (map fst d).
Proof.
  induction d as [|[k' v'] d IH]; intros v H; [discriminate|].
  rewrite dict_get_cons in H. destruct (dict_get k d) eqn:E.
  - right. apply (IH t). reflexivity.
  - destruct (beqb k' k) eqn:B; [|discriminate]. apply beqb_eq in B. left. exact B.
Qed.

(* the last entry for key k, computed from the front *)
Lemma dict_get_filter_last : forall k d,
  dict_get k d = match filter (fun kv => beqb (fst kv) k) d with
                 | [] => None
                 | kvs => Some (snd (last kvs ([], [])))
                 end.
Proof.
  induction d as [|[k' v'] d IH]; [reflexivity|].
  rewrite dict_get_cons, IH. cbn [filter fst]. 
  match goal with |- context [filter ?f d] => generalize (filter f d) end. intro fl.
  destruct (beqb k' k); destruct fl as [|p fl]; reflexivity.
Qed.

(* ---------------------------------------------------------------- flat_map / replace *)
Lemma flat_map_flat_map : forall A B C (f : A -> list B) (g : B -> list C) l,
  flat_map g (flat_map f l) = flat_map (fun x => flat_map g (f x)) l.
Proof.
  induction l as [|x l IH]; [reflexivity|]. simpl. rewrite flat_map_app, IH. reflexivity.
Qed.

Lemma flat_map_ext_in : forall A B (f g : A -> list B) l,
  (forall x, In x l -> f x = g x) -> flat_map f l = flat_map g l.
Proof.
  induction l as [|x l IH]; intro H; [reflexivity|]. simpl.
  rewrite (H x) by (left; reflexivity). rewrite IH; [reflexivity|]. intros y Hy. apply H. right. exact Hy.
Qed.

Lemma forallb_flat_map : forall A B (p : B -> bool) (f : A -> list B) l,
  forallb p (flat_map f l) = forallb (fun x => forallb p (f x)) l.
Proof.
  induction l as [|x l IH]; [reflexivity|]. simpl. rewrite forallb_app, IH. reflexivity.
Qed.

Lemma forallb_not_In : forall (p : N -> bool) c l, forallb p l = true -> p c = false -> ~ In c l.
Proof. intros p c l H Hc Hin. rewrite forallb_forall in H. apply H in Hin. congruence. Qed.

Lemma forallb_imp : forall (p q : N -> bool) l, (forall c, p c = true -> q c = true) ->
  forallb p l = true -> forallb q l = true.
Proof.
  intros p q l H Hp. rewrite forallb_forall in *. intros x Hx. apply H, Hp, Hx.
Qed.

Lemma forallb_infix : forall (p : N -> bool) a s, infix a s -> forallb p s = true -> forallb p a = true.
Proof.
  intros p a s [x [y H]] Hs. subst. rewrite !forallb_app in Hs.
  apply andb_true_iff in Hs. destruct Hs as [_ Hs]. apply andb_true_iff in Hs. tauto.
Qed.

Lemma infix_In : forall c a s, infix a s -> In c a -> In c s.
Proof. intros c a s [x [y H]] Hc. subst. rewrite !in_app_iff. tauto. Qed.
