(* An executable SHA-1 (FIPS 180-4) on byte lists, used ONLY as an instance of
   the hash oracle when the model is run (correspondence check); no theorem
   depends on it: all theorems are stated for an arbitrary hash function. *)
From Coq Require Import List NArith Bool.
From SWH.lib Require Import Bytes.
Import ListNotations.
Open Scope N_scope.

Definition mask32 : N := 4294967295.
Definition add32 (a b : N) : N := N.land (a + b) mask32.
Definition rotl (k : N) (x : N) : N :=
  N.land (N.lor (N.shiftl x k) (N.shiftr x (32 - k))) mask32.
Definition not32 (x : N) : N := N.lxor x mask32.

Definition word_of (b0 b1 b2 b3 : N) : N :=
  N.lor (N.shiftl b0 24) (N.lor (N.shiftl b1 16) (N.lor (N.shiftl b2 8) b3)).

Fixpoint words_of (l : bytes) : list N :=
  match l with
  | b0 :: b1 :: b2 :: b3 :: r => word_of b0 b1 b2 b3 :: words_of r
  | _ => []
  end.

Record st := { h0 : N; h1 : N; h2 : N; h3 : N; h4 : N }.

Definition st_init : st :=
  {| h0 := 1732584193; h1 := 4023233417; h2 := 2562383102; h3 := 271733878; h4 := 3285377520 |}.

(* w: the 16-word window w[t..t+15] *)
Fixpoint rounds (t : nat) (i : N) (w : list N) (a b c d e : N) : N * N * N * N * N :=
  match t with
  | O => (a, b, c, d, e)
  | S t' =>
      match w with
      | [] => (a, b, c, d, e)
      | w0 :: rest =>
          let '(f, k) :=
            if i <? 20 then (N.lor (N.land b c) (N.land (not32 b) d), 1518500249)
            else if i <? 40 then (N.lxor (N.lxor b c) d, 1859775393)
            else if i <? 60 then (N.lor (N.lor (N.land b c) (N.land b d)) (N.land c d), 2400959708)
            else (N.lxor (N.lxor b c) d, 3395469782) in
          let temp := add32 (add32 (add32 (add32 (rotl 5 a) f) e) k) w0 in
          let wnew := rotl 1 (N.lxor (N.lxor (N.lxor (nth 13 w 0) (nth 8 w 0)) (nth 2 w 0)) w0) in
          rounds t' (i + 1) (rest ++ [wnew]) temp a (rotl 30 b) c d
      end
  end.

Definition compress (s : st) (block : bytes) : st :=
  let '(a, b, c, d, e) := rounds 80 0 (words_of block) (h0 s) (h1 s) (h2 s) (h3 s) (h4 s) in
  {| h0 := add32 (h0 s) a; h1 := add32 (h1 s) b; h2 := add32 (h2 s) c;
     h3 := add32 (h3 s) d; h4 := add32 (h4 s) e |}.

Fixpoint blocks (fuel : nat) (l : bytes) (s : st) : st :=
  match fuel with
  | O => s
  | S f => match l with
           | [] => s
           | _ => blocks f (skipn 64 l) (compress s (firstn 64 l))
           end
  end.

Definition be_bytes (k : nat) (x : N) : bytes :=
  (fix go (k : nat) (x : N) (acc : bytes) : bytes :=
     match k with O => acc | S k' => go k' (N.shiftr x 8) (N.land x 255 :: acc) end) k x [].

Definition pad (l : bytes) : bytes :=
  let n := N.of_nat (length l) in
  let k := (119 - n mod 64) mod 64 in   (* zero bytes so that n + 1 + k = 56 mod 64 *)
  l ++ [128] ++ repeat 0 (N.to_nat k) ++ be_bytes 8 (8 * n).

Definition sha1 (l : bytes) : bytes :=
  let p := pad l in
  let s := blocks (S (Nat.div (length p) 64)) p st_init in
  be_bytes 4 (h0 s) ++ be_bytes 4 (h1 s) ++ be_bytes 4 (h2 s) ++ be_bytes 4 (h3 s) ++ be_bytes 4 (h4 s).

(* FIPS test vectors *)
From SWH.lib Require Import Hex.
Example sha1_abc : hexlify (sha1 (bs "abc")) = bs "a9993e364706816aba3e25717850c26c9cd0d89d".
Proof. vm_compute. reflexivity. Qed.
Example sha1_empty : hexlify (sha1 []) = bs "da39a3ee5e6b4b0d3255bfef95601890afd80709".
Proof. vm_compute. reflexivity. Qed.
Example sha1_two_blocks :
  hexlify (sha1 (bs "abcdbcdecdefdefgefghfghighijhijkijkljklmklmnlmnomnopnopq"))
  = bs "84983e441c3bd26ebaae4aa1f95129e5e54670f1".
Proof. vm_compute. reflexivity. Qed.
