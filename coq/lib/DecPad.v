(* Extra decimal facts on top of lib/Dec.v, needed by C16:
   - [dval], the positional (Horner) value of a run of ASCII digits, and its
     agreement with [parse_dec_N] (= Python int() on a digit run, leading
     zeros allowed);
   - width of [dec_N n] / [dec_pad k n] ("%0kd") for n < 10^k;
   - [rstrip0] = Python  s.rstrip("0")  and how it acts on  x ++ "." ++ digits. *)
From Coq Require Import List NArith ZArith Bool Lia Arith Decimal DecimalN DecimalPos DecimalFacts.
From SWH.lib Require Import Bytes Dec.
Import ListNotations.
Open Scope N_scope.

(* ------------------------------------------------------------------ Horner value *)
Definition dstep (a b : N) : N := 10 * a + (b - 48).
Definition dval_acc (l : bytes) (a : N) : N := fold_left dstep l a.
Definition dval (l : bytes) : N := dval_acc l 0.

Fixpoint uval (d : uint) (a : N) : N :=
  match d with
  | Nil => a
  | D0 d => uval d (10 * a) | D1 d => uval d (10 * a + 1) | D2 d => uval d (10 * a + 2)
  | D3 d => uval d (10 * a + 3) | D4 d => uval d (10 * a + 4) | D5 d => uval d (10 * a + 5)
  | D6 d => uval d (10 * a + 6) | D7 d => uval d (10 * a + 7) | D8 d => uval d (10 * a + 8)
  | D9 d => uval d (10 * a + 9)
  end.

Lemma of_uint_acc_uval : forall d acc, Npos (Pos.of_uint_acc d acc) = uval d (Npos acc).
Proof.
  induction d as [|d IH|d IH|d IH|d IH|d IH|d IH|d IH|d IH|d IH|d IH]; intro acc;
    cbn [Pos.of_uint_acc uval]; [reflexivity|..]; rewrite IH; f_equal; lia.
Qed.

Lemma of_uint_uval : forall d, N.of_uint d = uval d 0.
Proof.
  unfold N.of_uint.
  induction d as [|d IH|d IH|d IH|d IH|d IH|d IH|d IH|d IH|d IH|d IH];
    cbn [Pos.of_uint uval]; [reflexivity | exact IH |..]; rewrite of_uint_acc_uval; f_equal.
Qed.

Lemma is_digit_cases : forall b, is_digit b = true ->
  b = 48 \/ b = 49 \/ b = 50 \/ b = 51 \/ b = 52 \/ b = 53 \/ b = 54 \/ b = 55 \/ b = 56 \/ b = 57.
Proof.
  intros b H. unfold is_digit in H. apply andb_true_iff in H. destruct H as [H1 H2].
  apply N.leb_le in H1. apply N.leb_le in H2. lia.
Qed.

Lemma bytes_uint_uval : forall l d a, bytes_uint l = Some d -> uval d a = dval_acc l a.
Proof.
  induction l as [|b l IH]; intros d a H; cbn [bytes_uint] in H.
  - inversion H; subst. reflexivity.
  - destruct (is_digit b) eqn:Hb; [|discriminate].
    destruct (bytes_uint l) as [d'|] eqn:E; [|discriminate]. cbn [option_map] in H.
    inversion H; subst d. unfold dval_acc. cbn [fold_left]. fold (dval_acc l (dstep a b)).
    rewrite <- (IH d' (dstep a b) eq_refl). unfold dstep.
    destruct (is_digit_cases b Hb) as [->|[->|[->|[->|[->|[->|[->|[->|[->| ->]]]]]]]]];
      cbn [mkD uval]; f_equal; lia.
Qed.

Lemma bytes_uint_digits : forall l, forallb is_digit l = true -> exists d, bytes_uint l = Some d.
Proof.
  induction l as [|b l IH]; intro H; cbn [bytes_uint].
  - eexists; reflexivity.
  - cbn [forallb] in H. apply andb_true_iff in H. destruct H as [Hb Hl].
    rewrite Hb. destruct (IH Hl) as [d E]. rewrite E. eexists; reflexivity.
Qed.

(* int(l) on a non-empty run of ASCII digits is its positional value *)
Lemma parse_dec_N_dval : forall l, l <> [] -> forallb is_digit l = true ->
  parse_dec_N l = Some (dval l).
Proof.
  intros l Hne Hd. destruct (bytes_uint_digits l Hd) as [d E].
  unfold parse_dec_N. destruct l as [|b l]; [congruence|]. rewrite E. cbn [option_map].
  f_equal. rewrite of_uint_uval. apply bytes_uint_uval. exact E.
Qed.

Lemma bytes_uint_some_digits : forall l d, bytes_uint l = Some d -> forallb is_digit l = true.
Proof.
  induction l as [|x m IH]; intros d H; [reflexivity|]. cbn [bytes_uint] in H. cbn [forallb].
  destruct (is_digit x); [|discriminate]. destruct (bytes_uint m) as [d'|] eqn:E; [|discriminate].
  exact (IH d' eq_refl).
Qed.

Lemma parse_dec_N_digits : forall l n, parse_dec_N l = Some n -> l <> [] /\ forallb is_digit l = true.
Proof.
  intros l n H. unfold parse_dec_N in H. destruct l as [|b l]; [discriminate|].
  split; [discriminate|]. destruct (bytes_uint (b :: l)) as [d|] eqn:E; [|discriminate].
  exact (bytes_uint_some_digits _ _ E).
Qed.

Lemma dval_acc_spec : forall l a, dval_acc l a = a * 10 ^ N.of_nat (length l) + dval l.
Proof.
  induction l as [|b l IH]; intro a.
  - unfold dval, dval_acc. cbn [fold_left length]. change (N.of_nat 0) with 0. rewrite N.pow_0_r. lia.
  - unfold dval, dval_acc. cbn [fold_left length]. fold (dval_acc l (dstep a b)) (dval_acc l (dstep 0 b)).
    rewrite (IH (dstep a b)), (IH (dstep 0 b)). rewrite Nat2N.inj_succ, N.pow_succ_r'.
    unfold dstep. lia.
Qed.

Lemma dval_cons : forall b l, dval (b :: l) = (b - 48) * 10 ^ N.of_nat (length l) + dval l.
Proof.
  intros b l. unfold dval at 1. unfold dval_acc. cbn [fold_left]. fold (dval_acc l (dstep 0 b)).
  rewrite dval_acc_spec. unfold dstep. lia.
Qed.

Lemma dval_app : forall x y, dval (x ++ y) = dval x * 10 ^ N.of_nat (length y) + dval y.
Proof.
  intros x y. unfold dval at 1. unfold dval_acc. rewrite fold_left_app.
  fold (dval_acc x 0). fold (dval x). fold (dval_acc y (dval x)). apply dval_acc_spec.
Qed.

Lemma dval_zeros : forall k, dval (repeat 48 k) = 0.
Proof.
  induction k as [|k IH]; [reflexivity|]. cbn [repeat]. rewrite dval_cons, IH. lia.
Qed.

Lemma dval_lt : forall l, forallb is_digit l = true -> dval l < 10 ^ N.of_nat (length l).
Proof.
  induction l as [|b l IH]; intro H.
  - cbn. lia.
  - cbn [forallb] in H. apply andb_true_iff in H. destruct H as [Hb Hl].
    rewrite dval_cons. cbn [length]. rewrite Nat2N.inj_succ, N.pow_succ_r'.
    specialize (IH Hl). unfold is_digit in Hb. apply andb_true_iff in Hb. destruct Hb as [H1 H2].
    apply N.leb_le in H1. apply N.leb_le in H2. nia.
Qed.

Lemma dval_dec_N : forall n, dval (dec_N n) = n.
Proof.
  intro n. pose proof (parse_dec_N_dec_N n) as H.
  rewrite (parse_dec_N_dval _ (dec_N_nonempty n) (dec_N_digits n)) in H. congruence.
Qed.

(* ------------------------------------------------------------------ width of dec_N *)
Lemma to_uint_normal : forall n, unorm (N.to_uint n) = N.to_uint n.
Proof.
  intro n. rewrite <- (DecimalN.Unsigned.to_of (N.to_uint n)). rewrite DecimalN.Unsigned.of_to. reflexivity.
Qed.

Lemma to_uint_head_nonzero : forall n d, n <> 0 -> N.to_uint n <> D0 d.
Proof.
  intros n d Hn E. pose proof (to_uint_normal n) as U. rewrite E in U.
  unfold unorm in U. destruct (nzhead (D0 d)) eqn:Z; try discriminate U.
  - (* all zeros: unorm = zero = D0 Nil *)
    inversion U; subst d. apply Hn. apply DecimalN.Unsigned.to_uint_inj. rewrite E. reflexivity.
  - exact (nzhead_nonzero _ _ Z).
Qed.

Lemma dec_N_head_nonzero : forall n, n <> 0 ->
  exists b l, dec_N n = b :: l /\ is_digit b = true /\ b <> 48.
Proof.
  intros n Hn. destruct (dec_N_head_digit n) as [b [l [E D]]]. exists b, l.
  split; [exact E|]. split; [exact D|]. intro Hb. subst b.
  unfold dec_N in E. destruct (N.to_uint n) as [|d|d|d|d|d|d|d|d|d|d] eqn:T; cbn [uint_bytes] in E;
    try discriminate E.
  exact (to_uint_head_nonzero n d Hn T).
Qed.

(* a number below 10^k prints in at most k digits (k >= 1 because "0" has one) *)
Lemma dec_N_length_le : forall k n, (1 <= k)%nat -> n < 10 ^ N.of_nat k -> (length (dec_N n) <= k)%nat.
Proof.
  intros k n Hk Hn. destruct (N.eq_dec n 0) as [->|Hn0].
  - cbn. exact Hk.
  - destruct (dec_N_head_nonzero n Hn0) as [b [l [E [Db Hb]]]].
    pose proof (dval_dec_N n) as V. rewrite E in V. rewrite dval_cons in V. rewrite E. cbn [length].
    destruct (le_lt_dec k (length l)) as [Hge|Hlt]; [|lia]. exfalso.
    assert (P : 10 ^ N.of_nat k <= 10 ^ N.of_nat (length l)) by (apply N.pow_le_mono_r; lia).
    unfold is_digit in Db. apply andb_true_iff in Db. destruct Db as [H1 _]. apply N.leb_le in H1.
    assert (1 <= b - 48) by lia. nia.
Qed.

Lemma dec_pad_length_ge : forall k n, (k <= length (dec_pad k n))%nat.
Proof. intros k n. unfold dec_pad. cbv zeta. rewrite app_length, repeat_length. lia. Qed.

(* "%0kd" % n has exactly k characters when n < 10^k *)
Lemma dec_pad_length : forall k n, (1 <= k)%nat -> n < 10 ^ N.of_nat k -> length (dec_pad k n) = k.
Proof.
  intros k n Hk Hn. pose proof (dec_N_length_le k n Hk Hn) as L.
  unfold dec_pad. cbv zeta. rewrite app_length, repeat_length. lia.
Qed.

Lemma repeat_digits : forall k, forallb is_digit (repeat 48 k) = true.
Proof. induction k; [reflexivity|]. cbn [repeat forallb]. rewrite IHk. reflexivity. Qed.

Lemma dec_pad_digits : forall k n, forallb is_digit (dec_pad k n) = true.
Proof.
  intros k n. unfold dec_pad. cbv zeta. rewrite forallb_app, repeat_digits, dec_N_digits. reflexivity.
Qed.

Lemma dec_pad_nonempty : forall k n, dec_pad k n <> [].
Proof.
  intros k n H. unfold dec_pad in H. cbv zeta in H. apply app_eq_nil in H. destruct H as [_ H].
  exact (dec_N_nonempty n H).
Qed.

Lemma dval_dec_pad : forall k n, dval (dec_pad k n) = n.
Proof.
  intros k n. unfold dec_pad. cbv zeta. rewrite dval_app, dval_zeros, dval_dec_N. lia.
Qed.

(* int("%0kd" % n) = n : leading zeros are accepted and change nothing *)
Lemma parse_dec_N_dec_pad : forall k n, parse_dec_N (dec_pad k n) = Some n.
Proof.
  intros k n. rewrite (parse_dec_N_dval _ (dec_pad_nonempty k n) (dec_pad_digits k n)).
  rewrite dval_dec_pad. reflexivity.
Qed.

(* ------------------------------------------------------------------ rstrip("0") *)
Fixpoint rstrip0 (l : bytes) : bytes :=
  match l with
  | [] => []
  | x :: l' => match rstrip0 l' with
               | [] => if N.eqb x 48 then [] else [x]
               | r => x :: r
               end
  end.

(* what is removed is a run of zeros, and only that *)
Lemma rstrip0_spec : forall l, exists k, l = rstrip0 l ++ repeat 48 k.
Proof.
  induction l as [|x l [k IH]].
  - exists 0%nat. reflexivity.
  - cbn [rstrip0]. destruct (rstrip0 l) as [|y r] eqn:E.
    + destruct (N.eqb_spec x 48) as [->|Hx].
      * exists (S k). cbn [List.app repeat]. f_equal. exact IH.
      * exists k. cbn [List.app]. f_equal. exact IH.
    + exists k. cbn [List.app]. f_equal. exact IH.
Qed.

(* what is left does not end with a zero *)
Lemma rstrip0_last : forall l, rstrip0 l <> [] -> last (rstrip0 l) 0 <> 48.
Proof.
  induction l as [|x l IH]; intro H; [exfalso; apply H; reflexivity|].
  cbn [rstrip0] in *. destruct (rstrip0 l) as [|y r] eqn:E.
  - destruct (N.eqb_spec x 48) as [->|Hx]; [congruence|]. cbn. exact Hx.
  - assert (Hyr : y :: r <> []) by discriminate. specialize (IH Hyr).
    change (last (x :: y :: r) 0) with (last (y :: r) 0). exact IH.
Qed.

Lemma rstrip0_idem_nonzero_last : forall l, l <> [] -> last l 0 <> 48 -> rstrip0 l = l.
Proof.
  induction l as [|x l IH]; intros Hne Hl; [congruence|].
  cbn [rstrip0]. destruct l as [|y l'].
  - cbn in *. destruct (N.eqb_spec x 48); congruence.
  - assert (Hyl : y :: l' <> []) by discriminate.
    change (last (x :: y :: l') 0) with (last (y :: l') 0) in Hl.
    rewrite (IH Hyl Hl). reflexivity.
Qed.

(* stripping stops inside y as soon as y keeps something *)
Lemma rstrip0_app_keep : forall x y, rstrip0 y <> [] -> rstrip0 (x ++ y) = x ++ rstrip0 y.
Proof.
  induction x as [|a x IH]; intros y H; [reflexivity|].
  cbn [List.app rstrip0]. rewrite (IH y H). destruct (x ++ rstrip0 y) eqn:E; [|reflexivity].
  apply app_eq_nil in E. destruct E as [_ E]. congruence.
Qed.

Lemma rstrip0_nil_dval : forall l, rstrip0 l = [] -> dval l = 0.
Proof.
  intros l H. destruct (rstrip0_spec l) as [k E]. rewrite H in E. cbn [List.app] in E.
  rewrite E. apply dval_zeros.
Qed.

Lemma rstrip0_digits : forall l, forallb is_digit l = true -> forallb is_digit (rstrip0 l) = true.
Proof.
  intros l H. destruct (rstrip0_spec l) as [k E]. rewrite E in H. rewrite forallb_app in H.
  apply andb_true_iff in H. tauto.
Qed.

Lemma rstrip0_length : forall l, (length (rstrip0 l) <= length l)%nat.
Proof.
  intro l. destruct (rstrip0_spec l) as [k E]. rewrite E at 2. rewrite app_length. lia.
Qed.

(* value of the kept part, re-scaled, is the value of the whole *)
Lemma rstrip0_dval : forall l,
  dval l = dval (rstrip0 l) * 10 ^ N.of_nat (length l - length (rstrip0 l)).
Proof.
  intro l. destruct (rstrip0_spec l) as [k E]. rewrite E at 1 3.
  rewrite dval_app, dval_zeros, app_length, repeat_length.
  replace (length (rstrip0 l) + k - length (rstrip0 l))%nat with k by lia. lia.
Qed.
