(* Python's sorted(key=...) as a stable insertion sort, generic in a boolean
   total preorder [leb] on the elements (in uses: leb x y := bleb (key x) (key y)). *)
From Coq Require Import List Bool Permutation Sorted Lia.
Import ListNotations.

Section Sort.
  Context {A : Type}.
  Variable leb : A -> A -> bool.

  Fixpoint insert (x : A) (l : list A) : list A :=
    match l with
    | [] => [x]
    | y :: l' => if leb x y then x :: y :: l' else y :: insert x l'
    end.

  Fixpoint sort (l : list A) : list A :=
    match l with
    | [] => []
    | x :: l' => insert x (sort l')
    end.

  Lemma insert_perm : forall x l, Permutation (insert x l) (x :: l).
  Proof.
    induction l as [|y l IH]; simpl; [reflexivity|].
    destruct (leb x y); [reflexivity|].
    rewrite IH. apply perm_swap.
  Qed.

  Lemma sort_perm : forall l, Permutation (sort l) l.
  Proof.
    induction l as [|x l IH]; simpl; [reflexivity|].
    rewrite insert_perm. constructor. exact IH.
  Qed.

  Lemma sort_length : forall l, length (sort l) = length l.
  Proof. intro l. apply Permutation_length, sort_perm. Qed.

  Lemma sort_In : forall x l, In x (sort l) <-> In x l.
  Proof.
    intros x l. split; apply Permutation_in; [apply sort_perm | apply Permutation_sym, sort_perm].
  Qed.

  Hypothesis leb_total : forall x y, leb x y = true \/ leb y x = true.
  Hypothesis leb_trans : forall x y z, leb x y = true -> leb y z = true -> leb x z = true.

  Definition le (x y : A) : Prop := leb x y = true.

  Lemma insert_sorted : forall x l, StronglySorted le l -> StronglySorted le (insert x l).
  Proof.
    induction l as [|y l IH]; intro H; simpl.
    - constructor; constructor.
    - destruct (leb x y) eqn:E.
      + constructor; [exact H|]. constructor; [exact E|].
        inversion H as [|? ? Hs Hf]; subst. rewrite Forall_forall in *. intros z Hz.
        eapply leb_trans; [exact E | apply Hf; exact Hz].
      + inversion H as [|? ? Hs Hf]; subst. constructor; [apply IH; exact Hs|].
        rewrite Forall_forall in *. intros z Hz.
        apply (Permutation_in _ (insert_perm x l)) in Hz. destruct Hz as [Hz|Hz].
        * subst. destruct (leb_total y z) as [T|T]; [exact T | congruence].
        * apply Hf. exact Hz.
  Qed.

  Lemma sort_sorted : forall l, StronglySorted le (sort l).
  Proof. induction l as [|x l IH]; simpl; [constructor | apply insert_sorted; exact IH]. Qed.

  (* two strongly sorted permutations of each other are equal when leb is
     antisymmetric on their elements *)
  Lemma sorted_unique : forall l l',
    (forall x y, In x l -> In y l -> leb x y = true -> leb y x = true -> x = y) ->
    Permutation l l' -> StronglySorted le l -> StronglySorted le l' -> l = l'.
  Proof.
    induction l as [|x l IH]; intros l' Has Hp Hs Hs'.
    - apply Permutation_nil in Hp. congruence.
    - destruct l' as [|y l']; [apply Permutation_sym, Permutation_nil in Hp; discriminate|].
      assert (x = y) as ->.
      { inversion Hs as [|? ? Hs1 Hf1]; inversion Hs' as [|? ? Hs2 Hf2]; subst.
        rewrite Forall_forall in *.
        assert (Hy : In y (x :: l)) by (apply (Permutation_in _ (Permutation_sym Hp)); left; reflexivity).
        assert (Hx : In x (y :: l')) by (apply (Permutation_in _ Hp); left; reflexivity).
        destruct Hy as [Hy|Hy]; [congruence|]. destruct Hx as [Hx|Hx]; [congruence|].
        apply Has; [left; reflexivity | right; exact Hy | apply Hf1; exact Hy | apply Hf2; exact Hx]. }
      f_equal. apply IH.
      + intros a b Ha Hb. apply Has; right; assumption.
      + eapply Permutation_cons_inv. exact Hp.
      + inversion Hs; assumption.
      + inversion Hs'; assumption.
  Qed.

  Theorem sort_perm_eq : forall l l',
    (forall x y, In x l -> In y l -> leb x y = true -> leb y x = true -> x = y) ->
    Permutation l l' -> sort l = sort l'.
  Proof.
    intros l l' Has Hp. apply sorted_unique.
    - intros x y Hx Hy. apply Has; apply sort_In; assumption.
    - rewrite sort_perm. rewrite Hp. apply Permutation_sym, sort_perm.
    - apply sort_sorted.
    - apply sort_sorted.
  Qed.

  (* a list that is already strongly sorted is left unchanged *)
  Lemma insert_head : forall x l, Forall (le x) l -> insert x l = x :: l.
  Proof.
    intros x [|y l] H; simpl; [reflexivity|]. inversion H; subst. unfold le in *.
    match goal with h : leb x y = true |- _ => rewrite h end. reflexivity.
  Qed.

  Lemma sort_sorted_id : forall l, StronglySorted le l -> sort l = l.
  Proof.
    induction l as [|x l IH]; intro H; simpl; [reflexivity|].
    inversion H; subst. rewrite IH by assumption. apply insert_head. assumption.
  Qed.
End Sort.
