(* Byte strings: Python `bytes` is `list N` (each element < 256 where it
   matters: [wf_bytes]).  Text (Python `str`) is `list N` of code points. *)
From Coq Require Import List NArith Bool Lia Arith.
From Coq Require String.
Export Coq.Strings.String.StringSyntax.
Import ListNotations.
Open Scope N_scope.

Definition bytes := list N.
Definition bs (s : String.string) : bytes := map Byte.to_N (String.list_byte_of_string s).
Delimit Scope string_scope with string.
Arguments bs s%string.

Definition wf_byte (b : N) : bool := b <? 256.
Definition wf_bytes (l : bytes) : bool := forallb wf_byte l.

Fixpoint beqb (a b : bytes) : bool :=
  match a, b with
  | [], [] => true
  | x :: a', y :: b' => N.eqb x y && beqb a' b'
  | _, _ => false
  end.

Lemma beqb_eq : forall a b, beqb a b = true <-> a = b.
Proof.
  induction a as [|x a IH]; destruct b as [|y b]; simpl; split; intro H; try congruence; auto.
  - apply andb_true_iff in H. destruct H as [H1 H2]. apply N.eqb_eq in H1. apply IH in H2. congruence.
  - inversion H; subst. rewrite N.eqb_refl. simpl. apply IH. reflexivity.
Qed.

Lemma beqb_refl : forall a, beqb a a = true.
Proof. intro a. apply beqb_eq. reflexivity. Qed.

Lemma beqb_neq : forall a b, beqb a b = false <-> a <> b.
Proof.
  intros a b. destruct (beqb a b) eqn:E.
  - apply beqb_eq in E. split; [discriminate | congruence].
  - split; [|reflexivity]. intros _ H. apply beqb_eq in H. congruence.
Qed.

Definition memb (c : N) (l : bytes) : bool := existsb (N.eqb c) l.

Lemma memb_In : forall c l, memb c l = true <-> In c l.
Proof.
  intros c l. unfold memb. rewrite existsb_exists. split.
  - intros [x [Hx E]]. apply N.eqb_eq in E. subst. exact Hx.
  - intro H. exists c. split; [exact H | apply N.eqb_refl].
Qed.

Lemma memb_false : forall c l, memb c l = false <-> ~ In c l.
Proof.
  intros c l. rewrite <- memb_In. destruct (memb c l); split; intro H; congruence.
Qed.

(* membership of a byte string in a list of byte strings *)
Definition mem_bytes (k : bytes) (l : list bytes) : bool := existsb (beqb k) l.
Lemma mem_bytes_In : forall k l, mem_bytes k l = true <-> In k l.
Proof.
  intros k l. unfold mem_bytes. rewrite existsb_exists. split.
  - intros [x [Hx E]]. apply beqb_eq in E. subst. exact Hx.
  - intro H. exists k. split; [exact H | apply beqb_refl].
Qed.

(* cut at the first occurrence of c: (before, Some after) or (all, None) *)
Fixpoint cut (c : N) (l : bytes) : bytes * option bytes :=
  match l with
  | [] => ([], None)
  | x :: l' => if N.eqb x c then ([], Some l')
               else let '(a, r) := cut c l' in (x :: a, r)
  end.

Lemma cut_app : forall c a r, ~ In c a -> cut c (a ++ c :: r) = (a, Some r).
Proof.
  induction a as [|x a IH]; intros r H; simpl.
  - rewrite N.eqb_refl. reflexivity.
  - destruct (N.eqb_spec x c) as [E|E].
    + exfalso. apply H. left. exact E.
    + rewrite IH; [reflexivity|]. intro Hin. apply H. right. exact Hin.
Qed.

Lemma cut_none : forall c a, ~ In c a -> cut c a = (a, None).
Proof.
  induction a as [|x a IH]; intro H; simpl; [reflexivity|].
  destruct (N.eqb_spec x c) as [E|E].
  - exfalso. apply H. left. exact E.
  - rewrite IH; [reflexivity|]. intro Hin. apply H. right. exact Hin.
Qed.

Lemma cut_some_inv : forall c l a r, cut c l = (a, Some r) -> l = a ++ c :: r /\ ~ In c a.
Proof.
  induction l as [|x l IH]; intros a r H; simpl in H; [discriminate|].
  destruct (N.eqb_spec x c) as [E|E].
  - inversion H; subst. split; [reflexivity | intros []].
  - destruct (cut c l) as [a' r'] eqn:Ec. inversion H; subst.
    destruct (IH a' r eq_refl) as [H1 H2]. split.
    + simpl. rewrite H1. reflexivity.
    + intros [Hx|Hx]; [congruence | auto].
Qed.

Lemma cut_length : forall c l a r, cut c l = (a, Some r) -> (length r < length l)%nat.
Proof.
  intros c l a r H. apply cut_some_inv in H. destruct H as [H _]. subst.
  rewrite app_length. simpl. lia.
Qed.

(* strip a literal prefix *)
Fixpoint strip_prefix (p l : bytes) : option bytes :=
  match p, l with
  | [], _ => Some l
  | x :: p', y :: l' => if N.eqb x y then strip_prefix p' l' else None
  | _ :: _, [] => None
  end.

Lemma strip_prefix_app : forall p l, strip_prefix p (p ++ l) = Some l.
Proof. induction p as [|x p IH]; intro l; simpl; [reflexivity|]. rewrite N.eqb_refl. apply IH. Qed.

Lemma strip_prefix_inv : forall p l r, strip_prefix p l = Some r -> l = p ++ r.
Proof.
  induction p as [|x p IH]; intros l r H; simpl in *.
  - congruence.
  - destruct l as [|y l]; [discriminate|]. destruct (N.eqb_spec x y) as [E|E]; [|discriminate].
    subst. f_equal. apply IH. exact H.
Qed.

(* take/drop with N-free nat counts *)
Definition take := @firstn N.
Definition drop := @skipn N.

Lemma take_app_length : forall (a b : bytes), take (length a) (a ++ b) = a.
Proof. intros. unfold take. rewrite firstn_app, Nat.sub_diag, firstn_all. simpl. apply app_nil_r. Qed.
Lemma drop_app_length : forall (a b : bytes), drop (length a) (a ++ b) = b.
Proof. intros. unfold drop. rewrite skipn_app, Nat.sub_diag, skipn_all. reflexivity. Qed.

Lemma wf_bytes_app : forall a b, wf_bytes (a ++ b) = wf_bytes a && wf_bytes b.
Proof. intros. unfold wf_bytes. apply forallb_app. Qed.

Lemma concat_app_map_wf : forall (ls : list bytes), forallb wf_bytes ls = true -> wf_bytes (concat ls) = true.
Proof.
  induction ls as [|l ls IH]; simpl; intro H; [reflexivity|].
  apply andb_true_iff in H. destruct H as [H1 H2]. rewrite wf_bytes_app, H1. simpl. auto.
Qed.

(* ASCII constants *)
Definition NUL : N := 0.
Definition LF : N := 10.
Definition SP : N := 32.
Definition SLASH : N := 47.
Definition COLON : N := 58.
