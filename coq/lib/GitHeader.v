(* hashutil.git_object_header and git_objects.format_git_object_from_parts:
   "<type> <decimal length>\0<payload>", with an independent header parser. *)
From Coq Require Import List NArith Bool Lia.
From SWH.lib Require Import Bytes Dec.
Import ListNotations.
Open Scope N_scope.

Fixpoint lenN (l : bytes) : N :=
  match l with [] => 0 | _ :: t => N.succ (lenN t) end.

Lemma lenN_length : forall l, lenN l = N.of_nat (length l).
Proof. induction l as [|x l IH]; [reflexivity|]. cbn [lenN length]. rewrite IH. lia. Qed.

Lemma lenN_app : forall a b, lenN (a ++ b) = lenN a + lenN b.
Proof. intros. rewrite !lenN_length, app_length. lia. Qed.

Definition git_header (ty : bytes) (len : N) : bytes := ty ++ [SP] ++ dec_N len ++ [NUL].

Definition from_parts (ty : bytes) (parts : list bytes) : bytes :=
  let body := concat parts in git_header ty (lenN body) ++ body.

Definition git_object (ty : bytes) (body : bytes) : bytes := git_header ty (lenN body) ++ body.

Lemma from_parts_git_object : forall ty parts, from_parts ty parts = git_object ty (concat parts).
Proof. reflexivity. Qed.

(* independent parser: type up to the first space, decimal length up to the
   first NUL, then exactly that many bytes *)
Definition parse_git_object (l : bytes) : option (bytes * bytes) :=
  match cut SP l with
  | (ty, Some rest) =>
      match cut NUL rest with
      | (digits, Some body) =>
          match parse_dec_N digits with
          | Some n => if N.eqb n (lenN body) then Some (ty, body) else None
          | None => None
          end
      | _ => None
      end
  | _ => None
  end.

Theorem parse_git_object_ok : forall ty body,
  ~ In SP ty -> parse_git_object (git_object ty body) = Some (ty, body).
Proof.
  intros ty body Hty. unfold parse_git_object, git_object, git_header.
  rewrite <- !app_assoc. cbn [app]. rewrite cut_app by exact Hty.
  rewrite cut_app.
  - rewrite parse_dec_N_dec_N, N.eqb_refl. reflexivity.
  - apply digits_not_In; [reflexivity | apply dec_N_digits].
Qed.

Corollary git_object_inj : forall ty ty' b b', ~ In SP ty -> ~ In SP ty' ->
  git_object ty b = git_object ty' b' -> ty = ty' /\ b = b'.
Proof.
  intros ty ty' b b' H H' E.
  assert (X : parse_git_object (git_object ty b) = parse_git_object (git_object ty' b')) by (rewrite E; reflexivity).
  rewrite !parse_git_object_ok in X by assumption. inversion X. auto.
Qed.
