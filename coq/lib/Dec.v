(* Decimal printing and parsing: Python `str(int)` / `"%d" % n` and the
   digit-run parser used by the independent decoders.  Built on the standard
   library's Decimal conversions (N.to_uint / N.of_uint) and their proofs. *)
From Coq Require Import List NArith ZArith Bool Lia Decimal DecimalN DecimalPos DecimalFacts.
From SWH.lib Require Import Bytes.
Import ListNotations.
Open Scope N_scope.

Fixpoint uint_bytes (d : uint) : bytes :=
  match d with
  | Nil => []
  | D0 d => 48 :: uint_bytes d | D1 d => 49 :: uint_bytes d | D2 d => 50 :: uint_bytes d
  | D3 d => 51 :: uint_bytes d | D4 d => 52 :: uint_bytes d | D5 d => 53 :: uint_bytes d
  | D6 d => 54 :: uint_bytes d | D7 d => 55 :: uint_bytes d | D8 d => 56 :: uint_bytes d
  | D9 d => 57 :: uint_bytes d
  end.

Definition is_digit (b : N) : bool := (48 <=? b) && (b <=? 57).

Definition mkD (b : N) (d : uint) : uint :=
  match b with
  | 48 => D0 d | 49 => D1 d | 50 => D2 d | 51 => D3 d | 52 => D4 d
  | 53 => D5 d | 54 => D6 d | 55 => D7 d | 56 => D8 d | _ => D9 d
  end.

Fixpoint bytes_uint (l : bytes) : option uint :=
  match l with
  | [] => Some Nil
  | b :: l' => if is_digit b then option_map (mkD b) (bytes_uint l') else None
  end.

Lemma bytes_uint_uint_bytes : forall d, bytes_uint (uint_bytes d) = Some d.
Proof. induction d; simpl; try rewrite IHd; reflexivity. Qed.

Lemma uint_bytes_digits : forall d, forallb is_digit (uint_bytes d) = true.
Proof. induction d; simpl; auto. Qed.

Lemma uint_bytes_inj : forall d d', uint_bytes d = uint_bytes d' -> d = d'.
Proof.
  intros d d' H. assert (E : bytes_uint (uint_bytes d) = bytes_uint (uint_bytes d')) by (rewrite H; reflexivity).
  rewrite !bytes_uint_uint_bytes in E. congruence.
Qed.

Lemma uint_bytes_nonnil : forall d, d <> Nil -> uint_bytes d <> [].
Proof. destruct d; simpl; congruence. Qed.

(* "%d" % n for n >= 0 *)
Definition dec_N (n : N) : bytes := uint_bytes (N.to_uint n).

(* int(b) restricted to non-empty runs of ASCII digits *)
Definition parse_dec_N (l : bytes) : option N :=
  match l with
  | [] => None
  | _ => option_map N.of_uint (bytes_uint l)
  end.

Lemma to_uint_nonnil : forall n, N.to_uint n <> Nil.
Proof. destruct n; simpl; [discriminate | apply DecimalPos.Unsigned.to_uint_nonnil]. Qed.

Lemma dec_N_nonempty : forall n, dec_N n <> [].
Proof. intro n. apply uint_bytes_nonnil, to_uint_nonnil. Qed.

Lemma parse_dec_N_dec_N : forall n, parse_dec_N (dec_N n) = Some n.
Proof.
  intro n. unfold parse_dec_N. pose proof (dec_N_nonempty n) as H.
  destruct (dec_N n) eqn:E; [congruence|]. rewrite <- E. unfold dec_N.
  rewrite bytes_uint_uint_bytes. simpl. f_equal. apply DecimalN.Unsigned.of_to.
Qed.

Lemma dec_N_digits : forall n, forallb is_digit (dec_N n) = true.
Proof. intro. apply uint_bytes_digits. Qed.

Lemma dec_N_inj : forall n m, dec_N n = dec_N m -> n = m.
Proof.
  intros n m H. apply uint_bytes_inj in H. apply DecimalN.Unsigned.to_uint_inj. exact H.
Qed.

Lemma is_digit_not : forall b c, is_digit b = true -> is_digit c = false -> b <> c.
Proof. intros b c H1 H2 E. subst. congruence. Qed.

Lemma digits_not_In : forall c l, is_digit c = false -> forallb is_digit l = true -> ~ In c l.
Proof.
  intros c l Hc Hl Hin. rewrite forallb_forall in Hl. apply Hl in Hin. congruence.
Qed.

Lemma dec_N_wf : forall n, wf_bytes (dec_N n) = true.
Proof.
  intro n. pose proof (dec_N_digits n) as H. unfold wf_bytes.
  rewrite forallb_forall in *. intros x Hx. apply H in Hx. unfold is_digit, wf_byte in *.
  apply andb_true_iff in Hx. destruct Hx as [_ Hx]. apply N.leb_le in Hx. apply N.ltb_lt. lia.
Qed.

(* str(z) for an arbitrary Python int *)
Definition dec_Z (z : Z) : bytes :=
  match z with
  | Z0 => dec_N 0
  | Zpos p => dec_N (Npos p)
  | Zneg p => 45 :: dec_N (Npos p)
  end.

Definition parse_dec_Z (l : bytes) : option Z :=
  match l with
  | 45 :: l' => match parse_dec_N l' with
                | Some (Npos p) => Some (Zneg p)
                | _ => None
                end
  | _ => option_map Z.of_N (parse_dec_N l)
  end.

Lemma dec_N_head_digit : forall n, exists b l, dec_N n = b :: l /\ is_digit b = true.
Proof.
  intro n. pose proof (dec_N_nonempty n) as H. pose proof (dec_N_digits n) as D.
  destruct (dec_N n) as [|b l]; [congruence|]. exists b, l. split; [reflexivity|].
  simpl in D. apply andb_true_iff in D. tauto.
Qed.

Lemma parse_dec_Z_dec_Z : forall z, parse_dec_Z (dec_Z z) = Some z.
Proof.
  intros [|p|p]; unfold dec_Z.
  - reflexivity.
  - destruct (dec_N_head_digit (Npos p)) as [b [l [E D]]]. unfold parse_dec_Z.
    rewrite E. destruct (N.eqb_spec b 45) as [->|Hb]; [discriminate D|].
    rewrite <- E, parse_dec_N_dec_N. simpl.
    destruct b as [|b']; [reflexivity|].
    repeat (destruct b' as [b'|b'|]; try reflexivity); congruence.
  - unfold parse_dec_Z. rewrite parse_dec_N_dec_N. reflexivity.
Qed.

Lemma dec_Z_inj : forall a b, dec_Z a = dec_Z b -> a = b.
Proof.
  intros a b H. assert (E : parse_dec_Z (dec_Z a) = parse_dec_Z (dec_Z b)) by (rewrite H; reflexivity).
  rewrite !parse_dec_Z_dec_Z in E. congruence.
Qed.

Lemma dec_Z_no : forall z c, is_digit c = false -> c <> 45 -> ~ In c (dec_Z z).
Proof.
  intros [|p|p] c Hc H45; unfold dec_Z.
  - apply digits_not_In; [exact Hc | apply dec_N_digits].
  - apply digits_not_In; [exact Hc | apply dec_N_digits].
  - intros [E|Hin]; [congruence|]. revert Hin. apply digits_not_In; [exact Hc | apply dec_N_digits].
Qed.

(* zero-padded decimal of width >= k: "%0kd" for n >= 0 *)
Definition dec_pad (k : nat) (n : N) : bytes :=
  let d := dec_N n in repeat 48 (k - length d) ++ d.
