(* binascii.hexlify / bytes.fromhex on lower-case hex, and oct(n)[2:] *)
From Coq Require Import List NArith Bool Lia.
From SWH.lib Require Import Bytes.
Import ListNotations.
Open Scope N_scope.

Definition hexdigit (n : N) : N := if n <? 10 then 48 + n else 87 + n.
Definition hex_byte (b : N) : bytes := [hexdigit (b / 16); hexdigit (b mod 16)].
Definition hexlify (l : bytes) : bytes := flat_map hex_byte l.

Definition is_lower_hex (c : N) : bool :=
  ((48 <=? c) && (c <=? 57)) || ((97 <=? c) && (c <=? 102)).

Definition unhexdigit (c : N) : option N :=
  if (48 <=? c) && (c <=? 57) then Some (c - 48)
  else if (97 <=? c) && (c <=? 102) then Some (c - 87)
  else None.

Fixpoint unhex (l : bytes) : option bytes :=
  match l with
  | [] => Some []
  | a :: b :: r =>
      match unhexdigit a, unhexdigit b, unhex r with
      | Some x, Some y, Some t => Some (16 * x + y :: t)
      | _, _, _ => None
      end
  | _ => None
  end.

Lemma unhexdigit_hexdigit : forall n, n < 16 -> unhexdigit (hexdigit n) = Some n.
Proof.
  intros n H. unfold hexdigit, unhexdigit.
  destruct (N.ltb_spec n 10) as [L|L].
  - replace ((48 <=? 48 + n) && (48 + n <=? 57)) with true.
    + f_equal. lia.
    + symmetry. apply andb_true_iff. split; apply N.leb_le; lia.
  - replace ((48 <=? 87 + n) && (87 + n <=? 57)) with false.
    + replace ((97 <=? 87 + n) && (87 + n <=? 102)) with true.
      * f_equal. lia.
      * symmetry. apply andb_true_iff. split; apply N.leb_le; lia.
    + symmetry. apply andb_false_iff. right. apply N.leb_gt. lia.
Qed.

Lemma hexdigit_lower : forall n, n < 16 -> is_lower_hex (hexdigit n) = true.
Proof.
  intros n H. unfold hexdigit, is_lower_hex. destruct (N.ltb_spec n 10) as [L|L].
  - apply orb_true_iff. left. apply andb_true_iff. split; apply N.leb_le; lia.
  - apply orb_true_iff. right. apply andb_true_iff. split; apply N.leb_le; lia.
Qed.

Lemma unhex_cons2 : forall a b r, unhex (a :: b :: r) =
  match unhexdigit a, unhexdigit b, unhex r with
  | Some x, Some y, Some t => Some (16 * x + y :: t)
  | _, _, _ => None
  end.
Proof. reflexivity. Qed.

Lemma unhex_hexlify : forall l, wf_bytes l = true -> unhex (hexlify l) = Some l.
Proof.
  induction l as [|b l IH]; intro H; [reflexivity|].
  change (wf_bytes (b :: l)) with (wf_byte b && wf_bytes l) in H.
  apply andb_true_iff in H. destruct H as [Hb Hl]. unfold wf_byte in Hb. apply N.ltb_lt in Hb.
  change (hexlify (b :: l)) with (hexdigit (b / 16) :: hexdigit (b mod 16) :: hexlify l).
  rewrite unhex_cons2, !unhexdigit_hexdigit, (IH Hl).
  - f_equal. f_equal. symmetry. apply N.div_mod. lia.
  - apply N.mod_lt. lia.
  - apply N.div_lt_upper_bound; lia.
Qed.

Lemma hexlify_app : forall a b, hexlify (a ++ b) = hexlify a ++ hexlify b.
Proof. intros. unfold hexlify. apply flat_map_app. Qed.

Lemma hexlify_length : forall l, length (hexlify l) = (2 * length l)%nat.
Proof. induction l as [|b l IH]; simpl; [reflexivity|]. rewrite IH. lia. Qed.

Lemma hexlify_lower : forall l, wf_bytes l = true -> forallb is_lower_hex (hexlify l) = true.
Proof.
  induction l as [|b l IH]; intro H; simpl; [reflexivity|].
  simpl in H. apply andb_true_iff in H. destruct H as [Hb Hl]. unfold wf_byte in Hb. apply N.ltb_lt in Hb.
  rewrite !hexdigit_lower; simpl.
  - apply IH. exact Hl.
  - apply N.mod_lt. lia.
  - apply N.div_lt_upper_bound; lia.
Qed.

Lemma hexlify_inj : forall a b, wf_bytes a = true -> wf_bytes b = true -> hexlify a = hexlify b -> a = b.
Proof.
  intros a b Ha Hb E. assert (X : unhex (hexlify a) = unhex (hexlify b)) by (rewrite E; reflexivity).
  rewrite !unhex_hexlify in X by assumption. congruence.
Qed.

(* hex text never contains a byte outside [0-9a-f] *)
Lemma lower_hex_not_In : forall c l, is_lower_hex c = false -> forallb is_lower_hex l = true -> ~ In c l.
Proof. intros c l Hc Hl Hin. rewrite forallb_forall in Hl. apply Hl in Hin. congruence. Qed.

(* ---------------------------------------------------------------- octal *)
Fixpoint oct_aux (fuel : nat) (n : N) (acc : bytes) : bytes :=
  match fuel with
  | O => acc
  | S f => let acc' := (48 + n mod 8) :: acc in
           if n <? 8 then acc' else oct_aux f (n / 8) acc'
  end.

Fixpoint pos_len (p : positive) : nat :=
  match p with xH => 1%nat | xO q | xI q => S (pos_len q) end.
Definition n_len (n : N) : nat := match n with 0 => 1%nat | Npos p => pos_len p end.

(* oct(n)[2:] *)
Definition oct (n : N) : bytes := oct_aux (n_len n) n [].

Definition is_octdigit (c : N) : bool := (48 <=? c) && (c <=? 55).
Definition oct_val (l : bytes) : N := fold_left (fun a c => 8 * a + (c - 48)) l 0.
Definition parse_oct (l : bytes) : option N :=
  match l with
  | [] => None
  | _ => if forallb is_octdigit l then Some (oct_val l) else None
  end.

Lemma oct_aux_app : forall f n acc, oct_aux f n acc = oct_aux f n [] ++ acc.
Proof.
  induction f as [|f IH]; intros n acc; cbn [oct_aux]; cbv zeta; [reflexivity|].
  destruct (n <? 8); [reflexivity|].
  rewrite (IH (n / 8) ((48 + n mod 8) :: acc)), (IH (n / 8) [48 + n mod 8]).
  rewrite <- app_assoc. reflexivity.
Qed.

Lemma oct_val_app1 : forall l c, oct_val (l ++ [c]) = 8 * oct_val l + (c - 48).
Proof. intros. unfold oct_val. rewrite fold_left_app. reflexivity. Qed.

Lemma oct_aux_val : forall f n, n < 2 ^ N.of_nat f -> oct_val (oct_aux f n []) = n.
Proof.
  induction f as [|f IH]; intros n H.
  - simpl in H. assert (n = 0) by lia. subst. reflexivity.
  - cbn [oct_aux]; cbv zeta. destruct (N.ltb_spec n 8) as [L|L].
    + unfold oct_val. cbn [fold_left]. rewrite N.mod_small by exact L.
      rewrite N.add_comm with (n := 48), N.add_sub. reflexivity.
    + rewrite oct_aux_app, oct_val_app1, IH.
      * rewrite N.add_comm with (n := 48), N.add_sub. symmetry. apply N.div_mod. discriminate.
      * rewrite Nat2N.inj_succ, N.pow_succ_r' in H.
        apply N.div_lt_upper_bound; [discriminate|].
        generalize dependent (2 ^ N.of_nat f). intros. lia.
Qed.

Lemma pos_len_bound : forall p, Npos p < 2 ^ N.of_nat (pos_len p).
Proof.
  induction p as [p IH|p IH|]; cbn [pos_len].
  - rewrite Nat2N.inj_succ, N.pow_succ_r'. change (Npos p~1) with (2 * Npos p + 1).
    generalize dependent (2 ^ N.of_nat (pos_len p)). intros. lia.
  - rewrite Nat2N.inj_succ, N.pow_succ_r'. change (Npos p~0) with (2 * Npos p).
    generalize dependent (2 ^ N.of_nat (pos_len p)). intros. lia.
  - reflexivity.
Qed.

Lemma n_len_bound : forall n, n < 2 ^ N.of_nat (n_len n).
Proof. destruct n; [reflexivity | apply pos_len_bound]. Qed.

Lemma oct_aux_digits : forall f n acc, forallb is_octdigit acc = true -> forallb is_octdigit (oct_aux f n acc) = true.
Proof.
  induction f as [|f IH]; intros n acc H; cbn [oct_aux]; cbv zeta; [exact H|].
  assert (D : is_octdigit (48 + n mod 8) = true).
  { assert (n mod 8 < 8) by (apply N.mod_lt; discriminate). generalize dependent (n mod 8). intros m Hm.
    unfold is_octdigit. apply andb_true_iff. split; apply N.leb_le; lia. }
  destruct (n <? 8); [cbn [forallb]; rewrite D; exact H|]. apply IH. cbn [forallb]. rewrite D. exact H.
Qed.

Lemma oct_digits : forall n, forallb is_octdigit (oct n) = true.
Proof. intro. apply oct_aux_digits. reflexivity. Qed.

Lemma oct_nonempty : forall n, oct n <> [].
Proof.
  intro n. unfold oct. destruct (n_len n) eqn:E.
  - destruct n as [|p]; simpl in E; [discriminate | destruct p; discriminate].
  - cbn [oct_aux]; cbv zeta. destruct (n <? 8); [discriminate|]. rewrite oct_aux_app. intro H. apply app_eq_nil in H. destruct H; discriminate.
Qed.

Theorem parse_oct_oct : forall n, parse_oct (oct n) = Some n.
Proof.
  intro n. unfold parse_oct. pose proof (oct_nonempty n). destruct (oct n) eqn:E; [congruence|].
  rewrite <- E, oct_digits. f_equal. apply oct_aux_val, n_len_bound.
Qed.

Lemma oct_inj : forall n m, oct n = oct m -> n = m.
Proof.
  intros n m H. assert (E : parse_oct (oct n) = parse_oct (oct m)) by (rewrite H; reflexivity).
  rewrite !parse_oct_oct in E. congruence.
Qed.

Lemma oct_no : forall n c, is_octdigit c = false -> ~ In c (oct n).
Proof.
  intros n c Hc Hin. pose proof (oct_digits n) as D. rewrite forallb_forall in D. apply D in Hin. congruence.
Qed.

Example oct_examples : oct 33188 = bs "100644" /\ oct 16384 = bs "40000" /\ oct 0 = bs "0" /\ oct 57344 = bs "160000".
Proof. repeat split; vm_compute; reflexivity. Qed.
