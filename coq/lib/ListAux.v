(* Small generic list lemmas shared by the proofs. *)
From Coq Require Import List Bool Permutation.
From SWH.lib Require Import StableSort.
Import ListNotations.

Lemma NoDup_map_inj : forall {A B} (f : A -> B) l x y,
  NoDup (map f l) -> In x l -> In y l -> f x = f y -> x = y.
Proof.
  intros A B f. induction l as [|a l IH]; intros x y ND Hx Hy E; [destruct Hx|].
  cbn [map] in ND. inversion ND as [|? ? Hn ND']; subst.
  destruct Hx as [<-|Hx]; destruct Hy as [<-|Hy]; auto.
  - exfalso. apply Hn. rewrite E. apply in_map. exact Hy.
  - exfalso. apply Hn. rewrite <- E. apply in_map. exact Hx.
Qed.


(* insertion sort only looks at comparisons between elements of the list *)
Lemma insert_ext : forall {A} (f g : A -> A -> bool) x l,
  (forall y, In y l -> f x y = g x y) -> insert f x l = insert g x l.
Proof.
  intros A f g x. induction l as [|y l IH]; intro H; [reflexivity|].
  cbn [insert]. rewrite (H y (or_introl eq_refl)). destruct (g x y); [reflexivity|].
  f_equal. apply IH. intros z Hz. apply H. right. exact Hz.
Qed.

Lemma sort_ext : forall {A} (f g : A -> A -> bool) l,
  (forall x y, In x l -> In y l -> f x y = g x y) -> sort f l = sort g l.
Proof.
  intros A f g. induction l as [|x l IH]; intro H; [reflexivity|].
  cbn [sort]. rewrite IH by (intros; apply H; right; assumption).
  apply insert_ext. intros y Hy. apply H; [left; reflexivity|].
  right. apply (Permutation_in _ (sort_perm g l)). exact Hy.
Qed.

