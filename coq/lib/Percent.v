(* urllib.parse percent-encoding as CPython 3.12 implements it
   (Lib/urllib/parse.py): quote_from_bytes(safe='/'), quote(str),
   _unquote_impl (bytes), unquote_to_bytes(str), unquote(str).
   Definitions only + Examples. *)
From Coq Require Import List NArith Bool Lia.
From SWH.lib Require Import Bytes Utf8.
Import ListNotations.
Open Scope N_scope.

(* _ALWAYS_SAFE = letters, digits, "_.-~" *)
Definition always_safe (b : N) : bool :=
  ((65 <=? b) && (b <=? 90)) || ((97 <=? b) && (b <=? 122)) || ((48 <=? b) && (b <=? 57))
  || (b =? 95) || (b =? 46) || (b =? 45) || (b =? 126).

(* '%{:02X}'.format(b): upper-case hex digit *)
Definition hexdigit_upper (n : N) : N := if n <? 10 then 48 + n else 55 + n.
Definition pct_byte (b : N) : bytes := [37; hexdigit_upper (b / 16); hexdigit_upper (b mod 16)].

(* quote_from_bytes(bs, safe='/') : the result is ASCII text *)
Definition quote_byte (b : N) : text :=
  if always_safe b || (b =? 47) then [b] else pct_byte b.
Definition quote_from_bytes (l : bytes) : text := flat_map quote_byte l.

(* quote(string) for a str: string.encode('utf-8', 'strict') then
   quote_from_bytes(safe='/').  None = UnicodeEncodeError. *)
Definition quote_text (t : text) : option text :=
  match utf8_encode t with
  | Some b => Some (quote_from_bytes b)
  | None => None
  end.

(* _hexdig = '0123456789ABCDEFabcdef' *)
Definition hexval (c : N) : option N :=
  if (48 <=? c) && (c <=? 57) then Some (c - 48)
  else if (65 <=? c) && (c <=? 70) then Some (c - 55)
  else if (97 <=? c) && (c <=? 102) then Some (c - 87)
  else None.

(* _unquote_impl on bytes:  bits = s.split(b'%'); the first bit verbatim; for
   every later bit: if its first two bytes are hex digits, the byte they
   denote followed by the remainder of the bit, else b'%' followed by the
   bit.  Written as the equivalent left-to-right scan: at a '%' followed by
   two hex digits (which are then not '%', hence inside the same bit) emit
   the byte and skip three; at any other '%' emit it and go on. *)
Fixpoint unquote_bytes (l : bytes) : bytes :=
  match l with
  | [] => []
  | c :: l' =>
      if c =? 37 then
        match l' with
        | a :: b :: r =>
            match hexval a, hexval b with
            | Some x, Some y => (16 * x + y) :: unquote_bytes r
            | _, _ => 37 :: unquote_bytes l'
            end
        | _ => 37 :: unquote_bytes l'
        end
      else c :: unquote_bytes l'
  end.

(* unquote_to_bytes(string) for a str: string.encode('utf-8') first
   (None = UnicodeEncodeError on a surrogate), escapes that are not two hex
   digits are left verbatim *)
Definition unquote_to_bytes (t : text) : option bytes :=
  match utf8_encode t with
  | Some b => Some (unquote_bytes b)
  | None => None
  end.

(* unquote(string, 'utf-8', 'replace') for a str: the text is cut into maximal
   ASCII runs ([\x00-\x7f]+) and the text between them; each ASCII run r
   becomes _unquote_impl(r).decode('utf-8', 'replace'), the rest is kept.
   [acc] is the current ASCII run, reversed. *)
Definition flush_run (acc : bytes) : text :=
  match acc with
  | [] => []
  | _ => utf8_decode_replace (unquote_bytes (rev acc))
  end.

Fixpoint unquote_runs (acc : bytes) (t : text) : text :=
  match t with
  | [] => flush_run acc
  | c :: t' =>
      if c <? 128 then unquote_runs (c :: acc) t'
      else flush_run acc ++ c :: unquote_runs [] t'
  end.

Definition unquote (t : text) : text :=
  if memb 37 t then unquote_runs [] t else t.   (* "if '%' not in string: return string" *)

Example quote_ex : quote_from_bytes (bs "/a b;%=~_.-\") = bs "/a%20b%3B%25%3D~_.-%5C".
Proof. vm_compute. reflexivity. Qed.
Example unquote_bytes_ex : unquote_bytes (bs "a%20b%3b%3B%zz%4%%41%") = bs "a b;;%zz%4%A%".
Proof. vm_compute. reflexivity. Qed.
(* 'x%C3%A9y' + U+00E9 + '%E2%82' + U+20AC + '%41' *)
Example unquote_ex : unquote (bs "x%C3%A9y" ++ [233] ++ bs "%E2%82" ++ [8364] ++ bs "%41")
                     = [120; 233; 121; 233; 65533; 8364; 65].
Proof. vm_compute. reflexivity. Qed.
