(* UTF-8 as CPython implements it.

   [utf8_encode]  = str.encode('utf-8') (strict): fails on a surrogate code
                    point (UnicodeEncodeError) - Python strings can hold them.
   [utf8_decode_replace] = bytes.decode('utf-8', errors='replace'): CPython's
                    decoder (Objects/stringlib/codecs.h, utf8_decode) reports
                    an error for the maximal prefix of a well-formed sequence
                    and the 'replace' handler emits ONE U+FFFD per error:
                      - invalid start byte (80..C1, F5..FF)          -> 1 byte
                      - start byte whose 2nd byte is not acceptable   -> 1 byte
                      - 3/4-byte sequence broken at the 3rd byte      -> 2 bytes
                      - 4-byte sequence broken at the 4th byte        -> 3 bytes
                      - well-formed prefix cut by the end of input    -> all of it
   Definitions only + the elementary facts used by the SWHID proofs.  *)
From Coq Require Import List NArith Bool Lia.
From SWH.lib Require Import Bytes.
Import ListNotations.
Open Scope N_scope.

Definition text := list N.

Definition REPL : N := 65533.   (* U+FFFD *)

Definition is_surrogate (c : N) : bool := (55296 <=? c) && (c <? 57344).
(* a code point str.encode('utf-8') accepts *)
Definition is_scalar (c : N) : bool := (c <? 1114112) && negb (is_surrogate c).

Definition enc_cp (c : N) : option bytes :=
  if c <? 128 then Some [c]
  else if c <? 2048 then Some [192 + c / 64; 128 + c mod 64]
  else if c <? 65536 then
    if is_surrogate c then None
    else Some [224 + c / 4096; 128 + (c / 64) mod 64; 128 + c mod 64]
  else if c <? 1114112 then
    Some [240 + c / 262144; 128 + (c / 4096) mod 64; 128 + (c / 64) mod 64; 128 + c mod 64]
  else None.

Fixpoint utf8_encode (t : text) : option bytes :=
  match t with
  | [] => Some []
  | c :: t' =>
      match enc_cp c, utf8_encode t' with
      | Some b, Some r => Some (b ++ r)
      | _, _ => None
      end
  end.

Definition is_cont (b : N) : bool := (128 <=? b) && (b <? 192).

(* is b1 an acceptable second byte after the 3-byte lead b0 (E0..EF)?
   E0 needs A0..BF (no overlong), ED needs 80..9F (no surrogates) *)
Definition ok2_of3 (b0 b1 : N) : bool :=
  is_cont b1 && negb ((b0 =? 224) && (b1 <? 160)) && negb ((b0 =? 237) && (160 <=? b1)).
(* second byte after the 4-byte lead b0 (F0..F4): F0 needs 90..BF, F4 needs 80..8F *)
Definition ok2_of4 (b0 b1 : N) : bool :=
  is_cont b1 && negb ((b0 =? 240) && (b1 <? 144)) && negb ((b0 =? 244) && (144 <=? b1)).

Definition cp2 (b0 b1 : N) : N := (b0 - 192) * 64 + (b1 - 128).
Definition cp3 (b0 b1 b2 : N) : N := (b0 - 224) * 4096 + (b1 - 128) * 64 + (b2 - 128).
Definition cp4 (b0 b1 b2 b3 : N) : N :=
  (b0 - 240) * 262144 + (b1 - 128) * 4096 + (b2 - 128) * 64 + (b3 - 128).

Fixpoint utf8_decode_replace (l : bytes) : text :=
  match l with
  | [] => []
  | b0 :: t0 =>
      if b0 <? 128 then b0 :: utf8_decode_replace t0
      else if b0 <? 194 then REPL :: utf8_decode_replace t0
      else if b0 <? 224 then
        match t0 with
        | [] => [REPL]
        | b1 :: t1 =>
            if is_cont b1 then cp2 b0 b1 :: utf8_decode_replace t1
            else REPL :: utf8_decode_replace t0
        end
      else if b0 <? 240 then
        match t0 with
        | [] => [REPL]
        | b1 :: t1 =>
            if ok2_of3 b0 b1 then
              match t1 with
              | [] => [REPL]
              | b2 :: t2 =>
                  if is_cont b2 then cp3 b0 b1 b2 :: utf8_decode_replace t2
                  else REPL :: utf8_decode_replace t1
              end
            else REPL :: utf8_decode_replace t0
        end
      else if b0 <? 245 then
        match t0 with
        | [] => [REPL]
        | b1 :: t1 =>
            if ok2_of4 b0 b1 then
              match t1 with
              | [] => [REPL]
              | b2 :: t2 =>
                  if is_cont b2 then
                    match t2 with
                    | [] => [REPL]
                    | b3 :: t3 =>
                        if is_cont b3 then cp4 b0 b1 b2 b3 :: utf8_decode_replace t3
                        else REPL :: utf8_decode_replace t2
                    end
                  else REPL :: utf8_decode_replace t1
              end
            else REPL :: utf8_decode_replace t0
        end
      else REPL :: utf8_decode_replace t0
  end.

Definition is_ascii (c : N) : bool := c <? 128.

(* ---------------------------------------------------------------- facts *)

Lemma utf8_encode_ascii : forall t, forallb is_ascii t = true -> utf8_encode t = Some t.
Proof.
  induction t as [|c t IH]; intro H; [reflexivity|].
  cbn [forallb] in H. apply andb_true_iff in H. destruct H as [Hc Ht].
  cbn [utf8_encode]. unfold enc_cp. unfold is_ascii in Hc. rewrite Hc, (IH Ht). reflexivity.
Qed.

Lemma utf8_decode_ascii_cons : forall c l, c < 128 ->
  utf8_decode_replace (c :: l) = c :: utf8_decode_replace l.
Proof. intros c l H. cbn [utf8_decode_replace]. apply N.ltb_lt in H. rewrite H. reflexivity. Qed.

Lemma utf8_decode_ascii : forall t, forallb is_ascii t = true -> utf8_decode_replace t = t.
Proof.
  induction t as [|c t IH]; intro H; [reflexivity|].
  cbn [forallb] in H. apply andb_true_iff in H. destruct H as [Hc Ht].
  rewrite utf8_decode_ascii_cons by (apply N.ltb_lt; exact Hc). rewrite (IH Ht). reflexivity.
Qed.

Lemma utf8_encode_app : forall a b x y, utf8_encode a = Some x -> utf8_encode b = Some y ->
  utf8_encode (a ++ b) = Some (x ++ y).
Proof.
  induction a as [|c a IH]; intros b x y Ha Hb.
  - inversion Ha; subst. exact Hb.
  - cbn [utf8_encode app] in *. destruct (enc_cp c) as [e|]; [|discriminate].
    destruct (utf8_encode a) as [r|] eqn:Er; [|discriminate]. inversion Ha; subst.
    rewrite (IH b r y eq_refl Hb). rewrite app_assoc. reflexivity.
Qed.

Lemma utf8_encode_scalar : forall t, forallb is_scalar t = true <-> exists b, utf8_encode t = Some b.
Proof.
  induction t as [|c t IH].
  - split; [exists []; reflexivity | reflexivity].
  - cbn [forallb utf8_encode]. rewrite andb_true_iff, IH. split.
    + intros [Hc [b Hb]]. rewrite Hb. unfold is_scalar in Hc. apply andb_true_iff in Hc.
      destruct Hc as [H1 H2]. apply negb_true_iff in H2. unfold enc_cp. rewrite H2, H1.
      destruct (c <? 128); [eexists; reflexivity|]. destruct (c <? 2048); [eexists; reflexivity|].
      destruct (c <? 65536); eexists; reflexivity.
    + intros [b Hb]. destruct (enc_cp c) as [e|] eqn:Ee; [|discriminate].
      destruct (utf8_encode t) as [r|]; [|discriminate]. split; [|exists r; reflexivity].
      unfold enc_cp in Ee. unfold is_scalar.
      destruct (N.ltb_spec c 128) as [L1|L1].
      { replace (c <? 1114112) with true by (symmetry; apply N.ltb_lt; lia).
        unfold is_surrogate. replace (55296 <=? c) with false by (symmetry; apply N.leb_gt; lia). reflexivity. }
      destruct (N.ltb_spec c 2048) as [L2|L2].
      { replace (c <? 1114112) with true by (symmetry; apply N.ltb_lt; lia).
        unfold is_surrogate. replace (55296 <=? c) with false by (symmetry; apply N.leb_gt; lia). reflexivity. }
      destruct (N.ltb_spec c 65536) as [L3|L3].
      { replace (c <? 1114112) with true by (symmetry; apply N.ltb_lt; lia).
        destruct (is_surrogate c); [discriminate | reflexivity]. }
      destruct (N.ltb_spec c 1114112) as [L4|L4]; [|discriminate].
      unfold is_surrogate. replace (c <? 57344) with false by (symmetry; apply N.ltb_ge; lia).
      rewrite andb_false_r. reflexivity.
Qed.
