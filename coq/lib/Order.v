(* Python's ordering on bytes objects: lexicographic on byte values. *)
From Coq Require Import List NArith Bool Lia.
From SWH.lib Require Import Bytes.
Import ListNotations.
Open Scope N_scope.

Fixpoint bcompare (a b : bytes) : comparison :=
  match a, b with
  | [], [] => Eq
  | [], _ :: _ => Lt
  | _ :: _, [] => Gt
  | x :: a', y :: b' => match N.compare x y with Eq => bcompare a' b' | c => c end
  end.

Definition bleb (a b : bytes) : bool := match bcompare a b with Gt => false | _ => true end.
Definition bltb (a b : bytes) : bool := match bcompare a b with Lt => true | _ => false end.

Lemma bcompare_eq : forall a b, bcompare a b = Eq <-> a = b.
Proof.
  induction a as [|x a IH]; destruct b as [|y b]; simpl; split; intro H; try congruence.
  - destruct (N.compare_spec x y) as [E|E|E]; try discriminate. subst. f_equal. apply IH. exact H.
  - inversion H; subst. rewrite N.compare_refl. apply IH. reflexivity.
Qed.

Lemma bcompare_refl : forall a, bcompare a a = Eq.
Proof. intro. apply bcompare_eq. reflexivity. Qed.

Lemma bcompare_antisym : forall a b, bcompare b a = CompOpp (bcompare a b).
Proof.
  induction a as [|x a IH]; destruct b as [|y b]; simpl; try reflexivity.
  rewrite (N.compare_antisym x y). destruct (N.compare x y); simpl; auto.
Qed.

Lemma bcompare_lt_trans : forall a b c, bcompare a b = Lt -> bcompare b c = Lt -> bcompare a c = Lt.
Proof.
  induction a as [|x a IH]; intros [|y b] [|z c]; simpl; try congruence.
  destruct (N.compare_spec x y) as [E1|E1|E1]; destruct (N.compare_spec y z) as [E2|E2|E2];
    try discriminate; intros H1 H2; subst.
  - rewrite N.compare_refl. eapply IH; eauto.
  - destruct (N.compare_spec y z); try lia; reflexivity.
  - destruct (N.compare_spec x z); try lia; reflexivity.
  - destruct (N.compare_spec x z); try lia; reflexivity.
Qed.

Lemma bleb_total : forall a b, bleb a b = true \/ bleb b a = true.
Proof.
  intros a b. unfold bleb. rewrite (bcompare_antisym a b). destruct (bcompare a b); simpl; auto.
Qed.

Lemma bleb_refl : forall a, bleb a a = true.
Proof. intro. unfold bleb. rewrite bcompare_refl. reflexivity. Qed.

Lemma bleb_antisym : forall a b, bleb a b = true -> bleb b a = true -> a = b.
Proof.
  intros a b. unfold bleb. rewrite (bcompare_antisym a b).
  destruct (bcompare a b) eqn:E; simpl; try discriminate.
  intros _ _. apply bcompare_eq. exact E.
Qed.

Lemma bleb_trans : forall a b c, bleb a b = true -> bleb b c = true -> bleb a c = true.
Proof.
  intros a b c. unfold bleb.
  destruct (bcompare a b) eqn:E1; try discriminate; destruct (bcompare b c) eqn:E2; try discriminate; intros _ _.
  - apply bcompare_eq in E1, E2. subst. rewrite bcompare_refl. reflexivity.
  - apply bcompare_eq in E1. subst. rewrite E2. reflexivity.
  - apply bcompare_eq in E2. subst. rewrite E1. reflexivity.
  - rewrite (bcompare_lt_trans _ _ _ E1 E2). reflexivity.
Qed.

Lemma bltb_bleb : forall a b, bltb a b = true <-> (bleb a b = true /\ a <> b).
Proof.
  intros a b. unfold bltb, bleb. destruct (bcompare a b) eqn:E; split; try (intros [H1 H2]); try intro H; try discriminate.
  - apply bcompare_eq in E. congruence.
  - split; [reflexivity|]. intro E'. subst. rewrite bcompare_refl in E. discriminate.
  - reflexivity.
Qed.

(* comparison of two strings with a common prefix *)
Lemma bcompare_app : forall p a b, bcompare (p ++ a) (p ++ b) = bcompare a b.
Proof. induction p as [|x p IH]; intros; simpl; [reflexivity|]. rewrite N.compare_refl. apply IH. Qed.

(* a proper prefix is smaller *)
Lemma bcompare_prefix : forall a x r, bcompare a (a ++ x :: r) = Lt.
Proof. intros. rewrite <- (app_nil_r a) at 1. rewrite bcompare_app. reflexivity. Qed.
