(* git_objects.escape_newlines / format_git_object_from_headers and an
   independent parser of the "key SP value LF ... [LF message]" payload. *)
From Coq Require Import List NArith Bool Lia.
From SWH.lib Require Import Bytes Dec GitHeader.
Import ListNotations.
Open Scope N_scope.

(* b"\n ".join(snippet.split(b"\n")): every LF is followed by an inserted SP *)
Fixpoint escape_newlines (v : bytes) : bytes :=
  match v with
  | [] => []
  | c :: v' => if N.eqb c LF then LF :: SP :: escape_newlines v' else c :: escape_newlines v'
  end.

Definition header := (bytes * bytes)%type.

Definition header_line (h : header) : bytes := fst h ++ [SP] ++ escape_newlines (snd h) ++ [LF].

Definition headers_payload (hs : list header) (msg : option bytes) : bytes :=
  concat (map header_line hs) ++ match msg with Some m => LF :: m | None => [] end.

Definition from_headers (ty : bytes) (hs : list header) (msg : option bytes) : bytes :=
  git_object ty (headers_payload hs msg).

(* ---- independent parser ---- *)
(* value: up to the first LF that is not followed by SP; "LF SP" is a continuation *)
Fixpoint take_value (l : bytes) : option (bytes * bytes) :=
  match l with
  | [] => None
  | c :: rest =>
      if N.eqb c LF then
        match rest with
        | c2 :: rest' => if N.eqb c2 SP
                         then match take_value rest' with
                              | Some (v, r) => Some (LF :: v, r)
                              | None => None
                              end
                         else Some ([], rest)
        | [] => Some ([], [])
        end
      else match take_value rest with
           | Some (v, r) => Some (c :: v, r)
           | None => None
           end
  end.

(* key: non-empty, up to the first SP, must not contain LF *)
Definition take_key (l : bytes) : option (bytes * bytes) :=
  match cut SP l with
  | (k, Some rest) => if memb LF k then None else match k with [] => None | _ => Some (k, rest) end
  | _ => None
  end.

Fixpoint parse_headers (fuel : nat) (l : bytes) : option (list header * option bytes) :=
  match l with
  | [] => Some ([], None)
  | c :: rest =>
      if N.eqb c LF then Some ([], Some rest)
      else match fuel with
           | O => None
           | S f =>
               match take_key l with
               | Some (k, r1) =>
                   match take_value r1 with
                   | Some (v, r2) =>
                       match parse_headers f r2 with
                       | Some (hs, m) => Some ((k, v) :: hs, m)
                       | None => None
                       end
                   | None => None
                   end
               | None => None
               end
           end
  end.

Definition parse_payload (l : bytes) : option (list header * option bytes) :=
  parse_headers (S (length l)) l.

(* well-formed key: non-empty, no SP, no LF *)
Definition wf_key (k : bytes) : bool :=
  match k with [] => false | _ => negb (memb SP k) && negb (memb LF k) end.

Lemma wf_key_inv : forall k, wf_key k = true -> k <> [] /\ ~ In SP k /\ ~ In LF k.
Proof.
  intros k H. destruct k as [|c k]; [discriminate|]. unfold wf_key in H.
  apply andb_true_iff in H. destruct H as [H1 H2].
  apply negb_true_iff in H1, H2. apply memb_false in H1, H2. repeat split; [discriminate | exact H1 | exact H2].
Qed.

Definition starts_with_sp (l : bytes) : bool := match l with c :: _ => N.eqb c SP | [] => false end.

Lemma take_value_escape : forall v rest, starts_with_sp rest = false ->
  take_value (escape_newlines v ++ LF :: rest) = Some (v, rest).
Proof.
  induction v as [|c v IH]; intros rest Hr; cbn [escape_newlines app take_value].
  - rewrite N.eqb_refl. destruct rest as [|c2 rest]; [reflexivity|].
    cbn [starts_with_sp] in Hr. rewrite Hr. reflexivity.
  - destruct (N.eqb_spec c LF) as [E|E].
    + subst. cbn [app take_value]. rewrite !N.eqb_refl. rewrite IH by exact Hr. reflexivity.
    + cbn [app take_value]. apply N.eqb_neq in E. rewrite E. rewrite IH by exact Hr. reflexivity.
Qed.

Lemma take_key_ok : forall k rest, wf_key k = true -> take_key (k ++ SP :: rest) = Some (k, rest).
Proof.
  intros k rest H. apply wf_key_inv in H. destruct H as [H0 [H1 H2]]. unfold take_key.
  rewrite cut_app by exact H1. apply memb_false in H2. rewrite H2.
  destruct k; [congruence | reflexivity].
Qed.

Lemma payload_not_sp : forall hs msg, forallb (fun h => wf_key (fst h)) hs = true ->
  starts_with_sp (headers_payload hs msg) = false.
Proof.
  intros [|[k v] hs] msg H; unfold headers_payload.
  - destruct msg; reflexivity.
  - cbn [map concat forallb fst] in *. apply andb_true_iff in H. destruct H as [H _].
    apply wf_key_inv in H. destruct H as [H0 [H1 _]]. unfold header_line. cbn [fst].
    destruct k as [|c k]; [congruence|]. cbn [app starts_with_sp].
    apply N.eqb_neq. intro E. apply H1. left. exact E.
Qed.

Lemma headers_payload_cons : forall h hs msg,
  headers_payload (h :: hs) msg = fst h ++ SP :: escape_newlines (snd h) ++ LF :: headers_payload hs msg.
Proof.
  intros [k v] hs msg. unfold headers_payload, header_line. cbn [map concat fst snd app].
  rewrite <- !app_assoc. cbn [app]. rewrite <- !app_assoc. reflexivity.
Qed.

Theorem parse_headers_ok : forall hs msg fuel,
  forallb (fun h => wf_key (fst h)) hs = true ->
  (length hs < fuel)%nat ->
  parse_headers fuel (headers_payload hs msg) = Some (hs, msg).
Proof.
  induction hs as [|[k v] hs IH]; intros msg fuel Hk Hf.
  - unfold headers_payload. cbn [map concat app]. destruct msg as [m|].
    + destruct fuel; cbn [parse_headers]; rewrite N.eqb_refl; reflexivity.
    + destruct fuel; reflexivity.
  - cbn [forallb fst] in Hk. apply andb_true_iff in Hk. destruct Hk as [Hk1 Hk2].
    destruct fuel as [|fuel]; [cbn [length] in Hf; lia|].
    rewrite headers_payload_cons. cbn [fst snd].
    pose proof (wf_key_inv _ Hk1) as [H0 [H1 H2]].
    destruct k as [|c k]; [congruence|]. cbn [app parse_headers].
    destruct (N.eqb_spec c LF) as [E|E]; [exfalso; apply H2; left; auto|].
    change (c :: k ++ SP :: escape_newlines v ++ LF :: headers_payload hs msg)
      with ((c :: k) ++ SP :: escape_newlines v ++ LF :: headers_payload hs msg).
    rewrite take_key_ok by exact Hk1.
    rewrite take_value_escape by (apply payload_not_sp; exact Hk2).
    rewrite IH; [reflexivity | exact Hk2 | cbn [length] in Hf; lia].
Qed.

Lemma header_line_length : forall h, (1 <= length (header_line h))%nat.
Proof. intros [k v]. unfold header_line. cbn [fst snd]. rewrite app_length. cbn [app length]. lia. Qed.

Lemma payload_length : forall hs msg, (length hs <= length (headers_payload hs msg))%nat.
Proof.
  induction hs as [|h hs IH]; intro msg; [cbn; lia|].
  unfold headers_payload in *. cbn [map concat]. rewrite <- app_assoc, app_length.
  pose proof (header_line_length h). specialize (IH msg). cbn [length]. lia.
Qed.

Theorem parse_payload_ok : forall hs msg,
  forallb (fun h => wf_key (fst h)) hs = true ->
  parse_payload (headers_payload hs msg) = Some (hs, msg).
Proof.
  intros hs msg H. unfold parse_payload. apply parse_headers_ok; [exact H|].
  unfold lt. apply le_n_S. apply payload_length.
Qed.

(* whole object: header + payload *)
Definition parse_object (l : bytes) : option (bytes * list header * option bytes) :=
  match parse_git_object l with
  | Some (ty, body) => match parse_payload body with
                       | Some (hs, m) => Some (ty, hs, m)
                       | None => None
                       end
  | None => None
  end.

Theorem parse_object_ok : forall ty hs msg,
  ~ In SP ty -> forallb (fun h => wf_key (fst h)) hs = true ->
  parse_object (from_headers ty hs msg) = Some (ty, hs, msg).
Proof.
  intros ty hs msg Hty Hk. unfold parse_object, from_headers.
  rewrite parse_git_object_ok by exact Hty. rewrite parse_payload_ok by exact Hk. reflexivity.
Qed.

Corollary from_headers_inj : forall ty hs msg hs' msg',
  ~ In SP ty -> forallb (fun h => wf_key (fst h)) hs = true -> forallb (fun h => wf_key (fst h)) hs' = true ->
  from_headers ty hs msg = from_headers ty hs' msg' -> hs = hs' /\ msg = msg'.
Proof.
  intros ty hs msg hs' msg' Hty H H' E.
  assert (X : parse_object (from_headers ty hs msg) = parse_object (from_headers ty hs' msg')) by (rewrite E; reflexivity).
  rewrite !parse_object_ok in X by assumption. inversion X. auto.
Qed.

(* escape_newlines agrees with Python's b"\n ".join(v.split(b"\n")) - stated
   as executable examples, checked by the kernel *)
Example escape_examples :
  escape_newlines (bs "a") = bs "a" /\
  escape_newlines [97; 10; 98] = [97; 10; 32; 98] /\
  escape_newlines [10] = [10; 32] /\
  escape_newlines [10; 10; 32] = [10; 32; 10; 32; 32].
Proof. repeat split; reflexivity. Qed.
