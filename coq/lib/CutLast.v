(* Generic helpers for positional header-list decoders (C15):
   - [cut_last]: split a byte string at the LAST occurrence of a byte
     (the companion of Bytes.cut, which splits at the first),
   - [opt_lines]: the header lines "key value" emitted for exactly those
     keys of a fixed key list whose optional field is set, in key-list order,
   - [subseqb]: boolean "is a subsequence of" on key lists,
   - [assoc]: first-match lookup in a header list. *)
From Coq Require Import List NArith Bool Lia.
From SWH.lib Require Import Bytes Dec GitHeader Headers.
Import ListNotations.
Open Scope N_scope.

(* ---- cut at the last occurrence ---- *)
Fixpoint cut_last (c : N) (l : bytes) : option (bytes * bytes) :=
  match l with
  | [] => None
  | x :: l' =>
      match cut_last c l' with
      | Some (a, r) => Some (x :: a, r)
      | None => if N.eqb x c then Some ([], l') else None
      end
  end.

Lemma cut_last_none : forall c l, ~ In c l -> cut_last c l = None.
Proof.
  induction l as [|x l IH]; intro H; cbn [cut_last]; [reflexivity|].
  rewrite IH by (intro K; apply H; right; exact K).
  destruct (N.eqb_spec x c) as [E|E]; [|reflexivity].
  exfalso. apply H. left. exact E.
Qed.

Lemma cut_last_none_inv : forall c l, cut_last c l = None -> ~ In c l.
Proof.
  induction l as [|x l IH]; intro H; [intros []|]. cbn [cut_last] in H.
  destruct (cut_last c l) as [[a r]|] eqn:E; [discriminate|].
  destruct (N.eqb_spec x c) as [Ex|Ex]; [discriminate|].
  intros [K|K]; [congruence | exact (IH eq_refl K)].
Qed.

Lemma cut_last_app : forall c a r, ~ In c r -> cut_last c (a ++ c :: r) = Some (a, r).
Proof.
  induction a as [|x a IH]; intros r H; cbn [app cut_last].
  - rewrite cut_last_none by exact H. rewrite N.eqb_refl. reflexivity.
  - rewrite IH by exact H. reflexivity.
Qed.

Lemma cut_last_inv : forall c l a r, cut_last c l = Some (a, r) -> l = a ++ c :: r /\ ~ In c r.
Proof.
  induction l as [|x l IH]; intros a r H; cbn [cut_last] in H; [discriminate|].
  destruct (cut_last c l) as [[a' r']|] eqn:E.
  - inversion H; subst. destruct (IH a' r eq_refl) as [H1 H2]. split; [|exact H2].
    cbn [app]. rewrite <- H1. reflexivity.
  - destruct (N.eqb_spec x c) as [Ex|Ex]; [|discriminate]. inversion H; subst.
    split; [reflexivity | apply cut_last_none_inv; exact E].
Qed.

(* ---- optional lines over a fixed key list ---- *)
Definition issome {A} (o : option A) : bool := match o with Some _ => true | None => false end.

Fixpoint opt_lines (f : bytes -> option bytes) (keys : list bytes) : list header :=
  match keys with
  | [] => []
  | k :: ks => match f k with
               | Some v => (k, v) :: opt_lines f ks
               | None => opt_lines f ks
               end
  end.

Lemma opt_lines_keys : forall f ks, map fst (opt_lines f ks) = filter (fun k => issome (f k)) ks.
Proof.
  induction ks as [|k ks IH]; [reflexivity|]. cbn [opt_lines filter].
  destruct (f k) as [v|]; cbn [issome map fst]; rewrite IH; reflexivity.
Qed.

Lemma opt_lines_In : forall f ks k v, In (k, v) (opt_lines f ks) <-> In k ks /\ f k = Some v.
Proof.
  induction ks as [|k0 ks IH]; intros k v; cbn [opt_lines In]; [tauto|].
  destruct (f k0) as [v0|] eqn:E.
  - cbn [In]. rewrite IH. split.
    + intros [H|[H1 H2]]; [inversion H; subst; auto | auto].
    + intros [[H|H] H2]; [subst; left; congruence | right; auto].
  - rewrite IH. split.
    + intros [H1 H2]; auto.
    + intros [[H|H] H2]; [subst; congruence | auto].
Qed.

(* a line for key k is present iff the field is set (k ranging over the key list) *)
Lemma opt_lines_present : forall f ks k, In k (map fst (opt_lines f ks)) <-> In k ks /\ f k <> None.
Proof.
  intros f ks k. rewrite opt_lines_keys, filter_In. unfold issome.
  destruct (f k); split; intros [H1 H2]; split; auto; congruence.
Qed.

Lemma opt_lines_wf : forall f ks, forallb wf_key ks = true ->
  forallb (fun h => wf_key (fst h)) (opt_lines f ks) = true.
Proof.
  induction ks as [|k ks IH]; intro H; [reflexivity|]. cbn [forallb] in H.
  apply andb_true_iff in H. destruct H as [H1 H2]. cbn [opt_lines].
  destruct (f k); [cbn [forallb fst]; rewrite H1; cbn [andb]|]; apply IH; exact H2.
Qed.

Fixpoint assoc (k : bytes) (l : list header) : option bytes :=
  match l with
  | [] => None
  | (k', v) :: r => if beqb k k' then Some v else assoc k r
  end.

Lemma assoc_notin : forall k l, ~ In k (map fst l) -> assoc k l = None.
Proof.
  induction l as [|[k' v] l IH]; intro H; [reflexivity|]. cbn [assoc].
  destruct (beqb k k') eqn:E.
  - apply beqb_eq in E. exfalso. apply H. left. cbn [fst]. congruence.
  - apply IH. intro K. apply H. right. exact K.
Qed.

Lemma opt_lines_assoc : forall f ks k, NoDup ks -> In k ks -> assoc k (opt_lines f ks) = f k.
Proof.
  induction ks as [|k0 ks IH]; intros k ND Hin; [destruct Hin|].
  inversion ND as [|? ? Hn ND']; subst. cbn [opt_lines].
  destruct (beqb k k0) eqn:E.
  - apply beqb_eq in E. subst k0. destruct (f k) as [v|] eqn:F.
    + cbn [assoc]. rewrite beqb_refl. reflexivity.
    + apply assoc_notin. rewrite opt_lines_present. intros [K _]. exact (Hn K).
  - assert (Hin' : In k ks).
    { destruct Hin as [K|K]; [subst; rewrite beqb_refl in E; discriminate | exact K]. }
    destruct (f k0) as [v0|]; [cbn [assoc]; rewrite E|]; apply IH; assumption.
Qed.

(* ---- subsequence test (greedy; used on lists of keys) ---- *)
Fixpoint subseqb (a b : list bytes) {struct b} : bool :=
  match a with
  | [] => true
  | x :: a' => match b with
               | [] => false
               | y :: b' => if beqb x y then subseqb a' b' else subseqb a b'
               end
  end.

Lemma subseqb_nil : forall b, subseqb [] b = true.
Proof. destruct b; reflexivity. Qed.

Lemma subseqb_filter : forall (p : bytes -> bool) b, subseqb (filter p b) b = true.
Proof.
  induction b as [|y b IH]; [reflexivity|]. cbn [filter].
  destruct (p y) eqn:Py.
  - cbn [subseqb]. rewrite beqb_refl. exact IH.
  - destruct (filter p b) as [|x a] eqn:F; [apply subseqb_nil|].
    cbn [subseqb]. destruct (beqb x y) eqn:E; [|exact IH].
    apply beqb_eq in E. subst y.
    assert (K : In x (filter p b)) by (rewrite F; left; reflexivity).
    apply filter_In in K. destruct K as [_ K]. congruence.
Qed.

Lemma opt_lines_subseq : forall f ks, subseqb (map fst (opt_lines f ks)) ks = true.
Proof. intros. rewrite opt_lines_keys. apply subseqb_filter. Qed.

(* NoDup on byte-string lists, as a boolean (for side conditions by computation) *)
Fixpoint nodupb (l : list bytes) : bool :=
  match l with [] => true | x :: r => negb (mem_bytes x r) && nodupb r end.

Lemma nodupb_NoDup : forall l, nodupb l = true -> NoDup l.
Proof.
  induction l as [|x l IH]; intro H; [constructor|]. cbn [nodupb] in H.
  apply andb_true_iff in H. destruct H as [H1 H2]. constructor; [|exact (IH H2)].
  apply negb_true_iff in H1. intro K. apply mem_bytes_In in K. congruence.
Qed.
