(* Model of git_objects.directory_git_object / directory_entry_sort_key /
   _perms_to_bytes and of the validators of model.DirectoryEntry / model.Directory.
   Definitions only. *)
From Coq Require Import List NArith Bool.
From SWH.lib Require Import Bytes Dec Hex Order StableSort GitHeader.
Import ListNotations.
Open Scope N_scope.

Inductive ety := EFile | EDir | ERev.

Definition ety_eqb (a b : ety) : bool :=
  match a, b with EFile, EFile | EDir, EDir | ERev, ERev => true | _, _ => false end.

Record entry := { e_name : bytes; e_type : ety; e_target : bytes; e_perms : N }.

(* directory_entry_sort_key *)
Definition sort_key (e : entry) : bytes :=
  match e_type e with EDir => e_name e ++ [SLASH] | _ => e_name e end.

Definition entry_leb (a b : entry) : bool := bleb (sort_key a) (sort_key b).

(* the five components appended per entry *)
Definition entry_parts (e : entry) : list bytes :=
  [oct (e_perms e); [SP]; e_name e; [NUL]; e_target e].

Definition tree_parts (es : list entry) : list bytes :=
  flat_map entry_parts (sort entry_leb es).

(* directory_git_object: format_git_object_from_parts("tree", components) *)
Definition dir_manifest (es : list entry) : bytes := from_parts (bs "tree") (tree_parts es).

(* --- validators --- *)
Fixpoint nodup_names (seen : list bytes) (es : list entry) : bool :=
  match es with
  | [] => true
  | e :: es' => if mem_bytes (e_name e) seen then false else nodup_names (e_name e :: seen) es'
  end.

Definition name_ok (e : entry) : bool := negb (memb SLASH (e_name e)).

(* Directory(entries=...) raises ValueError when an entry name contains "/"
   (DirectoryEntry.check_name) or a name is repeated (Directory.check_entries) *)
Definition valid_dir (es : list entry) : bool := forallb name_ok es && nodup_names [] es.

Inductive dir_result := DirOk (manifest : bytes) | DirValueError.

Definition mk_dir_manifest (es : list entry) : dir_result :=
  if valid_dir es then DirOk (dir_manifest es) else DirValueError.

(* --- the Directory record: what may influence the id --- *)
Record directory := { d_entries : list entry; d_raw_manifest : option bytes }.

Section WithHash.
  Variable H : bytes -> bytes.      (* SHA-1, uninterpreted *)
  Definition dir_compute_hash (d : directory) : bytes :=
    H (match d_raw_manifest d with Some m => m | None => dir_manifest (d_entries d) end).
  Definition dir_id (es : list entry) : bytes := H (dir_manifest es).
End WithHash.

(* --- independent specification: git's own ordering rule (tree.c / read-cache.c
   base_name_compare): compare the common prefix; then the next byte, where the
   end of a directory name counts as '/' and the end of another name as NUL --- *)
Definition term (l : bytes) (isdir : bool) : N :=
  match l with c :: _ => c | [] => if isdir then SLASH else NUL end.

Fixpoint git_cmp (n1 : bytes) (d1 : bool) (n2 : bytes) (d2 : bool) : comparison :=
  match n1, n2 with
  | x :: r1, y :: r2 => match N.compare x y with Eq => git_cmp r1 d1 r2 d2 | c => c end
  | _, _ => N.compare (term n1 d1) (term n2 d2)
  end.

Definition is_dir (e : entry) : bool := ety_eqb (e_type e) EDir.
Definition git_entry_cmp (a b : entry) : comparison :=
  git_cmp (e_name a) (is_dir a) (e_name b) (is_dir b).
Definition git_leb (a b : entry) : bool := match git_entry_cmp a b with Gt => false | _ => true end.

(* git's encoding of one tree entry: "<octal mode> <name>\0<20-byte id>" *)
Definition enc (e : entry) : bytes := oct (e_perms e) ++ [SP] ++ e_name e ++ [NUL] ++ e_target e.
Definition git_tree_payload (es : list entry) : bytes := concat (map enc (sort git_leb es)).
Definition git_tree_object (es : list entry) : bytes := git_object (bs "tree") (git_tree_payload es).

(* --- independent decoder of a tree payload into (mode, name, target) triples --- *)
Definition triple := (N * bytes * bytes)%type.
Definition triple_of (e : entry) : triple := (e_perms e, e_name e, e_target e).

Fixpoint decode_tree (fuel : nat) (l : bytes) : option (list triple) :=
  match l with
  | [] => Some []
  | _ =>
      match fuel with
      | O => None
      | S f =>
          match cut SP l with
          | (m, Some r1) =>
              match parse_oct m, cut NUL r1 with
              | Some perms, (name, Some r2) =>
                  if Nat.leb 20 (length r2)
                  then match decode_tree f (skipn 20 r2) with
                       | Some ts => Some ((perms, name, firstn 20 r2) :: ts)
                       | None => None
                       end
                  else None
              | _, _ => None
              end
          | _ => None
          end
      end
  end.

Definition decode_tree_object (l : bytes) : option (list triple) :=
  match parse_git_object l with
  | Some (ty, body) => if beqb ty (bs "tree") then decode_tree (S (length body)) body else None
  | None => None
  end.
