(* Model of model.Directory.from_possibly_duplicated_entries (swh/model/model.py)
   on top of the C02 model (Dir.v): the Directory constructor with its
   validators and id computation, HashableObjectWithManifest.check, and the
   repair of duplicated entry names.  Definitions only (+ Examples).

   Python                                          here
   ------                                          ----
   Directory(entries=, id=, raw_manifest=)         mk_directory   (ValueError = None)
   d.compute_hash()                                compute_hash
   d.check()                                       check
   entries_by_name (dict, insertion order)         uniq_names [] es   (first-occurrence order)
   entries_by_name[n][t] (list, append order)      filter (has_type t) (filter (has_name n) es)
   for type_ in ("rev","dir","file"): ...          flat_map ... precedence   (table from the source)
   picked_winner / renaming loop                   plan + assign
   while new_name in used_names: attempt += 1 ...  free_name (fuel = |used_names| + 1)
   the code BEFORE the fix (unconditional rename)  assign_old / repair_old   (mutant, for the refutation) *)
From Coq Require Import List NArith Bool.
From SWH.lib Require Import Bytes Dec Hex Order StableSort GitHeader.
From SWH.model Require Import Dir.
From SWH Require Import Generated.
Import ListNotations.
Open Scope N_scope.

Definition UNDERSCORE : N := 95.

(* ---------------------------------------------------------------- precedence table *)
Definition ety_name (t : ety) : bytes :=
  match t with EFile => bs "file" | EDir => bs "dir" | ERev => bs "rev" end.
Definition all_types : list ety := [EFile; EDir; ERev].    (* _DIR_ENTRY_TYPES *)

(* dir_entry_types = ("rev", "dir", "file"), read from the source on every run *)
Definition precedence : list ety :=
  flat_map (fun nm => filter (fun t => beqb (ety_name t) nm) all_types) DEDUP_PRECEDENCE.

Fixpoint index_of (t : ety) (l : list ety) : nat :=
  match l with
  | [] => O
  | x :: r => if ety_eqb x t then O else S (index_of t r)
  end.
(* smaller = more important *)
Definition rank (t : ety) : nat := index_of t precedence.

(* ---------------------------------------------------------------- the Directory object *)
Record dirobj := { o_entries : list entry; o_id : bytes; o_raw : option bytes }.

Definition has_name (n : bytes) (e : entry) : bool := beqb (e_name e) n.
Definition has_type (t : ety) (e : entry) : bool := ety_eqb (e_type e) t.
Definition set_name (e : entry) (n : bytes) : entry :=     (* attr.evolve(entry, name=n) *)
  {| e_name := n; e_type := e_type e; e_target := e_target e; e_perms := e_perms e |}.

Section WithHash.
  Variable H : bytes -> bytes.      (* SHA-1, uninterpreted *)

  (* HashableObjectWithManifest.compute_hash *)
  Definition compute_hash (es : list entry) (raw : option bytes) : bytes :=
    H (match raw with Some m => m | None => dir_manifest es end).

  (* Directory(entries=es, id=id, raw_manifest=raw): validators first (ValueError
     = None), then __attrs_post_init__ fills an empty id *)
  Definition mk_directory (es : list entry) (id : bytes) (raw : option bytes) : option dirobj :=
    if valid_dir es
    then Some {| o_entries := es;
                 o_id := match id with [] => compute_hash es raw | _ => id end;
                 o_raw := raw |}
    else None.

  (* d.check() does not raise: validators again, id = recomputed hash, and a
     raw manifest is present only if it is needed *)
  Definition check (d : dirobj) : bool :=
    valid_dir (o_entries d)
    && beqb (o_id d) (compute_hash (o_entries d) (o_raw d))
    && negb (match o_raw d with
             | Some _ => beqb (o_id d) (H (dir_manifest (o_entries d)))
             | None => false
             end).

  (* ---------------------------------------------------------------- grouping *)
  (* keys of entries_by_name in insertion order *)
  Fixpoint uniq_names (seen : list bytes) (es : list entry) : list bytes :=
    match es with
    | [] => []
    | e :: r => if mem_bytes (e_name e) seen then uniq_names seen r
                else e_name e :: uniq_names (e_name e :: seen) r
    end.

  (* the entries of one name, most important type first, input order inside a type *)
  Definition ordered_group (es : list entry) (n : bytes) : list entry :=
    flat_map (fun t => filter (has_type t) (filter (has_name n) es)) precedence.

  (* (true, e): e keeps its name;  (false, e): e must be renamed *)
  Definition mark (g : list entry) : list (bool * entry) :=
    match g with
    | [] => []
    | w :: losers => (true, w) :: map (pair false) losers
    end.

  Definition plan (es : list entry) (names : list bytes) : list (bool * entry) :=
    flat_map (fun n => mark (ordered_group es n)) names.

  (* ---------------------------------------------------------------- renaming *)
  Definition base_name (e : entry) : bytes :=
    e_name e ++ [UNDERSCORE] ++ firstn 10 (hexlify (e_target e)).

  (* the name tried at attempt k: base, base_1, base_2, ... *)
  Definition candidate (base : bytes) (k : N) : bytes :=
    if k =? 0 then base else base ++ [UNDERSCORE] ++ dec_N k.

  Fixpoint free_name (fuel : nat) (used : list bytes) (base : bytes) (k : N) : option bytes :=
    match fuel with
    | O => None
    | S f => let c := candidate base k in
             if mem_bytes c used then free_name f used base (N.succ k) else Some c
    end.

  (* None = the search for a free name ran out of fuel *)
  Fixpoint assign (used : list bytes) (p : list (bool * entry)) : option (list entry) :=
    match p with
    | [] => Some []
    | (true, e) :: r => option_map (cons e) (assign used r)
    | (false, e) :: r =>
        match free_name (S (length used)) used (base_name e) 0 with
        | None => None
        | Some n => option_map (cons (set_name e n)) (assign (n :: used) r)
        end
    end.

  Inductive repair_result :=
  | RepOk (flag : bool) (d : dirobj)
  | RepValueError
  | RepOutOfFuel.

  Definition repair (es : list entry) (id : bytes) (raw : option bytes) : repair_result :=
    match mk_directory es id raw with
    | Some d => RepOk false d
    | None =>
        let raw' := match raw with Some m => m | None => dir_manifest es end in
        let names := uniq_names [] es in
        match assign names (plan es names) with
        | None => RepOutOfFuel
        | Some es' =>
            match mk_directory es' id (Some raw') with
            | Some d => RepOk true d
            | None => RepValueError
            end
        end
    end.

  (* ---------------------------------------------------------------- the code before the fix *)
  Definition assign_old (p : list (bool * entry)) : list entry :=
    map (fun be => match be with
                   | (true, e) => e
                   | (false, e) => set_name e (base_name e)
                   end) p.

  Definition repair_old (es : list entry) (id : bytes) (raw : option bytes) : repair_result :=
    match mk_directory es id raw with
    | Some d => RepOk false d
    | None =>
        let raw' := match raw with Some m => m | None => dir_manifest es end in
        match mk_directory (assign_old (plan es (uniq_names [] es))) id (Some raw') with
        | Some d => RepOk true d
        | None => RepValueError
        end
    end.
End WithHash.

(* ---------------------------------------------------------------- examples *)
Definition mk (n : String.string) (t : ety) (b : N) (p : N) : entry :=
  {| e_name := bs n; e_type := t; e_target := repeat b 20; e_perms := p |}.
Arguments mk n%string t b%N p%N.

(* file a, dir a, file a (the first one again), file b, rev b *)
Definition ex_dups : list entry :=
  [mk "a" EFile 1 33188; mk "a" EDir 2 16384; mk "a" EFile 1 33188; mk "b" EFile 3 33188; mk "b" ERev 4 57344].

(* three files a, the last two with the same target; a file that already has the
   would-be new name: the attempt counter is needed twice
   (examples that depend on the precedence table are in proofs/DedupProofs.v, so
   that this file builds whatever the table says) *)
Definition ex_files : list entry :=
  [mk "a" EFile 1 33188; mk "a" EFile 2 33188; mk "a_0202020202" EFile 3 33188; mk "a" EFile 2 33188].


