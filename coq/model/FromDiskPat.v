(* Glob exclusion patterns for from_disk.Directory.from_disk
   (from_disk.ignore_directories_patterns / extract_regex_objs), and the two
   passes of from_disk parameterised by PATH-AWARE filter predicates.
   Definitions only.  FromDisk.v (name / emptiness filters) is untouched; this
   file is a conservative extension of it (proofs/FromDiskPatProofs.v).

   pattern_filter(dirpath, dirname, entries) =
     not any(regex.match(relpath(abspath(join(dirpath, dirname)), abspath(root_path))))
   with regex = re.compile(os.fsencode(fnmatch.translate(os.fsdecode(pattern)))).

   * fnmatch.translate / re are the standard library, not code of the
     repository: the glob LANGUAGE is modelled directly ([glob_parse] into
     tokens, [tmatch] a total backtracking matcher) and validated against
     re.compile(fnmatch.translate(p)) on generated (pattern, text) pairs.
     Patterns are byte strings; '?' and a bracket expression match ONE BYTE
     (the regex is compiled on bytes).  The bracket-expression quirks of
     fnmatch.translate (Python 3.12) are transcribed: '!' negates, a leading
     ']' is literal, '[' without a closing ']' is a literal '[', '-' between
     two characters is a range unless it is first / last / right after a
     range, a range whose ends are reversed is dropped with both of its ends,
     an expression left empty never matches, one left with just '!' matches any
     byte, and what is left starting with '!' is negated.
     Domain: any pattern bytes (since commit 5529d3b the pattern is converted
     with os.fsdecode / os.fsencode: a byte that is not part of a valid UTF-8
     sequence is one code point U+DC80+b and comes back as that byte) whose
     bracket expressions hold ASCII and such LONE bytes only: for them code
     point order = byte order, so the bytewise reading below is exact.  A valid
     multi-byte sequence inside brackets is outside the domain (the
     translation orders and drops range ends by code point, the compiled
     regex matches bytes).
   * os.path.abspath / relpath are not modelled: for a node reached from the
     top directory through the names n1 .. nk (none of them "." or "..", which
     scandir never lists) the relative path is n1/../nk when the root path
     given to the filter and the path given to from_disk denote the same
     absolute path without resolving symbolic links; an absolute pattern is
     first made relative to the root.  Exercised by the correspondence check
     over several spellings of the root path.
   * Directory.from_disk calls path_filter(dirpath, dirname, entries) for a
     directory in pass 1 (entries = the full paths of its listing) and in pass
     2 (entries = the names that survived), and path_filter(root, name, None)
     for every non-directory in pass 1.  The predicates below receive the
     path from the top directory as a list of names, and the NAMES of the
     entries in both passes (the filters of the repository look at most at
     whether the list is empty). *)
From Coq Require Import List NArith Bool.
From SWH.lib Require Import Bytes Dec Hex Order StableSort GitHeader.
From SWH.model Require Import Dir FromDisk.
From SWH Require Import Generated.
Import ListNotations.
Open Scope N_scope.

(* ------------------------------------------------------------------ the glob language *)
Definition STAR : N := 42.     (* '*' *)
Definition QMARK : N := 63.    (* '?' *)
Definition LBRACK : N := 91.   (* '[' *)
Definition RBRACK : N := 93.   (* ']' *)
Definition BANG : N := 33.     (* '!' *)
Definition DASH : N := 45.     (* '-' *)

Inductive citem := CLit (c : N) | CRange (lo hi : N).

Inductive tok :=
| TStar                                    (* any bytes, '/' included *)
| TAny                                     (* any one byte *)
| TLit (c : N)
| TClass (neg : bool) (items : list citem).  (* one byte in / not in the set *)

(* the body of a bracket expression, read left to right: the first character
   cannot be a range operator; after "lo-hi" the next character cannot either *)
Fixpoint cls_scan (s : bytes) : list citem :=
  match s with
  | [] => []
  | c :: s1 =>
      match s1 with
      | [] => [CLit c]
      | x :: s2 =>
          if N.eqb x DASH
          then match s2 with
               | [] => [CLit c; CLit DASH]            (* '-' last: literal *)
               | d :: rest => CRange c d :: cls_scan rest
               end
          else CLit c :: cls_scan s1
      end
  end.

Definition reversed (i : citem) : bool := match i with CRange lo hi => hi <? lo | CLit _ => false end.

(* (negated, items) of the body between '[' and the closing ']' *)
Definition class_of (body : bytes) : bool * list citem :=
  let items := match body with
               | c :: rest => if N.eqb c BANG then CLit BANG :: cls_scan rest else cls_scan body
               | [] => []
               end in
  match filter (fun i => negb (reversed i)) items with
  | CLit c :: r => if N.eqb c BANG then (true, r) else (false, CLit c :: r)
  | CRange lo hi :: r => if N.eqb lo BANG then (true, CLit DASH :: CLit hi :: r) else (false, CRange lo hi :: r)
  | [] => (false, [])
  end.

(* position of the closing ']' in what follows a '[': an initial '!' and then an initial ']' are skipped *)
Fixpoint index_of (c : N) (s : bytes) : option nat :=
  match s with
  | [] => None
  | x :: r => if N.eqb x c then Some O else option_map S (index_of c r)
  end.

Definition close_len (s : bytes) : option nat :=
  let skip1 := match s with c :: _ => if N.eqb c BANG then 1%nat else 0%nat | [] => 0%nat end in
  let s1 := skipn skip1 s in
  let skip2 := match s1 with c :: _ => if N.eqb c RBRACK then 1%nat else 0%nat | [] => 0%nat end in
  option_map (fun k => (skip1 + skip2 + k)%nat) (index_of RBRACK (skipn skip2 s1)).

(* tokens of a pattern and of each of its proper suffixes (never empty; the
   head is the parse of the whole): a '[' with a closing ']' continues after it *)
Fixpoint parse_all (p : bytes) : list (list tok) :=
  match p with
  | [] => [[]]
  | c :: rest =>
      let ps := parse_all rest in
      let tl_toks := hd [] ps in
      let here :=
        if N.eqb c STAR then TStar :: tl_toks
        else if N.eqb c QMARK then TAny :: tl_toks
        else if N.eqb c LBRACK then
          match close_len rest with
          | Some n => let '(neg, items) := class_of (firstn n rest) in TClass neg items :: nth (S n) ps []
          | None => TLit c :: tl_toks
          end
        else TLit c :: tl_toks in
      here :: ps
  end.

Definition glob_parse (p : bytes) : list tok := hd [] (parse_all p).

Definition in_item (x : N) (i : citem) : bool :=
  match i with CLit c => N.eqb x c | CRange lo hi => (lo <=? x) && (x <=? hi) end.

(* anchored at both ends; structural on the tokens, '*' backtracks by recursion on the text *)
Fixpoint tmatch (ts : list tok) (s : bytes) : bool :=
  match ts with
  | [] => match s with [] => true | _ => false end
  | TStar :: r =>
      (fix star (s : bytes) : bool :=
         tmatch r s || match s with [] => false | _ :: s' => star s' end) s
  | TAny :: r => match s with _ :: s' => tmatch r s' | [] => false end
  | TLit c :: r => match s with x :: s' => N.eqb x c && tmatch r s' | [] => false end
  | TClass neg items :: r =>
      match s with x :: s' => xorb neg (existsb (in_item x) items) && tmatch r s' | [] => false end
  end.

Definition glob_match (p : bytes) (text : bytes) : bool := tmatch (glob_parse p) text.

(* ------------------------------------------------------------------ paths *)
(* n1/n2/../nk *)
Fixpoint rel_path (path : list bytes) : bytes :=
  match path with
  | [] => []
  | [n] => n
  | n :: rest => n ++ SLASH :: rel_path rest
  end.

(* a path-aware filter: path from the top directory, Some entries for a directory / None for a file *)
Definition pfilter := list bytes -> option (list bytes) -> bool.

Definition excluded (pats : list bytes) (path : list bytes) : bool :=
  existsb (fun p => glob_match p (rel_path path)) pats.

(* ignore_directories_patterns(root, pats) *)
Definition pat_filter (pats : list bytes) : pfilter := fun path _ => negb (excluded pats path).

(* what pass 2 gave the filter before commit 270736c: the path relative to the
   top directory with a leading '/', read as an absolute path: relative to a
   root that is k components deep this is "../" k times, then the path *)
Fixpoint dotdots (k : nat) : bytes :=
  match k with O => [] | S k' => 46 :: 46 :: SLASH :: dotdots k' end.

Definition old_pass2 (k : nat) (pats : list bytes) : pfilter :=
  fun path _ => negb (existsb (fun p => glob_match p (dotdots k ++ rel_path path)) pats).

(* the three filters of FromDisk.v as path-aware filters: files are accepted, directories are judged on their name *)
Definition pf_of (f : filt) : pfilter :=
  fun path entries => match entries with None => true | Some es => filt_dir f (last path []) es end.

(* ------------------------------------------------------------------ the two passes *)
Section WalkP.
  Variable ord : list bytes -> list (bytes * mtree) -> list (bytes * mtree).   (* listing order oracle, per path *)
  Variable pf1 pf2 : pfilter.       (* what the filter answers in pass 1 / in pass 2 *)
  Variable limit : option N.

  (* pass 1: a rejected non-root directory is not descended into and is
     removed afterwards; a rejected file is not read (Content.from_file is not called) *)
  Fixpoint buildp (path : list bytes) (t : fsnode) : fd_result mtree :=
    match t with
    | FDir cs =>
        match (fix kids (l : list (bytes * fsnode)) : fd_result (list (bytes * mtree)) :=
                 match l with
                 | [] => FdOk []
                 | (n, c) :: r =>
                     match c with
                     | FDir ccs =>
                         if pf1 (path ++ [n]) (Some (map fst ccs))
                         then match buildp (path ++ [n]) c, kids r with
                              | FdOk m, FdOk ks => FdOk ((n, m) :: ks)
                              | _, _ => FdSymlinkTooLarge
                              end
                         else kids r
                     | _ =>
                         if pf1 (path ++ [n]) None
                         then match from_file limit c, kids r with
                              | FdOk ci, FdOk ks => FdOk ((n, MLeaf ci) :: ks)
                              | _, _ => FdSymlinkTooLarge
                              end
                         else kids r
                     end
                 end) cs with
        | FdOk ks => FdOk (MNode (ord path ks))
        | FdSymlinkTooLarge => FdSymlinkTooLarge
        end
    | _ => match from_file limit t with FdOk ci => FdOk (MLeaf ci) | FdSymlinkTooLarge => FdSymlinkTooLarge end
    end.

  (* pass 2: bottom-up, delete every non-root directory the filter now rejects *)
  Fixpoint prune2p (path : list bytes) (m : mtree) : mtree :=
    match m with
    | MLeaf _ => m
    | MNode ks =>
        MNode ((fix go (l : list (bytes * mtree)) : list (bytes * mtree) :=
                  match l with
                  | [] => []
                  | (n, c) :: r =>
                      match c with
                      | MLeaf _ => (n, c) :: go r
                      | MNode _ => let c' := prune2p (path ++ [n]) c in
                                   if pf2 (path ++ [n]) (Some (keys c')) then (n, c') :: go r else go r
                      end
                  end) ks)
    end.

  Definition from_disk_pat (t : fsnode) : fd_result mtree :=
    match buildp [] t with FdOk m => FdOk (prune2p [] m) | FdSymlinkTooLarge => FdSymlinkTooLarge end.
End WalkP.

(* ------------------------------------------------------------------ physical pruning (specification) *)
(* every child - file or directory - whose path is rejected is removed, with everything below it *)
Fixpoint prune_path (keep : list bytes -> bool) (path : list bytes) (t : fsnode) : fsnode :=
  match t with
  | FDir cs =>
      FDir ((fix go (l : list (bytes * fsnode)) : list (bytes * fsnode) :=
               match l with
               | [] => []
               | (n, c) :: r => if keep (path ++ [n]) then (n, prune_path keep (path ++ [n]) c) :: go r else go r
               end) cs)
  | _ => t
  end.

Definition prune_pat (pats : list bytes) (t : fsnode) : fsnode :=
  prune_path (fun p => negb (excluded pats p)) [] t.

(* ------------------------------------------------------------------ examples *)
Definition gm (p t : String.string) : bool := glob_match (bs p) (bs t).
Arguments gm (p t)%string.

Example glob_examples :
  [ gm ".*" ".git/x"; gm ".*" "src"; gm "*" "a/b"; gm "?x" "ax"; gm "?x" "x"; gm "[a-c]*" "b/z"; gm "[!.]*" ".git";
    gm "[!.]*" "src"; gm "a[" "a["; gm "[]]" "]"; gm "[!]]" "]"; gm "[c-a]" "b"; gm "[!c-a]" "b"; gm "[c-a!x]" "x";
    gm "[c-a!x]" "y"; gm "*/build" "src/build"; gm "*/build" "build"; gm "a**b" "ab"; gm "[a-]" "-"; gm "[--0]" "."; gm "" "" ]
  = [ true; false; true; true; false; true; false;
      true; true; true; false; false; true; false;
      true; true; false; true; true; true; true ].
Proof. vm_compute. reflexivity. Qed.
