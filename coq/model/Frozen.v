(* Model of the "frozen value" behaviour of swh/model/model.py (every
   @attr.s(frozen=True, slots=True) class), swh/model/collections.py
   (ImmutableDict) and the three frozen SWHID classes of swh/model/swhids.py.
   Definitions only, all executable.

   A STORE of mutable Python containers (dict = association list in insertion
   order, list) addressed by handles.  A caller holds handles and mutates the
   containers through them.  Constructors are modelled by what they do with a
   container ARGUMENT: keep the handle (= alias) or allocate a copy.
   Frozen instances are immutable VALUES [VObj cls fields]: the model has NO
   write operation on them (what attrs/CPython enforce - frozen __setattr__ /
   __delattr__, slots without __dict__, generated __eq__/__hash__ over the eq
   fields - is a modelled contract, see [obj_mutate], [r_eqb], [norm]).  An
   ImmutableDict is [VIDict h]: an immutable wrapper around its private
   [_data] dict, the cell [h] of the store.

   Which fields exist, their eq / hash flags and whether they have a converter
   comes from SWH.Generated (attr.fields of the real classes).  Which fields
   take a dict/list argument and what their converter does is the table
   [ARG_KINDS] below; harness/c11.py cross-checks it against the real classes
   at run time.

   [variant]: [New] is collections.py as it is now
   (`self._data = dict(data)`), [Old] is the code before the fix
   (`self._data = data`), kept as a mutant for C11_no_alias_refuted_old;
   [PopInPlace] is the current __init__ with a mutant copy_pop that pops from
   a new ImmutableDict SHARING the receiver's _data (C11_copy_pop_refuted_inplace);
   [SubclassCopy] is a mutant __init__ copying with `data.copy()`, which keeps
   the class of a dict subclass (C11_reads_pure_refuted_subclass_copy). *)
From Coq Require Import List NArith Bool Arith.
From SWH.lib Require Import Bytes Order StableSort.
From SWH Require Import Generated.
Import ListNotations.

(* ------------------------------------------------------------------ *)
(* Values *)

(* an immutable scalar (bytes, str, int, bool, enum member, datetime, ...):
   first element = a type tag chosen by the harness, rest = payload; two
   scalars are the same atom iff Python's == holds between them *)
Definition atom := bytes.
Definition handle := nat.

Inductive pyval :=
| VNone
| VAtom (a : atom)
| VTuple (l : list pyval)                (* tuple: immutable, elements by value *)
| VObj (cls : bytes) (fs : list pyval)   (* frozen attrs instance: class name, field values in attr.fields order *)
| VIDict (h : handle)                    (* ImmutableDict whose _data is the dict cell h *)
| VRef (h : handle)                      (* a mutable dict or list, by identity *)
| VOList (l : list pyval)                (* a list that no one else holds (result of copy.deepcopy) *)
| VOMap (mutable : bool) (items : list (atom * pyval)).  (* idem: a dict (true) / an ImmutableDict (false) *)

Inductive cell :=
| PyDict (factory : bool) (items : list (atom * pyval))
    (* insertion order; keys pairwise distinct.  factory = true: an instance of a dict SUBCLASS with a
       __missing__ that inserts (collections.defaultdict, ...): a failed d[k] inserts k *)
| PyList (items : list pyval).

Definition store := list cell.
Definition lookup (s : store) (h : handle) : option cell := nth_error s h.
Definition alloc (s : store) (c : cell) : handle * store := (length s, s ++ [c]).
Fixpoint update (s : store) (h : handle) (c : cell) : store :=
  match s, h with
  | [], _ => []
  | _ :: s', O => c :: s'
  | x :: s', S h' => x :: update s' h' c
  end.

Inductive err := ETypeError | EValueError | EKeyError | EIndexError
               | EFrozenInstanceError | EAttributeError | EOutOfFuel.
Inductive result (A : Type) := Ok (a : A) | Err (e : err).
Arguments Ok {A} a.
Arguments Err {A} e.

(* ------------------------------------------------------------------ *)
(* dict primitives *)

Fixpoint assoc {A} (k : atom) (l : list (atom * A)) : option A :=
  match l with
  | [] => None
  | (k', v) :: r => if beqb k k' then Some v else assoc k r
  end.

(* d[k] = v : replace in place or append *)
Fixpoint dict_set {A} (k : atom) (v : A) (items : list (atom * A)) : list (atom * A) :=
  match items with
  | [] => [(k, v)]
  | (k', v') :: r => if beqb k k' then (k, v) :: r else (k', v') :: dict_set k v r
  end.

(* del d[k] *)
Fixpoint dict_del {A} (k : atom) (items : list (atom * A)) : list (atom * A) :=
  match items with
  | [] => []
  | (k', v') :: r => if beqb k k' then r else (k', v') :: dict_del k r
  end.

(* {k: v for k, v in pairs} *)
Definition dict_of_pairs {A} (kvs : list (atom * A)) : list (atom * A) :=
  fold_left (fun d kv => dict_set (fst kv) (snd kv) d) kvs [].

Fixpoint set_nth {A} (i : nat) (v : A) (l : list A) : list A :=
  match l, i with
  | [], _ => []
  | _ :: r, O => v :: r
  | x :: r, S i' => x :: set_nth i' v r
  end.

Fixpoint seq_opt {A} (l : list (option A)) : option (list A) :=
  match l with
  | [] => Some []
  | None :: _ => None
  | Some x :: r => match seq_opt r with Some r' => Some (x :: r') | None => None end
  end.

(* ------------------------------------------------------------------ *)
(* What the CALLER can do to a container it holds, through its handle.
   A failing operation (KeyError, wrong kind of container, dangling handle)
   leaves the store unchanged. *)

Inductive mut :=
| MSetItem (h : handle) (k : atom) (v : pyval)   (* d[k] = v *)
| MDelItem (h : handle) (k : atom)               (* del d[k] *)
| MClear (h : handle)                            (* d.clear() / l.clear() *)
| MAppend (h : handle) (v : pyval)               (* l.append(v) *)
| MSetIndex (h : handle) (i : nat) (v : pyval)   (* l[i] = v *)
| MPop (h : handle).                             (* l.pop() *)

Definition mut_target (m : mut) : handle :=
  match m with
  | MSetItem h _ _ | MDelItem h _ | MClear h | MAppend h _ | MSetIndex h _ _ | MPop h => h
  end.

Definition apply_mut (s : store) (m : mut) : store :=
  match m with
  | MSetItem h k v =>
      match lookup s h with Some (PyDict fac it) => update s h (PyDict fac (dict_set k v it)) | _ => s end
  | MDelItem h k =>
      match lookup s h with Some (PyDict fac it) => update s h (PyDict fac (dict_del k it)) | _ => s end
  | MClear h =>
      match lookup s h with
      | Some (PyDict fac _) => update s h (PyDict fac [])
      | Some (PyList _) => update s h (PyList [])
      | None => s
      end
  | MAppend h v =>
      match lookup s h with Some (PyList l) => update s h (PyList (l ++ [v])) | _ => s end
  | MSetIndex h i v =>
      match lookup s h with Some (PyList l) => update s h (PyList (set_nth i v l)) | _ => s end
  | MPop h =>
      match lookup s h with Some (PyList l) => update s h (PyList (removelast l)) | _ => s end
  end.

Definition apply_muts (s : store) (ms : list mut) : store := fold_left apply_mut ms s.

(* ------------------------------------------------------------------ *)
(* Class / field tables *)

Definition field_row := (bytes * bool * bool * bool * bool)%type.
Definition f_name (r : field_row) : bytes := let '(n, _, _, _, _) := r in n.
Definition f_eq (r : field_row) : bool := let '(_, e, _, _, _) := r in e.
Definition f_hash (r : field_row) : bool := let '(_, _, h, _, _) := r in h.
Definition f_default (r : field_row) : bool := let '(_, _, _, d, _) := r in d.
Definition f_conv (r : field_row) : bool := let '(_, _, _, _, c) := r in c.

Definition class_table := list (bytes * list field_row).

(* the attrs classes of swh.model.model + the three SWHID classes *)
Definition ALL_CLASSES : class_table :=
  MODEL_CLASSES ++
  [ (bs "CoreSWHID", FIELDS_CoreSWHID);
    (bs "ExtendedSWHID", FIELDS_ExtendedSWHID);
    (bs "QualifiedSWHID", FIELDS_QualifiedSWHID) ].

Definition class_fields (T : class_table) (cls : bytes) : option (list field_row) := assoc cls T.

(* side condition of C11_eq_hash: in every class the fields compared by
   __eq__ are exactly the fields hashed by __hash__ *)
Definition eq_hash_coherent (T : class_table) : bool :=
  forallb (fun c => forallb (fun r => Bool.eqb (f_eq r) (f_hash r)) (snd c)) T.

(* What a constructor does with the argument given for a field:
   KChecked    - the validator accepts no dict/list (TypeError-like rejection)
   KFreezeDict - converter freeze_optional_dict: a dict becomes ImmutableDict(d),
                 anything else is passed through, then must be ImmutableDict / None
   KTuplify    - converter tuplify_extra_headers: tuple((k, v) for k, v in value)
   KUnchecked  - no validator, no converter: whatever is given is stored as is *)
Inductive argkind := KChecked | KFreezeDict | KTuplify | KUnchecked.

Definition ARG_KINDS : list (bytes * bytes * argkind) :=
  [ (bs "MetadataAuthority", bs "metadata", KFreezeDict);
    (bs "MetadataFetcher", bs "metadata", KFreezeDict);
    (bs "OriginVisitStatus", bs "metadata", KFreezeDict);
    (bs "Release", bs "metadata", KFreezeDict);
    (bs "Revision", bs "metadata", KFreezeDict);
    (bs "Snapshot", bs "branches", KFreezeDict);
    (bs "Revision", bs "extra_headers", KTuplify);
    (bs "Directory", bs "raw_manifest", KUnchecked);
    (bs "Release", bs "raw_manifest", KUnchecked);
    (bs "Revision", bs "raw_manifest", KUnchecked);
    (bs "Content", bs "get_data", KUnchecked) ].

(* from_dict rebuilds these fields itself before calling the constructor:
   Snapshot.from_dict: ImmutableDict((name, SnapshotBranch.from_dict(b)) for ...) *)
Definition FROMDICT_REBUILD : list (bytes * bytes) := [ (bs "Snapshot", bs "branches") ].

Definition arg_kind (cls fname : bytes) : argkind :=
  match find (fun e => beqb cls (fst (fst e)) && beqb fname (snd (fst e))) ARG_KINDS with
  | Some e => snd e
  | None => KChecked
  end.

Definition is_rebuild (cls fname : bytes) : bool :=
  existsb (fun e => beqb cls (fst e) && beqb fname (snd e)) FROMDICT_REBUILD.

(* side condition tying ARG_KINDS to the generated tables: every entry names
   an existing field; converter kinds only on fields that have a converter in
   the source; unchecked kinds only on fields without one *)
Definition arg_kinds_coherent (T : class_table) : bool :=
  forallb (fun e =>
    match class_fields T (fst (fst e)) with
    | None => false
    | Some rows =>
        match find (fun r => beqb (f_name r) (snd (fst e))) rows with
        | None => false
        | Some r => match snd e with
                    | KFreezeDict | KTuplify => f_conv r
                    | KUnchecked => negb (f_conv r)
                    | KChecked => true
                    end
        end
    end) ARG_KINDS
  && forallb (fun e => match arg_kind (fst e) (snd e) with KFreezeDict => true | _ => false end) FROMDICT_REBUILD.

(* the pseudo class name of a bare ImmutableDict(...) construction *)
Definition IDICT : bytes := bs "ImmutableDict".
Definition EMPTY_BYTES : atom := [1%N].     (* the atom of b"" (tag 1 = bytes) *)

(* ------------------------------------------------------------------ *)
(* Conversions *)

(* copy.deepcopy / SomeClass.from_dict(nested dict) / tuple(list): the result
   holds no reference to any container of the input.  Modelled as a
   handle-free value (dict -> tuple of (key, value) pairs, list -> tuple). *)
Fixpoint freeze (f : nat) (s : store) (v : pyval) : option pyval :=
  match f with
  | O => None
  | S f' =>
      match v with
      | VNone => Some VNone
      | VAtom a => Some (VAtom a)
      | VTuple l | VOList l => option_map VTuple (seq_opt (map (freeze f' s) l))
      | VObj c l => option_map (VObj c) (seq_opt (map (freeze f' s) l))
      | VOMap _ it =>
          option_map VTuple
            (seq_opt (map (fun kv => option_map (fun x => VTuple [VAtom (fst kv); x])
                                                (freeze f' s (snd kv))) it))
      | VIDict h | VRef h =>
          match lookup s h with
          | Some (PyDict _ it) =>
              option_map VTuple
                (seq_opt (map (fun kv => option_map (fun x => VTuple [VAtom (fst kv); x])
                                                    (freeze f' s (snd kv))) it))
          | Some (PyList l) => option_map VTuple (seq_opt (map (freeze f' s) l))
          | None => None
          end
      end
  end.

(* copy.deepcopy: same shape, every container replaced by a fresh one that
   nobody else holds *)
Fixpoint deepcopy (f : nat) (s : store) (v : pyval) : option pyval :=
  match f with
  | O => None
  | S f' =>
      let items := fun it => seq_opt (map (fun kv => option_map (pair (fst kv)) (deepcopy f' s (snd kv))) it) in
      match v with
      | VNone => Some VNone
      | VAtom a => Some (VAtom a)
      | VTuple l => option_map VTuple (seq_opt (map (deepcopy f' s) l))
      | VOList l => option_map VOList (seq_opt (map (deepcopy f' s) l))
      | VObj c l => option_map (VObj c) (seq_opt (map (deepcopy f' s) l))
      | VOMap m it => option_map (VOMap m) (items it)
      | VIDict h =>
          match lookup s h with
          | Some (PyDict _ it) => option_map (VOMap false) (items it)
          | _ => None
          end
      | VRef h =>
          match lookup s h with
          | Some (PyDict _ it) => option_map (VOMap true) (items it)
          | Some (PyList l) => option_map VOList (seq_opt (map (deepcopy f' s) l))
          | None => None
          end
      end
  end.

(* `for k, v in data`: an element is a 2-tuple or a 2-element list *)
Definition as_pair (s : store) (v : pyval) : option (pyval * pyval) :=
  match v with
  | VTuple [k; x] | VOList [k; x] => Some (k, x)
  | VRef h => match lookup s h with Some (PyList [k; x]) => Some (k, x) | _ => None end
  | _ => None
  end.

Definition as_kv (s : store) (v : pyval) : option (atom * pyval) :=
  match as_pair s v with
  | Some (VAtom k, x) => Some (k, x)
  | _ => None
  end.

Inductive variant := New | Old | PopInPlace | SubclassCopy.

(* ImmutableDict.__init__, `else` branch: {k: v for k, v in data} *)
Definition idict_of_seq (s : store) (l : list pyval) : result (pyval * store) :=
  match seq_opt (map (as_kv s) l) with
  | Some kvs => let (h, s') := alloc s (PyDict false (dict_of_pairs kvs)) in Ok (VIDict h, s')
  | None => Err ETypeError
  end.

(* ImmutableDict.__init__ *)
Definition idict_init (var : variant) (s : store) (v : pyval) : result (pyval * store) :=
  match v with
  | VIDict h => Ok (VIDict h, s)                     (* self._data = data._data *)
  | VRef h =>
      match lookup s h with
      | Some (PyDict fac it) =>
          match var with
          | Old => Ok (VIDict h, s)                                            (* data itself *)
          | SubclassCopy => let (h', s') := alloc s (PyDict fac it) in Ok (VIDict h', s')  (* data.copy(): keeps the subclass *)
          | _ => let (h', s') := alloc s (PyDict false it) in Ok (VIDict h', s')   (* dict(data): a plain dict *)
          end
      | Some (PyList l) => idict_of_seq s l
      | None => Err ETypeError
      end
  | VTuple l => idict_of_seq s l
  | _ => Err ETypeError
  end.

(* ImmutableDict.copy_pop(key) -> (popped value or None, new ImmutableDict).
   Current code: new_items = copy.deepcopy(self._data); pop; ImmutableDict(new_items)
   - a fresh cell, the receiver untouched.
   Mutant PopInPlace: new = ImmutableDict(self) (which SHARES _data); new._data.pop(key)
   - a write to the receiver's own cell. *)
Definition popped {A} (k : atom) (it : list (atom * A)) (dflt : A) : A :=
  match assoc k it with Some x => x | None => dflt end.

Definition copy_pop (var : variant) (f : nat) (s : store) (v : pyval) (k : atom)
  : result (pyval * pyval * store) :=
  match v with
  | VIDict h =>
      match lookup s h with
      | Some (PyDict fac it) =>
          match var with
          | PopInPlace => Ok (popped k it VNone, VIDict h, update s h (PyDict fac (dict_del k it)))
          | _ =>
              match deepcopy f s (VIDict h) with
              | Some (VOMap _ kvs) =>
                  let (h', s') := alloc s (PyDict (match var with SubclassCopy => fac | _ => false end) (dict_del k kvs)) in
                  Ok (popped k kvs VNone, VIDict h', s')
              | _ => Err EOutOfFuel
              end
          end
      | _ => Err ETypeError
      end
  | _ => Err ETypeError
  end.

(* tuplify_extra_headers: tuple((k, v) for k, v in value) *)
Definition tuplify (s : store) (v : pyval) : result pyval :=
  let go := fun l =>
    match seq_opt (map (as_pair s) l) with
    | Some ps => Ok (VTuple (map (fun p => VTuple [fst p; snd p]) ps))
    | None => Err EValueError
    end in
  match v with
  | VTuple l | VOList l => go l
  | VRef h =>
      match lookup s h with
      | Some (PyList l) => go l
      | Some (PyDict _ []) => Ok (VTuple [])
      | Some (PyDict _ _) => Err EValueError
      | None => Err ETypeError
      end
  | _ => Err ETypeError
  end.

(* validator of Tuple[Tuple[bytes, bytes], ...] *)
Definition is_atom (v : pyval) : bool := match v with VAtom _ => true | _ => false end.
Definition atom_pairs (v : pyval) : bool :=
  match v with
  | VTuple l => forallb (fun p => match p with VTuple [k; x] => is_atom k && is_atom x | _ => false end) l
  | _ => false
  end.

(* validators of the other typed fields reject a dict / list / ImmutableDict,
   also as an element of a tuple *)
Definition is_container (v : pyval) : bool :=
  match v with VRef _ | VIDict _ => true | _ => false end.
Definition checked_ok (v : pyval) : bool :=
  negb (is_container v) &&
  match v with VTuple l => forallb (fun x => negb (is_container x)) l | _ => true end.

Inductive route := Ctor | FromDict.

(* one field: converter, then validator *)
Definition conv_one (var : variant) (f : nat) (rt : route) (cls fname : bytes)
           (s : store) (v : pyval) : result (pyval * store) :=
  match arg_kind cls fname with
  | KUnchecked => Ok (v, s)
  | KChecked =>
      match rt with
      | Ctor => if checked_ok v then Ok (v, s) else Err ETypeError
      | FromDict =>       (* nested from_dict / tuple(...): a deep conversion *)
          match freeze f s v with Some v' => Ok (v', s) | None => Err EOutOfFuel end
      end
  | KTuplify =>
      match tuplify s v with
      | Ok t => if atom_pairs t then Ok (t, s) else Err ETypeError
      | Err e => Err e
      end
  | KFreezeDict =>
      if match rt with FromDict => is_rebuild cls fname | Ctor => false end then
        match freeze f s v with
        | Some (VTuple l) => idict_of_seq s l
        | Some _ => Err ETypeError
        | None => Err EOutOfFuel
        end
      else
        match v with
        | VRef h => match lookup s h with
                    | Some (PyDict _ _) => idict_init var s v
                    | _ => Err ETypeError
                    end
        | VIDict _ | VNone => Ok (v, s)
        | _ => Err ETypeError
        end
  end.

Fixpoint conv_fields (var : variant) (f : nat) (rt : route) (cls : bytes)
         (rows : list field_row) (args : list pyval) (s : store) : result (list pyval * store) :=
  match rows, args with
  | [], [] => Ok ([], s)
  | r :: rows', a :: args' =>
      match conv_one var f rt cls (f_name r) s a with
      | Err e => Err e
      | Ok (v, s') =>
          match conv_fields var f rt cls rows' args' s' with
          | Err e => Err e
          | Ok (vs, s'') => Ok (v :: vs, s'')
          end
      end
  | _, _ => Err ETypeError
  end.

Fixpoint get_field (name : bytes) (rows : list field_row) (vals : list pyval) : option pyval :=
  match rows, vals with
  | r :: rows', v :: vals' => if beqb name (f_name r) then Some v else get_field name rows' vals'
  | _, _ => None
  end.

Fixpoint set_field (name : bytes) (x : pyval) (rows : list field_row) (vals : list pyval) : list pyval :=
  match rows, vals with
  | r :: rows', v :: vals' =>
      if beqb name (f_name r) then x :: vals' else v :: set_field name x rows' vals'
  | _, _ => vals
  end.

(* ------------------------------------------------------------------ *)
(* Observation: the deep content read through the object's handles *)

Inductive rval :=
| RNone
| RAtom (a : atom)
| RSeq (mutable : bool) (l : list rval)            (* false = tuple, true = list *)
| RMap (mutable : bool) (items : list (atom * rval)) (* false = ImmutableDict, true = dict *)
| RObj (cls : bytes) (fs : list rval)
| ROut                                             (* out of fuel *)
| RBad.                                            (* dangling handle *)

Fixpoint resolve (f : nat) (s : store) (v : pyval) : rval :=
  match f with
  | O => ROut
  | S f' =>
      match v with
      | VNone => RNone
      | VAtom a => RAtom a
      | VTuple l => RSeq false (map (resolve f' s) l)
      | VOList l => RSeq true (map (resolve f' s) l)
      | VOMap m it => RMap m (map (fun kv => (fst kv, resolve f' s (snd kv))) it)
      | VObj c fs => RObj c (map (resolve f' s) fs)
      | VIDict h =>
          match lookup s h with
          | Some (PyDict _ it) => RMap false (map (fun kv => (fst kv, resolve f' s (snd kv))) it)
          | _ => RBad
          end
      | VRef h =>
          match lookup s h with
          | Some (PyDict _ it) => RMap true (map (fun kv => (fst kv, resolve f' s (snd kv))) it)
          | Some (PyList l) => RSeq true (map (resolve f' s) l)
          | None => RBad
          end
      end
  end.

Definition cell_values (c : cell) : list pyval :=
  match c with PyDict _ it => map snd it | PyList l => l end.

Definition memh (h : handle) (hs : list handle) : bool := existsb (Nat.eqb h) hs.

(* reading [v] (to depth f) never goes through a handle of [hs] nor a
   dangling handle *)
Fixpoint safe (f : nat) (s : store) (hs : list handle) (v : pyval) : bool :=
  match f with
  | O => true
  | S f' =>
      match v with
      | VNone | VAtom _ => true
      | VTuple l | VObj _ l | VOList l => forallb (safe f' s hs) l
      | VOMap _ it => forallb (fun kv => safe f' s hs (snd kv)) it
      | VIDict h | VRef h =>
          negb (memh h hs) &&
          match lookup s h with
          | Some c => forallb (safe f' s hs) (cell_values c)
          | None => false
          end
      end
  end.

(* ------------------------------------------------------------------ *)
(* Equality and hashing of resolved values (the attrs / Mapping contract) *)

Definition flags_of (T : class_table) (sel : field_row -> bool) (cls : bytes) : list bool :=
  match class_fields T cls with Some rows => map sel rows | None => [] end.

(* next flag; a missing flag (unknown class) counts as true *)
Definition next_flag (fl : list bool) : bool * list bool :=
  match fl with [] => (true, []) | b :: r => (b, r) end.

(* Python's == :
   tuples / lists elementwise (a tuple never equals a list);
   mappings (Mapping.__eq__: dict(self.items()) == dict(other.items())) same
   keys and equal values, whatever the insertion order;
   attrs instances: same class and equal values of the eq=True fields *)
Fixpoint r_eqb (T : class_table) (x y : rval) {struct x} : bool :=
  match x, y with
  | RNone, RNone => true
  | RAtom a, RAtom b => beqb a b
  | RSeq m l, RSeq m' l' =>
      Bool.eqb m m' &&
      (fix go (l l' : list rval) {struct l} : bool :=
         match l, l' with
         | [], [] => true
         | a :: r, b :: r' => r_eqb T a b && go r r'
         | _, _ => false
         end) l l'
  | RMap _ it, RMap _ it' =>
      Nat.eqb (length it) (length it') &&
      (fix go (it : list (atom * rval)) {struct it} : bool :=
         match it with
         | [] => true
         | kv :: r =>
             match assoc (fst kv) it' with
             | Some v' => r_eqb T (snd kv) v'
             | None => false
             end && go r
         end) it
  | RObj c fs, RObj c' fs' =>
      beqb c c' &&
      (fix go (fl : list bool) (l l' : list rval) {struct l} : bool :=
         match l, l' with
         | [], [] => true
         | a :: r, b :: r' =>
             (if fst (next_flag fl) then r_eqb T a b else true) && go (snd (next_flag fl)) r r'
         | _, _ => false
         end) (flags_of T f_eq c) fs fs'
  | ROut, ROut => true
  | RBad, RBad => true
  | _, _ => false
  end.

Definition kleb (a b : atom * rval) : bool := bleb (fst a) (fst b).

(* the value hash() is a function of: tuple -> tuple of the elements' keys;
   ImmutableDict.__hash__ = hash(tuple(sorted(self.data))): items sorted by key;
   attrs __hash__: class and the hash=True fields; list / dict: unhashable *)
Fixpoint norm (T : class_table) (x : rval) : option rval :=
  match x with
  | RNone => Some RNone
  | RAtom a => Some (RAtom a)
  | RSeq false l => option_map (RSeq false) (seq_opt (map (norm T) l))
  | RSeq true _ => None
  | RMap false it =>
      option_map (fun it' => RMap false (sort kleb it'))
        (seq_opt (map (fun kv => option_map (pair (fst kv)) (norm T (snd kv))) it))
  | RMap true _ => None
  | RObj c fs =>
      option_map (RObj c)
        (seq_opt ((fix go (fl : list bool) (l : list rval) {struct l} : list (option rval) :=
                     match l with
                     | [] => []
                     | a :: r =>
                         if fst (next_flag fl) then norm T a :: go (snd (next_flag fl)) r
                         else go (snd (next_flag fl)) r
                     end) (flags_of T f_hash c) fs))
  | ROut | RBad => None
  end.

(* keys of every mapping pairwise distinct (what a Python dict guarantees) *)
Fixpoint nodupk (l : list atom) : bool :=
  match l with [] => true | k :: r => negb (mem_bytes k r) && nodupk r end.

Fixpoint r_wf (x : rval) : bool :=
  match x with
  | RSeq _ l | RObj _ l => forallb r_wf l
  | RMap _ it => nodupk (map fst it) && forallb (fun kv => r_wf (snd kv)) it
  | _ => true
  end.

(* BaseModel.to_dict / dictify: instance -> dict keyed by field name,
   ImmutableDict -> dict, tuples stay tuples *)
Fixpoint to_dict (T : class_table) (x : rval) : rval :=
  match x with
  | RSeq m l => RSeq m (map (to_dict T) l)
  | RMap _ it => RMap true (map (fun kv => (fst kv, to_dict T (snd kv))) it)
  | RObj c fs =>
      RMap true
        ((fix go (names : list bytes) (l : list rval) {struct l} : list (atom * rval) :=
            match l with
            | [] => []
            | a :: r => match names with
                        | [] => (c, to_dict T a) :: go [] r
                        | n :: ns => (n, to_dict T a) :: go ns r
                        end
            end) (match class_fields T c with Some rows => map f_name rows | None => [] end) fs)
  | _ => x
  end.

(* ------------------------------------------------------------------ *)
(* Construction, observation, mutation channels.  The hash functions are
   parameters: [Hid] computes an object's id from its content (compute_hash),
   [Hpy] is Python's hash() on the normal form. *)
Section WithHash.
  Variable Hid : rval -> atom.
  Variable Hpy : rval -> N.

  Definition ID : bytes := bs "id".

  (* BaseHashableModel.__attrs_post_init__: if not self.id: id = compute_hash() *)
  Definition compute_id (f : nat) (cls : bytes) (rows : list field_row) (vals : list pyval)
             (s : store) : atom :=
    Hid (resolve f s (VObj cls (set_field ID VNone rows vals))).

  Definition post_id (f : nat) (cls : bytes) (rows : list field_row) (vals : list pyval)
             (s : store) : list pyval :=
    match get_field ID rows vals with
    | Some (VAtom a) =>
        if beqb a EMPTY_BYTES then set_field ID (VAtom (compute_id f cls rows vals s)) rows vals
        else vals
    | _ => vals
    end.

  (* Revision.__attrs_post_init__: when metadata is non-empty, extra_headers is
     empty and metadata has the key "extra_headers": metadata.copy_pop (a
     deepcopy of _data, minus the key, wrapped in a new ImmutableDict) and
     extra_headers = tuplify(popped), then attr.validate *)
  Definition K_META : bytes := bs "metadata".
  Definition K_XH : bytes := bs "extra_headers".
  Definition XH_KEY : atom := (2%N :: bs "extra_headers").   (* the str "extra_headers" (tag 2 = str) *)

  Definition post_revision (var : variant) (f : nat) (cls : bytes) (rows : list field_row) (vals : list pyval)
             (s : store) : result (list pyval * store) :=
    if negb (beqb cls (bs "Revision")) then Ok (vals, s) else
    match get_field K_META rows vals, get_field K_XH rows vals with
    | Some (VIDict hm), Some (VTuple []) =>
        match lookup s hm with
        | Some (PyDict _ it) =>
            match assoc XH_KEY it with
            | None => Ok (vals, s)
            | Some _ =>
                match copy_pop var f s (VIDict hm) XH_KEY with
                | Ok (xh', md, s') =>
                    match tuplify s' xh' with
                    | Ok t =>
                        if atom_pairs t then
                          Ok (set_field K_XH t rows (set_field K_META md rows vals), s')
                        else Err ETypeError
                    | Err e => Err e
                    end
                | Err e => Err e
                end
            end
        | _ => Ok (vals, s)
        end
    | _, _ => Ok (vals, s)
    end.

  (* the constructor call with every field given as keyword, in attr.fields order
     (route Ctor), or the constructor call made by cls.from_dict (route FromDict) *)
  Definition construct (var : variant) (f : nat) (rt : route) (cls : bytes)
             (s : store) (args : list pyval) : result (pyval * store) :=
    if beqb cls IDICT then
      match args with [v] => idict_init var s v | _ => Err ETypeError end
    else
      match class_fields ALL_CLASSES cls with
      | None => Err ETypeError
      | Some rows =>
          match conv_fields var f rt cls rows args s with
          | Err e => Err e
          | Ok (vals, s1) =>
              match post_revision var f cls rows (post_id f cls rows vals s1) s1 with
              | Err e => Err e
              | Ok (vals', s2) => Ok (VObj cls vals', s2)
              end
          end
      end.

  Definition default_of (fname : bytes) : pyval :=
    if beqb fname ID then VAtom EMPTY_BYTES
    else if beqb fname (bs "parents") || beqb fname K_XH then VTuple []
    else VNone.

  (* cls.from_dict(d): read the keys of d, build the arguments *)
  Definition from_dict_args (rows : list field_row) (items : list (atom * pyval)) : option (list pyval) :=
    seq_opt (map (fun r => match assoc (2%N :: f_name r) items with
                           | Some v => Some v
                           | None => if f_default r then Some (default_of (f_name r)) else None
                           end) rows).

  Definition from_dict (var : variant) (f : nat) (cls : bytes) (s : store) (d : pyval)
    : result (pyval * store) :=
    match d with
    | VRef hd =>
        match lookup s hd, class_fields ALL_CLASSES cls with
        | Some (PyDict _ items), Some rows =>
            match from_dict_args rows items with
            | Some args => construct var f FromDict cls s args
            | None => Err ETypeError
            end
        | _, _ => Err ETypeError
        end
    | _ => Err ETypeError
    end.

  (* What can be observed of an object: its content, its dictionary form, the
     key of its hash (None = unhashable), hash(), and whether its id field
     equals the recomputed compute_hash() *)
  Definition id_ok (r : rval) : bool :=
    match r with
    | RObj c fs =>
        match class_fields ALL_CLASSES c with
        | Some rows =>
            (fix go (rows : list field_row) (l : list rval) (pre : list rval) {struct l} : bool :=
               match rows, l with
               | r0 :: rows', a :: l' =>
                   if beqb (f_name r0) ID then
                     match a with
                     | RAtom i => beqb i (Hid (RObj c (rev pre ++ RNone :: l')))
                     | _ => false
                     end
                   else go rows' l' (a :: pre)
               | _, _ => true
               end) rows fs []
        | None => true
        end
    | _ => true
    end.

  Definition obj_hash (r : rval) : result N :=
    match norm ALL_CLASSES r with Some n => Ok (Hpy n) | None => Err ETypeError end.

  Definition observation := (rval * rval * option rval * result N * bool)%type.

  Definition observe_r (r : rval) : observation :=
    (r, to_dict ALL_CLASSES r, norm ALL_CLASSES r, obj_hash r, id_ok r).

  Definition observe (f : nat) (s : store) (o : pyval) : observation := observe_r (resolve f s o).

  Definition obj_eqb (f : nat) (s : store) (x y : pyval) : bool :=
    r_eqb ALL_CLASSES (resolve f s x) (resolve f s y).
End WithHash.

(* Mutation channels ON THE OBJECT.  There is no case that changes anything:
   a frozen attrs instance raises FrozenInstanceError on attribute assignment
   or deletion and has no item assignment (TypeError); ImmutableDict (a
   Mapping without __setitem__/__delitem__) raises TypeError on item
   assignment / deletion and AttributeError on its read-only property. *)
Inductive channel :=
| CSetAttr (name : bytes) (v : pyval)
| CDelAttr (name : bytes)
| CSetItem (k : atom) (v : pyval)
| CDelItem (k : atom).

Definition obj_mutate (s : store) (o : pyval) (c : channel) : err * store * pyval :=
  match o, c with
  | VIDict _, (CSetAttr _ _ | CDelAttr _) => (EAttributeError, s, o)
  | _, (CSetAttr _ _ | CDelAttr _) => (EFrozenInstanceError, s, o)
  | _, (CSetItem _ _ | CDelItem _) => (ETypeError, s, o)
  end.

(* ------------------------------------------------------------------ *)
(* READ operations on a frozen mapping, or on a mapping-typed field of an
   object.  Mapping.__contains__ and Mapping.get are `try: self[key]`, and
   ImmutableDict.__getitem__ is `self._data[key]`: the only primitive through
   which a read reaches the stored dict BY KEY is [data_getitem].  On a plain
   dict a failed lookup raises KeyError and changes nothing; on an instance of
   a dict subclass with an inserting __missing__ it inserts the key.
   Iteration, len, items(), to_dict(), hash() and == go through
   self._data.items() / len(self._data): functions of the content ([resolve]),
   they take no key. *)
Inductive readkind :=
| RdContains (k : atom)      (* k in m *)
| RdGet (k : atom)           (* m.get(k) *)
| RdGetItem (k : atom)       (* m[k] *)
| RdIter | RdLen | RdItems | RdToDict | RdHash | RdEq.

Definition data_getitem (s : store) (h : handle) (k : atom) : store * option pyval :=
  match lookup s h with
  | Some (PyDict fac it) =>
      match assoc k it with
      | Some x => (s, Some x)
      | None =>
          if fac then (update s h (PyDict fac (dict_set k VNone it)), Some VNone)   (* __missing__ inserts *)
          else (s, None)                                                          (* KeyError *)
      end
  | _ => (s, None)
  end.

(* the mapping a read addresses: the value itself, or one of its fields *)
Definition read_target (v : pyval) (fld : option bytes) : option pyval :=
  match fld with
  | None => Some v
  | Some name =>
      match v with
      | VObj cls vals =>
          match class_fields ALL_CLASSES cls with
          | Some rows => get_field name rows vals
          | None => None
          end
      | _ => None
      end
  end.

Definition do_read (s : store) (v : pyval) (fld : option bytes) (r : readkind) : store * option err :=
  match r with
  | RdContains k | RdGet k | RdGetItem k =>
      match read_target v fld with
      | Some (VIDict h) =>
          let (s', x) := data_getitem s h k in
          (s', match r, x with RdGetItem _, None => Some EKeyError | _, _ => None end)
      | _ => (s, Some ETypeError)
      end
  | _ => (s, None)
  end.

Definition run_reads (s : store) (v : pyval) (reads : list (option bytes * readkind)) : store :=
  fold_left (fun s0 r => fst (do_read s0 v (fst r) (snd r))) reads s.

(* ------------------------------------------------------------------ *)
(* Hypotheses of the no-alias theorem, as booleans.

   [hs] = the handles the caller goes on mutating.  An argument is acceptable
   when either reading it never meets a handle of [hs] (it is not, and does
   not contain, a container that will be mutated), or it IS a container whose
   elements satisfy that (the container itself will be mutated, containers
   nested in it will not: DESIGN section 7).  A container that will be
   mutated may only be given to a field whose converter is declared to take
   one (not to an unchecked field such as raw_manifest). *)
Definition sep_container (f : nat) (s : store) (hs : list handle) (v : pyval) : bool :=
  safe f s hs v ||
  match v with
  | VRef h => match lookup s h with
              | Some c => forallb (safe f s hs) (cell_values c)
              | None => false
              end
  | _ => false
  end.

Definition sep_arg (f : nat) (s : store) (hs : list handle) (rt : route) (cls fname : bytes) (v : pyval) : bool :=
  match arg_kind cls fname with
  | KUnchecked => safe f s hs v
  | KChecked => match rt with Ctor => is_container v || safe f s hs v | FromDict => true end
  | KTuplify => sep_container f s hs v
  | KFreezeDict =>
      if match rt with FromDict => is_rebuild cls fname | Ctor => false end then true
      else sep_container f s hs v
  end.

Fixpoint sep_args (f : nat) (s : store) (hs : list handle) (rt : route) (cls : bytes)
         (rows : list field_row) (args : list pyval) : bool :=
  match rows, args with
  | r :: rows', a :: args' => sep_arg f s hs rt cls (f_name r) a && sep_args f s hs rt cls rows' args'
  | _, _ => true
  end.

Definition separated (f : nat) (s : store) (hs : list handle) (rt : route) (cls : bytes) (args : list pyval) : bool :=
  forallb (fun h => Nat.ltb h (length s)) hs &&
  if beqb cls IDICT then
    match args with [v] => sep_container f s hs v | _ => true end
  else
    match class_fields ALL_CLASSES cls with
    | Some rows => sep_args f s hs rt cls rows args
    | None => true
    end.

(* the containers given as arguments (top level) *)
Definition arg_handles (args : list pyval) : list handle :=
  flat_map (fun v => match v with VRef h => [h] | _ => [] end) args.

(* ------------------------------------------------------------------ *)
(* A scripted run, for the correspondence check: build, observe, then after
   each caller mutation / each attempt on the object observe again. *)
Inductive step := SMut (m : mut) | SChan (c : channel) | SCopyPop (k : atom) | SRead (fld : option bytes) (r : readkind).

Section Script.
  Variable Hid : rval -> atom.
  Variable Hpy : rval -> N.

  Fixpoint run_steps (var : variant) (f : nat) (s : store) (o : pyval) (steps : list step)
    : list (option err * observation) * store :=
    match steps with
    | [] => ([], s)
    | SMut m :: r =>
        let s' := apply_mut s m in
        let (l, sf) := run_steps var f s' o r in ((None, observe Hid Hpy f s' o) :: l, sf)
    | SChan c :: r =>
        let '(e, s', o') := obj_mutate s o c in
        let (l, sf) := run_steps var f s' o' r in ((Some e, observe Hid Hpy f s' o') :: l, sf)
    | SCopyPop k :: r =>            (* o.copy_pop(k), result dropped; the receiver is observed again *)
        match copy_pop var f s o k with
        | Ok (_, _, s') => let (l, sf) := run_steps var f s' o r in ((None, observe Hid Hpy f s' o) :: l, sf)
        | Err e => let (l, sf) := run_steps var f s o r in ((Some e, observe Hid Hpy f s o) :: l, sf)
        end
    | SRead fld rd :: r =>           (* a read-only access; the object is observed again *)
        let (s', e) := do_read s o fld rd in
        let (l, sf) := run_steps var f s' o r in ((e, observe Hid Hpy f s' o) :: l, sf)
    end.

  (* [watch]: values (the already-frozen arguments) observed before the
     construction and again after the whole script *)
  Definition run_script (var : variant) (f : nat) (rt : route) (cls : bytes) (s : store)
             (args : list pyval) (steps : list step) (watch : list pyval)
    : result (observation * list (option err * observation) * list observation * list observation) :=
    match (match rt, args with
           | FromDict, [d] => from_dict Hid var f cls s d
           | FromDict, _ => Err ETypeError
           | Ctor, _ => construct Hid var f Ctor cls s args
           end) with
    | Err e => Err e
    | Ok (o, s1) =>
        let (l, sf) := run_steps var f s1 o steps in
        Ok (observe Hid Hpy f s1 o, l, map (observe Hid Hpy f s) watch, map (observe Hid Hpy f sf) watch)
    end.

  (* two objects built one after the other: are they equal, and their hash keys *)
  Definition run_twins (var : variant) (f : nat) (cls : bytes) (s : store) (args1 args2 : list pyval)
    : result (bool * bool * option rval * option rval) :=
    match construct Hid var f Ctor cls s args1 with
    | Err e => Err e
    | Ok (o1, s1) =>
        match construct Hid var f Ctor cls s1 args2 with
        | Err e => Err e
        | Ok (o2, s2) =>
            let r1 := resolve f s2 o1 in
            let r2 := resolve f s2 o2 in
            Ok (r_eqb ALL_CLASSES r1 r2, r_eqb ALL_CLASSES r2 r1, norm ALL_CLASSES r1, norm ALL_CLASSES r2)
        end
    end.
End Script.

(* ------------------------------------------------------------------ *)
(* Everything a program can do around existing frozen mappings: construct
   objects (both routes, any arguments, also ImmutableDict(x)), call copy_pop
   on any ImmutableDict, mutate containers it owns.  An operation that raises
   leaves the store as it was. *)
Inductive op :=
| OConstruct (rt : route) (cls : bytes) (args : list pyval)
| OFromDict (cls : bytes) (d : pyval)
| OCopyPop (v : pyval) (k : atom)
| OMut (m : mut).

Section Ops.
  Variable Hid : rval -> atom.
  Definition run_op (var : variant) (f : nat) (s : store) (o : op) : store :=
    match o with
    | OConstruct rt cls args => match construct Hid var f rt cls s args with Ok (_, s') => s' | Err _ => s end
    | OFromDict cls d => match from_dict Hid var f cls s d with Ok (_, s') => s' | Err _ => s end
    | OCopyPop v k => match copy_pop var f s v k with Ok (_, _, s') => s' | Err _ => s end
    | OMut m => apply_mut s m
    end.
  Definition run_ops (var : variant) (f : nat) (s : store) (ops : list op) : store :=
    fold_left (run_op var f) ops s.
End Ops.

Definition op_mut_targets (ops : list op) : list handle :=
  flat_map (fun o => match o with OMut m => [mut_target m] | _ => [] end) ops.

(* ------------------------------------------------------------------ *)
(* Examples (vm_compute) *)

Definition ex_Hid (r : rval) : atom :=       (* a toy id: counts the items of the first mapping field *)
  match r with
  | RObj _ (RMap _ it :: _) => [1%N; N.of_nat (length it)]
  | _ => [1%N; 99%N]
  end.
Definition ex_Hpy (_ : rval) : N := 0%N.

Definition A (s : String.string) : pyval := VAtom (2%N :: bs s).
Definition Ak (s : String.string) : atom := (2%N :: bs s).
Arguments A s%string.
Arguments Ak s%string.

(* Snapshot(branches=d, id=b"") then d[k2] = x *)
Definition ex_store : store := [PyDict false [(Ak "k1", A "v1")]].
Definition ex_args : list pyval := [VRef 0%nat; VAtom EMPTY_BYTES].
Definition ex_muts : list step := [SMut (MSetItem 0%nat (Ak "k2") (A "v2"))].



(* ------------------------------------------------------------------ *)
(* Transport: pickle.dumps / loads (any protocol), copy.copy, copy.deepcopy,
   possibly into another process (another string-hash seed).  On the model's
   values it is the identity.  [observe] - in particular [obj_hash] and
   [obj_eqb] - is a function of the abstract content ([resolve]) only: it sees
   neither the identity of the Python object, nor what happened to it before
   (whether it has been hashed), nor the process it lives in.  A hash memo that
   survives transport is exactly a deviation from this model. *)
Definition transport (v : pyval) : pyval := v.
Fixpoint transports (n : nat) (v : pyval) : pyval :=
  match n with O => v | S k => transports k (transport v) end.
