(* Model of swh/model/model.py  Timestamp / TimestampWithTimezone  (lines
   640-884) and swh/model/git_objects.py  format_date / the date part of
   format_author_data.  Definitions only, all executable.

   Python ints are Z.  An aware datetime is abstracted as the pair
     (epoch_us, off_s) = (microseconds since the epoch of the instant,
                          utcoffset() in whole seconds),
   valid iff |off_s| < 86400 and its LOCAL time lies in datetime.min ..
   datetime.max.  The datetime operations the code calls (astimezone(utc),
   .microsecond, .replace(microsecond=..), .timestamp(), utcoffset(),
   fromtimestamp(s, tz), timezone(timedelta)) are given their arithmetic
   meaning on that pair, including their overflow errors: this is a modelled
   contract of CPython's datetime, tied by the correspondence check.
   Sub-second utcoffsets (legal since 3.7, produced by no zone database) are
   not modelled. *)
From Coq Require Import List NArith ZArith Bool.
From SWH.lib Require Import Bytes Dec DecPad.
From SWH Require Import Generated.
Import ListNotations.
Open Scope Z_scope.

(* ------------------------------------------------------------------ errors *)
Inductive err :=
| ETimestampOverflow   (* TimestampOverflowException (a ValueError) *)
| EAttributeType       (* attrs_strict AttributeTypeError (a ValueError): value is not an int / bytes *)
| EValue               (* plain ValueError *)
| EAssertion           (* AssertionError *)
| EKey                 (* KeyError *)
| EOverflow            (* OverflowError raised by datetime arithmetic *)
| EType                (* TypeError (None < 0 on a null legacy offset) *)
| EUnmodelled.         (* outside the modelled sub-domain *)

Inductive result (A : Type) :=
| Ok (a : A)
| Err (e : err).
Arguments Ok {A} a.
Arguments Err {A} e.

Definition bind {A B : Type} (r : result A) (f : A -> result B) : result B :=
  match r with Ok a => f a | Err e => Err e end.

(* a Python value found where an int is expected: value.__class__ is int, bool, or anything else *)
Inductive pyval :=
| VInt (z : Z)
| VBool (b : bool)
| VOther.

(* ------------------------------------------------------------------ Timestamp *)
Record timestamp := mkTs { seconds : Z; microseconds : Z }.

Definition check_seconds (v : pyval) : result Z :=
  match v with
  | VInt z => if (TS_MIN_SECONDS <=? z) && (z <=? TS_MAX_SECONDS) then Ok z else Err ETimestampOverflow
  | _ => Err EAttributeType
  end.

Definition check_microseconds (v : pyval) : result Z :=
  match v with
  | VInt z => if (TS_MIN_MICROSECONDS <=? z) && (z <=? TS_MAX_MICROSECONDS) then Ok z else Err EValue
  | _ => Err EAttributeType
  end.

(* Timestamp(seconds=s, microseconds=us): attrs runs the validators in field order *)
Definition mk_timestamp (s us : pyval) : result timestamp :=
  bind (check_seconds s) (fun s' => bind (check_microseconds us) (fun us' => Ok (mkTs s' us'))).

(* ------------------------------------------------------------------ TimestampWithTimezone *)
Record tstz := mkTstz { ts : timestamp; offset_bytes : bytes }.

Definition PLUS : N := 43%N.
Definition MINUS : N := 45%N.
Definition DOT : N := 46%N.
Definition ZERO : N := 48%N.
(* b"+0000" and b"-0000" (explicit code lists: Coq strings are kept out of the extracted code) *)
Definition OB_PLUS0000 : bytes := [43; 48; 48; 48; 48]%N.
Definition OB_MINUS0000 : bytes := [45; 48; 48; 48; 48]%N.

(* CPython's default sys.int_max_str_digits: int(s) raises ValueError beyond it *)
Definition INT_MAX_STR_DIGITS : N := 4300%N.

(* int(s) for s a run of ASCII digits (other strings: not modelled) *)
Definition py_int_digits (l : bytes) : result Z :=
  match parse_dec_N l with
  | None => Err EUnmodelled
  | Some n => if (INT_MAX_STR_DIGITS <? N.of_nat (length l))%N then Err EValue else Ok (Z.of_N n)
  end.

Definition is_nil {A : Type} (l : list A) : bool := match l with [] => true | _ => false end.

(* the sub-domain on which _parse_offset_bytes is modelled: [+-][0-9]+ *)
Definition offset_modelled (ob : bytes) : bool :=
  match ob with
  | [] => false
  | c :: rest => (N.eqb c PLUS || N.eqb c MINUS) && negb (is_nil rest) && forallb is_digit rest
  end.

(* TimestampWithTimezone._parse_offset_bytes *)
Definition parse_offset_bytes (ob : bytes) : result Z :=
  if negb (offset_modelled ob) then Err EUnmodelled else
  match ob with
  | [] => Err EUnmodelled
  | c :: rest =>
      let sign := if N.eqb c PLUS then 1 else -1 in            (* int(offset_str[0] + "1") *)
      let hm :=
        if (length ob <=? 3)%nat
        then bind (py_int_digits rest) (fun h => Ok (h, 0))       (* hours = int(s[1:]); minutes = 0 *)
        else
          let k := (length rest - 2)%nat in
          bind (py_int_digits (firstn k rest)) (fun h =>          (* int(s[1:-2]) *)
          bind (py_int_digits (skipn k rest)) (fun m => Ok (h, m)))   (* int(s[-2:]) *)
      in
      bind hm (fun '(hours, minutes) =>
        let offset := sign * (hours * 60 + minutes) in
        if (0 <=? minutes) && (minutes <=? 59) && (- (2 ^ 15) <=? offset) && (offset <? 2 ^ 15)
        then Ok offset
        else Ok 0)
  end.

Definition offset_minutes (x : tstz) : result Z := parse_offset_bytes (offset_bytes x).

(* f"{'-' if negative else '+'}{hours:02}{minutes:02}".encode() *)
Definition offset_to_bytes (offset : Z) (negative_utc : bool) : bytes :=
  let negative := (offset <? 0) || negative_utc in
  let a := Z.abs offset in
  let hours := a / 60 in
  let minutes := a mod 60 in                                    (* divmod(abs(offset), 60) *)
  (if negative then MINUS else PLUS) :: dec_pad 2 (Z.to_N hours) ++ dec_pad 2 (Z.to_N minutes).

(* TimestampWithTimezone.from_numeric_offset *)
Definition from_numeric_offset (t : timestamp) (offset : Z) (negative_utc : bool) : result tstz :=
  let x := mkTstz t (offset_to_bytes offset negative_utc) in
  bind (offset_minutes x) (fun m =>
    if m =? offset then Ok x else Err EAssertion).              (* assert tstz.offset_minutes() == offset *)

(* ------------------------------------------------------------------ aware datetimes (contract) *)
Record adt := mkDt { epoch_us : Z; off_s : Z }.

Definition MILLION : Z := 1000000.
(* datetime.min / datetime.max as local wall-clock microseconds since 1970-01-01T00:00:00 *)
Definition DT_MIN_US : Z := -62135596800 * MILLION.             (* 0001-01-01T00:00:00 *)
Definition DT_MAX_US : Z := 253402300799 * MILLION + 999999.    (* 9999-12-31T23:59:59.999999 *)

Definition dt_local_us (d : adt) : Z := epoch_us d + off_s d * MILLION.
Definition wall_ok (us : Z) : bool := (DT_MIN_US <=? us) && (us <=? DT_MAX_US).
Definition dt_valid (d : adt) : bool :=
  (-86400 <? off_s d) && (off_s d <? 86400) && wall_ok (dt_local_us d).

(* dt.astimezone(timezone.utc):  (dt - offset) must be representable *)
Definition astimezone_utc (d : adt) : result adt :=
  if wall_ok (epoch_us d) then Ok (mkDt (epoch_us d) 0) else Err EOverflow.

(* dt.microsecond: the offset is a whole number of seconds *)
Definition dt_microsecond (d : adt) : Z := dt_local_us d mod MILLION.

(* dt.replace(microsecond=us) *)
Definition replace_microsecond (d : adt) (us : Z) : result adt :=
  if (0 <=? us) && (us <? MILLION)
  then Ok (mkDt (epoch_us d - dt_microsecond d + us) (off_s d))
  else Err EValue.

(* int(dt.timestamp()) for an aware dt: the float is exact on whole seconds below 2^53;
   int() truncates the (then exact) quotient; on a whole second both floor and trunc agree *)
Definition dt_timestamp_int (d : adt) : Z := epoch_us d / MILLION.

(* datetime.fromtimestamp(s, timezone(timedelta(seconds=off))) *)
Definition fromtimestamp (s : Z) (off : Z) : result adt :=
  if negb (wall_ok (s * MILLION)) then Err EValue                (* "year N is out of range" *)
  else if negb (wall_ok (s * MILLION + off * MILLION)) then Err EOverflow   (* tz.fromutc: date value out of range *)
  else Ok (mkDt (s * MILLION) off).

(* from_dict, datetime branch (= from_datetime) *)
Definition from_datetime (d : adt) : result tstz :=
  let utcoffset := off_s d in
  bind (astimezone_utc d) (fun u =>
  let us := dt_microsecond u in
  bind (if us =? 0 then Ok u else replace_microsecond u 0) (fun u' =>
  let secs := dt_timestamp_int u' in
  let offset := utcoffset / 60 in                                (* int(total_seconds()) // 60 *)
  bind (mk_timestamp (VInt secs) (VInt us)) (fun t =>
  from_numeric_offset t offset false))).

(* to_datetime *)
Definition to_datetime (x : tstz) : result adt :=
  bind (offset_minutes x) (fun m =>
  let tz_off := if (-1440 <? m) && (m <? 1440) then m * 60 else 0 in   (* timezone(td) raises ValueError -> utc *)
  bind (fromtimestamp (seconds (ts x)) tz_off) (fun d =>
  replace_microsecond d (microseconds (ts x)))).

(* from_iso8601, after iso8601.parse_date (an oracle): the parsed datetime and
   whether its tzname() is "-00:00" *)
Definition from_iso8601_parsed (d : adt) (tzname_minus0 : bool) : result tstz :=
  bind (from_datetime d) (fun x =>
    if tzname_minus0 then
      if beqb (offset_bytes x) OB_PLUS0000 then Ok (mkTstz (ts x) OB_MINUS0000) else Err EAssertion
    else Ok x).

(* ------------------------------------------------------------------ from_dict *)
(* the "timestamp" member of a dict *)
Inductive ts_repr :=
| TsDict (secs us : option pyval)    (* {"seconds": .., "microseconds": ..}, members may be absent *)
| TsInt (v : pyval)                  (* isinstance(ts, int): VInt or VBool *)
| TsOther.                           (* anything else *)

Inductive time_repr :=
(* a dict; every key may be absent (outer None); unknown extra keys are ignored by the code and not represented.
     t      : "timestamp"
     ob     : "offset_bytes"  (Some None = present but not a bytes object)
     offset : "offset"        (Some None = present with value None)
     neg    : "negative_utc"  (absent, None and False all read as False:  .get("negative_utc") or False) *)
| TRDict (t : option ts_repr) (ob : option (option bytes)) (offset : option (option Z)) (neg : option bool)
| TRDatetime (d : adt)
| TRNaive                                                       (* datetime without tzinfo *)
| TRInt (v : pyval)                                             (* isinstance(x, int): VInt or VBool *)
| TROther.

Definition default (d : pyval) (o : option pyval) : pyval := match o with Some v => v | None => d end.

Definition timestamp_of_repr (t : option ts_repr) : result timestamp :=
  match t with
  | None => Err EKey                                            (* time_representation["timestamp"] *)
  | Some (TsDict s us) => mk_timestamp (default (VInt 0) s) (default (VInt 0) us)
  | Some (TsInt v) => mk_timestamp v (VInt 0)
  | Some TsOther => Err EValue
  end.

Definition from_dict (r : time_repr) : result tstz :=
  match r with
  | TRDict t ob offset neg =>
      bind (timestamp_of_repr t) (fun t' =>
        match ob with
        | Some (Some b) => Ok (mkTstz t' b)           (* "offset_bytes" in d: the recorded bytes win, whatever else is there *)
        | Some None => Err EAttributeType
        | None =>                                     (* old format *)
            match offset with
            | None => Err EKey                        (* time_representation["offset"] *)
            | Some None => Err EType                  (* None < 0 *)
            | Some (Some off) => from_numeric_offset t' off (match neg with Some b => b | None => false end)
            end
        end)
  | TRDatetime d => from_datetime d
  | TRNaive => Err EValue
  | TRInt v => bind (mk_timestamp v (VInt 0)) (fun t' => Ok (mkTstz t' OB_PLUS0000))
  | TROther => Err EValue
  end.

(* ------------------------------------------------------------------ format_date *)
(* "%06d" % z *)
Definition fmt_06d (z : Z) : bytes :=
  match z with
  | Zneg p => MINUS :: dec_pad 5 (Npos p)
  | _ => dec_pad 6 (Z.to_N z)
  end.

Definition format_date (t : timestamp) : bytes :=
  if microseconds t =? 0 then dec_Z (seconds t)
  else rstrip0 (dec_Z (seconds t) ++ [DOT] ++ fmt_06d (microseconds t)).

(* the date part of format_author_data: b" " + date + b" " + offset_bytes *)
Definition author_date_part (x : tstz) : bytes :=
  [SP] ++ format_date (ts x) ++ [SP] ++ offset_bytes x.

(* independent decoder of the date text: <int>[.<1..6 digits>] -> (seconds, microseconds) *)
Definition parse_date (l : bytes) : option (Z * Z) :=
  match cut DOT l with
  | (a, None) => option_map (fun s => (s, 0)) (parse_dec_Z a)
  | (a, Some f) =>
      match parse_dec_Z a, parse_dec_N f with
      | Some s, Some n =>
          if (length f <=? 6)%nat then Some (s, Z.of_N n * 10 ^ Z.of_nat (6 - length f)) else None
      | _, _ => None
      end
  end.

(* ------------------------------------------------------------------ sweep support *)
(* the 16-bit grid as a list built with Z arithmetic *)
Fixpoint z_range_pos (p : positive) (lo : Z) : list Z :=
  (* 2^(size of p)-ish ranges are not needed: a plain counted list by binary splitting *)
  match p with
  | xH => [lo]
  | xO q => z_range_pos q lo ++ z_range_pos q (lo + Zpos q)
  | xI q => z_range_pos q lo ++ z_range_pos q (lo + Zpos q) ++ [lo + Zpos q + Zpos q]
  end.
(* [lo, lo+1, .., lo+n-1] *)
Definition z_range (lo : Z) (n : positive) : list Z := z_range_pos n lo.

Definition offset_case_ok (off : Z) (neg : bool) : bool :=
  if neg && (0 <? off) then
    match from_numeric_offset (mkTs 0 0) off neg with Err EAssertion => true | _ => false end
  else
    match from_numeric_offset (mkTs 0 0) off neg with
    | Ok x =>
        match offset_minutes x with Ok m => m =? off | _ => false end
        && Bool.eqb (beqb (offset_bytes x) OB_MINUS0000) ((off =? 0) && neg)
        && offset_modelled (offset_bytes x) && (5 <=? length (offset_bytes x))%nat
    | Err _ => false
    end.

Definition offset_pair_ok (off : Z) : bool := offset_case_ok off false && offset_case_ok off true.

Definition offset_grid_ok : bool := forallb offset_pair_ok (z_range (-32768) 65536).

(* ------------------------------------------------------------------ examples *)
