(* Model of swh/model/merkle.py (MerkleNode, MerkleLeaf) and of the Merkle part
   of swh/model/from_disk.py (Directory: invalidate_hash override, entries,
   to_model, compute_hash, path keys; Content leaf).  Definitions only, all
   executable.

   Python objects live in a heap (a list of nodes addressed by nat handles;
   nodes are never freed).  A node records exactly what the code records:
   its children dict (insertion ordered), the list `parents`, the private
   cached hash, `collected`, and for Directory nodes the two derived caches
   (`__entries`, `__model_object`); nodes of the other classes do not have
   these two attributes, they are represented by None and never set.

   The user's compute_hash is abstracted by the Section variable NH : it
   receives the node's data and, for each child in dict order,
   (name, child.data, child.hash), each child hash being read through the
   `hash` property (a non-forced update_hash), as MerkleTestNode and
   Directory.to_model do.  For Directory, NH is "sort the entries, build the
   git tree manifest, sha1" (the business of C02); Content: data["sha1_git"].

   `by_id` selects how a parent link is removed: true = by identity
   (MerkleNode._remove_parent, the code as it is now); false = the previous
   code, list.remove(self), which compares with == (structural equality).
   `old_truthy` selects how "no cached hash" is tested: false = `is None` (the
   code as it is now); true = by truthiness (the previous code), see [store]. *)
From Coq Require Import List NArith Bool Arith.
From SWH.lib Require Import Bytes.
Import ListNotations.

Inductive nkind := KNode | KLeaf | KDir | KContent.
Definition entry := (bytes * bytes * bytes)%type.   (* name, child data, child hash *)

Record node := mkNode {
  kind : nkind; data : bytes;
  kids : list (bytes * nat);          (* dict: insertion ordered, keys unique *)
  parents : list nat;
  cached : option bytes;              (* __hash *)
  collected : bool;
  ecache : option (list entry);       (* Directory.__entries *)
  mcache : option (list entry) }.     (* Directory.__model_object *)
Definition heap := list node.

Inductive err := EKey | EValue | EAttr | EFuel | EHandle.
Inductive res (A : Type) := Ok (a : A) | Err (e : err).
Arguments Ok {A} a. Arguments Err {A} e.
Definition bind {A B} (x : res A) (f : A -> res B) : res B :=
  match x with Ok a => f a | Err e => Err e end.
Notation "x <- e1 ;; e2" := (bind e1 (fun x => e2)) (at level 61, e1 at next level, right associativity).

Definition get (s : heap) (n : nat) : res node :=
  match nth_error s n with Some nd => Ok nd | None => Err EHandle end.
Fixpoint upd (n : nat) (f : node -> node) (s : heap) : heap :=
  match s, n with
  | [], _ => []
  | x :: s', O => f x :: s'
  | x :: s', S n' => x :: upd n' f s'
  end.

(* field setters *)
Definition set_kids ks (x : node) := mkNode (kind x) (data x) ks (parents x) (cached x) (collected x) (ecache x) (mcache x).
Definition set_parents ps (x : node) := mkNode (kind x) (data x) (kids x) ps (cached x) (collected x) (ecache x) (mcache x).
Definition set_cached c (x : node) := mkNode (kind x) (data x) (kids x) (parents x) c (collected x) (ecache x) (mcache x).
Definition set_collected b (x : node) := mkNode (kind x) (data x) (kids x) (parents x) (cached x) b (ecache x) (mcache x).
Definition set_ecache e (x : node) := mkNode (kind x) (data x) (kids x) (parents x) (cached x) (collected x) e (mcache x).
(* node.data = d : an assignment the library cannot see *)
Definition set_data d (x : node) := mkNode (kind x) d (kids x) (parents x) (cached x) (collected x) (ecache x) (mcache x).
Definition set_mcache m (x : node) := mkNode (kind x) (data x) (kids x) (parents x) (cached x) (collected x) (ecache x) m.
(* Directory.invalidate_hash, first two lines *)
Definition clearc (x : node) := mkNode (kind x) (data x) (kids x) (parents x) (cached x) (collected x) None None.
(* self.__hash = None; self.collected = False (after clearc) *)
Definition uncache (x : node) := mkNode (kind x) (data x) (kids x) (parents x) None false None None.

(* `self.__hash is not None`: None is the only "not computed" state *)
Definition hashed (x : node) : bool :=
  match cached x with Some _ => true | None => false end.
(* What is kept of a freshly computed hash.  The code stores it as it is.  The
   previous code tested the truthiness of __hash (`if not self.__hash`,
   `if self.__hash and not force`), so that a falsy hash (b"") - although
   stored and returned - was everywhere treated exactly like None: that
   behaviour is the mutant [old_truthy = true], which keeps None instead. *)
Definition store (old_truthy : bool) (h : bytes) : option bytes :=
  if old_truthy then match h with [] => None | _ => Some h end else Some h.

(* ---- the children dict *)
Fixpoint kget (key : bytes) (ks : list (bytes * nat)) : option nat :=
  match ks with
  | [] => None
  | (k, c) :: ks' => if beqb key k then Some c else kget key ks'
  end.
Fixpoint kset (key : bytes) (c : nat) (ks : list (bytes * nat)) : list (bytes * nat) :=
  match ks with
  | [] => [(key, c)]
  | (k, c') :: ks' => if beqb key k then (k, c) :: ks' else (k, c') :: kset key c ks'
  end.
Fixpoint kdel (key : bytes) (ks : list (bytes * nat)) : list (bytes * nat) :=
  match ks with
  | [] => []
  | (k, c) :: ks' => if beqb key k then ks' else (k, c) :: kdel key ks'
  end.
Definition kmem key ks := match kget key ks with Some _ => true | None => false end.

(* key.split(b"/", 1) and key.rsplit(b"/", 1) *)
Definition split1 (key : bytes) : bytes * option bytes := cut SLASH key.
Definition rsplit1 (key : bytes) : bytes * option bytes :=
  match cut SLASH (rev key) with
  | (a, Some b) => (rev b, Some (rev a))
  | (_, None) => (key, None)
  end.
Definition has_slash (key : bytes) := memb SLASH key.

(* ---- structural equality of nodes: MerkleNode.__eq__ = dict equality
   (order-insensitive, values compared with ==, identical objects are equal)
   and equal data.  The class is not compared. *)
Fixpoint node_eqb (fuel : nat) (s : heap) (a b : nat) : bool :=
  if Nat.eqb a b then true else
  match fuel with
  | O => false
  | S f =>
      match nth_error s a, nth_error s b with
      | Some x, Some y =>
          Nat.eqb (length (kids x)) (length (kids y))
          && forallb (fun kc => match kget (fst kc) (kids y) with
                                | Some c' => node_eqb f s (snd kc) c'
                                | None => false end) (kids x)
          && beqb (data x) (data y)
      | _, _ => false
      end
  end.

Fixpoint remove_first (test : nat -> bool) (l : list nat) : option (list nat) :=
  match l with
  | [] => None
  | x :: l' => if test x then Some l'
               else match remove_first test l' with Some r => Some (x :: r) | None => None end
  end.

(* child._remove_parent(p)  /  child.parents.remove(p) ; ValueError if absent *)
Definition remove_parent (by_id : bool) (s : heap) (c p : nat) : res heap :=
  x <- get s c ;;
  let test := if by_id then Nat.eqb p else (fun q => node_eqb (S (length s)) s q p) in
  match remove_first test (parents x) with
  | Some ps => Ok (upd c (set_parents ps) s)
  | None => Err EValue
  end.

Definition add_parent (s : heap) (c p : nat) : res heap :=
  x <- get s c ;; Ok (upd c (set_parents (parents x ++ [p])) s).

(* ---- invalidate_hash (Directory's override clears the derived caches
   before the early exit; for the other classes clearing None is a no-op) *)
Fixpoint fold_res {A} (f : nat -> A -> res A) (l : list nat) (a : A) : res A :=
  match l with
  | [] => Ok a
  | x :: l' => a' <- f x a ;; fold_res f l' a'
  end.

Fixpoint invalidate (fuel : nat) (n : nat) (s : heap) : res heap :=
  match fuel with
  | O => Err EFuel
  | S f =>
      x <- get s n ;;
      if hashed x then fold_res (invalidate f) (parents x) (upd n uncache s)
      else Ok (upd n clearc s)
  end.
Definition inval (n : nat) (s : heap) : res heap := invalidate (S (length s)) n s.

Section WithNH.
Variable NH : bytes -> list entry -> bytes.
Variable old_truthy : bool.

(* reading child.hash for every item of the dict, building the entries *)
Fixpoint read_kids (rd : nat -> heap -> res (heap * bytes)) (ks : list (bytes * nat)) (s : heap)
  : res (heap * list entry) :=
  match ks with
  | [] => Ok (s, [])
  | (name, k) :: ks' =>
      r <- rd k s ;;
      kd <- get (fst r) k ;;
      r' <- read_kids rd ks' (fst r) ;;
      Ok (fst r', (name, data kd, snd r) :: snd r')
  end.

(* compute_hash: Directory goes through to_model() and its cache *)
Definition compute (rd : nat -> heap -> res (heap * bytes)) (n : nat) (s : heap) : res (heap * bytes) :=
  x <- get s n ;;
  match kind x, mcache x with
  | KDir, Some es => Ok (s, NH (data x) es)
  | KDir, None =>
      r <- read_kids rd (kids x) s ;;
      Ok (upd n (set_mcache (Some (snd r))) (fst r), NH (data x) (snd r))
  | _, _ =>
      r <- read_kids rd (kids x) s ;;
      Ok (fst r, NH (data x) (snd r))
  end.

Fixpoint update_hash (fuel : nat) (force : bool) (n : nat) (s : heap) : res (heap * bytes) :=
  match fuel with
  | O => Err EFuel
  | S f =>
      x <- get s n ;;
      match cached x, force with
      | Some h, false => Ok (s, h)
      | _, _ =>
          s1 <- (if force then inval n s else Ok s) ;;
          s2 <- fold_res (fun k t => r <- update_hash f force k t ;; Ok (fst r)) (map snd (kids x)) s1 ;;
          r <- compute (update_hash f false) n s2 ;;
          Ok (upd n (set_cached (store old_truthy (snd r))) (fst r), snd r)
      end
  end.
Definition read_hash (n : nat) (s : heap) := update_hash (S (length s)) false n s.
Definition force_hash (n : nat) (s : heap) := update_hash (S (length s)) true n s.

(* A MUTANT of update_hash(force=True), not the code: invalidate_hash() is
   called once, on the node the update is forced on (which still invalidates
   that node and its ancestors), and the subtree is then recomputed by a helper
   that stores compute_hash() at every node WITHOUT invalidating it: the
   descendants keep their collected flag and, Directory nodes, their cached
   entries / model object.  Only used by C14_force_lazy_refuted. *)
Fixpoint recompute (fuel : nat) (n : nat) (s : heap) : res (heap * bytes) :=
  match fuel with
  | O => Err EFuel
  | S f =>
      x <- get s n ;;
      s2 <- fold_res (fun k t => r <- recompute f k t ;; Ok (fst r)) (map snd (kids x)) s ;;
      r <- compute (update_hash f false) n s2 ;;
      Ok (upd n (set_cached (store old_truthy (snd r))) (fst r), snd r)
  end.
Definition force_lazy (n : nat) (s : heap) : res (heap * bytes) :=
  s1 <- inval n s ;; recompute (S (length s1)) n s1.

(* Directory.entries / to_model (the sort is part of NH / of the observer) *)
Definition entries (n : nat) (s : heap) : res (heap * list entry) :=
  x <- get s n ;;
  match kind x with
  | KDir =>
      match ecache x with
      | Some es => Ok (s, es)
      | None => r <- read_kids read_hash (kids x) s ;;
                Ok (upd n (set_ecache (Some (snd r))) (fst r), snd r)
      end
  | _ => Err EAttr
  end.
Definition to_model (n : nat) (s : heap) : res (heap * list entry) :=
  x <- get s n ;;
  match kind x with
  | KDir =>
      match mcache x with
      | Some es => Ok (s, es)
      | None => r <- read_kids read_hash (kids x) s ;;
                Ok (upd n (set_mcache (Some (snd r))) (fst r), snd r)
      end
  | _ => Err EAttr
  end.

(* Directory.swhid() / Content.swhid() = CoreSWHID(type of the class, self.hash): the
   object id is the hash, read through the `hash` property; the generic
   MerkleNode classes have no such method (AttributeError) *)
Definition swhid (n : nat) (s : heap) : res (heap * bytes) :=
  x <- get s n ;;
  match kind x with
  | KDir | KContent => read_hash n s
  | _ => Err EAttr
  end.

(* ---- collect_node / collect / reset_collect.  `{self}` hashes the node:
   __hash__ reads self.hash. *)
Definition collect_node (n : nat) (s : heap) : res (heap * list nat) :=
  x <- get s n ;;
  if collected x then Ok (s, [])
  else r <- read_hash n (upd n (set_collected true) s) ;; Ok (fst r, [n]).

Fixpoint collect (fuel : nat) (n : nat) (s : heap) : res (heap * list nat) :=
  match fuel with
  | O => Err EFuel
  | S f =>
      x <- get s n ;;
      r <- collect_node n s ;;
      fold_res (fun k acc => r' <- collect f k (fst acc) ;; Ok (fst r', snd acc ++ snd r'))
               (map snd (kids x)) r
  end.

(* A MUTANT of collect, not the code: it returns at once when the node it is
   called on is already marked collected (an "optimisation" that is wrong:
   nodes below may have been un-collected by a partial reset_collect or by a
   mutation reaching them through another parent).  Only used by the
   refutation C14_collect_early_refuted. *)
Fixpoint collect_early (fuel : nat) (n : nat) (s : heap) : res (heap * list nat) :=
  match fuel with
  | O => Err EFuel
  | S f =>
      x <- get s n ;;
      if collected x then Ok (s, []) else
      r <- collect_node n s ;;
      fold_res (fun k acc => r' <- collect_early f k (fst acc) ;; Ok (fst r', snd acc ++ snd r'))
               (map snd (kids x)) r
  end.

End WithNH.

(* A MUTANT of collect, not the code: it flags the nodes it reports without
   computing their hashes (what happens when putting a node in a set no longer
   hashes it through .hash): a collected node may then have no cached hash,
   which invalidate_hash's early exit relies on.  Only used by
   C14_collect_nohash_refuted. *)
Fixpoint collect_nohash (fuel : nat) (n : nat) (s : heap) : res (heap * list nat) :=
  match fuel with
  | O => Err EFuel
  | S f =>
      x <- get s n ;;
      fold_res (fun k acc => r' <- collect_nohash f k (fst acc) ;; Ok (fst r', snd acc ++ snd r'))
               (map snd (kids x))
               (if collected x then (s, []) else (upd n (set_collected true) s, [n]))
  end.

Fixpoint reset_collect (fuel : nat) (n : nat) (s : heap) : res heap :=
  match fuel with
  | O => Err EFuel
  | S f =>
      x <- get s n ;;
      fold_res (reset_collect f) (map snd (kids x)) (upd n (set_collected false) s)
  end.

(* ---- item access.  Dispatch on the class of the receiver. *)
Fixpoint getitem (fuel : nat) (s : heap) (n : nat) (key : bytes) : res nat :=
  match fuel with
  | O => Err EFuel
  | S f =>
      x <- get s n ;;
      match kind x with
      | KLeaf | KContent => Err EValue
      | KNode => match kget key (kids x) with Some c => Ok c | None => Err EKey end
      | KDir =>
          match key with
          | [] => Ok n
          | _ =>
              match split1 key with
              | (_, None) => match kget key (kids x) with Some c => Ok c | None => Err EKey end
              | (k1, Some k2) => t <- getitem f s n k1 ;; getitem f s t k2
              end
          end
      end
  end.
Definition getitem_ (s : heap) (n : nat) (key : bytes) := getitem (S (S (length key))) s n key.

Fixpoint contains (fuel : nat) (s : heap) (n : nat) (key : bytes) : res bool :=
  match fuel with
  | O => Err EFuel
  | S f =>
      x <- get s n ;;
      match kind x with
      | KDir =>
          match split1 key with
          | (_, None) => Ok (kmem key (kids x))
          | (k1, Some k2) =>
              if kmem k1 (kids x) then t <- getitem_ s n k1 ;; contains f s t k2
              else Ok false
          end
      | _ => Ok (kmem key (kids x))
      end
  end.
Definition contains_ (s : heap) (n : nat) (key : bytes) := contains (S (length key)) s n key.

Section Mutations.
Variable by_id : bool.

(* MerkleNode.__setitem__ *)
Definition raw_setitem (s : heap) (p : nat) (key : bytes) (c : nat) : res heap :=
  _ <- get s c ;;
  s1 <- inval p s ;;
  add_parent (upd p (fun x => set_kids (kset key c (kids x)) x) s1) c p.

Definition is_disk (k : nkind) := match k with KDir | KContent => true | _ => false end.

(* X.__setitem__(key, c) where key is known to have no "/" when X is a Directory *)
Definition dir_value_checks (s : heap) (key : bytes) (c : nat) : res unit :=
  y <- get s c ;;
  if negb (is_disk (kind y)) then Err EValue
  else match key with [] => Err EValue | _ => if memb NUL key then Err EValue else Ok tt end.

Definition setitem (s : heap) (p : nat) (key : bytes) (c : nat) : res heap :=
  x <- get s p ;;
  match kind x with
  | KLeaf | KContent => Err EValue
  | KNode => raw_setitem s p key c
  | KDir =>
      _ <- dir_value_checks s key c ;;
      match rsplit1 key with
      | (_, None) => raw_setitem s p key c
      | (k1, Some k2) =>
          t <- getitem_ s p k1 ;;
          y <- get s t ;;
          match kind y with
          | KLeaf | KContent => Err EValue
          | KNode => raw_setitem s t k2 c
          | KDir => _ <- dir_value_checks s k2 c ;; raw_setitem s t k2 c
          end
      end
  end.

(* MerkleNode.__delitem__ ; (state, error) : an exception may leave the
   invalidation done.  `self[name]` goes through the class's __getitem__: for a
   Directory the name b"" is the directory ITSELF (an entry named b"" can only
   come from a bulk update), whose parent link to itself does not exist:
   ValueError, after the invalidation. *)
Definition self_lookup (x : node) (p : nat) (name : bytes) (c : nat) : nat :=
  match kind x, name with
  | KDir, [] => p
  | _, _ => c
  end.
Definition raw_delitem (s : heap) (p : nat) (name : bytes) : heap * option err :=
  match get s p with
  | Err e => (s, Some e)
  | Ok x =>
      match kget name (kids x) with
      | None => (s, Some EKey)
      | Some c =>
          match inval p s with
          | Err e => (s, Some e)
          | Ok s1 =>
              match remove_parent by_id s1 (self_lookup x p name c) p with
              | Err e => (s1, Some e)
              | Ok s2 => (upd p (fun x => set_kids (kdel name (kids x)) x) s2, None)
              end
          end
      end
  end.

Definition delitem (s : heap) (p : nat) (key : bytes) : heap * option err :=
  match get s p with
  | Err e => (s, Some e)
  | Ok x =>
      match kind x with
      | KLeaf | KContent => (s, Some EValue)
      | KNode => raw_delitem s p key
      | KDir =>
          match rsplit1 key with
          | (_, None) => raw_delitem s p key
          | (k1, Some k2) =>
              match (t <- getitem_ s p k1 ;; y <- get s t ;; Ok (t, kind y)) with
              | Err e => (s, Some e)
              | Ok (t, KLeaf) | Ok (t, KContent) => (s, Some EValue)
              | Ok (t, _) => raw_delitem s t k2
              end
          end
      end
  end.

(* MerkleNode.update(new_children): new_children is a dict given as its item list *)
Fixpoint update_links (s : heap) (p : nat) (l : list (bytes * nat)) : heap * option err :=
  match l with
  | [] => (s, None)
  | (name, c) :: l' =>
      match add_parent s c p with
      | Err e => (s, Some e)
      | Ok s1 =>
          match contains_ s1 p name with
          | Err e => (s1, Some e)
          | Ok false => update_links s1 p l'
          | Ok true =>
              match (old <- getitem_ s1 p name ;; remove_parent by_id s1 old p) with
              | Err e => (s1, Some e)
              | Ok s2 => update_links s2 p l'
              end
          end
      end
  end.

Definition update_many (s : heap) (p : nat) (l : list (bytes * nat)) : heap * option err :=
  match get s p with
  | Err e => (s, Some e)
  | Ok x =>
      match kind x with
      | KLeaf | KContent => (s, Some EValue)
      | _ =>
          match l with
          | [] => (s, None)
          | _ =>
              match inval p s with
              | Err e => (s, Some e)
              | Ok s1 =>
                  match update_links s1 p l with
                  | (s2, Some e) => (s2, Some e)
                  | (s2, None) =>
                      (upd p (fun x => set_kids (fold_left (fun ks nc => kset (fst nc) (snd nc) ks) l (kids x)) x) s2, None)
                  end
              end
          end
      end
  end.

End Mutations.

(* ---- histories *)
Inductive op :=
| ONew (k : nkind) (d : bytes)
| OSet (p : nat) (key : bytes) (c : nat)
| ODel (p : nat) (key : bytes)
| OUpdate (p : nat) (l : list (bytes * nat))
| OGet (p : nat) (key : bytes)
| OContains (p : nat) (key : bytes)
| OHash (n : nat)
| OForce (n : nat)
| OEntries (n : nat)
| OToModel (n : nat)
| OCollect (n : nat)
| OReset (n : nat)
| OWrite (n : nat) (d : bytes)      (* node.data = d, out of band: no invalidation *)
| OSwhid (n : nat)                  (* Directory.swhid() / Content.swhid(): the identifier derived from .hash *)
| OEq (a b : nat).                  (* a == b  (MerkleNode.__eq__; a != b is its negation): no hash is computed *)

Inductive out :=
| OutUnit | OutHandle (n : nat) | OutBool (b : bool) | OutHash (h : bytes)
| OutEntries (es : list entry) | OutNodes (l : list nat) | OutErr (e : err).

Definition new_node (k : nkind) (d : bytes) : node := mkNode k d [] [] None false None None.

Section Step.
Variable NH : bytes -> list entry -> bytes.
Variable by_id : bool.
Variable old_truthy : bool.

Definition of_res {A} (s : heap) (r : res (heap * A)) (f : A -> out) : heap * out :=
  match r with Ok (s', a) => (s', f a) | Err e => (s, OutErr e) end.
Definition of_mut (r : heap * option err) : heap * out :=
  match r with (s', None) => (s', OutUnit) | (s', Some e) => (s', OutErr e) end.

Definition step (s : heap) (o : op) : heap * out :=
  match o with
  | ONew k d => (s ++ [new_node k d], OutHandle (length s))
  | OSet p key c => match setitem s p key c with Ok s' => (s', OutUnit) | Err e => (s, OutErr e) end
  | ODel p key => of_mut (delitem by_id s p key)
  | OUpdate p l => of_mut (update_many by_id s p l)
  | OGet p key => match getitem_ s p key with Ok c => (s, OutHandle c) | Err e => (s, OutErr e) end
  | OContains p key => match contains_ s p key with Ok b => (s, OutBool b) | Err e => (s, OutErr e) end
  | OHash n => of_res s (read_hash NH old_truthy n s) OutHash
  | OForce n => of_res s (force_hash NH old_truthy n s) OutHash
  | OEntries n => of_res s (entries NH old_truthy n s) OutEntries
  | OToModel n => of_res s (to_model NH old_truthy n s) OutEntries
  | OCollect n => of_res s (collect NH old_truthy (S (length s)) n s) OutNodes
  | OReset n => match reset_collect (S (length s)) n s with Ok s' => (s', OutUnit) | Err e => (s, OutErr e) end
  | OWrite n d => match get s n with Ok _ => (upd n (set_data d) s, OutUnit) | Err e => (s, OutErr e) end
  | OSwhid n => of_res s (swhid NH old_truthy n s) OutHash
  | OEq a b => (s, OutBool (node_eqb (S (length s)) s a b))
  end.

(* run a history from a state, collecting the outputs *)
Fixpoint run (s : heap) (h : list op) : heap * list out :=
  match h with
  | [] => (s, [])
  | o :: h' => let '(s1, x) := step s o in let '(s2, xs) := run s1 h' in (s2, x :: xs)
  end.
End Step.

(* ------------------------------------------------------------------------
   Specification vocabulary (used by the theorem statements in Props/). *)

(* "h is the hash of node n computed from scratch from the current
   structure": no cache is consulted; a cyclic structure has no derivation. *)
Section Spec.
Variable NH : bytes -> list entry -> bytes.

Inductive Fresh (s : heap) : nat -> bytes -> Prop :=
| Fresh_node : forall n x es,
    nth_error s n = Some x -> FreshKids s (kids x) es -> Fresh s n (NH (data x) es)
with FreshKids (s : heap) : list (bytes * nat) -> list entry -> Prop :=
| FK_nil : FreshKids s [] []
| FK_cons : forall name k kd h ks es,
    nth_error s k = Some kd -> Fresh s k h -> FreshKids s ks es ->
    FreshKids s ((name, k) :: ks) ((name, data kd, h) :: es).
End Spec.

Local Open Scope nat_scope.
(* m is a child of n *)
Definition edge (s : heap) (n m : nat) : Prop :=
  exists x name, nth_error s n = Some x /\ In (name, m) (kids x).
(* m is in the subtree (sub-DAG) rooted at n *)
Inductive Reach (s : heap) : nat -> nat -> Prop :=
| Reach_refl : forall n, n < length s -> Reach s n n
| Reach_step : forall n k m, edge s n k -> Reach s k m -> Reach s n m.

(* trees and DAGs: some rank (any natural-number labelling of the handles)
   strictly decreases along every child edge.  [ranked] adds a bound by the
   number of nodes; it is what the fuel arguments use, and it costs nothing:
   proofs/MerkleAcyclic.v builds a bounded rank from any decreasing one. *)
Definition decreasing (rank : nat -> nat) (s : heap) : Prop :=
  forall n m, edge s n m -> rank m < rank n.
Definition ranked (rank : nat -> nat) (s : heap) : Prop :=
  decreasing rank s /\ (forall n, rank n <= length s).
Definition acyclic (s : heap) : Prop := exists rank, decreasing rank s.

Definition plain (key : bytes) : Prop := key <> [] /\ ~ In SLASH key.
(* no Directory has an entry named b"" (item assignment refuses that name; only a bulk update with the key b"",
   which is not a plain name, can create one) *)
Definition no_empty_name (s : heap) : Prop :=
  forall n x, nth_error s n = Some x -> kind x = KDir -> kget [] (kids x) = None.

Section Guards.
Variable NH : bytes -> list entry -> bytes.
Variable by_id : bool.
Variable old_truthy : bool.
(* guard of one operation: the structure stays a DAG; a bulk update is given a
   dict (distinct keys) of plain names and existing nodes *)
Definition guard (s : heap) (o : op) : Prop :=
  acyclic (fst (step NH by_id old_truthy s o)) /\
  match o with
  | OUpdate p l => NoDup (map fst l) /\ forall name c, In (name, c) l -> plain name /\ c < length s
  | OWrite _ _ => False     (* a guarded history contains no out-of-band write: see C10_force_restores *)
  | ODel _ _ => no_empty_name s
  | _ => True
  end.
Fixpoint guarded (s : heap) (h : list op) : Prop :=
  match h with
  | [] => True
  | o :: h' => guard s o /\ guarded (fst (step NH by_id old_truthy s o)) h'
  end.
Definition final (s : heap) (h : list op) : heap := fst (run NH by_id old_truthy s h).
(* no collect of history h, run from s, is issued at a node that has x below
   it at that moment *)
Fixpoint quiet (s : heap) (h : list op) (x : nat) : Prop :=
  match h with
  | [] => True
  | o :: h' => (forall r, o = OCollect r -> ~ Reach s r x) /\ quiet (fst (step NH by_id old_truthy s o)) h' x
  end.
End Guards.

(* ---- C14: what the collections of a history have reported (ghost state).
   collect() returns a Python set of nodes, which keeps ONE representative per
   class of nodes that hash alike and are == ; which one is not specified:
   [rp s L n] is the representative kept for n when the nodes of L are put
   in the set in state s (the identity is one such oracle).  A report is
   (representative, hash, node it stands for). *)
Definition hash_of (s : heap) (n : nat) : bytes :=
  match nth_error s n with
  | Some x => match cached x with Some h => h | None => [] end
  | None => []
  end.
Definition report := (nat * bytes * nat)%type.
Definition set_oracle := heap -> list nat -> nat -> nat.
Definition oracle_ok (rp : set_oracle) : Prop :=
  forall s L n, In n L ->
    In (rp s L n) L /\ node_eqb (S (length s)) s (rp s L n) n = true /\ hash_of s (rp s L n) = hash_of s n.
Definition reports (rp : set_oracle) (s' : heap) (o : out) : list report :=
  match o with
  | OutNodes L => map (fun n => (rp s' L n, hash_of s' n, n)) L
  | _ => []
  end.
Section Ghost.
Variable NH : bytes -> list entry -> bytes.
Variable by_id : bool.
Variable old_truthy : bool.
Variable rp : set_oracle.
Fixpoint grun (s : heap) (rep : list report) (h : list op) : heap * list report :=
  match h with
  | [] => (s, rep)
  | o :: h' => let '(s1, x) := step NH by_id old_truthy s o in grun s1 (rep ++ reports rp s1 x) h'
  end.
End Ghost.
