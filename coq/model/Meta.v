(* Model of git_objects.extid_git_object / raw_extrinsic_metadata_git_object and
   of model.ExtID / model.RawExtrinsicMetadata (constructor = validators +
   normalize_discovery_date + id computation).  Definitions only.

   Conventions.
   - A Python `str` that the code `.encode()`s (authority url, fetcher name and
     version, format, origin, extid_type, payload_type) is modelled by the UTF-8
     byte string it encodes to; strings containing surrogates make `.encode()`
     raise and are outside the domain.  `.encode("ascii")` (extid_type,
     payload_type) raises UnicodeEncodeError (a ValueError) unless the string
     is ASCII, i.e. unless every byte of its UTF-8 encoding is < 128.
   - `str(swhid)` is modelled by [print_swhid] below ("swh:1:<type>:<hex id>",
     built from the regenerated SWHID tables); the object id is a byte string.
   - An aware `datetime` is abstracted as the instant (microseconds since the
     epoch, exact integer) plus its UTC offset (microseconds); datetimes whose
     UTC equivalent is not representable (year < 1 or > 9999; astimezone raises
     OverflowError) are outside the domain. *)
From Coq Require Import List NArith ZArith Bool.
From SWH.lib Require Import Bytes Dec Hex GitHeader Headers CutLast.
From SWH Require Import Generated.
Import ListNotations.
Open Scope N_scope.

(* ---------- SWHIDs (core: 5 types; extended: 7 types) ---------- *)
Inductive cty := CSnp | CRel | CRev | CDir | CCnt.
Inductive ety := ECore (c : cty) | EOri | EEmd.
Definition all_cty := [CSnp; CRel; CRev; CDir; CCnt].
Definition all_ety := map ECore all_cty ++ [EOri; EEmd].

Definition cty_word (t : cty) : bytes :=
  match t with CSnp => bs "snp" | CRel => bs "rel" | CRev => bs "rev" | CDir => bs "dir" | CCnt => bs "cnt" end.
Definition ety_word (t : ety) : bytes :=
  match t with ECore c => cty_word c | EOri => bs "ori" | EEmd => bs "emd" end.

Record cswhid := { cs_ty : cty; cs_id : bytes }.
Record eswhid := { es_ty : ety; es_id : bytes }.

(* _BaseSWHID.__str__ : ":".join([namespace, str(scheme_version), type.value, hex id]) *)
Definition swhid_prefix : bytes := SWHID_NAMESPACE ++ SWHID_SEP ++ dec_Z SWHID_VERSION ++ SWHID_SEP.
Definition print_swhid (w : bytes) (id : bytes) : bytes := swhid_prefix ++ w ++ SWHID_SEP ++ hexlify id.
Definition print_core (s : cswhid) : bytes := print_swhid (cty_word (cs_ty s)) (cs_id s).
Definition print_ext (s : eswhid) : bytes := print_swhid (ety_word (es_ty s)) (es_id s).

(* independent reader of the printed text *)
Definition ety_of_word (w : bytes) : option ety :=
  match filter (fun t => beqb w (ety_word t)) all_ety with t :: _ => Some t | [] => None end.
Definition parse_ext (l : bytes) : option eswhid :=
  match strip_prefix (bs "swh:1:") l with
  | Some r => match cut COLON r with
              | (w, Some h) => match ety_of_word w, unhex h with
                               | Some t, Some id => Some {| es_ty := t; es_id := id |}
                               | _, _ => None
                               end
              | _ => None
              end
  | None => None
  end.
Definition parse_core (l : bytes) : option cswhid :=
  match parse_ext l with
  | Some {| es_ty := ECore c; es_id := id |} => Some {| cs_ty := c; cs_id := id |}
  | _ => None
  end.

(* ---------- results ---------- *)
Inductive err : Set := ValueError.
Inductive result (A : Type) := Ok (a : A) | Err (e : err).
Arguments Ok {A} a. Arguments Err {A} e.

Definition is_ascii_bytes (l : bytes) : bool := forallb (fun c => c <? 128) l.

(* ================= ExtID ================= *)
Record extid := {
  x_type : bytes;                 (* extid_type : str *)
  x_extid : bytes;
  x_target : cswhid;
  x_version : Z;                  (* any Python int *)
  x_payload_type : option bytes;  (* Optional[str] *)
  x_payload : option bytes }.

Definition extid_headers (e : extid) : list header :=
  [(bs "extid_type", x_type e)]
  ++ (if Z.eqb (x_version e) 0 then [] else [(bs "extid_version", dec_Z (x_version e))])
  ++ [(bs "extid", x_extid e); (bs "target", print_core (x_target e))]
  ++ match x_payload_type e with Some t => [(bs "payload_type", t)] | None => [] end
  ++ match x_payload e with Some p => [(bs "payload", p)] | None => [] end.

(* extid_git_object: the two .encode("ascii") calls raise on non-ASCII text *)
Definition extid_git_object (e : extid) : result bytes :=
  if is_ascii_bytes (x_type e)
     && match x_payload_type e with Some t => is_ascii_bytes t | None => true end
  then Ok (from_headers (bs "extid") (extid_headers e) None)
  else Err ValueError.

(* An int field as the validators accept it: a plain int or a bool (isinstance(True, int); True == 1, False == 0).
   The model's x_version / m_visit hold its VALUE (what "%d" prints since c60369d).  Before, the lines were
   written with str(), which prints a bool as a word: [extid_git_object_old]. *)
Inductive int_input := IPlain (z : Z) | IBool (b : bool).
Definition int_value (i : int_input) : Z :=
  match i with IPlain z => z | IBool true => 1%Z | IBool false => 0%Z end.
Definition str_int (i : int_input) : bytes :=
  match i with IPlain z => dec_Z z | IBool true => bs "True" | IBool false => bs "False" end.
Definition extid_headers_old (e : extid) (v : int_input) : list header :=
  [(bs "extid_type", x_type e)]
  ++ (if Z.eqb (int_value v) 0 then [] else [(bs "extid_version", str_int v)])
  ++ [(bs "extid", x_extid e); (bs "target", print_core (x_target e))]
  ++ match x_payload_type e with Some t => [(bs "payload_type", t)] | None => [] end
  ++ match x_payload e with Some p => [(bs "payload", p)] | None => [] end.
Definition extid_manifest_old (e : extid) (v : int_input) : bytes :=
  from_headers (bs "extid") (extid_headers_old e v) None.

(* ExtID.check_payload_type / check_payload *)
Definition extid_valid (e : extid) : bool :=
  match x_payload_type e, x_payload e with
  | Some _, None => false
  | None, Some _ => false
  | _, _ => true
  end.

(* ================= RawExtrinsicMetadata ================= *)
Inductive auth_type := DepositClient | Forge | Registry.
Definition all_auth := [DepositClient; Forge; Registry].
Definition auth_word (t : auth_type) : bytes :=
  match t with DepositClient => bs "deposit_client" | Forge => bs "forge" | Registry => bs "registry" end.
Definition auth_of_word (w : bytes) : option auth_type :=
  match filter (fun t => beqb w (auth_word t)) all_auth with t :: _ => Some t | [] => None end.

Record authority := { au_type : auth_type; au_url : bytes }.
Record fetcher := { fe_name : bytes; fe_version : bytes }.

(* aware datetime: instant in microseconds since the epoch, UTC offset in microseconds *)
Record datetime := { dt_us : Z; dt_off : Z }.

(* normalize_discovery_date: astimezone(utc).replace(microsecond=0) - floor to
   the second (Z.modulo has floor semantics, also before the epoch), zone UTC *)
Definition normalize_date (d : datetime) : datetime :=
  {| dt_us := (dt_us d - dt_us d mod 1000000)%Z; dt_off := 0%Z |}.

Record emd := {
  m_target : eswhid;
  m_date : datetime;
  m_authority : authority;
  m_fetcher : fetcher;
  m_format : bytes;
  m_metadata : bytes;
  m_origin : option bytes;
  m_visit : option Z;
  m_snapshot : option cswhid;
  m_release : option cswhid;
  m_revision : option cswhid;
  m_path : option bytes;
  m_directory : option cswhid }.

(* getattr(metadata, key, None), rendered as the code renders it: path raw, the
   others str(value).encode(); a key naming no attribute yields None *)
Definition ctx_field (m : emd) (k : bytes) : option bytes :=
  if beqb k (bs "origin") then m_origin m
  else if beqb k (bs "visit") then option_map dec_Z (m_visit m)
  else if beqb k (bs "snapshot") then option_map print_core (m_snapshot m)
  else if beqb k (bs "release") then option_map print_core (m_release m)
  else if beqb k (bs "revision") then option_map print_core (m_revision m)
  else if beqb k (bs "path") then m_path m
  else if beqb k (bs "directory") then option_map print_core (m_directory m)
  else None.

Definition emd_context (m : emd) : list header := opt_lines (ctx_field m) EMD_CONTEXT_KEYS.

Definition emd_second (m : emd) : Z := (dt_us (m_date m) / 1000000)%Z.

Definition emd_fixed_headers (m : emd) : list header :=
  [(bs "target", print_ext (m_target m));
   (bs "discovery_date", dec_Z (emd_second m));
   (bs "authority", auth_word (au_type (m_authority m)) ++ SP :: au_url (m_authority m));
   (bs "fetcher", fe_name (m_fetcher m) ++ SP :: fe_version (m_fetcher m));
   (bs "format", m_format m)].

Definition emd_headers (m : emd) : list header := emd_fixed_headers m ++ emd_context m.

Definition emd_git_object (m : emd) : bytes :=
  from_headers (bs "raw_extrinsic_metadata") (emd_headers m) (Some (m_metadata m)).

(* the seven context validators *)
Definition tgt_is_core (t : ety) : bool := match t with ECore _ => true | _ => false end.
Definition tgt_in (t : ety) (l : list cty) : bool :=
  match t with ECore c => existsb (fun c' => match c, c' with
                                            | CSnp, CSnp | CRel, CRel | CRev, CRev | CDir, CDir | CCnt, CCnt => true
                                            | _, _ => false end) l
             | _ => false end.
Definition cty_is (a b : cty) : bool :=
  match a, b with CSnp, CSnp | CRel, CRel | CRev, CRev | CDir, CDir | CCnt, CCnt => true | _, _ => false end.
Definition starts_with (p l : bytes) : bool := match strip_prefix p l with Some _ => true | None => false end.

Definition check_origin (m : emd) : bool :=
  match m_origin m with
  | None => true
  | Some o => tgt_is_core (es_ty (m_target m)) && negb (starts_with (bs "swh:") o)
  end.
Definition check_visit (m : emd) : bool :=
  match m_visit m with
  | None => true
  | Some v => tgt_is_core (es_ty (m_target m)) && issome (m_origin m) && Z.ltb 0 v
  end.
Definition check_swhid_ctx (m : emd) (v : option cswhid) (targets : list cty) (want : cty) : bool :=
  match v with
  | None => true
  | Some s => tgt_in (es_ty (m_target m)) targets && cty_is (cs_ty s) want
  end.
Definition check_path (m : emd) : bool :=
  match m_path m with
  | None => true
  | Some _ => tgt_in (es_ty (m_target m)) [CDir; CCnt]
  end.

Definition emd_valid (m : emd) : bool :=
  check_origin m && check_visit m
  && check_swhid_ctx m (m_snapshot m) [CRel; CRev; CDir; CCnt] CSnp
  && check_swhid_ctx m (m_release m) [CRev; CDir; CCnt] CRel
  && check_swhid_ctx m (m_revision m) [CDir; CCnt] CRev
  && check_path m
  && check_swhid_ctx m (m_directory m) [CCnt] CDir.

Definition set_date (m : emd) (d : datetime) : emd :=
  {| m_target := m_target m; m_date := d; m_authority := m_authority m; m_fetcher := m_fetcher m;
     m_format := m_format m; m_metadata := m_metadata m; m_origin := m_origin m; m_visit := m_visit m;
     m_snapshot := m_snapshot m; m_release := m_release m; m_revision := m_revision m; m_path := m_path m;
     m_directory := m_directory m |}.

(* the constructor: converter (normalize_discovery_date), then validators *)
Definition mk_emd (m : emd) : result emd :=
  let m' := set_date m (normalize_date (m_date m)) in
  if emd_valid m' then Ok m' else Err ValueError.

(* What a caller can pass as discovery_date (a datetime.datetime instance):
   - [DAware d]      : utcoffset() gives an offset: the instant and the offset;
   - [DNaive w]      : tzinfo is None; w = the wall-clock fields as microseconds since 1970-01-01T00:00 (no zone);
   - [DOffsetless w] : tzinfo is set but its utcoffset() returns None for this date - naive by datetime's own
                       definition, although `tzinfo is None` is false.
   normalize_discovery_date rejects the last two with ValueError (since 106558f also the third). *)
Inductive date_input := DAware (d : datetime) | DNaive (wall_us : Z) | DOffsetless (wall_us : Z).

Definition mk_emd_in (m : emd) (d : date_input) : result emd :=
  match d with
  | DAware d => mk_emd (set_date m d)
  | DNaive _ | DOffsetless _ => Err ValueError
  end.

(* The constructor as it was before 106558f: only `tzinfo is None` was tested; for an offset-less tzinfo
   astimezone(utc) reads the wall-clock fields in the LOCAL zone of the process.  [local w] = the UTC offset
   (microseconds) the machine's zone gives to the wall-clock time w: an input the property must not have. *)
Definition mk_emd_in_old (local : Z -> Z) (m : emd) (d : date_input) : result emd :=
  match d with
  | DAware d => mk_emd (set_date m d)
  | DNaive _ => Err ValueError
  | DOffsetless w => mk_emd (set_date m {| dt_us := (w - local w)%Z; dt_off := local w |})
  end.

Definition mk_extid (e : extid) : result extid :=
  if extid_valid e then match extid_git_object e with Ok _ => Ok e | Err x => Err x end else Err ValueError.

Section WithHash.
  Variable H : bytes -> bytes.
  (* _compute_hash_from_attributes *)
  Definition emd_id (m : emd) : bytes := H (emd_git_object m).
  Definition extid_id (e : extid) : result bytes :=
    match extid_git_object e with Ok m => Ok (H m) | Err x => Err x end.
End WithHash.

(* ================= independent positional parsers ================= *)
Record extid_fields := {
  xf_type : bytes; xf_version : Z; xf_extid : bytes; xf_target : bytes;
  xf_payload_type : option bytes; xf_payload : option bytes }.

Definition parse_extid (l : bytes) : option extid_fields :=
  match parse_object l with
  | Some (ty, (k1, t) :: rest, None) =>
      if beqb ty (bs "extid") && beqb k1 (bs "extid_type") then
        let '(ver, rest1) :=
          match rest with
          | (k, v) :: r =>
              if beqb k (bs "extid_version")
              then (match parse_dec_Z v with Some 0%Z => None | o => o end, r)   (* a "0" version line is never written *)
              else (Some 0%Z, rest)
          | [] => (Some 0%Z, rest)
          end in
        match ver, rest1 with
        | Some z, (k2, x) :: (k3, tg) :: rest2 =>
            if beqb k2 (bs "extid") && beqb k3 (bs "target") then
              match rest2 with
              | [] => Some {| xf_type := t; xf_version := z; xf_extid := x; xf_target := tg;
                              xf_payload_type := None; xf_payload := None |}
              | [(k4, pt); (k5, p)] =>
                  if beqb k4 (bs "payload_type") && beqb k5 (bs "payload")
                  then Some {| xf_type := t; xf_version := z; xf_extid := x; xf_target := tg;
                               xf_payload_type := Some pt; xf_payload := Some p |}
                  else None
              | _ => None
              end
            else None
        | _, _ => None
        end
      else None
  | _ => None
  end.

Record emd_fields := {
  ef_target : bytes; ef_second : Z; ef_auth_type : auth_type; ef_auth_url : bytes;
  ef_fetcher_name : bytes; ef_fetcher_version : bytes; ef_format : bytes;
  ef_context : list header; ef_metadata : bytes }.

Definition parse_emd (l : bytes) : option emd_fields :=
  match parse_object l with
  | Some (ty, (k1, t) :: (k2, d) :: (k3, a) :: (k4, f) :: (k5, fm) :: ctx, Some md) =>
      if beqb ty (bs "raw_extrinsic_metadata")
         && beqb k1 (bs "target") && beqb k2 (bs "discovery_date") && beqb k3 (bs "authority")
         && beqb k4 (bs "fetcher") && beqb k5 (bs "format")
         && subseqb (map fst ctx) EMD_CONTEXT_KEYS
      then
        match parse_dec_Z d, cut SP a, cut_last SP f with
        | Some sec, (aw, Some url), Some (name, version) =>
            match auth_of_word aw with
            | Some at_ => Some {| ef_target := t; ef_second := sec; ef_auth_type := at_; ef_auth_url := url;
                                  ef_fetcher_name := name; ef_fetcher_version := version; ef_format := fm;
                                  ef_context := ctx; ef_metadata := md |}
            | None => None
            end
        | _, _, _ => None
        end
      else None
  | _ => None
  end.

(* ---------- executable examples (checked by the kernel) ---------- *)


