(* Model of swh/model/cli.py: identify, identify_object, swhid_of_file,
   swhid_of_dir, model_of_dir, swhid_of_origin, swhid_of_git_repo.
   Definitions only, all executable.

   The command is modelled as a finite decision table.  A configuration fixes
   the kind of the single OBJECT argument and every option the property
   quantifies over (11*5*2*2*2*3*2 = 2640 configurations).  What the operating
   system, urllib and dulwich answer for an argument of a given kind is
   tabulated ([is_dash], [isfile], [isdir], [islink], [has_scheme], [lstat],
   [stat], [is_git_repo]); [identify_gen] transcribes the control flow of the
   code over these tables.  The identifiers themselves are not computed here:
   an outcome names WHICH object the library is asked to identify ([obj]),
   whether the exclusion patterns were handed to the directory walker, whether
   the name is shown and whether one line per node is printed.

   [spec] is written from the property statement and the command's help and
   messages, without looking at the control flow. *)
From Coq Require Import List Bool Arith.
Import ListNotations.

(* ------------------------------------------------------------------ *)
(* Configurations                                                      *)

Inductive argkind :=
| AFile        (* a regular file *)
| ADir         (* a directory that is not a git repository *)
| ALinkFile    (* a symbolic link to a regular file *)
| ALinkDir     (* a symbolic link to a directory *)
| AStdin       (* the argument "-" *)
| AUrl         (* a string with a URL scheme that is not an existing path *)
| AGitRepo     (* a directory that dulwich opens as a git repository *)
| AMissing     (* not "-", not an existing path, and urlparse finds no scheme ("", ":", "no/such/path", "-x") *)
| ABadUrl      (* not an existing path, and urlparse itself raises ValueError ("https://[::1/x", "//[", NFKC netloc) *)
| ABadRefsRepo (* a directory that dulwich opens as a git repository but whose references it cannot read
                  (an empty packed-refs file makes it raise StopIteration; garbage in it, another error) *)
| ARefusedUrl. (* has a scheme, not an existing path, but model.Origin(url) raises ValueError (>= 2048 bytes, not UTF-8) *)

Inductive otype := TAuto | TContent | TDirectory | TOrigin | TSnapshot.   (* click.Choice of --type *)

Inductive verify :=
| VNone        (* no --verify *)
| VMatch       (* --verify <the SWHID of the object the configuration designates, see [designated]> *)
| VNonMatch.   (* --verify <a valid core SWHID different from every identifier of the fixture> *)

Record cfg := mkCfg {
  arg   : argkind;
  ty    : otype;
  deref : bool;     (* --dereference (default) / --no-dereference *)
  fname : bool;     (* --filename (default) / --no-filename *)
  recur : bool;     (* --recursive *)
  ver   : verify;
  excl  : bool      (* at least one --exclude PATTERN *)
}.

(* ------------------------------------------------------------------ *)
(* Outcomes                                                            *)

Inductive obj :=
| OPathContent       (* the regular file at the path, as a content *)
| OLinkText          (* the content made of the link's target path (the link itself) *)
| OTargetFile        (* the regular file the link points to, as a content *)
| OEmptyContent      (* the empty content (Content.from_file on something that is neither a file nor a link) *)
| OStdin             (* the bytes read from standard input, as a content *)
| ODirAtPath         (* the directory at the path *)
| ODirAtLinkTarget   (* the directory the link points to *)
| OOrigin            (* the origin whose URL is the argument string *)
| OSnapshot          (* the snapshot of the git repository at the path *)
| ONothing           (* nothing: the argument designates no object (kinds AMissing, ABadUrl) *)
| ORefusedOrigin     (* an origin whose URL the library refuses: no identifier exists (kind ARefusedUrl) *)
| OUnreadableSnapshot. (* the snapshot of a repository whose references cannot be read: none (kind ABadRefsRepo) *)

Inductive crash := CrTypeError | CrNotADirectory | CrFileNotFound | CrNotGitRepository | CrValueError
                 | CrStopIteration.
(* CrValueError: ValueError or a subclass of it (UnicodeEncodeError for a URL that is not valid UTF-8) *)

Inductive outcome :=
| Print (o : obj) (excluded shown listing : bool)
    (* exit 0; the SWHID the library computes for [o] ([excluded]: with the
       exclusion patterns applied to the walk), followed by the argument as
       given when [shown]; when [listing], one such line per distinct node of
       the directory instead *)
| Usage              (* click usage error, exit code 2 *)
| Exit0              (* "SWHID match", exit code 0 *)
| Exit1              (* "SWHID mismatch", exit code 1 *)
| Silent             (* OLD code only: nothing printed, exit code 0 *)
| Crash (c : crash). (* unhandled exception *)

(* ------------------------------------------------------------------ *)
(* What the environment answers, per argument kind                     *)

Definition is_dash (k : argkind) : bool := match k with AStdin => true | _ => false end.
(* os.path.isfile / isdir follow symbolic links *)
Definition isfile (k : argkind) : bool := match k with AFile | ALinkFile => true | _ => false end.
Definition isdir (k : argkind) : bool :=
  match k with ADir | ALinkDir | AGitRepo | ABadRefsRepo => true | _ => false end.
Definition islink (k : argkind) : bool := match k with ALinkFile | ALinkDir => true | _ => false end.
(* urlparse(obj).scheme is non-empty *)
Definition has_scheme (k : argkind) : bool := match k with AUrl | ARefusedUrl => true | _ => false end.
(* model.Origin(url=obj) raises ValueError (check_url: too long, or not encodable as UTF-8) *)
Definition origin_refused (k : argkind) : bool := match k with ARefusedUrl => true | _ => false end.
(* urlparse(obj) raises ValueError (malformed authority) *)
Definition urlparse_raises (k : argkind) : bool := match k with ABadUrl => true | _ => false end.
(* dulwich.repo.Repo(path) succeeds *)
Definition is_git_repo (k : argkind) : bool := match k with AGitRepo | ABadRefsRepo => true | _ => false end.
(* repo.refs.as_dict() / get_symrefs() raise *)
Definition refs_unreadable (k : argkind) : bool := match k with ABadRefsRepo => true | _ => false end.

Inductive pathref := PArg | PReal.      (* the argument as given / os.path.realpath of it *)
Inductive ptag := PBytes | PStr.        (* Python type of the [path] variable *)
Inductive fskind := FReg | FLnk | FDir | FMissing.

(* os.lstat(path) *)
Definition lstat (k : argkind) (p : pathref) : fskind :=
  match k, p with
  | AFile, _ => FReg
  | ADir, _ | AGitRepo, _ | ABadRefsRepo, _ => FDir
  | ALinkFile, PArg => FLnk
  | ALinkFile, PReal => FReg
  | ALinkDir, PArg => FLnk
  | ALinkDir, PReal => FDir
  | AStdin, _ | AUrl, _ | AMissing, _ | ABadUrl, _ | ARefusedUrl, _ => FMissing
  end.

(* os.stat(path) / os.scandir(path): links are followed *)
Definition stat (k : argkind) : fskind :=
  match k with
  | AFile | ALinkFile => FReg
  | ADir | ALinkDir | AGitRepo | ABadRefsRepo => FDir
  | AStdin | AUrl | AMissing | ABadUrl | ARefusedUrl => FMissing
  end.

(* ------------------------------------------------------------------ *)
(* The library entry points the command calls                          *)

(* swhid_of_file = Content.from_file(path).swhid(): lstat, then link text /
   empty content for a non-regular file / the file's data *)
Definition swhid_of_file (k : argkind) (p : pathref) : obj + crash :=
  match lstat k p with
  | FLnk => inl OLinkText
  | FReg => inl (if islink k then OTargetFile else OPathContent)
  | FDir => inl OEmptyContent
  | FMissing => inr CrFileNotFound
  end.

(* swhid_of_dir / model_of_dir = Directory.from_disk(path, filter): os.scandir
   follows a link given as top path; the walker works on bytes paths only (a
   str path fails when the exclusion filter joins it with the bytes patterns,
   else when the first entry is stored under a str name) *)
Definition swhid_of_dir (k : argkind) (t : ptag) (excluding : bool) : obj + crash :=
  match t, excluding with
  | PStr, true => inr CrTypeError
  | _, _ =>
      match stat k with
      | FDir => match t with
                | PStr => inr CrTypeError
                | PBytes => inl (if islink k then ODirAtLinkTarget else ODirAtPath)
                end
      | FReg => inr CrNotADirectory
      | _ => inr CrFileNotFound
      end
  end.

Definition swhid_of_git_repo (k : argkind) : obj + crash :=
  if is_git_repo k then inl OSnapshot else inr CrNotGitRepository.

(* ------------------------------------------------------------------ *)
(* The object a configuration designates (specification level)          *)

(* what the argument denotes, following or not following the link as requested *)
Definition fs_object (c : cfg) : obj :=
  match arg c with
  | AFile => OPathContent
  | ADir | AGitRepo | ABadRefsRepo => ODirAtPath
  | ALinkFile => if deref c then OTargetFile else OLinkText
  | ALinkDir => if deref c then ODirAtLinkTarget else OLinkText
  | AStdin => OStdin
  | AUrl => OOrigin
  | AMissing | ABadUrl => ONothing
  | ARefusedUrl => ORefusedOrigin
  end.

Definition otype_eqb (a b : otype) : bool :=
  match a, b with
  | TAuto, TAuto | TContent, TContent | TDirectory, TDirectory | TOrigin, TOrigin | TSnapshot, TSnapshot => true
  | _, _ => false
  end.

(* a git repository is a directory; asked for as a snapshot it designates its snapshot *)
Definition designated_obj (c : cfg) : obj :=
  match arg c, ty c with
  | AGitRepo, TSnapshot => OSnapshot
  | ABadRefsRepo, TSnapshot => OUnreadableSnapshot
  | _, _ => fs_object c
  end.

Definition is_dir_obj (o : obj) : bool := match o with ODirAtPath | ODirAtLinkTarget => true | _ => false end.
Definition is_origin_obj (o : obj) : bool := match o with OOrigin => true | _ => false end.

(* exclusion patterns concern directories only *)
Definition designated (c : cfg) : obj * bool :=
  (designated_obj c, excl c && is_dir_obj (designated_obj c)).

Definition natural_type (o : obj) : otype :=
  match o with
  | OPathContent | OLinkText | OTargetFile | OEmptyContent | OStdin => TContent
  | ODirAtPath | ODirAtLinkTarget => TDirectory
  | OOrigin => TOrigin
  | OSnapshot => TSnapshot
  | ONothing => TAuto          (* no explicit type suits an argument that designates nothing *)
  | ORefusedOrigin => TOrigin
  | OUnreadableSnapshot => TSnapshot
  end.

(* In scope: --type auto, or the type of the designated object.  Hence
   content for file, link->file, stdin and for ANY link with --no-dereference
   (the link itself is a content); directory for dir, link->dir with
   --dereference, git repository; origin for url; snapshot for git repository.
   An explicit --type on "-" other than content, "-t directory
   --no-dereference <link>" (the link itself is not a directory) and any
   explicit type on an argument that designates nothing are out of scope. *)
Definition in_scope (c : cfg) : bool :=
  otype_eqb (ty c) TAuto || otype_eqb (ty c) (natural_type (designated_obj c)).

(* the literal table of the property's quantifier: a type "matching the
   argument" by argument kind alone *)
Definition in_scope_literal (c : cfg) : bool :=
  match ty c, arg c with
  | TAuto, _ => true
  | TContent, (AFile | ALinkFile | AStdin) => true
  | TDirectory, (ADir | ALinkDir) => true
  | TOrigin, (AUrl | ARefusedUrl) => true
  | TSnapshot, (AGitRepo | ABadRefsRepo) => true
  | _, _ => false
  end.

(* ------------------------------------------------------------------ *)
(* The code                                                            *)

(* Six behaviours of the code that were repaired in /repo; each is kept as a
   switch so that the old code is available as a mutant of the model: *)
Record variant := mkVariant {
  v_realpath_str : bool;   (* OLD: path = os.path.realpath(obj)  - a str, not the encoded path *)
  v_rectype_bug  : bool;   (* OLD: if not obj_type == ("auto" or "directory")  - i.e. obj_type != "auto" *)
  v_auto_follows : bool;   (* OLD: auto-detection by isfile/isdir only, which follow links *)
  v_stop_swallowed : bool; (* OLD: results = zip(objects, map(identify_object, objects)) and the references read outside
                              any try: dulwich's StopIteration is taken by zip/map for the end of the results *)
  v_origin_uncaught : bool;(* OLD: swhid_of_origin(obj) outside any try: the library's ValueError for a refused URL escapes *)
  v_rec_follows  : bool    (* OLD: `if recursive and not os.path.isdir(objects[0])` - follows links whatever --no-dereference says *)
}.

Definition current : variant := mkVariant false false false false false false.
Definition old_realpath : variant := mkVariant true false false false false false.
Definition old_rectype : variant := mkVariant false true false false false false.
Definition old_autolink : variant := mkVariant false false true false false false.
Definition old_stopswallowed : variant := mkVariant false false false true false false.
Definition old_originuncaught : variant := mkVariant false false false false true false.
Definition old_recfollows : variant := mkVariant false false false false false true.

Inductive res := ROk (o : obj) (excluded : bool) | RUsage | RCrash (c : crash)
               | RStop.   (* OLD code only: StopIteration raised inside map(...) *)

Definition lift (r : obj + crash) (excluded : bool) : res :=
  match r with inl o => ROk o excluded | inr c => RCrash c end.

(* identify_object, first part: `if obj_type == "auto": ...`;
   None = click.BadParameter("cannot detect object type") *)
Definition detect (v : variant) (c : cfg) : option otype :=
  let k := arg c in
  match ty c with
  | TAuto =>
      if is_dash k || isfile k || (negb (v_auto_follows v) && negb (deref c) && islink k)
      then Some TContent
      else if isdir k then Some TDirectory
      else
        (* try: if urlparse(obj).scheme: origin else: raise ValueError
           except ValueError: raise click.BadParameter  - the except clause also
           catches the ValueError that urlparse itself raises *)
        if urlparse_raises k then None
        else if has_scheme k then Some TOrigin
        else None
  | t => Some t
  end.

(* identify_object, second part: the dispatch *)
Definition identify_object (v : variant) (c : cfg) : res :=
  let k := arg c in
  match detect v c with
  | None => RUsage
  | Some t =>
      if is_dash k then ROk OStdin false                   (* sys.stdin.buffer.read() *)
      else
        match t with
        | TContent | TDirectory =>
            (* path = os.fsencode(obj); content: if follow_symlinks and islink(obj): path = realpath(path);
               directory: the path is walked as given (os.scandir follows a link given as top; exclusion
               patterns stay rooted at the argument) - the older code resolved it for both, see v_realpath_str *)
            let follow := deref c && islink k in
            let p := if follow then PReal else PArg in
            let tag := if follow && v_realpath_str v then PStr else PBytes in
            match t with
            | TContent => lift (swhid_of_file k p) false
            | _ => lift (swhid_of_dir k tag (excl c)) (excl c)      (* exclude_patterns: empty tuple or non-empty set *)
            end
        | TOrigin =>
            (* try: swhid_of_origin(obj) except ValueError: raise click.BadParameter("invalid origin URL") *)
            if origin_refused k then (if v_origin_uncaught v then RCrash CrValueError else RUsage)
            else ROk OOrigin false
        | TSnapshot =>
            (* swhid_of_git_repo: try: refs = repo.refs.as_dict(); symrefs = repo.refs.get_symrefs()
               except Exception: raise click.BadParameter("cannot read the references ...") *)
            if is_git_repo k && refs_unreadable k then (if v_stop_swallowed v then RStop else RUsage)
            else lift (swhid_of_git_repo k) false
        | TAuto => RUsage                                   (* "invalid object type"; unreachable *)
        end
  end.

Definition obj_eqb (a b : obj) : bool :=
  match a, b with
  | OPathContent, OPathContent | OLinkText, OLinkText | OTargetFile, OTargetFile
  | OEmptyContent, OEmptyContent | OStdin, OStdin | ODirAtPath, ODirAtPath
  | ODirAtLinkTarget, ODirAtLinkTarget | OOrigin, OOrigin | OSnapshot, OSnapshot | ONothing, ONothing
  | ORefusedOrigin, ORefusedOrigin | OUnreadableSnapshot, OUnreadableSnapshot => true
  | _, _ => false
  end.

Definition has_verify (c : cfg) : bool := match ver c with VNone => false | _ => true end.

(* click converts --verify with CoreSWHIDParamType before the body runs: a
   swh:1:ori:... identifier is not a core SWHID *)
Definition verify_param_ok (c : cfg) : bool :=
  match ver c with
  | VMatch => negb (is_origin_obj (fst (designated c)))
  | _ => true
  end.

(* `str(verify) == swhid` *)
Definition given_equals (c : cfg) (o : obj) (excluded : bool) : bool :=
  match ver c with
  | VMatch => obj_eqb o (fst (designated c)) && Bool.eqb excluded (snd (designated c))
  | _ => false
  end.

(* `if not obj_type == ("auto" or "directory")`  /  `if obj_type not in ("auto", "directory")` *)
Definition rectype_rejects (v : variant) (t : otype) : bool :=
  if v_rectype_bug v then negb (otype_eqb t TAuto)
  else negb (otype_eqb t TAuto || otype_eqb t TDirectory).

(* `os.path.isdir(objects[0]) and (follow_symlinks or not os.path.islink(objects[0]))`
   in the test that disables --recursive *)
Definition rec_isdir (v : variant) (c : cfg) : bool :=
  if v_rec_follows v then isdir (arg c)
  else isdir (arg c) && (deref c || negb (islink (arg c))).

Definition identify_gen (v : variant) (c : cfg) : outcome :=
  if negb (verify_param_ok c) then Usage
  else
    (* `if verify and len(objects) != 1`: exactly one object here *)
    (* `if recursive and not os.path.isdir(objects[0]): recursive = False` (+ a warning) *)
    let recursive := recur c && rec_isdir v c in
    if recursive then
      if has_verify c then Usage
      else if rectype_rejects v (ty c) then Usage
      else
        (* path = os.fsencode(objects[0]); model_of_dir(path, exclude_patterns).iter_tree() *)
        match swhid_of_dir (arg c) PBytes (excl c) with
        | inl o => Print o (excl c) (fname c) true
        | inr cr => Crash cr
        end
    else
      match identify_object v c with
      | RUsage => Usage
      | RCrash cr => Crash cr
      | RStop =>
          (* OLD: `for obj, swhid in results` simply ends; `next(results)` under --verify raises StopIteration *)
          if has_verify c then Crash CrStopIteration else Silent
      | ROk o ex =>
          match ver c with
          | VNone => Print o ex (fname c) false
          | _ => if given_equals c o ex then Exit0 else Exit1
          end
      end.

Definition identify_model : cfg -> outcome := identify_gen current.
Definition identify_old_realpath : cfg -> outcome := identify_gen old_realpath.
Definition identify_old_rectype : cfg -> outcome := identify_gen old_rectype.
Definition identify_old_autolink : cfg -> outcome := identify_gen old_autolink.
Definition identify_old_recfollows : cfg -> outcome := identify_gen old_recfollows.
Definition identify_old_originuncaught : cfg -> outcome := identify_gen old_originuncaught.
Definition identify_old_stopswallowed : cfg -> outcome := identify_gen old_stopswallowed.

(* ------------------------------------------------------------------ *)
(* The specification                                                   *)

(* --recursive is documented ("recursive option disabled, input is not a
   directory object") as without effect unless the argument - read following
   or not following the link as requested - is a directory *)
Definition rec_effective (c : cfg) : bool := recur c && is_dir_obj (fs_object c).

Definition type_is_auto_or_directory (t : otype) : bool :=
  match t with TAuto | TDirectory => true | _ => false end.

Definition is_nothing_obj (o : obj) : bool :=
  match o with ONothing | ORefusedOrigin | OUnreadableSnapshot => true | _ => false end.

Definition spec (c : cfg) : outcome :=
  let (o, ex) := designated c in
  (* what cannot be identified is a usage error ("cannot detect object type", "invalid origin URL", "cannot
     read the references of git repository") *)
  if is_nothing_obj o then Usage
  (* only core SWHIDs can be given to --verify; an origin has none *)
  else if match ver c with VMatch => is_origin_obj o | _ => false end then Usage
  else if rec_effective c then
    if has_verify c then Usage                                    (* "verification of recursive object identification is not supported" *)
    else if negb (type_is_auto_or_directory (ty c)) then Usage    (* "recursive identification is supported only for directories" *)
    else Print o ex (fname c) true
  else
    match ver c with
    | VNone => Print o ex (fname c) false
    | VMatch => Exit0
    | VNonMatch => Exit1
    end.

(* The stricter reading: --recursive together with --verify or with an
   explicit non-directory type is refused whatever the argument is, and the
   identifier of an origin can be verified. *)
Definition spec_strict (c : cfg) : outcome :=
  let (o, ex) := designated c in
  if is_nothing_obj o then Usage
  else if recur c && has_verify c then Usage
  else if recur c && negb (type_is_auto_or_directory (ty c)) then Usage
  else if recur c && is_dir_obj o then Print o ex (fname c) true
  else
    match ver c with
    | VNone => Print o ex (fname c) false
    | VMatch => Exit0
    | VNonMatch => Exit1
    end.

(* classes of in-scope configurations broken by each of the four old behaviours *)
Definition old_realpath_class (c : cfg) : bool :=      (* swh identify [-t directory] <link->dir> *)
  match arg c with
  | ALinkDir => deref c && negb (recur c)
  | _ => false
  end.
Definition old_rectype_class (c : cfg) : bool :=       (* swh identify -r -t directory <dir> *)
  recur c && otype_eqb (ty c) TDirectory && negb (has_verify c).
Definition old_autolink_class (c : cfg) : bool :=      (* swh identify --no-dereference <link->dir> *)
  match arg c with
  | ALinkDir => negb (deref c) && otype_eqb (ty c) TAuto
                && match ver c with VNonMatch => false | _ => true end   (* a wrong id is refused either way *)
  | _ => false
  end.
(* swh identify -r --no-dereference <link->dir> (type auto or content): the
   link must not be followed, so the designated object is the link itself (a
   content, one node); the old code listed the directory behind the link (or
   refused --verify / -t content) *)
Definition old_recfollows_class (c : cfg) : bool :=
  match arg c with
  | ALinkDir => negb (deref c) && recur c
  | _ => false
  end.

(* swh identify [-t origin] <URL of 2048 bytes or more / not valid UTF-8>: the
   library's ValueError was not caught *)
Definition old_originuncaught_class (c : cfg) : bool :=
  match arg c with ARefusedUrl => true | _ => false end.
(* swh identify -t snapshot <repository with an empty packed-refs file>: nothing printed, exit 0 *)
Definition old_stopswallowed_class (c : cfg) : bool :=
  match arg c, ty c with ABadRefsRepo, TSnapshot => negb (recur c) | _, _ => false end.

(* ------------------------------------------------------------------ *)
(* Several OBJECTS in one invocation                                   *)

(* The options of [c] (its [arg] is ignored) applied to a list of arguments.
   What one invocation prints is a sequence of lines followed by the way it
   ends; an error raised while the i-th argument is identified comes after the
   lines of the arguments before it (the results are produced lazily). *)
Definition with_arg (c : cfg) (k : argkind) : cfg :=
  mkCfg k (ty c) (deref c) (fname c) (recur c) (ver c) (excl c).

Definition line := (obj * bool * bool * bool)%type.     (* object, excluded, shown, listing *)
Inductive mend := MDone | MUsageEnd | MExit0 | MExit1 | MCrashEnd (cr : crash).
Inductive mout := MOut (printed : list line) (e : mend).

(* `for obj, swhid in zip(objects, map(partial(identify_object, ...), objects)): click.echo(...)`:
   every argument gets the SAME obj_type, follow_symlinks and exclude_patterns *)
Fixpoint run_objects (v : variant) (c : cfg) (ks : list argkind) : list line * mend :=
  match ks with
  | [] => ([], MDone)
  | k :: ks' =>
      match identify_object v (with_arg c k) with
      | ROk o ex => let (ls, e) := run_objects v c ks' in ((o, ex, fname c, false) :: ls, e)
      | RUsage => ([], MUsageEnd)
      | RCrash cr => ([], MCrashEnd cr)
      | RStop => ([], MDone)        (* OLD: the run stops WITHOUT an error; the following arguments are dropped *)
      end
  end.

Definition identify_many_gen (v : variant) (c : cfg) (ks : list argkind) : mout :=
  match ks with
  | [] => MOut [] MUsageEnd                                 (* click: missing argument OBJECTS *)
  | k0 :: _ =>
      let c0 := with_arg c k0 in
      (* `if verify and len(objects) != 1` (or click refusing the --verify value before) *)
      if has_verify c && negb (Nat.eqb (length ks) 1) then MOut [] MUsageEnd
      else if negb (verify_param_ok c0) then MOut [] MUsageEnd
      else
        (* the test that disables --recursive looks at objects[0] only *)
        let recursive := recur c && rec_isdir v c0 in
        if recursive then
          if has_verify c then MOut [] MUsageEnd
          else if rectype_rejects v (ty c) then MOut [] MUsageEnd
          else
            (* model_of_dir(os.fsencode(objects[0]), ...): the other arguments are not looked at *)
            match swhid_of_dir k0 PBytes (excl c) with
            | inl o => MOut [(o, excl c, fname c, true)] MDone
            | inr cr => MOut [] (MCrashEnd cr)
            end
        else if has_verify c then                           (* exactly one object: swhid = next(results)[1] *)
          match identify_object v c0 with
          | ROk o ex => MOut [] (if given_equals c0 o ex then MExit0 else MExit1)
          | RUsage => MOut [] MUsageEnd
          | RCrash cr => MOut [] (MCrashEnd cr)
          | RStop => MOut [] (MCrashEnd CrStopIteration)
          end
        else let (ls, e) := run_objects v c ks in MOut ls e
  end.

Definition identify_many : cfg -> list argkind -> mout := identify_many_gen current.

(* one argument: the outcome of the one-argument table, as a run *)
Definition embed (o : outcome) : mout :=
  match o with
  | Print ob ex sh ls => MOut [(ob, ex, sh, ls)] MDone
  | Usage => MOut [] MUsageEnd
  | Exit0 => MOut [] MExit0
  | Exit1 => MOut [] MExit1
  | Silent => MOut [] MDone
  | Crash cr => MOut [] (MCrashEnd cr)
  end.

(* the arguments in order, each as if it were given alone; the first one that
   does not print ends the run the way it would end alone *)
Fixpoint spec_run (c : cfg) (ks : list argkind) : list line * mend :=
  match ks with
  | [] => ([], MDone)
  | k :: ks' =>
      match spec (with_arg c k) with
      | Print ob ex sh ls => let (l, e) := spec_run c ks' in ((ob, ex, sh, ls) :: l, e)
      | Usage => ([], MUsageEnd)
      | Exit0 => ([], MExit0)
      | Exit1 => ([], MExit1)
      | Silent => ([], MDone)
      | Crash cr => ([], MCrashEnd cr)
      end
  end.

(* Specification: one argument - the one-argument specification; several -
   --verify is refused ("verification requires a single object"), otherwise
   the lines that each argument would get if it were given alone, in the order
   of the arguments, up to the first argument that cannot be identified (a
   usage error, after the lines of the arguments before it). *)
Definition spec_many (c : cfg) (ks : list argkind) : mout :=
  match ks with
  | [] => MOut [] MUsageEnd
  | [k] => embed (spec (with_arg c k))
  | _ => if has_verify c then MOut [] MUsageEnd
         else let (l, e) := spec_run c ks in MOut l e
  end.

(* In scope: at least one argument, every argument in scope under the shared
   options, and - with several arguments - no --recursive (the code applies -r
   to the first argument only and says so nowhere; see
   [many_recursive_first_only] in the proofs: kept outside the scope rather
   than counted as a violation, the property's quantifier has one argument) *)
Definition in_scope_many (c : cfg) (ks : list argkind) : bool :=
  match ks with
  | [] => false
  | [k] => in_scope (with_arg c k)
  | _ => forallb (fun k => in_scope (with_arg c k)) ks && negb (recur c)
  end.

(* ------------------------------------------------------------------ *)
(* Enumeration                                                         *)

Definition all_kinds : list argkind :=
  [AFile; ADir; ALinkFile; ALinkDir; AStdin; AUrl; AGitRepo; AMissing; ABadUrl; ARefusedUrl; ABadRefsRepo].
Definition all_types : list otype := [TAuto; TContent; TDirectory; TOrigin; TSnapshot].
Definition all_bools : list bool := [true; false].
Definition all_verifies : list verify := [VNone; VMatch; VNonMatch].

Definition all_cfgs : list cfg :=
  flat_map (fun k =>
  flat_map (fun t =>
  flat_map (fun d =>
  flat_map (fun f =>
  flat_map (fun r =>
  flat_map (fun v =>
  map (fun x => mkCfg k t d f r v x) all_bools)
  all_verifies) all_bools) all_bools) all_bools) all_types) all_kinds.

(* ------------------------------------------------------------------ *)
(* Decidable equality of outcomes (used by the finite sweeps)           *)

Definition crash_eqb (a b : crash) : bool :=
  match a, b with
  | CrTypeError, CrTypeError | CrNotADirectory, CrNotADirectory
  | CrFileNotFound, CrFileNotFound | CrNotGitRepository, CrNotGitRepository | CrValueError, CrValueError
  | CrStopIteration, CrStopIteration => true
  | _, _ => false
  end.

Definition outcome_eqb (a b : outcome) : bool :=
  match a, b with
  | Print o e s l, Print o' e' s' l' => obj_eqb o o' && Bool.eqb e e' && Bool.eqb s s' && Bool.eqb l l'
  | Usage, Usage | Exit0, Exit0 | Exit1, Exit1 | Silent, Silent => true
  | Crash c, Crash c' => crash_eqb c c'
  | _, _ => false
  end.

Definition is_crash (o : outcome) : bool := match o with Crash _ => true | _ => false end.

(* number of options away from their default *)
Definition nondefault (c : cfg) : nat :=
  (if otype_eqb (ty c) TAuto then 0 else 1) + (if deref c then 0 else 1) + (if fname c then 0 else 1)
  + (if recur c then 1 else 0) + (if has_verify c then 1 else 0) + (if excl c then 1 else 0).

(* ------------------------------------------------------------------ *)
(* Examples (the repaired behaviours)                                   *)

(* swh identify <link->dir> *)
Example ex_linkdir_now : identify_model (mkCfg ALinkDir TAuto true true false VNone false)
                         = Print ODirAtLinkTarget false true false.
Proof. vm_compute. reflexivity. Qed.
Example ex_linkdir_old : identify_old_realpath (mkCfg ALinkDir TAuto true true false VNone false)
                         = Crash CrTypeError.
Proof. vm_compute. reflexivity. Qed.
(* swh identify -r -t directory <dir> *)
Example ex_rectype_now : identify_model (mkCfg ADir TDirectory true true true VNone false)
                         = Print ODirAtPath false true true.
Proof. vm_compute. reflexivity. Qed.
Example ex_rectype_old : identify_old_rectype (mkCfg ADir TDirectory true true true VNone false) = Usage.
Proof. vm_compute. reflexivity. Qed.
(* swh identify --no-dereference <link->dir> *)
Example ex_autolink_now : identify_model (mkCfg ALinkDir TAuto false true false VNone false)
                          = Print OLinkText false true false.
Proof. vm_compute. reflexivity. Qed.
Example ex_autolink_old : identify_old_autolink (mkCfg ALinkDir TAuto false true false VNone false)
                          = Print ODirAtLinkTarget false true false.
Proof. vm_compute. reflexivity. Qed.
(* swh identify -r --no-dereference <link->dir> *)
Example ex_rec_noderef_now : identify_model (mkCfg ALinkDir TAuto false true true VNone false)
                             = Print OLinkText false true false.
Proof. vm_compute. reflexivity. Qed.
Example ex_rec_noderef_old : identify_old_recfollows (mkCfg ALinkDir TAuto false true true VNone false)
                             = Print ODirAtLinkTarget false true true.
Proof. vm_compute. reflexivity. Qed.
(* swh identify 'https://[2001:db8::1/repo.git'  /  swh identify no/such/path: usage error *)
Example ex_badurl : identify_model (mkCfg ABadUrl TAuto true true false VNone false) = Usage.
Proof. vm_compute. reflexivity. Qed.
Example ex_missing : identify_model (mkCfg AMissing TAuto true true true VNonMatch true) = Usage.
Proof. vm_compute. reflexivity. Qed.
(* swh identify https://example.org/<2100 characters> *)
Example ex_refused_now : identify_model (mkCfg ARefusedUrl TAuto true true false VNone false) = Usage.
Proof. vm_compute. reflexivity. Qed.
Example ex_refused_old : identify_old_originuncaught (mkCfg ARefusedUrl TOrigin true true false VNone false) = Crash CrValueError.
Proof. vm_compute. reflexivity. Qed.
(* swh identify -t snapshot <repository whose packed-refs file is empty> *)
Example ex_badrefs_now : identify_model (mkCfg ABadRefsRepo TSnapshot true true false VNone false) = Usage.
Proof. vm_compute. reflexivity. Qed.
Example ex_badrefs_old : identify_old_stopswallowed (mkCfg ABadRefsRepo TSnapshot true true false VNone false) = Silent.
Proof. vm_compute. reflexivity. Qed.
Example ex_badrefs_auto : identify_model (mkCfg ABadRefsRepo TAuto true true false VNone false) = Print ODirAtPath false true false.
Proof. vm_compute. reflexivity. Qed.
Example ex_count : length all_cfgs = 2640.
Proof. vm_compute. reflexivity. Qed.
