(* Model of swh/model/swhids.py: CoreSWHID / ExtendedSWHID / QualifiedSWHID,
   their constructors (attrs converters + validators), __str__ and
   from_string, over the stdlib pieces of lib/Utf8.v and lib/Percent.v.
   Definitions only (+ Examples by vm_compute).  All executable.

   Text (Python str) is `list N` of code points; surrogates are legal
   elements.  The tables SWHID_NAMESPACE, SWHID_VERSION, SWHID_TYPES,
   EXTENDED_SWHID_TYPES, SWHID_QUALIFIERS, QUALIFIER_PRINT_ORDER, OBJECT_TYPES,
   EXTENDED_OBJECT_TYPES come from Generated.v (re-read from /repo on every
   run); the separators ':' ';' '=' '-' are literal here and
   proofs/SwhidTables.v checks SWHID_SEP = ":" and SWHID_CTXT_SEP = ";".

   CPython's int<->str digit limit (sys.get_int_max_str_digits(), 4300 by
   default, 0 = no limit) is the parameter [lim] of every function that
   converts a number. *)
From Coq Require Import List NArith ZArith Bool.
From SWH.lib Require Import Bytes Dec Hex Utf8 Percent.
From SWH Require Import Generated.
Import ListNotations.
Open Scope N_scope.

(* ---------------------------------------------------------------- errors *)
Inductive err :=
| EValidation     (* swh.model.exceptions.ValidationError *)
| EValue          (* ValueError and subclasses (UnicodeEncodeError, attrs-strict errors) *)
| EType           (* TypeError (unexpected keyword argument) *)
| EAssertion.     (* AssertionError *)

Inductive result (A : Type) :=
| Ok (a : A)
| Err (e : err).
Arguments Ok {A} a.
Arguments Err {A} e.

Definition bind {A B} (r : result A) (f : A -> result B) : result B :=
  match r with Ok a => f a | Err e => Err e end.

(* `try: ... except ValueError as e: raise ValidationError(...)` *)
Definition value_error_to_validation {A} (r : result A) : result A :=
  match r with
  | Err EValue => Err EValidation
  | _ => r
  end.

Definition is_nil {A} (l : list A) : bool := match l with [] => true | _ => false end.

(* string constants, normalised to code-point lists so that the extracted
   program does not mention Coq's string type *)
Definition S_SNAPSHOT : text := Eval vm_compute in bs "SNAPSHOT".
Definition S_DIRECTORY : text := Eval vm_compute in bs "DIRECTORY".
Definition S_REVISION : text := Eval vm_compute in bs "REVISION".
Definition S_RELEASE : text := Eval vm_compute in bs "RELEASE".
Definition S_pct3B : text := Eval vm_compute in bs "%3B".
Definition S_pct25 : text := Eval vm_compute in bs "%25".
Definition S_swh1 : text := Eval vm_compute in bs "swh:1:".
Definition S_colon : text := Eval vm_compute in bs ":".
Definition S_visit : text := Eval vm_compute in bs "visit".
Definition S_anchor : text := Eval vm_compute in bs "anchor".
Definition S_lines : text := Eval vm_compute in bs "lines".
Definition S_path : text := Eval vm_compute in bs "path".
Definition S_snp : text := Eval vm_compute in bs "snp".
Definition S_rel : text := Eval vm_compute in bs "rel".
Definition S_rev : text := Eval vm_compute in bs "rev".
Definition S_dir : text := Eval vm_compute in bs "dir".
Definition S_cnt : text := Eval vm_compute in bs "cnt".
Definition S_ori : text := Eval vm_compute in bs "ori".
Definition S_emd : text := Eval vm_compute in bs "emd".
Definition S_origin : text := Eval vm_compute in bs "origin".

(* ---------------------------------------------------------------- str primitives *)

(* str.isspace() for one code point = what `\s` matches in a str pattern
   (both are Py_UNICODE_ISSPACE).  Cross-checked exhaustively against the
   running interpreter by the harness on every run. *)
Definition WS_TABLE : list N :=
  [9; 10; 11; 12; 13; 28; 29; 30; 31; 32; 133; 160; 5760;
   8192; 8193; 8194; 8195; 8196; 8197; 8198; 8199; 8200; 8201; 8202;
   8232; 8233; 8239; 8287; 12288].
Definition is_space (c : N) : bool := memb c WS_TABLE.

(* s.split(c) for a one-character separator: never empty, pieces may be *)
Fixpoint split_on (c : N) (l : text) : list text :=
  match l with
  | [] => [[]]
  | x :: l' =>
      if x =? c then [] :: split_on c l'
      else match split_on c l' with
           | p :: ps => (x :: p) :: ps
           | [] => [[x]]
           end
  end.

(* s.replace(c, w) for a one-character c *)
Definition replace_char (c : N) (w : text) (t : text) : text :=
  flat_map (fun x => if x =? c then w else [x]) t.

(* the longest prefix satisfying p, and the rest *)
Fixpoint span (p : N -> bool) (l : text) : text * text :=
  match l with
  | [] => ([], [])
  | x :: l' => if p x then let '(a, r) := span p l' in (x :: a, r) else ([], l)
  end.

Fixpoint first_some {A B} (f : A -> option B) (l : list A) : option B :=
  match l with
  | [] => None
  | x :: l' => match f x with Some y => Some y | None => first_some f l' end
  end.

(* a dict built by successive d[k] = v: the list of assignments, oldest first;
   reading a key gives the last assignment *)
Definition dict := list (text * text).
Definition dict_get (k : text) (d : dict) : option text :=
  fold_left (fun acc kv => if beqb (fst kv) k then Some (snd kv) else acc) d None.

(* ---------------------------------------------------------------- int <-> str *)
Definition over_limit (lim : N) (ndigits : nat) : bool :=
  negb (lim =? 0) && (lim <? N.of_nat ndigits).

(* str(z): ValueError when z has more than lim digits *)
Definition str_int (lim : N) (z : Z) : result text :=
  if over_limit lim (length (dec_N (Z.abs_N z))) then Err EValue else Ok (dec_Z z).

(* int(t) for t a non-empty run of ASCII digits: ValueError beyond lim digits *)
Definition int_of_digits (lim : N) (t : text) : result Z :=
  if over_limit lim (length t) then Err EValue
  else match parse_dec_N t with
       | Some n => Ok (Z.of_N n)
       | None => Err EValue
       end.

(* ---------------------------------------------------------------- values *)
Record core := mkCore { c_ty : text; c_oid : bytes }.

Record qualified := mkQ {
  q_ty : text; q_oid : bytes;
  q_origin : option text;
  q_visit : option core;
  q_anchor : option core;
  q_path : option bytes;
  q_lines : option (Z * option Z) }.

Definition core_of (v : qualified) : core := mkCore (q_ty v) (q_oid v).

(* enum members *)
Definition enum_values (tbl : list (list N * list N)) : list text := map snd tbl.
Definition enum_member (name : list N) : text :=
  match find (fun p => beqb (fst p) name) OBJECT_TYPES with
  | Some p => snd p
  | None => []
  end.
Definition TY_SNAPSHOT := enum_member S_SNAPSHOT.
Definition TY_DIRECTORY := enum_member S_DIRECTORY.
Definition TY_REVISION := enum_member S_REVISION.
Definition TY_RELEASE := enum_member S_RELEASE.
Definition ANCHOR_TYPES : list text := [TY_DIRECTORY; TY_REVISION; TY_RELEASE; TY_SNAPSHOT].

(* CoreSWHID(object_type=ty, object_id=oid) / ExtendedSWHID(...):
   converter ObjectType(ty) (ValueError), then check_object_id *)
Definition mk_simple (enum : list text) (ty : text) (oid : bytes) : result core :=
  if negb (mem_bytes ty enum) then Err EValue
  else if negb (Nat.eqb (length oid) 20) then Err EValidation
  else Ok (mkCore ty oid).
Definition mk_core := mk_simple (enum_values OBJECT_TYPES).
Definition mk_ext := mk_simple (enum_values EXTENDED_OBJECT_TYPES).

(* QualifiedSWHID(...) with already converted qualifier values *)
Definition mk_q (ty : text) (oid : bytes) (origin : option text) (visit anchor : option core)
                (path : option bytes) (lines : option (Z * option Z)) : result qualified :=
  if negb (mem_bytes ty (enum_values OBJECT_TYPES)) then Err EValue
  else if negb (Nat.eqb (length oid) 20) then Err EValidation
  else if match visit with Some c => negb (beqb (c_ty c) TY_SNAPSHOT) | None => false end
       then Err EValidation
  else if match anchor with Some c => negb (mem_bytes (c_ty c) ANCHOR_TYPES) | None => false end
       then Err EValidation
  else Ok (mkQ ty oid origin visit anchor path lines).

(* CoreSWHID.to_extended / to_qualified *)
Definition to_extended (c : core) : result core := mk_ext (c_ty c) (c_oid c).
Definition to_qualified (c : core) : result qualified :=
  mk_q (c_ty c) (c_oid c) None None None None None.

(* ---------------------------------------------------------------- printing *)
Definition K_origin : text := Eval vm_compute in bs "origin".
Definition K_visit : text := Eval vm_compute in bs "visit".
Definition K_anchor : text := Eval vm_compute in bs "anchor".
Definition K_path : text := Eval vm_compute in bs "path".
Definition K_lines : text := Eval vm_compute in bs "lines".
Definition FIELD_KEYS : list text := [K_origin; K_visit; K_anchor; K_path; K_lines].

(* ":".join([namespace, str(scheme_version), object_type.value, hash_to_hex(object_id)]) *)
Definition print_core (c : core) : text :=
  SWHID_NAMESPACE ++ [58] ++ dec_Z SWHID_VERSION ++ [58] ++ c_ty c ++ [58] ++ hexlify (c_oid c).

(* "".join(urllib.parse.quote(c) if c.isspace() else c for c in origin);
   None = UnicodeEncodeError *)
Fixpoint quote_spaces (t : text) : option text :=
  match t with
  | [] => Some []
  | c :: t' =>
      match (if is_space c then quote_text [c] else Some [c]), quote_spaces t' with
      | Some a, Some r => Some (a ++ r)
      | _, _ => None
      end
  end.

(* the escaping done by qualifiers() today ... *)
Definition esc_origin (o : text) : option text :=
  quote_spaces (replace_char 59 S_pct3B (replace_char 37 S_pct25 o)).
(* ... and before commit 9a0ba15 (mutant kept for C09_reprint_refuted_old) *)
Definition esc_origin_old (o : text) : option text :=
  Some (replace_char 59 S_pct3B (replace_char 37 S_pct25 o)).

Definition print_origin (esc : text -> option text) (o : text) : result text :=
  match o with
  | [] => Ok []                       (* `if origin:` is false for "" *)
  | _ => match esc o with
         | None => Err EValue
         | Some e => if beqb (unquote e) o then Ok e else Err EAssertion
         end
  end.

Definition print_lines (lim : N) (l : Z * option Z) : result text :=
  match l with
  | (a, None) => str_int lim a
  | (a, Some b) => bind (str_int lim a) (fun x => bind (str_int lim b) (fun y => Ok (x ++ [45] ++ y)))
  end.

(* the value of one entry of the dict built by qualifiers(); Ok None = entry dropped *)
Definition qual_value (esc : text -> option text) (lim : N) (v : qualified) (k : text)
  : result (option text) :=
  if beqb k K_origin then
    match q_origin v with
    | None => Ok None
    | Some o => bind (print_origin esc o) (fun t => Ok (Some t))
    end
  else if beqb k K_visit then Ok (option_map print_core (q_visit v))
  else if beqb k K_anchor then Ok (option_map print_core (q_anchor v))
  else if beqb k K_path then Ok (option_map quote_from_bytes (q_path v))
  else if beqb k K_lines then
    match q_lines v with
    | None => Ok None
    | Some l => bind (print_lines lim l) (fun t => Ok (Some t))
    end
  else Ok None.

Fixpoint print_quals (esc : text -> option text) (lim : N) (v : qualified) (ks : list text)
  : result text :=
  match ks with
  | [] => Ok []
  | k :: ks' =>
      bind (qual_value esc lim v k) (fun ov =>
      bind (print_quals esc lim v ks') (fun r =>
      Ok (match ov with
          | None => r
          | Some t => [59] ++ k ++ [61] ++ t ++ r
          end)))
  end.

Definition print_q_gen (esc : text -> option text) (lim : N) (v : qualified) : result text :=
  bind (print_quals esc lim v QUALIFIER_PRINT_ORDER) (fun r => Ok (print_core (core_of v) ++ r)).

Definition print_q := print_q_gen esc_origin.
Definition print_q_old := print_q_gen esc_origin_old.

(* ---------------------------------------------------------------- parsing *)

(* SWHID_RE.fullmatch: (type, the 40 hex characters, group "qualifiers") *)
Definition re_head : text := SWHID_NAMESPACE ++ [58] ++ dec_Z SWHID_VERSION ++ [58].

Definition match_after_type (t : text) (r1 : text) : option (text * text * option text) :=
  match strip_prefix (t ++ [58]) r1 with
  | None => None
  | Some r2 =>
      let h := take 40 r2 in
      if Nat.eqb (length h) 40 && forallb is_lower_hex h then
        match drop 40 r2 with
        | [] => Some (t, h, None)
        | c :: qs =>
            if (c =? 59) && negb (is_nil qs) && forallb (fun x => negb (is_space x)) qs
            then Some (t, h, Some qs) else None
        end
      else None
  end.

Definition match_swhid_re (s : text) : option (text * text * option text) :=
  match strip_prefix re_head s with
  | None => None
  | Some r1 => first_some (fun t => match_after_type t r1) EXTENDED_SWHID_TYPES
  end.

(* for qualifier in raw.split(";"): k, v = qualifier.split("=", maxsplit=1); d[k] = v *)
Fixpoint parse_quals (items : list text) : result dict :=
  match items with
  | [] => Ok []
  | q :: rest =>
      match cut 61 q with
      | (k, Some v) => bind (parse_quals rest) (fun d => Ok ((k, v) :: d))
      | (_, None) => Err EValidation
      end
  end.

(* _parse_swhid: (object_type text, object_id, qualifiers dict) *)
Definition parse_swhid (s : text) : result (text * bytes * dict) :=
  match match_swhid_re s with
  | None => Err EValidation
  | Some (ty, h, qraw) =>
      bind (match qraw with
            | None => Ok []
            | Some raw => parse_quals (split_on 59 raw)
            end) (fun d =>
      (* int(parts["scheme_version"]) on the text matched by the version group *)
      match parse_dec_Z (dec_Z SWHID_VERSION) with
      | None => Err EValue
      | Some ver =>
          (* bytes.fromhex *)
          match unhex h with
          | None => Err EValue
          | Some oid =>
              (* check_scheme_version (check_namespace compares the literal with itself) *)
              if Z.eqb ver SWHID_VERSION then Ok (ty, oid, d) else Err EValidation
          end
      end)
  end.

(* _BaseSWHID.from_string for CoreSWHID / ExtendedSWHID *)
Definition parse_simple (enum : list text) (s : text) : result core :=
  bind (parse_swhid s) (fun p =>
    let '(ty, oid, d) := p in
    if negb (is_nil d) then Err EValidation
    else value_error_to_validation (mk_simple enum ty oid)).
Definition parse_core := parse_simple (enum_values OBJECT_TYPES).
Definition parse_ext := parse_simple (enum_values EXTENDED_OBJECT_TYPES).

(* _LINES_QUALIFIER_RE.fullmatch: [0-9]+(-[0-9]+)? *)
Definition lines_re_match (t : text) : bool :=
  let '(a, r) := span is_digit t in
  negb (is_nil a) &&
  match r with
  | [] => true
  | c :: r' => (c =? 45) && let '(b, r2) := span is_digit r' in negb (is_nil b) && is_nil r2
  end.

(* _parse_lines_qualifier on a str, as it is today; every ValueError inside
   is turned into ValidationError by its own try/except *)
Definition parse_lines (lim : N) (t : text) : result (Z * option Z) :=
  value_error_to_validation
  (if negb (lines_re_match t) then Err EValue
   else match cut 45 t with
        | (a, Some b) =>
            (* (from_, to) = lines.split("-", 2): three pieces cannot be unpacked *)
            if memb 45 b then Err EValue
            else bind (int_of_digits lim a) (fun x => bind (int_of_digits lim b) (fun y => Ok (x, Some y)))
        | (a, None) => bind (int_of_digits lim a) (fun x => Ok (x, None))
        end).

(* --- the parser before commit 31ea1eb: straight to int().  int() syntax
   modelled: optional sign, ASCII digits with single inner underscores (the
   real int() also takes other Unicode decimal digits; not needed for the
   witness) *)
Fixpoint underscored_ok (prev_digit : bool) (l : text) : bool :=
  match l with
  | [] => prev_digit
  | c :: l' => if is_digit c then underscored_ok true l'
               else if c =? 95 then prev_digit && underscored_ok false l'
               else false
  end.
Definition py_int_old (lim : N) (t : text) : result Z :=
  let '(neg, body) := match t with
                      | 43 :: r => (false, r)
                      | 45 :: r => (true, r)
                      | _ => (false, t)
                      end in
  if underscored_ok false body then
    let ds := filter is_digit body in
    if over_limit lim (length ds) then Err EValue
    else match parse_dec_N ds with
         | Some n => Ok (if neg then Z.opp (Z.of_N n) else Z.of_N n)
         | None => Err EValue
         end
  else Err EValue.
Definition parse_lines_old (lim : N) (t : text) : result (Z * option Z) :=
  value_error_to_validation
  (match cut 45 t with
   | (a, Some b) =>
       if memb 45 b then Err EValue
       else bind (py_int_old lim a) (fun x => bind (py_int_old lim b) (fun y => Ok (x, Some y)))
   | (a, None) => bind (py_int_old lim a) (fun x => Ok (x, None))
   end).

Definition opt_conv {A} (f : text -> result A) (o : option text) : result (option A) :=
  match o with
  | None => Ok None
  | Some t => bind (f t) (fun a => Ok (Some a))
  end.

(* _parse_path_qualifier on a str *)
Definition parse_path (t : text) : result bytes :=
  match unquote_to_bytes t with
  | Some b => Ok b
  | None => Err EValue        (* UnicodeEncodeError *)
  end.

(* QualifiedSWHID( **parts, **qualifiers ) with string qualifier values *)
Definition construct_q (pl : N -> text -> result (Z * option Z)) (lim : N)
                       (ty : text) (oid : bytes) (d : dict) : result qualified :=
  if existsb (fun kv => negb (mem_bytes (fst kv) FIELD_KEYS)) d then Err EType
  else if negb (mem_bytes ty (enum_values OBJECT_TYPES)) then Err EValue   (* converter ObjectType *)
  else
    bind (opt_conv parse_core (dict_get K_visit d)) (fun visit =>
    bind (opt_conv parse_core (dict_get K_anchor d)) (fun anchor =>
    bind (opt_conv parse_path (dict_get K_path d)) (fun path =>
    bind (opt_conv (pl lim) (dict_get K_lines d)) (fun lines =>
    mk_q ty oid (dict_get K_origin d) visit anchor path lines)))).

(* qualifiers["origin"] = urllib.parse.unquote(qualifiers["origin"]) *)
Definition unquote_origin (d : dict) : dict :=
  match dict_get K_origin d with
  | Some o => d ++ [(K_origin, unquote o)]
  | None => d
  end.

(* QualifiedSWHID.from_string *)
Definition parse_q_gen (pl : N -> text -> result (Z * option Z)) (lim : N) (s : text)
  : result qualified :=
  bind (parse_swhid s) (fun p =>
    let '(ty, oid, d) := p in
    if existsb (fun kv => negb (mem_bytes (fst kv) SWHID_QUALIFIERS)) d then Err EValidation
    else value_error_to_validation (construct_q pl lim ty oid (unquote_origin d))).

Definition parse_q := parse_q_gen parse_lines.
Definition parse_q_old := parse_q_gen parse_lines_old.

(* ---------------------------------------------------------------- the documented language
   Written from the property statement and the BNF of
   docs/persistent-identifiers.rst, independently of the parser above:
   positional slicing instead of prefix stripping, literal tables. *)
Definition DOC_CORE_TYPES : list text := [S_snp; S_rel; S_rev; S_dir; S_cnt].
Definition DOC_EXT_TYPES : list text := DOC_CORE_TYPES ++ [S_ori; S_emd].
Definition DOC_VISIT_TYPES : list text := [S_snp].
Definition DOC_ANCHOR_TYPES : list text := [S_dir; S_rev; S_rel; S_snp].
Definition DOC_KEYS : list text := [S_origin; S_visit; S_anchor; S_path; S_lines].

(* "swh:1:" <type> ":" 40 * <hex_digit>, then whatever follows *)
Definition lang_head (types : list text) (s : text) : option text :=
  if beqb (firstn 6 s) S_swh1
     && mem_bytes (firstn 3 (skipn 6 s)) types
     && beqb (firstn 1 (skipn 9 s)) S_colon
     && Nat.eqb (length (firstn 40 (skipn 10 s))) 40
     && forallb is_lower_hex (firstn 40 (skipn 10 s))
  then Some (skipn 50 s) else None.

Definition lang_id (types : list text) (s : text) : bool :=
  match lang_head types s with
  | Some [] => true
  | _ => false
  end.

Definition lang_core := lang_id DOC_CORE_TYPES.
Definition lang_ext := lang_id DOC_EXT_TYPES.

Definition digits1 (t : text) : bool := negb (is_nil t) && forallb is_digit t.
(* <line_number> ["-" <line_number>] *)
Definition lang_lines (t : text) : bool :=
  match cut 45 t with
  | (a, None) => digits1 a
  | (a, Some b) => digits1 a && digits1 b
  end.

(* key and value of a well-formed `key=value` item *)
Definition item_kv (it : text) : option (text * text) :=
  match cut 61 it with
  | (k, Some v) => Some (k, v)
  | (_, None) => None
  end.

(* the effective value of a key: its last occurrence (DESIGN section 7) *)
Definition effective (k : text) (items : list text) : option text :=
  match filter (fun kv => beqb (fst kv) k)
               (flat_map (fun it => match item_kv it with Some kv => [kv] | None => [] end) items) with
  | [] => None
  | kvs => Some (snd (last kvs ([], [])))
  end.

Definition opt_ok (p : text -> bool) (o : option text) : bool :=
  match o with None => true | Some t => p t end.

Definition lang_q (s : text) : bool :=
  match lang_head DOC_CORE_TYPES s with
  | None => false
  | Some [] => true
  | Some (c :: qs) =>
      (c =? 59) && negb (is_nil qs) && forallb (fun x => negb (is_space x)) qs &&
      let items := split_on 59 qs in
      forallb (fun it => match item_kv it with
                         | Some (k, _) => mem_bytes k DOC_KEYS
                         | None => false
                         end) items
      && opt_ok (lang_id DOC_VISIT_TYPES) (effective S_visit items)
      && opt_ok (lang_id DOC_ANCHOR_TYPES) (effective S_anchor items)
      && opt_ok lang_lines (effective S_lines items)
      (* <path_absolute_escaped> is an RFC 3987 path: its characters are Unicode
         scalar values (a lone surrogate is not a character) *)
      && opt_ok (forallb is_scalar) (effective S_path items)
  end.

(* no run of more than lim consecutive ASCII digits (so int() never hits the
   interpreter's limit) *)
Fixpoint max_digit_run (cur best : nat) (t : text) : nat :=
  match t with
  | [] => Nat.max cur best
  | c :: t' => if is_digit c then max_digit_run (S cur) best t'
               else max_digit_run 0 (Nat.max cur best) t'
  end.
Definition within_limit (lim : N) (t : text) : bool :=
  negb (over_limit lim (max_digit_run 0 0 t)).

(* ---------------------------------------------------------------- examples *)
Definition ex_oid : bytes := map N.of_nat (seq 1 20).
Definition ex_hex : text := bs "0102030405060708090a0b0c0d0e0f1011121314".
Definition ex_q : qualified :=
  mkQ (bs "cnt") ex_oid (Some (bs "https://e.org/a;b%c d")) (Some (mkCore (bs "snp") ex_oid))
      (Some (mkCore (bs "rev") ex_oid)) (Some ([47; 0; 255; 59] ++ bs "x y")) (Some (5%Z, Some 10%Z)).
Definition ex_q_text : text :=
  bs "swh:1:cnt:" ++ ex_hex ++ bs ";origin=https://e.org/a%3Bb%25c%20d;visit=swh:1:snp:" ++ ex_hex
  ++ bs ";anchor=swh:1:rev:" ++ ex_hex ++ bs ";path=/%00%FF%3Bx%20y;lines=5-10".

(* last key wins; an earlier malformed duplicate is not looked at *)

(* ---------------------------------------------------------------- namespace / scheme_version given explicitly
   _BaseSWHID(namespace=ns, scheme_version=ver, ...).  None = the keyword is
   left at its default.  attrs runs every converter while assigning (the enum
   converter ObjectType(ty) is the only one that can fail here), then the
   validators in attribute order: check_namespace, check_scheme_version,
   check_object_id (base class first), then the subclass's. *)
Definition nv_bad (ns : option text) (ver : option Z) : bool :=
  match ns with Some n => negb (beqb n SWHID_NAMESPACE) | None => false end
  || match ver with Some z => negb (Z.eqb z SWHID_VERSION) | None => false end.

Definition mk_simple_nv (enum : list text) (ns : option text) (ver : option Z) (ty : text) (oid : bytes)
  : result core :=
  if negb (mem_bytes ty enum) then Err EValue
  else if nv_bad ns ver then Err EValidation
  else mk_simple enum ty oid.
Definition mk_core_nv := mk_simple_nv (enum_values OBJECT_TYPES).
Definition mk_ext_nv := mk_simple_nv (enum_values EXTENDED_OBJECT_TYPES).

Definition mk_q_nv (ns : option text) (ver : option Z) (ty : text) (oid : bytes) (origin : option text)
                   (visit anchor : option core) (path : option bytes) (lines : option (Z * option Z))
  : result qualified :=
  if negb (mem_bytes ty (enum_values OBJECT_TYPES)) then Err EValue
  else if nv_bad ns ver then Err EValidation
  else mk_q ty oid origin visit anchor path lines.

(* ---------------------------------------------------------------- numbers of another class (printer before commit 8fc7b57)
   The validators take a bool where an int is declared (bool is a subclass of
   int, True == 1).  The printer used str(x), and str(True) = "True"; it now
   writes "%d" % x, the decimal of the VALUE, which is what str_int models.
   [is_bool] says that the Python object holding the value z is a bool. *)
Definition S_True : text := Eval vm_compute in bs "True".
Definition S_False : text := Eval vm_compute in bs "False".
Definition str_pyint_old (lim : N) (is_bool : bool) (z : Z) : result text :=
  if is_bool then Ok (if Z.eqb z 0 then S_False else S_True) else str_int lim z.

Definition print_lines_str_old (lim : N) (fa fb : bool) (l : Z * option Z) : result text :=
  match l with
  | (a, None) => str_pyint_old lim fa a
  | (a, Some b) => bind (str_pyint_old lim fa a) (fun x => bind (str_pyint_old lim fb b) (fun y => Ok (x ++ [45] ++ y)))
  end.

(* __str__ before 8fc7b57 for a value whose first / second line number is held
   by a bool: "lines" is the last entry of the qualifiers dict *)
Definition print_q_str_old (lim : N) (fa fb : bool) (v : qualified) : result text :=
  match q_lines v with
  | None => print_q lim v
  | Some l =>
      bind (print_q lim (mkQ (q_ty v) (q_oid v) (q_origin v) (q_visit v) (q_anchor v) (q_path v) None)) (fun p =>
      bind (print_lines_str_old lim fa fb l) (fun t => Ok (p ++ [59] ++ K_lines ++ [61] ++ t)))
  end.
