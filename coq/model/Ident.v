(* Model of the identifier machinery of swh/model/model.py 453-548:
     _compute_hash_from_manifest, BaseHashableModel (compute_hash,
     __attrs_post_init__, evolve, check), HashableObjectWithManifest
     (compute_hash with raw_manifest precedence, check rejecting an unneeded
     raw manifest), and of the swhid() methods of the identified kinds.
     (to_dict of HashableObjectWithManifest only drops a None raw_manifest: it
     belongs to the dictionary round trip, property C12.)
     Definitions only, all executable.

   The model is GENERIC in the manifest: an identified object is reduced to
   what the id machinery reads of it -
     h_kind   which of the seven classes it is,
     h_attrs  the result of the class's own manifest function on the
              attributes (git_objects.<kind>_git_object(self), url.encode()
              for an origin): [Some m], or [None] when that function raises
              TypeError (only a Release whose target is None does),
     h_raw    the raw_manifest attribute (None for the kinds without one),
     h_id     the id attribute.
   The hash is a Section variable: nothing is assumed about it. *)
From Coq Require Import List NArith Bool.
From SWH.lib Require Import Bytes.
From SWH Require Import Generated.
Import ListNotations.
Open Scope N_scope.

Inductive kind := KOrigin | KSnapshot | KRelease | KRevision | KDirectory | KRawExtrinsicMetadata | KExtID.
Definition all_kinds : list kind :=
  [KOrigin; KSnapshot; KRelease; KRevision; KDirectory; KRawExtrinsicMetadata; KExtID].

(* which classes derive from HashableObjectWithManifest (have a raw_manifest field) *)
Definition has_raw_field (k : kind) : bool :=
  match k with KRelease | KRevision | KDirectory => true | _ => false end.

Inductive err := TypeError | ValueError | ValidationError | AttributeError.
Inductive result (A : Type) := Ok (a : A) | Err (e : err).
Arguments Ok {A} a.
Arguments Err {A} e.

Record hobj := { h_kind : kind; h_attrs : option bytes; h_raw : option bytes; h_id : bytes }.

Definition set_id (i : bytes) (o : hobj) : hobj :=
  {| h_kind := h_kind o; h_attrs := h_attrs o; h_raw := h_raw o; h_id := i |}.

Definition is_some {A} (x : option A) : bool := match x with Some _ => true | None => false end.

(* ---------------------------------------------------------------- SWHID type of a kind *)
(* which enum member the class's swhid() passes as object_type:
   (true, NAME) = swhids.ObjectType.NAME (CoreSWHID),
   (false, NAME) = swhids.ExtendedObjectType.NAME (ExtendedSWHID);
   ExtID has no swhid() method *)
Definition swhid_member (k : kind) : option (bool * bytes) :=
  match k with
  | KOrigin => Some (false, bs "ORIGIN")
  | KSnapshot => Some (true, bs "SNAPSHOT")
  | KRelease => Some (true, bs "RELEASE")
  | KRevision => Some (true, bs "REVISION")
  | KDirectory => Some (true, bs "DIRECTORY")
  | KRawExtrinsicMetadata => Some (false, bs "RAW_EXTRINSIC_METADATA")
  | KExtID => None
  end.

Fixpoint lookup (k : bytes) (l : list (bytes * bytes)) : option bytes :=
  match l with
  | [] => None
  | (k', v) :: r => if beqb k k' then Some v else lookup k r
  end.

(* the enum member's value, read in the tables regenerated from swhids.py *)
Definition swhid_tag (k : kind) : option bytes :=
  match swhid_member k with
  | None => None
  | Some (core, name) => lookup name (if core then OBJECT_TYPES else EXTENDED_OBJECT_TYPES)
  end.

(* the manifest that is hashed: the stored raw manifest when there is one *)
Definition manifest_of (a : bytes) (raw : option bytes) : bytes :=
  match raw with Some m => m | None => a end.

Section WithHash.
  Variable H : bytes -> bytes.      (* _compute_hash_from_manifest = SHA-1, uninterpreted *)

  (* <class>._compute_hash_from_attributes *)
  Definition hash_from_attributes (o : hobj) : result bytes :=
    match h_attrs o with Some m => Ok (H m) | None => Err TypeError end.

  (* compute_hash: BaseHashableModel for the kinds without raw_manifest,
     HashableObjectWithManifest (raw manifest first) for the others; for the
     former h_raw is None, so one definition serves both *)
  Definition compute_hash (o : hobj) : result bytes :=
    match h_raw o with
    | Some m => Ok (H m)
    | None => hash_from_attributes o
    end.

  (* __attrs_post_init__: "if not self.id: self.id = self.compute_hash()" *)
  Definition init (o : hobj) : result hobj :=
    match h_id o with
    | [] => match compute_hash o with Ok h => Ok (set_id h o) | Err e => Err e end
    | _ :: _ => Ok o
    end.

  (* the constructor call <Class>(<attributes>, [raw_manifest=r], [id=i]):
     [raw_arg = None]: no raw_manifest keyword; [Some r]: raw_manifest=r (r may
     be None); [id_arg = []] is the default b"".  A raw_manifest keyword for a
     class without that field is a TypeError of __init__. *)
  Definition construct (k : kind) (attrs : option bytes) (raw_arg : option (option bytes)) (id_arg : bytes)
    : result hobj :=
    if negb (has_raw_field k) && is_some raw_arg then Err TypeError
    else init {| h_kind := k; h_attrs := attrs;
                 h_raw := match raw_arg with Some r => r | None => None end; h_id := id_arg |}.

  (* the keyword arguments of evolve(), reduced to what they change:
     ch_attrs = Some a: some attribute other than id/raw_manifest is replaced
                and the class's manifest function now gives a;
     ch_raw = Some r: raw_manifest=r is among the keywords;
     ch_id = Some i: id=i is among the keywords *)
  Record change := { ch_attrs : option (option bytes); ch_raw : option (option bytes); ch_id : option bytes }.

  (* attr.evolve(o, **kw): calls the constructor with every field of o,
     overridden by kw *)
  Definition attr_evolve (o : hobj) (attrs' : option (option bytes)) (raw' : option (option bytes)) (i : bytes)
    : result hobj :=
    construct (h_kind o)
              (match attrs' with Some a => a | None => h_attrs o end)
              (match raw' with
               | Some r => Some r
               | None => if has_raw_field (h_kind o) then Some (h_raw o) else None
               end)
              i.

  (* BaseHashableModel.evolve *)
  Definition evolve (o : hobj) (c : change) : result hobj :=
    match ch_id c with
    | Some _ => Err TypeError                                  (* "if 'id' in kwargs: raise TypeError" *)
    | None =>
        match attr_evolve o (ch_attrs c) (ch_raw c) (h_id o) with   (* obj = attr.evolve(self, **kwargs) *)
        | Err e => Err e
        | Ok obj =>
            match compute_hash obj with                         (* new_hash = obj.compute_hash() *)
            | Err e => Err e
            | Ok h => attr_evolve obj None None h               (* attr.evolve(obj, id=new_hash) *)
            end
        end
    end.

  (* check(): BaseHashableModel.check, then HashableObjectWithManifest.check
     (for the kinds without raw_manifest h_raw is None and the second test is
     not there: same outcome) *)
  Definition check (o : hobj) : result unit :=
    match compute_hash o with
    | Err e => Err e
    | Ok h =>
        if negb (beqb (h_id o) h) then Err ValueError           (* 'id' does not match recomputed hash *)
        else match h_raw o with
             | None => Ok tt
             | Some _ =>
                 match hash_from_attributes o with
                 | Err e => Err e
                 | Ok ha => if beqb (h_id o) ha then Err ValueError   (* ... but does not need it *)
                            else Ok tt
                 end
             end
    end.

  (* "has a non-none raw_manifest attribute, but does not need it": the
     attributes alone give the same id *)
  Definition unneeded_raw (a : bytes) (raw : option bytes) : Prop :=
    match raw with Some m => H m = H a | None => False end.

End WithHash.

(* swhid(): CoreSWHID / ExtendedSWHID (object_type=<member>, object_id=self.id);
   the SWHID constructor refuses an object_id that is not 20 bytes long
   (ValidationError); printed as swh:1:<tag>:<hex id> *)
Definition swhid (o : hobj) : result (bytes * bytes) :=
  match swhid_tag (h_kind o) with
  | None => Err AttributeError
  | Some t => if Nat.eqb (length (h_id o)) 20 then Ok (t, h_id o) else Err ValidationError
  end.

(* a well-formed object: only the three manifest-carrying classes have a raw manifest *)
Definition wf (o : hobj) : Prop := h_raw o <> None -> has_raw_field (h_kind o) = true.

(* ---- smoke tests with a toy hash (the theorems never look inside H) ---- *)
Definition toyH (m : bytes) : bytes := [N.of_nat (length m)] ++ m.



