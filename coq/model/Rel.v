(* Model of git_objects.release_git_object / format_author_data /
   target_type_to_git and the validators of model.Release.  Definitions only. *)
From Coq Require Import List NArith ZArith Bool.
From SWH.lib Require Import Bytes Dec Hex GitHeader Headers.
From SWH.model Require Import Time.
Import ListNotations.
Open Scope N_scope.

Record person := { fullname : bytes; p_name : option bytes; p_email : option bytes }.

(* format_author_data: fullname [SP date SP offset_bytes] *)
Definition format_author (p : person) (d : option tstz) : bytes :=
  fullname p ++ match d with Some x => author_date_part x | None => [] end.

Inductive rtt := RContent | RDirectory | RRevision | RRelease | RSnapshot.
Definition all_rtt := [RContent; RDirectory; RRevision; RRelease; RSnapshot].
Definition rtt_value (t : rtt) : bytes :=
  match t with RContent => bs "content" | RDirectory => bs "directory" | RRevision => bs "revision"
             | RRelease => bs "release" | RSnapshot => bs "snapshot" end.
(* target_type_to_git *)
Definition git_type (t : rtt) : bytes :=
  match t with RContent => bs "blob" | RDirectory => bs "tree" | RRevision => bs "commit"
             | RRelease => bs "tag" | RSnapshot => bs "refs" end.

Record release := {
  r_name : bytes; r_message : option bytes; r_target : option bytes; r_ttype : rtt;
  r_synthetic : bool; r_author : option person; r_date : option tstz;
  r_metadata : option (list (bytes * bytes));      (* never read by the id computation *)
  r_raw_manifest : option bytes }.

Definition rel_headers (r : release) (target : bytes) : list header :=
  [(bs "object", hexlify target); (bs "type", git_type (r_ttype r)); (bs "tag", r_name r)]
  ++ match r_author r with
     | Some a => [(bs "tagger", format_author a (r_date r))]
     | None => []
     end.

Inductive manifest_result := MOk (m : bytes) | MTypeError | MValueError.

(* release_git_object: hash_to_bytehex(None) raises TypeError *)
Definition release_git_object (r : release) : manifest_result :=
  match r_target r with
  | None => MTypeError
  | Some t => MOk (from_headers (bs "tag") (rel_headers r t) (r_message r))
  end.

(* Release.check_author: date without author is rejected *)
Definition release_valid (r : release) : bool :=
  match r_author r, r_date r with None, Some _ => false | _, _ => true end.

Section WithHash.
  Variable H : bytes -> bytes.
  Definition rel_compute_hash (r : release) : option bytes :=
    match r_raw_manifest r with
    | Some m => Some (H m)
    | None => match release_git_object r with MOk m => Some (H m) | _ => None end
    end.
End WithHash.

(* ---- independent tag parser ---- *)
Record tag_fields := { t_object : bytes; t_type : bytes; t_tag : bytes; t_tagger : option bytes; t_message : option bytes }.

Definition parse_tag (l : bytes) : option tag_fields :=
  match parse_object l with
  | Some (ty, hs, msg) =>
      if beqb ty (bs "tag") then
        match hs with
        | (k1, o) :: (k2, t) :: (k3, n) :: rest =>
            if beqb k1 (bs "object") && beqb k2 (bs "type") && beqb k3 (bs "tag") then
              match rest with
              | [] => Some {| t_object := o; t_type := t; t_tag := n; t_tagger := None; t_message := msg |}
              | [(k4, g)] => if beqb k4 (bs "tagger")
                             then Some {| t_object := o; t_type := t; t_tag := n; t_tagger := Some g; t_message := msg |}
                             else None
              | _ => None
              end
            else None
        | _ => None
        end
      else None
  | None => None
  end.

Definition rtt_of_git_type (w : bytes) : option rtt :=
  match filter (fun t => beqb w (git_type t)) all_rtt with t :: _ => Some t | [] => None end.
