(* Model of swh/model/discovery.py: BaseDiscoveryGraph, RandomDirSamplingDiscoveryGraph,
   filter_known_objects.  Definitions only, all executable.

   Object ids (sha1_git / directory id) are abstract [N].  Python sets are
   duplicate-free lists; the element [set.pop()] returns and the elements
   [random.sample] draws are ORACLES (arguments), universally quantified in the
   theorems.  The archive is the oracle [missing : N -> bool]: a query answers
   the sub-list of the queried ids that are missing. *)
From Coq Require Import List NArith Bool Arith.
Import ListNotations.

(* ------------------------------------------------------------------ *)
(* Python sets of ids as lists *)

Definition memN (x : N) (l : list N) : bool := existsb (N.eqb x) l.
(* s.add(x) *)
Definition set_add (x : N) (l : list N) : list N := if memN x l then l else l ++ [x].
(* s.update(m)  /  s |= m *)
Definition set_union (l m : list N) : list N := fold_left (fun acc x => set_add x acc) m l.
(* s.discard(x) *)
Definition set_remove (x : N) (l : list N) : list N := filter (fun y => negb (N.eqb x y)) l.
(* l & m *)
Definition set_inter (l m : list N) : list N := filter (fun y => memN y m) l.
(* l - m *)
Definition set_diff (l m : list N) : list N := filter (fun y => negb (memN y m)) l.
(* set(l) *)
Definition set_of_list (l : list N) : list N := set_union [] l.

Fixpoint nodupb (l : list N) : bool :=
  match l with [] => true | x :: l' => negb (memN x l') && nodupb l' end.
Definition subsetb (l m : list N) : bool := forallb (fun x => memN x m) l.

(* ------------------------------------------------------------------ *)
(* The graph.  A directory is (id, targets of its entries); targets may be
   ids that are not among the given objects. *)

Definition dirent := (N * list N)%type.

(* self._children[directory.id] = {c.target for c in directory.entries}
   (a dict: a later directory with the same id overrides an earlier one);
   _children.get(current, set()) *)
Fixpoint last_children (d : N) (dirs : list dirent) (acc : list N) : list N :=
  match dirs with
  | [] => acc
  | p :: dirs' => last_children d dirs' (if N.eqb d (fst p) then snd p else acc)
  end.
Definition children_of (dirs : list dirent) (d : N) : list N := last_children d dirs [].

(* self._parents.setdefault(child.target, set()).add(directory.id);
   _parents.get(current, set()) *)
Definition parents_of (dirs : list dirent) (c : N) : list N :=
  map fst (filter (fun p => memN c (snd p)) dirs).

Definition dir_ids (dirs : list dirent) : list N := map fst dirs.
Definition objects (contents skipped : list N) (dirs : list dirent) : list N :=
  contents ++ skipped ++ dir_ids dirs.

(* ------------------------------------------------------------------ *)
(* State of a BaseDiscoveryGraph.  [events] is the sequence of
   update_info_callback(obj, known) calls, [queries] the sequence of calls made
   to the archive (kind 0 = content_missing, 1 = skipped_content_missing,
   2 = directory_missing; with the ids asked).  [clock] counts set.pop() calls:
   it only lets the pick oracle choose differently in otherwise equal
   situations. *)
Record state := mkState {
  undecided : list N;
  undecided_dirs : list N;
  known : list N;
  unknown : list N;
  events : list (N * bool);
  queries : list (N * list N);
  clock : nat
}.

(* BaseDiscoveryGraph.__init__ *)
Definition init_state (contents skipped : list N) (dirs : list dirent) : state :=
  let u1 := set_union [] (contents ++ skipped) in          (* for content in chain(...): undecided.add *)
  let u2 := set_union u1 (dir_ids dirs) in                  (* for directory: undecided.add(directory.id) *)
  let ud := set_union [] (dir_ids dirs) in                  (* _undecided_directories.add(directory.id) *)
  mkState (set_union u2 ud) ud [] [] [] [] O.               (* self.undecided |= self._undecided_directories *)

(* which set _mark_entries adds to, and which mapping it walks *)
Inductive target := TKnown | TUnknown.

(* [pick clock to_process] = position (mod length) of the element set.pop() returns *)
Definition pick_oracle := nat -> list N -> nat.

(* one iteration of the while loop of _mark_entries, after [current] was popped:
   returns the new state and next_entries *)
Definition mark_step (dirs : list dirent) (tg : target) (cur : N) (st : state) : state * list N :=
  (* target_set.add(current) *)
  let known' := match tg with TKnown => set_add cur (known st) | TUnknown => known st end in
  let unknown' := match tg with TKnown => unknown st | TUnknown => set_add cur (unknown st) end in
  (* new = current in self.undecided *)
  let new := memN cur (undecided st) in
  (* self.undecided.discard(current); self._undecided_directories.discard(current) *)
  let und' := set_remove cur (undecided st) in
  let ud' := set_remove cur (undecided_dirs st) in
  (* next_entries = transitive_mapping.get(current, set()) & self.undecided *)
  let mapping := match tg with TKnown => children_of dirs cur | TUnknown => parents_of dirs cur end in
  let next := set_inter mapping und' in
  (* if new and callback is not None: callback(obj, current in self.known) *)
  let events' := if new then events st ++ [(cur, memN cur known')] else events st in
  (mkState und' ud' known' unknown' events' (queries st) (S (clock st)), next).

(* _mark_entries; None = out of fuel *)
Fixpoint mark (fuel : nat) (pick : pick_oracle) (dirs : list dirent) (tg : target)
         (to_process : list N) (st : state) : option state :=
  match to_process with
  | [] => Some st
  | x0 :: _ =>
      match fuel with
      | O => None
      | S fuel' =>
          (* current = to_process.pop() *)
          let cur := nth (Nat.modulo (pick (clock st) to_process) (length to_process)) to_process x0 in
          let (st', next) := mark_step dirs tg cur st in
          (* to_process.update(next_entries) *)
          mark fuel' pick dirs tg (set_union (set_remove cur to_process) next) st'
      end
  end.

Definition mark_fuel (to_process : list N) (st : state) : nat :=
  S (length to_process + length (undecided st)).

Definition log_query (kind : N) (sample : list N) (st : state) : state :=
  mkState (undecided st) (undecided_dirs st) (known st) (unknown st) (events st)
          (queries st ++ [(kind, sample)]) (clock st).

(* body of the for loop of do_query for one sample set *)
Definition query_one (pick : pick_oracle) (dirs : list dirent) (missing : N -> bool)
           (kind : N) (sample : list N) (st : state) : option state :=
  match sample with
  | [] => Some st                                       (* if not sample_per_type: continue *)
  | _ :: _ =>
      let st0 := log_query kind sample st in
      let unknown_ := filter missing sample in          (* unknown = set(method(list(sample))) *)
      let known_ := set_diff sample unknown_ in         (* known = set(sample); known -= unknown *)
      match mark (mark_fuel known_ st0) pick dirs TKnown known_ st0 with      (* self.mark_known(known) *)
      | None => None
      | Some st1 => mark (mark_fuel unknown_ st1) pick dirs TUnknown unknown_ st1   (* self.mark_unknown(unknown) *)
      end
  end.

(* do_query: contents, then skipped contents, then directories *)
Definition do_query (pick : pick_oracle) (dirs : list dirent) (missing : N -> bool)
           (sc ss sd : list N) (st : state) : option state :=
  match query_one pick dirs missing 0%N sc st with
  | None => None
  | Some st1 =>
      match query_one pick dirs missing 1%N ss st1 with
      | None => None
      | Some st2 => query_one pick dirs missing 2%N sd st2
      end
  end.

(* ------------------------------------------------------------------ *)
(* RandomDirSamplingDiscoveryGraph.get_sample *)

(* [sampler round undecided_dirs] = what random.sample(tuple(undecided_dirs), SAMPLE_SIZE)
   returns in that round *)
Definition sampler_oracle := nat -> list N -> list N.

(* everything random.sample(population, k) guarantees, for a population
   without repetition and k <= len(population): k elements of the population,
   from distinct positions *)
Definition sample_contract (sample_size : N) (population sample : list N) : bool :=
  nodupb sample && subsetb sample population && N.eqb (N.of_nat (length sample)) sample_size.

Inductive sample_result :=
| SampleOk (contents skipped directories : list N)
| SampleKeyError        (* self._all_contents[sha1] on an id that is not a content *)
| SampleBad.            (* the ORACLE broke the contract of random.sample: not a behaviour of the code *)

Definition get_sample (sample_size : N) (sampler : sampler_oracle)
           (contents skipped : list N) (round : nat) (st : state) : sample_result :=
  match undecided_dirs st with
  | _ :: _ =>
      if N.leb (N.of_nat (length (undecided_dirs st))) sample_size
      then SampleOk [] [] (undecided_dirs st)
      else let s := sampler round (undecided_dirs st) in
           if sample_contract sample_size (undecided_dirs st) s then SampleOk [] [] s else SampleBad
  | [] =>
      (* _all_contents: contents then skipped contents, a later key overrides *)
      if forallb (fun x => memN x contents || memN x skipped) (undecided st)
      then SampleOk (filter (fun x => negb (memN x skipped)) (undecided st))
                    (filter (fun x => memN x skipped) (undecided st)) []
      else SampleKeyError
  end.

(* ------------------------------------------------------------------ *)
(* filter_known_objects *)

Inductive round_result :=
| RoundOk (st : state)
| RoundOutOfFuel | RoundKeyError | RoundBadSample.

(* one iteration of `while graph.undecided:` *)
Definition round (sample_size : N) (sampler : sampler_oracle) (pick : pick_oracle)
           (missing : N -> bool) (contents skipped : list N) (dirs : list dirent)
           (r : nat) (st : state) : round_result :=
  match get_sample sample_size sampler contents skipped r st with
  | SampleKeyError => RoundKeyError
  | SampleBad => RoundBadSample
  | SampleOk sc ss sd =>
      match do_query pick dirs missing sc ss sd st with
      | None => RoundOutOfFuel
      | Some st' => RoundOk st'
      end
  end.

Fixpoint loop (fuel : nat) (sample_size : N) (sampler : sampler_oracle) (pick : pick_oracle)
         (missing : N -> bool) (contents skipped : list N) (dirs : list dirent)
         (r : nat) (st : state) : round_result :=
  match undecided st with
  | [] => RoundOk st
  | _ :: _ =>
      match fuel with
      | O => RoundOutOfFuel
      | S fuel' =>
          match round sample_size sampler pick missing contents skipped dirs r st with
          | RoundOk st' => loop fuel' sample_size sampler pick missing contents skipped dirs (S r) st'
          | e => e
          end
      end
  end.

Inductive disc_result :=
| DiscOk (contents skipped directories : list N) (final : state)
| DiscOutOfFuel | DiscKeyError | DiscBadSample.

Definition filter_known_objects (sample_size : N) (sampler : sampler_oracle) (pick : pick_oracle)
           (missing : N -> bool) (contents skipped : list N) (dirs : list dirent) : disc_result :=
  let st0 := init_state contents skipped dirs in
  match loop (S (length (objects contents skipped dirs))) sample_size sampler pick missing
             contents skipped dirs O st0 with
  | RoundOk st =>
      DiscOk (filter (fun c => memN c (unknown st)) contents)
             (filter (fun c => memN c (unknown st)) skipped)
             (filter (fun c => memN c (unknown st)) (dir_ids dirs))
             st
  | RoundOutOfFuel => DiscOutOfFuel
  | RoundKeyError => DiscKeyError
  | RoundBadSample => DiscBadSample
  end.

(* ------------------------------------------------------------------ *)
(* oracle instances used by the driver *)

Definition pick_fifo : pick_oracle := fun _ _ => O.
Definition pick_lifo : pick_oracle := fun _ tp => pred (length tp).
(* sampler that takes the first / last SAMPLE_SIZE undecided directories *)
Definition sampler_first (sample_size : N) : sampler_oracle := fun _ ud => firstn (N.to_nat sample_size) ud.
Definition sampler_last (sample_size : N) : sampler_oracle :=
  fun _ ud => skipn (length ud - N.to_nat sample_size) ud.
(* sampler replaying a recorded sequence of samples (the implementation's own
   draws); an exhausted or inadmissible record ends the run with DiscBadSample *)
Definition sampler_replay (samples : list (list N)) : sampler_oracle :=
  fun r _ => nth r samples [].

(* the hypothesis "a known directory has only known entries (among the given
   objects)", as a boolean for generators / examples *)
Definition closedb (missing : N -> bool) (contents skipped : list N) (dirs : list dirent) : bool :=
  forallb (fun p => missing (fst p) ||
                    forallb (fun c => negb (memN c (objects contents skipped dirs)) || negb (missing c)) (snd p))
          dirs.

(* ------------------------------------------------------------------ *)
(* A 6-object example: contents 1,2; skipped content 3; directories
   10 = {1, 11, 99}, 12 = {11, 2}, 11 = {3, 1}; 11 is shared by 10 and 12, 99 is
   outside the set.  The archive knows 11 (hence 3 and 1) and nothing else. *)
Definition ex_contents : list N := [1; 2]%N.
Definition ex_skipped : list N := [3]%N.
Definition ex_dirs : list dirent := [(10, [1; 11; 99]); (12, [11; 2]); (11, [3; 1])]%N.
Definition ex_missing : N -> bool := fun x => negb (memN x [11; 3; 1]%N).

Example ex_run_fifo :
  match filter_known_objects 1 (sampler_first 1) pick_fifo ex_missing ex_contents ex_skipped ex_dirs with
  | DiscOk c s d st => (c, s, d, undecided st, length (events st))
  | _ => ([], [], [], [0%N], O)
  end = ([2]%N, [], [10; 12]%N, [], 6).
Proof. vm_compute. reflexivity. Qed.

Example ex_run_lifo :
  match filter_known_objects 2 (sampler_last 2) pick_lifo ex_missing ex_contents ex_skipped ex_dirs with
  | DiscOk c s d st => (c, s, d, undecided st, length (events st))
  | _ => ([], [], [], [0%N], O)
  end = ([2]%N, [], [10; 12]%N, [], 6).
Proof. vm_compute. reflexivity. Qed.

(* SAMPLE_SIZE = 0 never terminates (random.sample(..., 0) = []): the model runs out of fuel *)
Example ex_sample_size_zero :
  filter_known_objects 0 (sampler_first 0) pick_fifo ex_missing ex_contents ex_skipped ex_dirs = DiscOutOfFuel.
Proof. vm_compute. reflexivity. Qed.
