(* Model of swh/model/toposort.py (toposort).  Definitions only, all executable.

   A revision is (id, parents).  The code's FIFO deque is generalised to a
   "pick oracle" choosing which ready revision leaves the ready collection
   next; [fifo] is the code as it is today. *)
From Coq Require Import List NArith ZArith Bool.
Import ListNotations.

Definition rev := (N * list N)%type.
Definition rid (r : rev) : N := fst r.
Definition rparents (r : rev) : list N := snd r.

(* in_degree: Python dict, later insertions override earlier ones *)
Definition degmap := list (N * Z).

Fixpoint deg_set (k : N) (v : Z) (m : degmap) : degmap :=
  match m with
  | [] => [(k, v)]
  | (k', v') :: m' => if N.eqb k k' then (k, v) :: m' else (k', v') :: deg_set k v m'
  end.

Fixpoint deg_get (k : N) (m : degmap) : option Z :=
  match m with
  | [] => None
  | (k', v') :: m' => if N.eqb k k' then Some v' else deg_get k m'
  end.

(* pass 1 *)
Definition init_deg (log : list rev) : degmap :=
  fold_left (fun m r => deg_set (rid r) (Z.of_nat (length (rparents r))) m) log [].

Definition init_queue (log : list rev) : list rev :=
  filter (fun r => match rparents r with [] => true | _ => false end) log.

(* children[p]: for rev in log: for parent in parents: if parent = p, append rev *)
Definition children_of (log : list rev) (p : N) : list rev :=
  flat_map (fun r => map (fun _ => r) (filter (N.eqb p) (rparents r))) log.

Inductive topo_result :=
| TopoOk (out : list rev)
| TopoKeyError            (* in_degree[child["id"]] on a missing key *)
| TopoOutOfFuel.

(* the inner "for child in children[rev.id]" loop; None = KeyError *)
Fixpoint process_children (cs : list rev) (d : degmap) (q : list rev)
  : option (degmap * list rev) :=
  match cs with
  | [] => Some (d, q)
  | c :: cs' =>
      match deg_get (rid c) d with
      | None => None
      | Some v =>
          let v' := (v - 1)%Z in
          let d' := deg_set (rid c) v' d in
          if Z.eqb v' 0 then process_children cs' d' (q ++ [c])
          else process_children cs' d' q
      end
  end.

(* remove the i-th element (i taken modulo the length by the caller) *)
Fixpoint remove_nth {A} (i : nat) (l : list A) : list A :=
  match l, i with
  | [], _ => []
  | _ :: l', O => l'
  | x :: l', S i' => x :: remove_nth i' l'
  end.

Definition pick_oracle := list rev -> list rev -> nat.  (* queue -> output so far -> index *)

Fixpoint kahn (fuel : nat) (pick : pick_oracle) (log : list rev)
         (q : list rev) (d : degmap) (out : list rev) : topo_result :=
  match q with
  | [] => TopoOk out
  | r0 :: _ =>
      match fuel with
      | O => TopoOutOfFuel
      | S fuel' =>
          let i := Nat.modulo (pick q out) (length q) in
          let r := nth i q r0 in
          match process_children (children_of log (rid r)) d (remove_nth i q) with
          | None => TopoKeyError
          | Some (d', q') => kahn fuel' pick log q' d' (out ++ [r])
          end
      end
  end.

Definition toposort (pick : pick_oracle) (log : list rev) : topo_result :=
  kahn (S (length log)) pick log (init_queue log) (init_deg log) [].

Definition fifo : pick_oracle := fun _ _ => O.
Definition lifo : pick_oracle := fun q _ => pred (length q).

(* Oracle that replays a given emission sequence: at each step pick the
   position in the queue of the next revision id of [trace] (position = number
   already output).  If that id is not in the queue the replay fails: index
   [length q] is reported through [replay_ok]. *)
Fixpoint index_of (k : N) (q : list rev) : option nat :=
  match q with
  | [] => None
  | r :: q' => if N.eqb k (rid r) then Some O
               else match index_of k q' with Some i => Some (S i) | None => None end
  end.

(* Trace inclusion: is [trace] (a list of ids) one of the runs of the model?
   Deterministic replay, step by step. *)
Fixpoint replay (fuel : nat) (log : list rev) (q : list rev) (d : degmap)
         (trace : list N) : bool :=
  match trace with
  | [] => match q with [] => true | _ => false end
  | k :: trace' =>
      match fuel with
      | O => false
      | S fuel' =>
          match index_of k q with
          | None => false
          | Some i =>
              match process_children (children_of log k) d (remove_nth i q) with
              | None => false
              | Some (d', q') => replay fuel' log q' d' trace'
              end
          end
      end
  end.

Definition is_model_run (log : list rev) (trace : list N) : bool :=
  replay (S (length trace)) log (init_queue log) (init_deg log) trace.

(* Independent checker of the property's conclusion on an output sequence:
   [out] is a permutation of [log] (ids distinct) and every parent of every
   revision occurs strictly earlier. *)
Fixpoint memN (k : N) (l : list N) : bool :=
  match l with [] => false | x :: l' => N.eqb k x || memN k l' end.

Fixpoint parents_before (seen : list N) (out : list rev) : bool :=
  match out with
  | [] => true
  | r :: out' => forallb (fun p => memN p seen) (rparents r)
                 && parents_before (rid r :: seen) out'
  end.

Fixpoint nodupN (l : list N) : bool :=
  match l with [] => true | x :: l' => negb (memN x l') && nodupN l' end.

Definition rev_eqb (a b : rev) : bool :=
  N.eqb (rid a) (rid b) &&
  (fix eqs (x y : list N) := match x, y with
     | [], [] => true | p :: x', p' :: y' => N.eqb p p' && eqs x' y' | _, _ => false end)
    (rparents a) (rparents b).

Definition mem_rev (r : rev) (l : list rev) : bool := existsb (rev_eqb r) l.

Definition is_topo_order (log out : list rev) : bool :=
  Nat.eqb (length out) (length log)
  && nodupN (map rid out)
  && forallb (fun r => mem_rev r log) out
  && parents_before [] out.

(* hypotheses of the property, as booleans, for the generators / examples *)
Definition closed_log (log : list rev) : bool :=
  forallb (fun r => forallb (fun p => memN p (map rid log)) (rparents r)) log.
