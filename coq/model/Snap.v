(* Model of git_objects.snapshot_git_object and of the validators of
   model.SnapshotBranch / model.Snapshot.  Definitions only. *)
From Coq Require Import List NArith Bool.
From SWH.lib Require Import Bytes Dec Order StableSort GitHeader.
Import ListNotations.
Open Scope N_scope.

Inductive btype := BContent | BDirectory | BRevision | BRelease | BSnapshot | BAlias.

Definition btype_eqb (a b : btype) : bool :=
  match a, b with
  | BContent, BContent | BDirectory, BDirectory | BRevision, BRevision
  | BRelease, BRelease | BSnapshot, BSnapshot | BAlias, BAlias => true
  | _, _ => false
  end.

(* target.target_type.value.encode() *)
Definition btype_bytes (t : btype) : bytes :=
  match t with
  | BContent => bs "content" | BDirectory => bs "directory" | BRevision => bs "revision"
  | BRelease => bs "release" | BSnapshot => bs "snapshot" | BAlias => bs "alias"
  end.
Definition all_btypes : list btype := [BContent; BDirectory; BRevision; BRelease; BSnapshot; BAlias].

Record branch := { b_target : bytes; b_type : btype }.

(* Snapshot.branches: a dict name -> Optional[SnapshotBranch]; an association
   list with pairwise distinct names *)
Definition branches := list (bytes * option branch).

Definition name_leb (a b : bytes * option branch) : bool := bleb (fst a) (fst b).

Definition has_key (k : bytes) (bs0 : branches) : bool := existsb (fun p => beqb k (fst p)) bs0.

(* (type bytes, target id) written for a branch *)
Definition line_type (ob : option branch) : bytes :=
  match ob with
  | None => bs "dangling"
  | Some b => match b_type b with BAlias => bs "alias" | t => btype_bytes t end
  end.
Definition line_target (ob : option branch) : bytes :=
  match ob with None => [] | Some b => b_target b end.

Definition branch_parts (p : bytes * option branch) : list bytes :=
  let tid := line_target (snd p) in
  [line_type (snd p); [SP]; fst p; [NUL]; dec_N (lenN tid) ++ [COLON]; tid].

Definition snap_parts (bs0 : branches) : list bytes :=
  flat_map branch_parts (sort name_leb bs0).

Definition is_unresolved (bs0 : branches) (p : bytes * option branch) : bool :=
  match snd p with
  | Some b => btype_eqb (b_type b) BAlias
              && (negb (has_key (b_target b) bs0) || beqb (b_target b) (fst p))
  | None => false
  end.

(* the (name, target) list carried by the ValueError, in sorted-name order *)
Definition unresolved (bs0 : branches) : list (bytes * bytes) :=
  map (fun p => (fst p, line_target (snd p))) (filter (is_unresolved bs0) (sort name_leb bs0)).

Inductive snap_result :=
| SnapOk (manifest : bytes)
| SnapUnresolved (l : list (bytes * bytes)).     (* ValueError(..., unresolved) *)

Definition snapshot_git_object (bs0 : branches) (ignore_unresolved : bool) : snap_result :=
  match unresolved bs0, ignore_unresolved with
  | (_ :: _) as u, false => SnapUnresolved u
  | _, _ => SnapOk (from_parts (bs "snapshot") (snap_parts bs0))
  end.

(* Snapshot._compute_hash_from_attributes uses ignore_unresolved=True *)
Definition snap_manifest (bs0 : branches) : bytes := from_parts (bs "snapshot") (snap_parts bs0).

Section WithHash.
  Variable H : bytes -> bytes.
  Definition snap_id (bs0 : branches) : bytes := H (snap_manifest bs0).
End WithHash.

(* validators: SnapshotBranch.check_target: non-alias targets are 20 bytes *)
Definition branch_ok (ob : option branch) : bool :=
  match ob with
  | None => true
  | Some b => btype_eqb (b_type b) BAlias || Nat.eqb (length (b_target b)) 20
  end.
Definition valid_snapshot (bs0 : branches) : bool := forallb (fun p => branch_ok (snd p)) bs0.

(* ---- independent decoder: one record per branch = (type word, name, target bytes) ---- *)
Definition srecord := (bytes * bytes * bytes)%type.
Definition record_of (p : bytes * option branch) : srecord :=
  (line_type (snd p), fst p, line_target (snd p)).

Definition known_type_word (w : bytes) : bool :=
  mem_bytes w (bs "dangling" :: map btype_bytes all_btypes).

Fixpoint decode_snapshot (fuel : nat) (l : bytes) : option (list srecord) :=
  match l with
  | [] => Some []
  | _ =>
      match fuel with
      | O => None
      | S f =>
          match cut SP l with
          | (w, Some r1) =>
              if known_type_word w then
                match cut NUL r1 with
                | (name, Some r2) =>
                    match cut COLON r2 with
                    | (digits, Some r3) =>
                        match parse_dec_N digits with
                        | Some n =>
                            let k := N.to_nat n in
                            if Nat.leb k (length r3)
                            then match decode_snapshot f (skipn k r3) with
                                 | Some rs => Some ((w, name, firstn k r3) :: rs)
                                 | None => None
                                 end
                            else None
                        | None => None
                        end
                    | _ => None
                    end
                | _ => None
                end
              else None
          | _ => None
          end
      end
  end.

Definition decode_snapshot_object (l : bytes) : option (list srecord) :=
  match parse_git_object l with
  | Some (ty, body) => if beqb ty (bs "snapshot") then decode_snapshot (S (length body)) body else None
  | None => None
  end.

(* back from a record to the branch it denotes *)
Definition branch_of_record (r : srecord) : option (bytes * option branch) :=
  let '(w, name, tid) := r in
  if beqb w (bs "dangling") then (match tid with [] => Some (name, None) | _ => None end)
  else match filter (fun t => beqb w (btype_bytes t)) all_btypes with
       | t :: _ => Some (name, Some {| b_target := tid; b_type := t |})
       | [] => None
       end.
