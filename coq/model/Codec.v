(* Model of the dictionary codec of swh/model/model.py: dictify,
   BaseModel.to_dict / from_dict, every to_dict / from_dict override of the 18
   model classes, the attrs constructor (binding of keyword arguments,
   converters, validators, __attrs_post_init__) and
   collections.ImmutableDict.copy_pop.  Definitions only, all executable.

   Universe of Python values: [pyval].  A model object is [VObj c fs] where
   [fs] lists the attribute values in declaration order (what
   attr.asdict(recurse=False) returns).

   from_dict functions are written in a small "dict command" monad [M] over a
   variable [d] that is either the caller's dictionary itself or a copy of it
   (d.copy(), dict(d), {**d, ...}); pop / set commands act on the caller's
   dictionary exactly when the variable still aliases it.  [run] returns the
   decoded object together with the caller's dictionary afterwards.

   Abstract (Section variables): the id function [idf] (C12 is not about
   manifests; it may fail, e.g. a release without target), the SWHID text
   printer / parser pair (property C08) and dateutil's parser. *)
From Coq Require Import List NArith ZArith Bool String.
From SWH.lib Require Import Bytes Dec Hex.
From SWH Require Import Generated.
Import ListNotations.
Open Scope N_scope.

Definition text := list N.     (* Python str: code points *)

Inductive cls :=
| cPerson | cTimestamp | cTimestampWithTimezone | cOrigin | cOriginVisit | cOriginVisitStatus
| cSnapshotBranch | cSnapshot | cRelease | cRevision | cDirectoryEntry | cDirectory
| cContent | cSkippedContent | cMetadataAuthority | cMetadataFetcher | cRawExtrinsicMetadata | cExtID.

Definition all_classes : list cls :=
  [cPerson; cTimestamp; cTimestampWithTimezone; cOrigin; cOriginVisit; cOriginVisitStatus;
   cSnapshotBranch; cSnapshot; cRelease; cRevision; cDirectoryEntry; cDirectory;
   cContent; cSkippedContent; cMetadataAuthority; cMetadataFetcher; cRawExtrinsicMetadata; cExtID].

Inductive enum_ty := ESnapshotTarget | EReleaseTarget | ERevisionType | EAuthorityType.
Inductive swhid_kind := Core | Extended.

Inductive pyval :=
| VNone
| VBool (b : bool)
| VInt (z : Z)
| VBytes (b : bytes)
| VStr (s : text)
| VDate (us off : Z)                     (* aware datetime: instant (microseconds since the epoch), utcoffset (microseconds) *)
| VTuple (l : list pyval)
| VList (l : list pyval)
| VDict (l : list (pyval * pyval))
| VIDict (l : list (pyval * pyval))      (* collections.ImmutableDict *)
| VEnum (e : enum_ty) (v : text)         (* member identified by its value *)
| VSwhid (k : swhid_kind) (tag : text) (oid : bytes)
| VObj (c : cls) (fs : list (text * pyval)).

Definition dict := list (pyval * pyval).
Definition fields := list (text * pyval).

Inductive err := TypeError | ValueError | KeyError | AssertionError | ValidationError | AttributeError.
Inductive result (A : Type) := Ok (a : A) | Err (e : err).
Arguments Ok {A} a.
Arguments Err {A} e.

Definition rbind {A B} (r : result A) (f : A -> result B) : result B :=
  match r with Ok a => f a | Err e => Err e end.

Fixpoint rmap {A B} (f : A -> result B) (l : list A) : result (list B) :=
  match l with
  | [] => Ok []
  | x :: r => match f x with
              | Ok y => match rmap f r with Ok ys => Ok (y :: ys) | Err e => Err e end
              | Err e => Err e
              end
  end.

(* ------------------------------------------------------------------ keys *)
Definition k_fullname : text := Eval vm_compute in bs "fullname".
Definition k_name : text := Eval vm_compute in bs "name".
Definition k_email : text := Eval vm_compute in bs "email".
Definition k_seconds : text := Eval vm_compute in bs "seconds".
Definition k_microseconds : text := Eval vm_compute in bs "microseconds".
Definition k_timestamp : text := Eval vm_compute in bs "timestamp".
Definition k_offset_bytes : text := Eval vm_compute in bs "offset_bytes".
Definition k_offset : text := Eval vm_compute in bs "offset".
Definition k_negative_utc : text := Eval vm_compute in bs "negative_utc".
Definition k_url : text := Eval vm_compute in bs "url".
Definition k_id : text := Eval vm_compute in bs "id".
Definition k_origin : text := Eval vm_compute in bs "origin".
Definition k_date : text := Eval vm_compute in bs "date".
Definition k_type : text := Eval vm_compute in bs "type".
Definition k_visit : text := Eval vm_compute in bs "visit".
Definition k_status : text := Eval vm_compute in bs "status".
Definition k_snapshot : text := Eval vm_compute in bs "snapshot".
Definition k_metadata : text := Eval vm_compute in bs "metadata".
Definition k_target : text := Eval vm_compute in bs "target".
Definition k_target_type : text := Eval vm_compute in bs "target_type".
Definition k_branches : text := Eval vm_compute in bs "branches".
Definition k_message : text := Eval vm_compute in bs "message".
Definition k_synthetic : text := Eval vm_compute in bs "synthetic".
Definition k_author : text := Eval vm_compute in bs "author".
Definition k_raw_manifest : text := Eval vm_compute in bs "raw_manifest".
Definition k_committer : text := Eval vm_compute in bs "committer".
Definition k_committer_date : text := Eval vm_compute in bs "committer_date".
Definition k_directory : text := Eval vm_compute in bs "directory".
Definition k_parents : text := Eval vm_compute in bs "parents".
Definition k_extra_headers : text := Eval vm_compute in bs "extra_headers".
Definition k_perms : text := Eval vm_compute in bs "perms".
Definition k_entries : text := Eval vm_compute in bs "entries".
Definition k_sha1 : text := Eval vm_compute in bs "sha1".
Definition k_sha1_git : text := Eval vm_compute in bs "sha1_git".
Definition k_sha256 : text := Eval vm_compute in bs "sha256".
Definition k_blake2s256 : text := Eval vm_compute in bs "blake2s256".
Definition k_length : text := Eval vm_compute in bs "length".
Definition k_data : text := Eval vm_compute in bs "data".
Definition k_get_data : text := Eval vm_compute in bs "get_data".
Definition k_ctime : text := Eval vm_compute in bs "ctime".
Definition k_reason : text := Eval vm_compute in bs "reason".
Definition k_version : text := Eval vm_compute in bs "version".
Definition k_discovery_date : text := Eval vm_compute in bs "discovery_date".
Definition k_authority : text := Eval vm_compute in bs "authority".
Definition k_fetcher : text := Eval vm_compute in bs "fetcher".
Definition k_format : text := Eval vm_compute in bs "format".
Definition k_release : text := Eval vm_compute in bs "release".
Definition k_revision : text := Eval vm_compute in bs "revision".
Definition k_path : text := Eval vm_compute in bs "path".
Definition k_extid_type : text := Eval vm_compute in bs "extid_type".
Definition k_extid : text := Eval vm_compute in bs "extid".
Definition k_extid_version : text := Eval vm_compute in bs "extid_version".
Definition k_payload_type : text := Eval vm_compute in bs "payload_type".
Definition k_payload : text := Eval vm_compute in bs "payload".

(* string values *)
Definition s_visible : text := Eval vm_compute in bs "visible".
Definition s_hidden : text := Eval vm_compute in bs "hidden".
Definition s_absent : text := Eval vm_compute in bs "absent".
Definition s_alias : text := Eval vm_compute in bs "alias".
Definition s_origin : text := Eval vm_compute in bs "origin".
Definition s_file : text := Eval vm_compute in bs "file".
Definition s_dir : text := Eval vm_compute in bs "dir".
Definition s_rev : text := Eval vm_compute in bs "rev".
Definition s_swh_colon : text := Eval vm_compute in bs "swh:".
Definition t_snp : text := Eval vm_compute in bs "snp".
Definition t_rel : text := Eval vm_compute in bs "rel".
Definition t_rev : text := Eval vm_compute in bs "rev".
Definition t_dir : text := Eval vm_compute in bs "dir".
Definition t_cnt : text := Eval vm_compute in bs "cnt".
Definition t_ori : text := Eval vm_compute in bs "ori".

Definition dir_entry_types : list text := Eval vm_compute in [bs "file"; bs "dir"; bs "rev"].
Definition content_statuses : list text := Eval vm_compute in [bs "visible"; bs "hidden"].
Definition skipped_content_statuses : list text := Eval vm_compute in [bs "absent"].
Definition visit_statuses : list text :=
  Eval vm_compute in [bs "created"; bs "ongoing"; bs "full"; bs "partial"; bs "not_found"; bs "failed"].

(* enum members (by value).  SnapshotTargetType / ReleaseTargetType come from
   the regenerated tables; RevisionType / MetadataAuthorityType are hard-coded
   here and cross-checked against the source at run time (harness pre_checks). *)
Definition revision_types : list text :=
  Eval vm_compute in [bs "git"; bs "tar"; bs "dsc"; bs "svn"; bs "hg"; bs "cvs"; bs "bzr"].
Definition authority_types : list text :=
  Eval vm_compute in [bs "deposit_client"; bs "forge"; bs "registry"].
Definition members (e : enum_ty) : list text :=
  match e with
  | ESnapshotTarget => SNAPSHOT_TARGET_TYPES
  | EReleaseTarget => map fst RELEASE_TARGET_TO_GIT
  | ERevisionType => revision_types
  | EAuthorityType => authority_types
  end.

Definition swhid_tags (k : swhid_kind) : list text :=
  match k with Core => SWHID_TYPES | Extended => EXTENDED_SWHID_TYPES end.

(* ------------------------------------------------------------------ dictionaries *)
Definition is_key (k : text) (p : pyval) : bool :=
  match p with VStr s => beqb k s | _ => false end.

Fixpoint dget (k : text) (d : dict) : option pyval :=
  match d with
  | [] => None
  | (p, v) :: r => if is_key k p then Some v else dget k r
  end.

Definition dhas (k : text) (d : dict) : bool := match dget k d with Some _ => true | None => false end.

Definition ddel (k : text) (d : dict) : dict := filter (fun kv => negb (is_key k (fst kv))) d.

Fixpoint dset (k : text) (v : pyval) (d : dict) : dict :=
  match d with
  | [] => [(VStr k, v)]
  | (p, x) :: r => if is_key k p then (p, v) :: r else (p, x) :: dset k v r
  end.

Fixpoint fget (k : text) (fs : fields) : pyval :=
  match fs with
  | [] => VNone
  | (n, v) :: r => if beqb k n then v else fget k r
  end.

Fixpoint fset (k : text) (v : pyval) (fs : fields) : fields :=
  match fs with
  | [] => []
  | (n, x) :: r => if beqb k n then (n, v) :: r else (n, x) :: fset k v r
  end.

Definition fdel (k : text) (fs : fields) : fields := filter (fun nv => negb (beqb k (fst nv))) fs.

Definition as_kwargs (fs : fields) : dict := map (fun nv => (VStr (fst nv), snd nv)) fs.

Definition is_none (v : pyval) : bool := match v with VNone => true | _ => false end.

Definition truthy (v : pyval) : bool :=
  match v with
  | VNone => false
  | VBool b => b
  | VInt z => negb (Z.eqb z 0)
  | VBytes [] | VStr [] | VTuple [] | VList [] | VDict [] | VIDict [] => false
  | _ => true
  end.

(* plain serialisable values: None, bool, int, bytes, str, datetime, tuple, list, dict *)
Fixpoint plain (v : pyval) : bool :=
  match v with
  | VNone | VBool _ | VInt _ | VBytes _ | VStr _ | VDate _ _ => true
  | VTuple l | VList l => forallb plain l
  | VDict l => forallb (fun kv => plain (fst kv) && plain (snd kv)) l
  | VIDict _ | VEnum _ _ | VSwhid _ _ _ | VObj _ _ => false
  end.

(* ------------------------------------------------------------------ schemas *)
Inductive ty :=
| TBytes | TStr | TInt | TBool | TDate | TAny | TObject
| TOpt (t : ty) | TTupleOf (t : ty) | TPairBytes
| TObj (c : cls) | TEnum (e : enum_ty) | TIDict (k v : ty) | TSwhid (k : swhid_kind) | TCallable.

Inductive conv := CNone | CFreeze | CTuplifyHeaders | CInt | CDiscoveryDate.

Record field := mkField {
  fname : text;
  fty : ty;
  fdefault : option pyval;
  fconv : conv;
  fgeneric : bool;          (* validator=generic_type_validator (possibly and-ed with a custom one) *)
  felide : bool             (* to_dict drops the key when the value is None *)
}.

Definition fld n t := mkField n t None CNone true false.
Definition fldc n t := mkField n t None CNone false false.        (* custom / no validator *)
Definition opt n t d := mkField n t (Some d) CNone true false.
Definition md_ty := TOpt (TIDict TStr TObject).
Definition md_any := TOpt (TIDict TStr TAny).

Definition schema (c : cls) : list field :=
  match c with
  | cPerson => [fld k_fullname TBytes; fld k_name (TOpt TBytes); fld k_email (TOpt TBytes)]
  | cTimestamp => [fldc k_seconds TInt; fldc k_microseconds TInt]
  | cTimestampWithTimezone => [fld k_timestamp (TObj cTimestamp); fld k_offset_bytes TBytes]
  | cOrigin => [fld k_url TStr; opt k_id TBytes (VBytes [])]
  | cOriginVisit =>
      [fld k_origin TStr; fldc k_date TDate; fld k_type TStr;
       mkField k_visit (TOpt TInt) (Some VNone) CNone true true]
  | cOriginVisitStatus =>
      [fld k_origin TStr; fld k_visit TInt; fldc k_date TDate; fldc k_status TStr;
       fld k_snapshot (TOpt TBytes); opt k_type (TOpt TStr) VNone;
       mkField k_metadata md_ty (Some VNone) CFreeze true false]
  | cSnapshotBranch => [fldc k_target TBytes; fld k_target_type (TEnum ESnapshotTarget)]
  | cSnapshot =>
      [mkField k_branches (TIDict TBytes (TOpt (TObj cSnapshotBranch))) None CFreeze true false;
       opt k_id TBytes (VBytes [])]
  | cRelease =>
      [fld k_name TBytes; fld k_message (TOpt TBytes); fld k_target (TOpt TBytes);
       fld k_target_type (TEnum EReleaseTarget); fld k_synthetic TBool;
       opt k_author (TOpt (TObj cPerson)) VNone; opt k_date (TOpt (TObj cTimestampWithTimezone)) VNone;
       mkField k_metadata md_ty (Some VNone) CFreeze true true;
       opt k_id TBytes (VBytes []);
       mkField k_raw_manifest (TOpt TBytes) (Some VNone) CNone false true]
  | cRevision =>
      [fld k_message (TOpt TBytes); fld k_author (TOpt (TObj cPerson)); fld k_committer (TOpt (TObj cPerson));
       fld k_date (TOpt (TObj cTimestampWithTimezone)); fld k_committer_date (TOpt (TObj cTimestampWithTimezone));
       fld k_type (TEnum ERevisionType); fld k_directory TBytes; fld k_synthetic TBool;
       mkField k_metadata md_ty (Some VNone) CFreeze true false;
       opt k_parents (TTupleOf TBytes) (VTuple []);
       opt k_id TBytes (VBytes []);
       mkField k_extra_headers (TTupleOf TPairBytes) (Some (VTuple [])) CTuplifyHeaders true false;
       mkField k_raw_manifest (TOpt TBytes) (Some VNone) CNone false true]
  | cDirectoryEntry =>
      [fldc k_name TBytes; fldc k_type TStr; fld k_target TBytes;
       mkField k_perms TInt None CInt true false]
  | cDirectory =>
      [fld k_entries (TTupleOf (TObj cDirectoryEntry)); opt k_id TBytes (VBytes []);
       mkField k_raw_manifest (TOpt TBytes) (Some VNone) CNone false true]
  | cContent =>
      [fld k_sha1 TBytes; fld k_sha1_git TBytes; fld k_sha256 TBytes; fld k_blake2s256 TBytes;
       fldc k_length TInt;
       mkField k_status TStr (Some (VStr s_visible)) CNone false false;
       mkField k_data (TOpt TBytes) (Some VNone) CNone true true;
       mkField k_get_data (TOpt TCallable) (Some VNone) CNone false true;
       mkField k_ctime (TOpt TDate) (Some VNone) CNone false true]
  | cSkippedContent =>
      [fld k_sha1 (TOpt TBytes); fld k_sha1_git (TOpt TBytes); fld k_sha256 (TOpt TBytes);
       fld k_blake2s256 (TOpt TBytes); fldc k_length (TOpt TInt); fldc k_status TStr;
       mkField k_reason (TOpt TStr) (Some VNone) CNone false false;
       mkField k_origin (TOpt TStr) (Some VNone) CNone true true;
       mkField k_ctime (TOpt TDate) (Some VNone) CNone true true]
  | cMetadataAuthority =>
      [fld k_type (TEnum EAuthorityType); fld k_url TStr;
       mkField k_metadata md_any (Some VNone) CFreeze true true]
  | cMetadataFetcher =>
      [fld k_name TStr; fld k_version TStr;
       mkField k_metadata md_any (Some VNone) CFreeze true true]
  | cRawExtrinsicMetadata =>
      [fld k_target (TSwhid Extended);
       mkField k_discovery_date TDate None CDiscoveryDate false false;
       fld k_authority (TObj cMetadataAuthority); fld k_fetcher (TObj cMetadataFetcher);
       fld k_format TStr; fld k_metadata TBytes;
       mkField k_origin (TOpt TStr) (Some VNone) CNone true true;
       mkField k_visit (TOpt TInt) (Some VNone) CNone false true;
       mkField k_snapshot (TOpt (TSwhid Core)) (Some VNone) CNone false true;
       mkField k_release (TOpt (TSwhid Core)) (Some VNone) CNone false true;
       mkField k_revision (TOpt (TSwhid Core)) (Some VNone) CNone false true;
       mkField k_path (TOpt TBytes) (Some VNone) CNone false true;
       mkField k_directory (TOpt (TSwhid Core)) (Some VNone) CNone false true;
       opt k_id TBytes (VBytes [])]
  | cExtID =>
      [fld k_extid_type TStr; fld k_extid TBytes; fld k_target (TSwhid Core);
       opt k_extid_version TInt (VInt 0); opt k_payload_type (TOpt TStr) VNone;
       opt k_payload (TOpt TBytes) VNone; opt k_id TBytes (VBytes [])]
  end.

Definition names (c : cls) : list text := map fname (schema c).
Definition elided (c : cls) : list text := map fname (filter felide (schema c)).

(* has the class an id computed in __attrs_post_init__ ? *)
Definition hashable (c : cls) : bool :=
  match c with
  | cOrigin | cSnapshot | cRelease | cRevision | cDirectory | cRawExtrinsicMetadata | cExtID => true
  | _ => false
  end.

(* isinstance-based check of the generic type validator *)
Fixpoint has_type (t : ty) (v : pyval) : bool :=
  match t with
  | TBytes => match v with VBytes _ => true | _ => false end
  | TStr => match v with VStr _ => true | _ => false end
  | TInt => match v with VInt _ | VBool _ => true | _ => false end       (* bool is a subclass of int *)
  | TBool => match v with VBool _ => true | _ => false end
  | TDate => match v with VDate _ _ => true | _ => false end
  | TAny | TObject => true
  | TOpt t' => match v with VNone => true | _ => has_type t' v end
  | TTupleOf t' => match v with VTuple l => forallb (has_type t') l | _ => false end
  | TPairBytes => match v with VTuple [VBytes _; VBytes _] => true | _ => false end
  | TObj c => match v with VObj c' _ => match c, c' with
                | cPerson, cPerson | cTimestamp, cTimestamp | cTimestampWithTimezone, cTimestampWithTimezone
                | cOrigin, cOrigin | cOriginVisit, cOriginVisit | cOriginVisitStatus, cOriginVisitStatus
                | cSnapshotBranch, cSnapshotBranch | cSnapshot, cSnapshot | cRelease, cRelease
                | cRevision, cRevision | cDirectoryEntry, cDirectoryEntry | cDirectory, cDirectory
                | cContent, cContent | cSkippedContent, cSkippedContent
                | cMetadataAuthority, cMetadataAuthority | cMetadataFetcher, cMetadataFetcher
                | cRawExtrinsicMetadata, cRawExtrinsicMetadata | cExtID, cExtID => true
                | _, _ => false end
              | _ => false end
  | TEnum e => match v with VEnum e' _ => match e, e' with
                | ESnapshotTarget, ESnapshotTarget | EReleaseTarget, EReleaseTarget
                | ERevisionType, ERevisionType | EAuthorityType, EAuthorityType => true
                | _, _ => false end
              | _ => false end
  | TIDict kt vt => match v with
                    | VIDict l => forallb (fun kv => has_type kt (fst kv) && has_type vt (snd kv)) l
                    | _ => false end
  | TSwhid k => match v with VSwhid k' _ _ => match k, k' with Core, Core | Extended, Extended => true | _, _ => false end
                | _ => false end
  | TCallable => false
  end.

(* ------------------------------------------------------------------ small helpers of the validators *)
Definition utf8_len (s : text) : N :=
  fold_left (fun a c => a + (if c <? 128 then 1 else if c <? 2048 then 2 else if c <? 65536 then 3 else 4)) s 0.

Definition has_surrogate (s : text) : bool := existsb (fun c => (55296 <=? c) && (c <=? 57343)) s.

Fixpoint starts_with (p s : text) : bool :=
  match p, s with
  | [], _ => true
  | a :: p', b :: s' => N.eqb a b && starts_with p' s'
  | _, [] => false
  end.

Definition exact_int (v : pyval) : bool := match v with VInt _ => true | _ => false end.
Definition int_of (v : pyval) : Z := match v with VInt z => z | VBool true => 1%Z | _ => 0%Z end.
Definition str_in (l : list text) (v : pyval) : bool := match v with VStr s => mem_bytes s l | _ => false end.
Definition is_date_or_none (v : pyval) : bool := match v with VNone | VDate _ _ => true | _ => false end.
Definition swhid_tag (v : pyval) : text := match v with VSwhid _ t _ => t | _ => [] end.

Definition entry_name (v : pyval) : pyval := match v with VObj _ fs => fget k_name fs | _ => VNone end.

(* duplicate detection of Directory.check_entries (names are bytes) *)
Fixpoint bytes_nodup (l : list bytes) : bool :=
  match l with
  | [] => true
  | x :: r => negb (mem_bytes x r) && bytes_nodup r
  end.
Definition name_bytes (v : pyval) : bytes := match entry_name v with VBytes b => b | _ => [] end.

(* the custom validators of each class, in one boolean (every failure is a
   ValueError: AttributeTypeError, TimestampOverflowException and
   UnicodeEncodeError are subclasses of ValueError) *)
Definition custom (c : cls) (fs : fields) : bool :=
  let g k := fget k fs in
  match c with
  | cTimestamp =>
      exact_int (g k_seconds) && (TS_MIN_SECONDS <=? int_of (g k_seconds))%Z && (int_of (g k_seconds) <=? TS_MAX_SECONDS)%Z
      && exact_int (g k_microseconds) && (TS_MIN_MICROSECONDS <=? int_of (g k_microseconds))%Z
      && (int_of (g k_microseconds) <=? TS_MAX_MICROSECONDS)%Z
  | cOrigin => match g k_url with VStr s => negb (has_surrogate s) && (utf8_len s <? 2048) | _ => false end
  | cOriginVisit => match g k_date with VDate _ _ => true | _ => false end
  | cOriginVisitStatus => match g k_date with VDate _ _ => true | _ => false end && str_in visit_statuses (g k_status)
  | cSnapshotBranch =>
      match g k_target with
      | VBytes b => match g k_target_type with
                    | VEnum ESnapshotTarget v => if beqb v s_alias then true else Nat.eqb (List.length b) 20
                    | _ => Nat.eqb (List.length b) 20
                    end
      | _ => false
      end
  | cRelease => negb (is_none (g k_author) && negb (is_none (g k_date)))
  | cRevision => negb (is_none (g k_author) && negb (is_none (g k_date)))
                 && negb (is_none (g k_committer) && negb (is_none (g k_committer_date)))
  | cDirectoryEntry =>
      match g k_name with VBytes b => negb (memb 47 b) | _ => false end && str_in dir_entry_types (g k_type)
  | cDirectory => match g k_entries with VTuple l => bytes_nodup (map name_bytes l) | _ => false end
  | cContent =>
      exact_int (g k_length) && (0 <=? int_of (g k_length))%Z && str_in content_statuses (g k_status)
      && is_date_or_none (g k_ctime)
  | cSkippedContent =>
      exact_int (g k_length) && (-1 <=? int_of (g k_length))%Z && str_in skipped_content_statuses (g k_status)
      && match g k_reason with VStr _ => true | _ => false end && is_date_or_none (g k_ctime)
  | cRawExtrinsicMetadata =>
      let tt := swhid_tag (g k_target) in
      let among l := mem_bytes tt l in
      let core_of t v := match v with VNone => true | VSwhid Core t' _ => beqb t t' | _ => false end in
      match g k_origin with
      | VNone => true
      | VStr s => among [t_snp; t_rel; t_rev; t_dir; t_cnt] && negb (starts_with s_swh_colon s)
      | _ => false end
      && match g k_visit with
         | VNone => true
         | VInt z => among [t_snp; t_rel; t_rev; t_dir; t_cnt] && negb (is_none (g k_origin)) && (0 <? z)%Z
         | _ => false end
      && (is_none (g k_snapshot) || (among [t_rel; t_rev; t_dir; t_cnt] && core_of t_snp (g k_snapshot)))
      && (is_none (g k_release) || (among [t_rev; t_dir; t_cnt] && core_of t_rel (g k_release)))
      && (is_none (g k_revision) || (among [t_dir; t_cnt] && core_of t_rev (g k_revision)))
      && match g k_path with VNone => true | VBytes _ => among [t_dir; t_cnt] | _ => false end
      && (is_none (g k_directory) || (among [t_cnt] && core_of t_dir (g k_directory)))
  | cExtID =>
      negb (negb (is_none (g k_payload_type)) && is_none (g k_payload))
      && negb (negb (is_none (g k_payload)) && is_none (g k_payload_type))
  | _ => true
  end.

(* ------------------------------------------------------------------ converters *)
(* k, v = x *)
Definition pair_of (v : pyval) : result pyval :=
  match v with
  | VTuple [a; b] | VList [a; b] => Ok (VTuple [a; b])
  | VStr [a; b] => Ok (VTuple [VStr [a]; VStr [b]])
  | VBytes [a; b] => Ok (VTuple [VInt (Z.of_N a); VInt (Z.of_N b)])
  | VTuple _ | VList _ | VStr _ | VBytes _ | VDict _ | VIDict _ => Err ValueError
  | _ => Err TypeError
  end.

(* tuplify_extra_headers: tuple((k, v) for k, v in value); a str iterates
   over its characters, bytes over ints, a dict over its keys *)
Definition tuplify_extra_headers (v : pyval) : result pyval :=
  match v with
  | VTuple l | VList l => rbind (rmap pair_of l) (fun l' => Ok (VTuple l'))
  | VStr s => rbind (rmap pair_of (map (fun c => VStr [c]) s)) (fun l' => Ok (VTuple l'))
  | VBytes b => rbind (rmap pair_of (map (fun c => VInt (Z.of_N c)) b)) (fun l' => Ok (VTuple l'))
  | VDict l | VIDict l => rbind (rmap pair_of (map fst l)) (fun l' => Ok (VTuple l'))
  | _ => Err TypeError
  end.

Definition apply_conv (c : conv) (v : pyval) : result pyval :=
  match c with
  | CNone => Ok v
  | CFreeze => match v with VDict l => Ok (VIDict l) | _ => Ok v end        (* freeze_optional_dict *)
  | CTuplifyHeaders => tuplify_extra_headers v
  | CInt =>                                                (* int(v); of a str / bytes only plain decimals are modelled *)
      match v with
      | VInt z => Ok (VInt z)
      | VBool b => Ok (VInt (if b then 1 else 0))
      | VStr s | VBytes s => match parse_dec_Z s with Some z => Ok (VInt z) | None => Err ValueError end
      | _ => Err TypeError
      end
  | CDiscoveryDate =>                                                        (* normalize_discovery_date *)
      match v with
      | VDate us _ => Ok (VDate (us - us mod 1000000) 0)
      | _ => Err TypeError
      end
  end.

(* ------------------------------------------------------------------ the attrs constructor *)
Definition keys_known (s : list field) (kw : dict) : bool :=
  forallb (fun kv => match fst kv with VStr k => mem_bytes k (map fname s) | _ => false end) kw.

Definition bind_field (kw : dict) (f : field) : result (text * pyval) :=
  match dget (fname f) kw with
  | Some v => Ok (fname f, v)
  | None => match fdefault f with Some v => Ok (fname f, v) | None => Err TypeError end
  end.

Definition bind_args (s : list field) (kw : dict) : result fields :=
  if keys_known s kw then rmap (bind_field kw) s else Err TypeError.

Fixpoint convert (s : list field) (fs : fields) : result fields :=
  match s, fs with
  | f :: s', (n, v) :: fs' =>
      match apply_conv (fconv f) v with
      | Ok v' => match convert s' fs' with Ok r => Ok ((n, v') :: r) | Err e => Err e end
      | Err e => Err e
      end
  | _, _ => Ok []
  end.

Fixpoint typecheck (s : list field) (fs : fields) : bool :=
  match s, fs with
  | f :: s', (_, v) :: fs' => (if fgeneric f then has_type (fty f) v else true) && typecheck s' fs'
  | _, _ => true
  end.

Definition validate (c : cls) (fs : fields) : bool := typecheck (schema c) fs && custom c fs.

Section Codec.
  (* the id of an object of class c whose attributes (all but id) are fs;
     computing it may fail (a release without target, an origin URL that does
     not encode) *)
  Variable idf : cls -> fields -> result bytes.
  (* str(swhid) and <kind>SWHID.from_string: abstract pair (property C08) *)
  Variable swhid_str : swhid_kind -> text -> bytes -> text.
  Variable swhid_parse : swhid_kind -> text -> result (text * bytes).
  (* dateutil.parser.parse *)
  Variable dateparse : text -> result pyval.

  (* BaseHashableModel.__attrs_post_init__ *)
  Definition fill_id (c : cls) (fs : fields) : result fields :=
    if hashable c then
      if truthy (fget k_id fs) then Ok fs
      else rbind (idf c (fdel k_id fs)) (fun i => Ok (fset k_id (VBytes i) fs))
    else Ok fs.

  (* Revision.__attrs_post_init__ after the id: extra headers found in a
     non-empty metadata are moved to extra_headers (ImmutableDict.copy_pop),
     the validators run again *)
  Definition migrate_extra_headers (fs : fields) : result fields :=
    match fget k_metadata fs with
    | VIDict (kv :: l) =>
        let md := kv :: l in
        if negb (truthy (fget k_extra_headers fs)) then
          match dget k_extra_headers md with
          | Some eh =>
              rbind (tuplify_extra_headers eh) (fun eh' =>
                let fs' := fset k_extra_headers eh' fs in
                if validate cRevision fs' then Ok (fset k_metadata (VIDict (ddel k_extra_headers md)) fs')
                else Err ValueError)
          | None => Ok fs
          end
        else Ok fs
    | _ => Ok fs
    end.

  Definition post_init (c : cls) (fs : fields) : result fields :=
    rbind (fill_id c fs) (fun fs' =>
      match c with cRevision => migrate_extra_headers fs' | _ => Ok fs' end).

  (* cls( **kw) *)
  Definition construct (c : cls) (kw : dict) : result pyval :=
    rbind (bind_args (schema c) kw) (fun fs0 =>
    rbind (convert (schema c) fs0) (fun fs1 =>
    if validate c fs1 then rbind (post_init c fs1) (fun fs2 => Ok (VObj c fs2)) else Err ValueError)).

  (* ---------------------------------------------------------------- to_dict *)
  Definition elide (ns : list text) (d : dict) : dict :=
    filter (fun kv => negb (match fst kv with VStr k => mem_bytes k ns | _ => false end && is_none (snd kv))) d.

  (* dictify; for a model object this is its to_dict(), overrides included
     (every override only deletes keys whose value is None) *)
  Fixpoint dictify (v : pyval) : pyval :=
    match v with
    | VObj c fs => VDict (elide (elided c) (map (fun nv => (VStr (fst nv), dictify (snd nv))) fs))
    | VSwhid k t i => VStr (swhid_str k t i)
    | VEnum _ s => VStr s
    | VDict l | VIDict l => VDict (map (fun kv => (fst kv, dictify (snd kv))) l)
    | VTuple l => VTuple (map dictify l)
    | _ => v
    end.

  Definition to_dict (v : pyval) : pyval := dictify v.

  (* ---------------------------------------------------------------- dict commands *)
  Record dvar := mkDvar { cur : dict; caller : dict; aliased : bool }.
  Definition dv_init (d : dict) : dvar := mkDvar d d true.

  Definition M (A : Type) := dvar -> result A * dvar.
  Definition ret {A} (a : A) : M A := fun s => (Ok a, s).
  Definition fail {A} (e : err) : M A := fun s => (Err e, s).
  Definition lift {A} (r : result A) : M A := fun s => (r, s).
  Definition bind {A B} (m : M A) (f : A -> M B) : M B :=
    fun s => match m s with (Ok a, s') => f a s' | (Err e, s') => (Err e, s') end.

  (* d = d.copy() / dict(d) / {**d}: the variable now names a fresh dictionary *)
  Definition copy : M unit := fun s => (Ok tt, mkDvar (cur s) (caller s) false).
  (* d.get(k) / k in d *)
  Definition get_opt (k : text) : M (option pyval) := fun s => (Ok (dget k (cur s)), s).
  (* d[k] *)
  Definition get_req (k : text) : M pyval :=
    fun s => (match dget k (cur s) with Some v => Ok v | None => Err KeyError end, s).
  (* d[k] = v *)
  Definition setk (k : text) (v : pyval) : M unit :=
    fun s => (Ok tt, mkDvar (dset k v (cur s)) (if aliased s then dset k v (caller s) else caller s) (aliased s)).
  (* d.pop(k) *)
  Definition pop_req (k : text) : M pyval :=
    fun s => match dget k (cur s) with
             | Some v => (Ok v, mkDvar (ddel k (cur s)) (if aliased s then ddel k (caller s) else caller s) (aliased s))
             | None => (Err KeyError, s)
             end.
  (* d.pop(k, None) *)
  Definition pop_opt (k : text) : M (option pyval) :=
    fun s => (Ok (dget k (cur s)),
              mkDvar (ddel k (cur s)) (if aliased s then ddel k (caller s) else caller s) (aliased s)).
  (* cls( **d) *)
  Definition construct_d (c : cls) : M pyval := fun s => (construct c (cur s), s).
  (* cls(k=v, **d) *)
  Definition construct_with (c : cls) (extra : dict) : M pyval := fun s => (construct c (extra ++ cur s), s).

  Definition run {A} (m : M A) (d : dict) : result A * dict :=
    match m (dv_init d) with (r, s) => (r, caller s) end.

  Notation "x <- m ;; f" := (bind m (fun x => f)) (at level 61, m at next level, right associativity).
  Notation "m ;;; f" := (bind m (fun _ => f)) (at level 61, right associativity).

  (* Enum(value) *)
  Definition enum_of (e : enum_ty) (v : pyval) : result pyval :=
    match v with
    | VStr s => if mem_bytes s (members e) then Ok (VEnum e s) else Err ValueError
    | VEnum e' s =>                      (* Enum(member) is the member itself; a member of another enum is no value *)
        match e, e' with
        | ESnapshotTarget, ESnapshotTarget | EReleaseTarget, EReleaseTarget
        | ERevisionType, ERevisionType | EAuthorityType, EAuthorityType =>
            if mem_bytes s (members e) then Ok (VEnum e s) else Err ValueError
        | _, _ => Err ValueError
        end
    | _ => Err ValueError
    end.

  (* <kind>SWHID.from_string(v) *)
  Definition swhid_of (k : swhid_kind) (v : pyval) : result pyval :=
    match v with
    | VStr s => rbind (swhid_parse k s) (fun p => Ok (VSwhid k (fst p) (snd p)))
    | _ => Err TypeError
    end.

  (* iteration over a Python value *)
  Definition iter_values (v : pyval) : result (list pyval) :=
    match v with
    | VTuple l | VList l => Ok l
    | VDict l | VIDict l => Ok (map fst l)
    | VBytes b => Ok (map (fun c => VInt (Z.of_N c)) b)
    | VStr s => Ok (map (fun c => VStr [c]) s)
    | _ => Err TypeError
    end.

  Definition kw1 (k : text) (v : pyval) : pyval * pyval := (VStr k, v).

  (* a from_dict applied to a value that must be a dictionary *)
  Definition on_dict {A} (e : err) (v : pyval) (m : M A) : result A * pyval :=
    match v with
    | VDict d => match run m d with (r, d') => (r, VDict d') end
    | _ => (Err e, v)
    end.

  (* ---------------------------------------------------------------- from_dict, class by class *)
  (* BaseModel.from_dict: cls( **d) *)
  Definition fd_generic (c : cls) (v : pyval) : result pyval * pyval :=
    on_dict TypeError v (construct_d c).

  Definition bytes_of (v : pyval) : result bytes := match v with VBytes b => Ok b | _ => Err TypeError end.

  Definition fd_Person (v : pyval) : result pyval * pyval :=
    on_dict TypeError v (
      fn <- get_opt k_fullname ;;
      (match fn with
       | Some _ => ret tt
       | None =>
           n <- get_req k_name ;;
           e <- get_req k_email ;;
           parts_n <- lift (match n with VNone => Ok [] | _ => rbind (bytes_of n) (fun b => Ok [b]) end) ;;
           parts_e <- lift (match e with VNone => Ok [] | _ => rbind (bytes_of e) (fun b => Ok [[60] ++ b ++ [62]]) end) ;;
           let fullname := match parts_n ++ parts_e with
                           | [] => [] | [a] => a | a :: b :: _ => a ++ [32] ++ b end in
           copy ;;; setk k_fullname (VBytes fullname)                  (* d = {**d, "fullname": fullname} *)
       end) ;;;
      copy ;;;                                                          (* d = {"name": None, "email": None, **d} *)
      n <- get_opt k_name ;;
      (match n with Some _ => ret tt | None => setk k_name VNone end) ;;;
      e <- get_opt k_email ;;
      (match e with Some _ => ret tt | None => setk k_email VNone end) ;;;
      construct_d cPerson).

  Definition mk_timestamp (sec us : pyval) : result pyval :=
    construct cTimestamp [kw1 k_seconds sec; kw1 k_microseconds us].

  (* f"{'-' if negative else '+'}{hours:02}{minutes:02}".encode() *)
  Definition fmt_offset (offset : Z) (negative : bool) : bytes :=
    let a := Z.to_N (Z.abs offset) in
    (if negative then 45 else 43) :: dec_pad 2 (a / 60) ++ dec_pad 2 (a mod 60).

  (* TimestampWithTimezone._parse_offset_bytes on [+-][0-9]* (what fmt_offset produces) *)
  Definition parse_offset_bytes (b : bytes) : result Z :=
    match b with
    | sgn :: rest =>
        if N.eqb sgn 43 || N.eqb sgn 45 then
          let sign := if N.eqb sgn 45 then (-1)%Z else 1%Z in
          let n := List.length rest in
          let hm := if Nat.leb n 2 then (parse_dec_N rest, Some 0)
                    else (parse_dec_N (firstn (n - 2) rest), parse_dec_N (skipn (n - 2) rest)) in
          match hm with
          | (Some h, Some m) =>
              let off := (sign * Z.of_N (h * 60 + m))%Z in
              if (m <=? 59) && (-32768 <=? off)%Z && (off <? 32768)%Z then Ok off else Ok 0%Z
          | _ => Err ValueError
          end
        else Err AssertionError
    | [] => Err ValueError          (* IndexError is not produced on formatted offsets *)
    end.

  (* TimestampWithTimezone.from_numeric_offset *)
  Definition from_numeric_offset (ts : pyval) (offset : pyval) (negative_utc : bool) : result pyval :=
    match offset with
    | VInt _ | VBool _ =>
        let off := int_of offset in
        let negative := (off <? 0)%Z || negative_utc in
        let ob := fmt_offset off negative in
        rbind (construct cTimestampWithTimezone [kw1 k_timestamp ts; kw1 k_offset_bytes (VBytes ob)]) (fun o =>
        rbind (parse_offset_bytes ob) (fun back =>
        if Z.eqb back off then Ok o else Err AssertionError))
    | _ => Err TypeError
    end.

  Definition fd_TimestampWithTimezone (v : pyval) : result pyval * pyval :=
    match v with
    | VDict _ =>
        on_dict TypeError v (
          ts <- get_req k_timestamp ;;
          su <- lift (match ts with
                      | VDict t => Ok (match dget k_seconds t with Some x => x | None => VInt 0 end,
                                       match dget k_microseconds t with Some x => x | None => VInt 0 end)
                      | VInt _ | VBool _ => Ok (ts, VInt 0)
                      | _ => Err ValueError
                      end) ;;
          timestamp <- lift (mk_timestamp (fst su) (snd su)) ;;
          ob <- get_opt k_offset_bytes ;;
          match ob with
          | Some b => lift (construct cTimestampWithTimezone [kw1 k_timestamp timestamp; kw1 k_offset_bytes b])
          | None =>
              offset <- get_req k_offset ;;
              nu <- get_opt k_negative_utc ;;
              lift (from_numeric_offset timestamp offset (match nu with Some x => truthy x | None => false end))
          end)
    | VDate us off =>
        (rbind (mk_timestamp (VInt (us / 1000000)) (VInt (us mod 1000000))) (fun ts =>
           from_numeric_offset ts (VInt (Z.quot off 1000000 / 60)) false), v)
    | VInt _ | VBool _ =>
        (rbind (mk_timestamp v (VInt 0)) (fun ts =>
           construct cTimestampWithTimezone [kw1 k_timestamp ts; kw1 k_offset_bytes (VBytes [43; 48; 48; 48; 48])]), v)
    | _ => (Err ValueError, v)
    end.

  Definition fd_SnapshotBranch (v : pyval) : result pyval * pyval :=
    on_dict TypeError v (
      t <- get_req k_target ;;
      tt <- get_req k_target_type ;;
      e <- lift (enum_of ESnapshotTarget tt) ;;
      lift (construct cSnapshotBranch [kw1 k_target t; kw1 k_target_type e])).

  Definition items_of (v : pyval) : result dict :=
    match v with VDict l | VIDict l => Ok l | _ => Err AttributeError end.

  Definition fd_Snapshot (v : pyval) : result pyval * pyval :=
    on_dict AttributeError v (
      copy ;;;
      b <- pop_req k_branches ;;
      items <- lift (items_of b) ;;
      br <- lift (rmap (fun kv => if truthy (snd kv)
                                  then rbind (fst (fd_SnapshotBranch (snd kv))) (fun o => Ok (fst kv, o))
                                  else Ok (fst kv, VNone)) items) ;;
      construct_with cSnapshot [kw1 k_branches (VIDict br)]).

  (* if d.get(k): d[k] = decode(d[k]) *)
  Definition decode_if_truthy (k : text) (decode : pyval -> result pyval * pyval) : M unit :=
    x <- get_opt k ;;
    match x with
    | Some a => if truthy a then (o <- lift (fst (decode a)) ;; setk k o) else ret tt
    | None => ret tt
    end.

  Definition fd_Release (v : pyval) : result pyval * pyval :=
    on_dict AttributeError v (
      copy ;;;
      decode_if_truthy k_author fd_Person ;;;
      decode_if_truthy k_date fd_TimestampWithTimezone ;;;
      tt <- pop_req k_target_type ;;
      e <- lift (enum_of EReleaseTarget tt) ;;
      construct_with cRelease [kw1 k_target_type e]).

  (* x = d.pop(k); if x: x = decode(x) *)
  Definition pop_decode (k : text) (decode : pyval -> result pyval * pyval) : M pyval :=
    x <- pop_req k ;;
    if truthy x then lift (fst (decode x)) else ret x.

  Definition fd_Revision (v : pyval) : result pyval * pyval :=
    on_dict AttributeError v (
      copy ;;;
      date <- pop_decode k_date fd_TimestampWithTimezone ;;
      cdate <- pop_decode k_committer_date fd_TimestampWithTimezone ;;
      author <- pop_decode k_author fd_Person ;;
      committer <- pop_decode k_committer fd_Person ;;
      ty <- pop_req k_type ;;
      e <- lift (enum_of ERevisionType ty) ;;
      ps <- pop_req k_parents ;;
      pl <- lift (iter_values ps) ;;
      construct_with cRevision [kw1 k_author author; kw1 k_committer committer; kw1 k_date date;
                                kw1 k_committer_date cdate; kw1 k_type e; kw1 k_parents (VTuple pl)]).

  Definition fd_Directory (v : pyval) : result pyval * pyval :=
    on_dict AttributeError v (
      copy ;;;
      es <- pop_req k_entries ;;
      el <- lift (iter_values es) ;;
      entries <- lift (rmap (fun e => fst (fd_generic cDirectoryEntry e)) el) ;;
      construct_with cDirectory [kw1 k_entries (VTuple entries)]).

  Definition fd_Content (v : pyval) : result pyval * pyval :=
    on_dict AttributeError v (
      ct <- get_opt k_ctime ;;
      (match ct with
       | Some (VStr s) => copy ;;; (dt <- lift (dateparse s) ;; setk k_ctime dt)
       | _ => ret tt
       end) ;;;
      construct_d cContent).

  Definition fd_SkippedContent (v : pyval) : result pyval * pyval :=
    on_dict AttributeError v (
      copy ;;;
      dt <- pop_opt k_data ;;
      match dt with
      | Some x => if is_none x then construct_d cSkippedContent else fail ValueError
      | None => construct_d cSkippedContent
      end).

  (* BaseContent.from_dict(d) dispatches on d["status"] *)
  Definition fd_BaseContent (v : pyval) : result pyval * pyval :=
    match v with
    | VDict d => match dget k_status d with
                 | Some (VStr s) => if beqb s s_absent then fd_SkippedContent v else fd_Content v
                 | Some _ => fd_Content v
                 | None => (Err KeyError, v)
                 end
    | _ => (Err TypeError, v)
    end.

  Definition fd_MetadataAuthority (v : pyval) : result pyval * pyval :=
    on_dict TypeError v (
      t <- get_req k_type ;;
      e <- lift (enum_of EAuthorityType t) ;;
      copy ;;; setk k_type e ;;;                      (* d = {**d, "type": ...} *)
      construct_d cMetadataAuthority).

  (* str(Origin(url).swhid()) *)
  Definition origin_swhid_str (url : pyval) : result pyval :=
    rbind (construct cOrigin [kw1 k_url url]) (fun o =>
      match o with
      | VObj _ fs => match fget k_id fs with
                     | VBytes i => if Nat.eqb (List.length i) 20 then Ok (VStr (swhid_str Extended t_ori i))
                                   else Err ValidationError
                     | _ => Err TypeError
                     end
      | _ => Err TypeError
      end).

  (* if d.get(k): d[k] = CoreSWHID.from_string(d[k]) *)
  Definition decode_swhid_if_truthy (k : text) : M unit :=
    x <- get_opt k ;;
    match x with
    | Some s => if truthy s then (w <- lift (swhid_of Core s) ;; setk k w) else ret tt
    | None => ret tt
    end.

  Definition rem_tail : M pyval :=
    t <- get_req k_target ;;
    t' <- lift (swhid_of Extended t) ;;
    a <- get_req k_authority ;;
    a' <- lift (fst (fd_MetadataAuthority a)) ;;
    f <- get_req k_fetcher ;;
    f' <- lift (fst (fd_generic cMetadataFetcher f)) ;;
    copy ;;; setk k_target t' ;;; setk k_authority a' ;;; setk k_fetcher f' ;;;      (* d = {**d, ...} *)
    fold_right (fun k (rest : M unit) => decode_swhid_if_truthy k ;;; rest)
               (ret tt) [k_snapshot; k_release; k_revision; k_directory] ;;;
    construct_d cRawExtrinsicMetadata.

  (* legacy schema: "type" key, origin URL as target.  [copy_first] = true is
     the code as it is now (d = dict(d)); false is the code before the fix *)
  Definition rem_legacy (copy_first : bool) : M unit :=
    ty <- get_opt k_type ;;
    match ty with
    | Some _ =>
        (if copy_first then copy else ret tt) ;;;
        type_ <- pop_req k_type ;;
        (match type_ with
         | VStr s => if beqb s s_origin
                     then (u <- get_req k_target ;; w <- lift (origin_swhid_str u) ;; setk k_target w)
                     else ret tt
         | _ => ret tt
         end)
    | None => ret tt
    end.

  Definition fd_RawExtrinsicMetadata (v : pyval) : result pyval * pyval :=
    on_dict TypeError v (rem_legacy true ;;; rem_tail).
  Definition fd_RawExtrinsicMetadata_old (v : pyval) : result pyval * pyval :=
    on_dict TypeError v (rem_legacy false ;;; rem_tail).

  Definition get_default (k : text) (dflt : pyval) : M pyval :=
    x <- get_opt k ;; ret (match x with Some y => y | None => dflt end).

  (* [with_id] = true is the code as it is now (id=d.get("id", b"")) *)
  Definition extid_prog (with_id : bool) : M pyval :=
    e <- get_req k_extid ;;
    et <- get_req k_extid_type ;;
    t <- get_req k_target ;;
    t' <- lift (swhid_of Core t) ;;
    ver <- get_default k_extid_version (VInt 0) ;;
    pt <- get_default k_payload_type VNone ;;
    p <- get_default k_payload VNone ;;
    i <- get_default k_id (VBytes []) ;;
    lift (construct cExtID ([kw1 k_extid e; kw1 k_extid_type et; kw1 k_target t'; kw1 k_extid_version ver;
                             kw1 k_payload_type pt; kw1 k_payload p]
                            ++ if with_id then [kw1 k_id i] else [])).

  Definition fd_ExtID (v : pyval) : result pyval * pyval := on_dict TypeError v (extid_prog true).
  Definition fd_ExtID_old (v : pyval) : result pyval * pyval := on_dict TypeError v (extid_prog false).

  (* cls.from_dict(v): the decoded object and the caller's value afterwards *)
  Definition from_dict (c : cls) (v : pyval) : result pyval * pyval :=
    match c with
    | cPerson => fd_Person v
    | cTimestampWithTimezone => fd_TimestampWithTimezone v
    | cSnapshotBranch => fd_SnapshotBranch v
    | cSnapshot => fd_Snapshot v
    | cRelease => fd_Release v
    | cRevision => fd_Revision v
    | cDirectory => fd_Directory v
    | cContent => fd_Content v
    | cSkippedContent => fd_SkippedContent v
    | cMetadataAuthority => fd_MetadataAuthority v
    | cRawExtrinsicMetadata => fd_RawExtrinsicMetadata v
    | cExtID => fd_ExtID v
    | cTimestamp | cOrigin | cOriginVisit | cOriginVisitStatus | cDirectoryEntry | cMetadataFetcher => fd_generic c v
    end.

  (* the code before the two fixes, kept as mutants *)
  Definition from_dict_old (c : cls) (v : pyval) : result pyval * pyval :=
    match c with
    | cRawExtrinsicMetadata => fd_RawExtrinsicMetadata_old v
    | cExtID => fd_ExtID_old v
    | _ => from_dict c v
    end.
End Codec.

(* ------------------------------------------------------------------ a concrete SWHID printer / parser for execution *)
Definition swhid_str_c (k : swhid_kind) (tag : text) (oid : bytes) : text :=
  SWHID_NAMESPACE ++ SWHID_SEP ++ [49] ++ SWHID_SEP ++ tag ++ SWHID_SEP ++ hexlify oid.

Definition swhid_parse_c (k : swhid_kind) (s : text) : result (text * bytes) :=
  match strip_prefix (SWHID_NAMESPACE ++ SWHID_SEP ++ [49] ++ SWHID_SEP) s with
  | Some r =>
      match cut 58 r with
      | (tag, Some h) =>
          if mem_bytes tag (swhid_tags k) then
            match unhex h with
            | Some oid => if Nat.eqb (List.length oid) 20 && forallb is_lower_hex h then Ok (tag, oid) else Err ValidationError
            | None => Err ValidationError
            end
          else Err ValidationError
      | _ => Err ValidationError
      end
  | None => Err ValidationError
  end.

Definition dateparse_none (s : text) : result pyval := Err ValueError.

(* entry points of the driver: the id oracle answers with a constant *)
Definition construct_x (oid : result bytes) (origin_id : result bytes) :=
  construct (fun c _ => match c with cOrigin => origin_id | _ => oid end).
Definition to_dict_x := to_dict swhid_str_c.
Definition from_dict_x (oid origin_id : result bytes) :=
  from_dict (fun c _ => match c with cOrigin => origin_id | _ => oid end) swhid_str_c swhid_parse_c dateparse_none.
Definition from_dict_old_x (oid origin_id : result bytes) :=
  from_dict_old (fun c _ => match c with cOrigin => origin_id | _ => oid end) swhid_str_c swhid_parse_c dateparse_none.
Definition fd_BaseContent_x (oid : result bytes) :=
  fd_BaseContent (fun _ _ => oid) dateparse_none.
(* the same with dateutil's answer for the textual ctime of the case given as an oracle *)
Definition from_dict_xd (oid origin_id : result bytes) (dp : result pyval) :=
  from_dict (fun c _ => match c with cOrigin => origin_id | _ => oid end) swhid_str_c swhid_parse_c (fun _ => dp).
Definition fd_BaseContent_xd (oid : result bytes) (dp : result pyval) :=
  fd_BaseContent (fun _ _ => oid) (fun _ => dp).

(* ------------------------------------------------------------------ examples *)

(* ------------------------------------------------------------------ specification-level definitions *)
(* Which values are objects of the model classes (the quantifier of C12):
   [conforms t v]: v has the declared type t of its field, in depth (the
   validators only check isinstance); metadata values (object / Any) are plain
   values, a callable get_data is excluded (DESIGN 7). *)
Fixpoint conforms (t : ty) (v : pyval) {struct t} : Prop :=
  match t with
  | TAny | TObject => plain v = true
  | TOpt t' => v = VNone \/ conforms t' v
  | TTupleOf t' => exists l, v = VTuple l /\ Forall (conforms t') l
  | TIDict kt vt => exists l, v = VIDict l /\ Forall (fun kv => conforms kt (fst kv) /\ conforms vt (snd kv)) l
  | TCallable => False
  | _ => has_type t v = true
  end.

Section Spec.
  Variable idf : cls -> fields -> result bytes.

  (* [wf v]: v is (built from) model objects as they exist after construction:
     an object's attribute list has the names of its schema, is a fixed point of
     its own constructor (converters already applied, validators pass,
     __attrs_post_init__ changes nothing), its attributes have their declared
     types and are well formed themselves. *)
  Fixpoint wf (v : pyval) : Prop :=
    match v with
    | VObj c fs =>
        map fst fs = names c
        /\ construct idf c (as_kwargs fs) = Ok (VObj c fs)
        /\ Forall2 (fun f nv => conforms (fty f) (snd nv)) (schema c) fs
        /\ (fix all (l : fields) : Prop := match l with [] => True | nv :: r => wf (snd nv) /\ all r end) fs
    | VTuple l => (fix all (l : list pyval) : Prop := match l with [] => True | x :: r => wf x /\ all r end) l
    | VList l => plain (VList l) = true
    | VDict l | VIDict l =>
        (fix all (l : dict) : Prop :=
           match l with [] => True | kv :: r => plain (fst kv) = true /\ wf (snd kv) /\ all r end) l
    | VEnum e s => In s (members e)
    | VSwhid k t i => In t (swhid_tags k) /\ List.length i = 20%nat /\ wf_bytes i = true
    | _ => True
    end.
End Spec.
