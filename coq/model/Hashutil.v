(* C01 - model of swh/model/hashutil.py (MultiHash, _new_hash, git_object_header,
   hash_git_data) and of the content constructors built on it
   (model.BaseContent._hash_data / Content.from_data / SkippedContent.from_data,
   from_disk.Content.from_bytes / from_symlink / from_file,
   git_objects.content_git_object, cli.swhid_of_file / swhid_of_file_content).

   Conventions (DESIGN.md section 3):
   - a hashlib object is its abstract state "bytes fed so far"; [update]
     appends, [digest] applies the hash oracle [H : algo -> bytes -> bytes];
     hashlib's [copy()] yields an independent object, i.e. an equal VALUE in a
     new cell;
   - MultiHash objects are mutable: they live in a store (list of cells)
     addressed by nat handles; aliasing = equal handles;
   - the `while True` loop of [from_file] runs on explicit fuel;
   - what [fobj.read(HASH_BLOCK_SIZE)] returns is an oracle: a list of read
     outcomes.  [file_reads] is the behaviour of a file-like object over some
     data with an arbitrary short-read schedule (BytesIO and regular files are
     the empty schedule: always min(block, remaining) bytes).
   Definitions only; the proofs are in proofs/HashutilProofs.v. *)
From Coq Require Import List NArith Bool Arith.
From SWH.lib Require Import Bytes Dec GitHeader Hex Sha1.
From SWH Require Import Generated.
Import ListNotations.
Open Scope N_scope.

(* ------------------------------------------------------------------ errors *)
Inductive err :=
  | ValueError | TypeError | KeyError | AttributeError
  | MissingData          (* swh.model.model.MissingData *)
  | OtherException       (* the bare `Exception` of from_disk.Content.from_file *)
  | OutOfFuel            (* model artefact: proved impossible *)
  | ReaderExhausted      (* model artefact: the list of read outcomes ended before an empty read *)
  | BadHandle.           (* model artefact: a handle outside the store *)

Inductive result (A : Type) := Ok (a : A) | Err (e : err).
Arguments Ok {A} a.
Arguments Err {A} e.

(* ------------------------------------------------------------------ names *)
Definition LENGTH : bytes := bs "length".
Definition BLOB : bytes := bs "blob".
Definition GIT_SUFFIX : bytes := bs "_git".
Definition SHA1 : bytes := bs "sha1".
Definition SHA1_GIT : bytes := bs "sha1_git".
Definition SHA256 : bytes := bs "sha256".
Definition BLAKE2S256 : bytes := bs "blake2s256".

(* str.endswith *)
Definition ends_with (suf l : bytes) : bool :=
  beqb (skipn (length l - length suf) l) suf.
(* algo[:-4] *)
Definition strip4 (a : bytes) : bytes := firstn (length a - 4) a.
(* the hashlib algorithm an entry of the state dict is computed with *)
Definition base_algo (a : bytes) : bytes := if ends_with GIT_SUFFIX a then strip4 a else a.

(* hashutil.git_object_header *)
Definition git_object_header (ty : bytes) (n : N) : result bytes :=
  if mem_bytes ty GIT_OBJECT_TYPES then Ok (git_header ty n) else Err ValueError.

(* hashutil._new_hash: the initial state of the new hashlib object *)
Definition new_hash (a : bytes) (length : option N) : result bytes :=
  if negb (mem_bytes a ALGORITHMS) then Err ValueError
  else if ends_with GIT_SUFFIX a then
    match length with
    | None => Err ValueError
    | Some n => git_object_header BLOB n          (* h = new(base); h.update(header) *)
    end
  else Ok [].

(* ------------------------------------------------------------------ one MultiHash object *)
(* self.state without its "length" entry / self.track_length / self.state["length"] *)
Record cell := mkCell { fed : list (bytes * bytes); track : bool; len : N }.

Fixpoint lookup (a : bytes) (l : list (bytes * bytes)) : option bytes :=
  match l with
  | [] => None
  | (b, v) :: t => if beqb a b then Some v else lookup a t
  end.

(* d[a] = v on a Python dict: replace in place, else append *)
Fixpoint set_key (a v : bytes) (l : list (bytes * bytes)) : list (bytes * bytes) :=
  match l with
  | [] => [(a, v)]
  | (b, w) :: t => if beqb a b then (a, v) :: t else (b, w) :: set_key a v t
  end.

Definition empty_cell : cell := mkCell [] false 0.

(* MultiHash.__init__: the loop over hash_names, in iteration order *)
Fixpoint init_cell (names : list bytes) (length : option N) (c : cell) : result cell :=
  match names with
  | [] => Ok c
  | a :: rest =>
      if beqb a LENGTH then init_cell rest length (mkCell (fed c) true 0)
      else match new_hash a length with
           | Ok f => init_cell rest length (mkCell (set_key a f (fed c)) (track c) (len c))
           | Err e => Err e
           end
  end.

(* MultiHash.update *)
Definition cell_update (c : cell) (chunk : bytes) : cell :=
  mkCell (map (fun kv => (fst kv, snd kv ++ chunk)) (fed c)) (track c)
         (if track c then len c + lenN chunk else len c).

(* hashlib's copy() per entry: an equal value *)
Definition cell_copy (c : cell) : cell :=
  mkCell (map (fun kv => (fst kv, snd kv)) (fed c)) (track c) (len c).

(* MultiHash.digest(): {name: digest} and the "length" entry when tracked *)
Definition digest_t := (list (bytes * bytes) * option N)%type.

Section WithHash.
  Variable H : bytes -> bytes -> bytes.      (* hashlib algorithm name -> data -> digest; uninterpreted *)

  Definition cell_digest (c : cell) : digest_t :=
    (map (fun kv => (fst kv, H (base_algo (fst kv)) (snd kv))) (fed c),
     if track c then Some (len c) else None).
End WithHash.

(* ------------------------------------------------------------------ the store of MultiHash objects *)
Definition store := list cell.

Fixpoint set_nth {A : Type} (n : nat) (x : A) (l : list A) : list A :=
  match l, n with
  | [], _ => []
  | _ :: t, O => x :: t
  | y :: t, S k => y :: set_nth k x t
  end.

(* MultiHash(hash_names, length) *)
Definition mh_new (st : store) (names : list bytes) (length : option N) : result (store * nat) :=
  match init_cell names length empty_cell with
  | Ok c => Ok (st ++ [c], List.length st)
  | Err e => Err e
  end.

Definition mh_update (st : store) (h : nat) (chunk : bytes) : option store :=
  match nth_error st h with
  | Some c => Some (set_nth h (cell_update c chunk) st)
  | None => None
  end.

Fixpoint mh_update_all (st : store) (h : nat) (chunks : list bytes) : option store :=
  match chunks with
  | [] => Some st
  | ch :: rest => match mh_update st h ch with Some st' => mh_update_all st' h rest | None => None end
  end.

Definition mh_digest (H : bytes -> bytes -> bytes) (st : store) (h : nat) : option digest_t :=
  option_map (cell_digest H) (nth_error st h).

(* MultiHash.from_state(state, track_length): allocates the object and returns
   ... what the code returns.  [from_state_new] is the code as it is now
   (`return ret`); [from_state_old] is the code before the fix (no return
   statement: the caller gets None). *)
Definition from_state_t := store -> cell -> store * option nat.
Definition from_state_new : from_state_t := fun st c => (st ++ [c], Some (List.length st)).
Definition from_state_old : from_state_t := fun st c => (st ++ [c], None).

(* MultiHash.copy *)
Definition mh_copy_with (fs : from_state_t) (st : store) (h : nat) : option (store * option nat) :=
  match nth_error st h with
  | Some c => Some (fs st (cell_copy c))
  | None => None
  end.
Definition mh_copy := mh_copy_with from_state_new.
Definition mh_copy_old := mh_copy_with from_state_old.

(* ------------------------------------------------------------------ from_file: the read loop *)
(* while True: chunk = fobj.read(HASH_BLOCK_SIZE); if not chunk: break; ret.update(chunk) *)
Fixpoint read_loop (fuel : nat) (c : cell) (reads : list bytes) : result cell :=
  match fuel with
  | O => Err OutOfFuel
  | S f =>
      match reads with
      | [] => Err ReaderExhausted
      | [] :: _ => Ok c
      | chunk :: rest => read_loop f (cell_update c chunk) rest
      end
  end.

(* MultiHash.from_file over an arbitrary sequence of read outcomes *)
Definition from_file_reads (names : list bytes) (length : option N) (fuel : nat) (reads : list bytes)
  : result cell :=
  match init_cell names length empty_cell with
  | Ok c => read_loop fuel c reads
  | Err e => Err e
  end.

(* The contract of a file-like object opened on [data] and read with
   read(block): non-empty prefixes of what remains, at most [block] bytes
   each, then an empty read at end of file. *)
Definition reader_contract (block : N) (data : bytes) (reads : list bytes) : Prop :=
  exists rs tail, reads = rs ++ [] :: tail /\ concat rs = data /\
                  Forall (fun r => r <> [] /\ lenN r <= block) rs.

(* A file-like object over [remaining] with a short-read schedule: the k-th
   read returns min(sched[k]+1, block, remaining) bytes; when the schedule is
   used up reads are full (min(block, remaining)): BytesIO, regular files. *)
Fixpoint file_reads_nat (fuel : nat) (blk : nat) (remaining : bytes) (sched : list nat) : list bytes :=
  match fuel with
  | O => []
  | S f =>
      let want := match sched with [] => blk | k :: _ => Nat.min (S k) blk end in
      match firstn want remaining with
      | [] => [[]]
      | chunk => chunk :: file_reads_nat f blk (skipn want remaining) (tl sched)
      end
  end.
Definition file_reads (block : N) (data : bytes) (sched : list nat) : list bytes :=
  file_reads_nat (S (List.length data)) (N.to_nat block) data sched.

Definition from_file_obj (block : N) (names : list bytes) (length : option N) (data : bytes) (sched : list nat)
  : result cell :=
  from_file_reads names length (S (List.length data)) (file_reads block data sched).

(* MultiHash.from_file / from_path / from_data with the module's HASH_BLOCK_SIZE.
   from_path: length = os.path.getsize(path) = the size of the file that is
   then read; from_data: a BytesIO. *)
Definition mh_from_file (names : list bytes) (length : option N) (data : bytes) (sched : list nat) :=
  from_file_obj HASH_BLOCK_SIZE names length data sched.
Definition mh_from_path (names : list bytes) (data : bytes) (sched : list nat) :=
  mh_from_file names (Some (lenN data)) data sched.
Definition mh_from_data (names : list bytes) (data : bytes) :=
  mh_from_file names (Some (lenN data)) data [].
(* h = MultiHash(names, length); for chunk in chunks: h.update(chunk) *)
Definition mh_chunked (names : list bytes) (length : option N) (chunks : list bytes) : result cell :=
  match init_cell names length empty_cell with
  | Ok c => Ok (fold_left cell_update chunks c)
  | Err e => Err e
  end.

(* ------------------------------------------------------------------ content constructors *)
Record content := mkContent {
  c_sha1 : bytes; c_sha1_git : bytes; c_sha256 : bytes; c_blake2s256 : bytes; c_length : N }.

Definition FOUR : list bytes := [SHA1; SHA1_GIT; SHA256; BLAKE2S256].

(* reading the four digests out of a dict; [missing] is the error of a missing key *)
Definition content_of_dict (missing : err) (d : list (bytes * bytes)) (n : N) : result content :=
  match lookup SHA1 d, lookup SHA1_GIT d, lookup SHA256 d, lookup BLAKE2S256 d with
  | Some a, Some b, Some c, Some e => Ok (mkContent a b c e n)
  | _, _, _, _ => Err missing
  end.

Inductive fsobj :=
  | FReg (data : bytes) (sched : list nat)     (* regular file; how its reads come back *)
  | FSymlink (target : bytes)                  (* os.readlink *)
  | FOther.                                    (* fifo, socket, device ... *)

Section WithHash2.
  Variable H : bytes -> bytes -> bytes.

  (* hashutil.hash_git_data(data, git_type, base_algo) *)
  Definition hash_git_data (data ty base : bytes) : result bytes :=
    match git_object_header ty (lenN data) with
    | Ok hdr => Ok (H base (hdr ++ data))       (* h.update(header); h.update(data) *)
    | Err e => Err e
    end.

  (* MultiHash.from_data(data).digest() *)
  Definition default_digest (data : bytes) : result (list (bytes * bytes)) :=
    match mh_from_data DEFAULT_ALGORITHMS data with
    | Ok c => Ok (fst (cell_digest H c))
    | Err e => Err e
    end.

  (* BaseContent._hash_data then the class constructor on the dict as keyword arguments: the attrs classes accept exactly
     the four digests (any other key, or a missing one, is a TypeError) *)
  Definition model_hash_data (data : bytes) : result content :=
    match default_digest data with
    | Ok d => if forallb (fun kv => mem_bytes (fst kv) FOUR) d
              then content_of_dict TypeError d (lenN data) else Err TypeError
    | Err e => Err e
    end.
  Definition model_content_from_data := model_hash_data.        (* model.Content.from_data *)
  Definition model_skipped_from_data := model_hash_data.        (* model.SkippedContent.from_data (reason given) *)

  (* from_disk.Content.from_bytes; observed through .data[...] (KeyError if absent) *)
  Definition disk_from_bytes (data : bytes) : result content :=
    match default_digest data with
    | Ok d => content_of_dict KeyError d (lenN data)
    | Err e => Err e
    end.

  (* from_disk.Content.from_file(path, max_content_length): (content, status == "absent") *)
  Definition disk_from_file (o : fsobj) (maxlen : option N) : result (content * bool) :=
    let too_large (n : N) := match maxlen with Some m => m <? n | None => false end in
    match o with
    | FSymlink target =>
        if too_large (lenN target) then Err OtherException
        else match disk_from_bytes target with Ok c => Ok (c, false) | Err e => Err e end
    | FOther => match disk_from_bytes [] with Ok c => Ok (c, false) | Err e => Err e end
    | FReg data sched =>
        match mh_from_path DEFAULT_ALGORITHMS data sched with
        | Ok c => match content_of_dict KeyError (fst (cell_digest H c)) (lenN data) with
                  | Ok r => Ok (r, too_large (lenN data))
                  | Err e => Err e
                  end
        | Err e => Err e
        end
    end.

  (* str(CoreSWHID(object_type=CONTENT, object_id=...)) *)
  Definition swhid_text (id : bytes) : bytes := bs "swh:1:cnt:" ++ hexlify id.

  (* cli.swhid_of_file / cli.swhid_of_file_content *)
  Definition cli_swhid_of_file (o : fsobj) : result bytes :=
    match disk_from_file o None with
    | Ok (c, _) => Ok (swhid_text (c_sha1_git c))
    | Err e => Err e
    end.
  Definition cli_swhid_of_file_content (data : bytes) : result bytes :=
    match disk_from_bytes data with
    | Ok c => Ok (swhid_text (c_sha1_git c))
    | Err e => Err e
    end.
End WithHash2.

(* git_objects.content_git_object(content) *)
Definition content_git_object (data : option bytes) : result bytes :=
  match data with
  | None => Err MissingData
  | Some d => match git_object_header BLOB (lenN d) with
              | Ok hdr => Ok (hdr ++ d)
              | Err e => Err e
              end
  end.

(* ------------------------------------------------------------------ specification-level definitions *)
(* git's blob object for the bytes d: "blob <decimal length>\0" d *)
Definition blob_manifest (d : bytes) : bytes := bs "blob " ++ dec_N (lenN d) ++ [0] ++ d.

(* what a state entry named [a] is pre-fed with, for a declared length *)
Definition prefix (a : bytes) (length : option N) : bytes :=
  if ends_with GIT_SUFFIX a then match length with Some n => git_header BLOB n | None => [] end else [].

(* the entries a MultiHash over [names] has *)
Definition requested (names : list bytes) (a : bytes) : bool := mem_bytes a names && negb (beqb a LENGTH).

(* "the object has consumed exactly [data]" *)
Definition cell_spec (names : list bytes) (length : option N) (data : bytes) (c : cell) : Prop :=
  (forall a, lookup a (fed c) = if requested names a then Some (prefix a length ++ data) else None)
  /\ track c = mem_bytes LENGTH names
  /\ len c = (if mem_bytes LENGTH names then lenN data else 0).

(* the digests of a MultiHash over [names] that has consumed [data] *)
Definition digest_spec (H : bytes -> bytes -> bytes) (names : list bytes) (length : option N) (data : bytes)
                       (d : digest_t) : Prop :=
  (forall a, lookup a (fst d) =
             if requested names a then Some (H (base_algo a) (prefix a length ++ data)) else None)
  /\ snd d = (if mem_bytes LENGTH names then Some (lenN data) else None).

(* the content record the property prescribes *)
Definition expected (H : bytes -> bytes -> bytes) (data : bytes) : content :=
  mkContent (H SHA1 data) (H SHA1 (blob_manifest data)) (H SHA256 data) (H BLAKE2S256 data) (lenN data).

(* the record read out of a MultiHash digest over DEFAULT_ALGORITHMS + "length" *)
Definition content_of_digest (d : digest_t) : option content :=
  match snd d with
  | Some n => match content_of_dict KeyError (fst d) n with Ok c => Some c | Err _ => None end
  | None => None
  end.
Definition NAMES5 : list bytes := LENGTH :: DEFAULT_ALGORITHMS.

(* valid arguments of MultiHash(...) *)
Definition names_ok (names : list bytes) (length : option N) : bool :=
  forallb (fun a => beqb a LENGTH ||
                    (mem_bytes a ALGORITHMS &&
                     (negb (ends_with GIT_SUFFIX a) || match length with Some _ => true | None => false end)))
          names.

(* ------------------------------------------------------------------ running the model *)
(* Hash oracles for execution.  [Hsym] is the free one: the "digest" records
   the algorithm and the bytes fed ("algo:fed"); the harness applies hashlib
   to it.  [Hexec] computes real SHA-1 for "sha1" and is symbolic elsewhere. *)
Definition Hsym (algo data : bytes) : bytes := algo ++ [58] ++ data.
Definition Hexec (algo data : bytes) : bytes := if beqb algo SHA1 then sha1 data else Hsym algo data.

(* presentation: x as (p, true) when x = p ++ data (proved), else (x, false) *)
Definition view (data x : bytes) : bytes * bool :=
  let k := (List.length x - List.length data)%nat in
  match data with
  | [] => (x, false)
  | _ => if beqb (skipn k x) data then (firstn k x, true) else (x, false)
  end.

(* scripts over the store: Python variables v0, v1, ... hold what the
   constructor / copy() returned (None for the old from_state) *)
Inductive op :=
  | ONew (names : list bytes) (length : option N)
  | OUpdate (v : nat) (chunk : bytes)
  | OCopy (v : nat)
  | ODigest (v : nat).

Inductive event := EvDone | EvDigest (d : digest_t) | EvErr (e : err).

Section Script.
  Variable H : bytes -> bytes -> bytes.
  Variable fs : from_state_t.

  (* one statement; None-valued variable: AttributeError, as in Python *)
  Definition step (st : store) (vars : list (option nat)) (o : op) : store * list (option nat) * event :=
    match o with
    | ONew names length =>
        match mh_new st names length with
        | Ok (st', h) => (st', vars ++ [Some h], EvDone)
        | Err e => (st, vars, EvErr e)
        end
    | OUpdate v chunk =>
        match nth_error vars v with
        | Some (Some h) => match mh_update st h chunk with
                           | Some st' => (st', vars, EvDone)
                           | None => (st, vars, EvErr BadHandle)
                           end
        | Some None => (st, vars, EvErr AttributeError)
        | None => (st, vars, EvErr BadHandle)
        end
    | OCopy v =>
        match nth_error vars v with
        | Some (Some h) => match mh_copy_with fs st h with
                           | Some (st', r) => (st', vars ++ [r], EvDone)
                           | None => (st, vars, EvErr BadHandle)
                           end
        | Some None => (st, vars, EvErr AttributeError)
        | None => (st, vars, EvErr BadHandle)
        end
    | ODigest v =>
        match nth_error vars v with
        | Some (Some h) => match mh_digest H st h with
                           | Some d => (st, vars, EvDigest d)
                           | None => (st, vars, EvErr BadHandle)
                           end
        | Some None => (st, vars, EvErr AttributeError)
        | None => (st, vars, EvErr BadHandle)
        end
    end.

  (* the script stops at the first exception *)
  Fixpoint run_script (st : store) (vars : list (option nat)) (ops : list op) : list event :=
    match ops with
    | [] => []
    | o :: rest =>
        match step st vars o with
        | (_, _, EvErr e) => [EvErr e]
        | (st', vars', ev) => ev :: run_script st' vars' rest
        end
    end.
End Script.

(* every entry point on one input, for the driver *)
Inductive route :=
  | RFromData | RFromFile | RFromPath | RChunked            (* MultiHash.*: digest dict (+ length) *)
  | RHashGitData | RContentGitObject
  | RModelContent | RModelSkipped | RDiskBytes | RDiskFile | RDiskSymlink | RDiskOther
  | RCliFile | RCliStdin.

Record input := mkInput {
  i_names : list bytes; i_length : option N; i_chunks : list bytes; i_sched : list nat; i_maxlen : option N }.
Definition i_data (i : input) : bytes := concat (i_chunks i).

Definition dict_of_content (c : content) : digest_t :=
  ([(SHA1, c_sha1 c); (SHA1_GIT, c_sha1_git c); (SHA256, c_sha256 c); (BLAKE2S256, c_blake2s256 c)],
   Some (c_length c)).

Definition rmap {A B : Type} (f : A -> B) (r : result A) : result B :=
  match r with Ok a => Ok (f a) | Err e => Err e end.

Definition run_route (H : bytes -> bytes -> bytes) (r : route) (i : input) : result digest_t :=
  let data := i_data i in
  match r with
  | RFromData => rmap (cell_digest H) (mh_from_data (i_names i) data)
  | RFromFile => rmap (cell_digest H) (mh_from_file (i_names i) (i_length i) data (i_sched i))
  | RFromPath => rmap (cell_digest H) (mh_from_path (i_names i) data (i_sched i))
  | RChunked => rmap (cell_digest H) (mh_chunked (i_names i) (i_length i) (i_chunks i))
  | RHashGitData => rmap (fun d => ([(SHA1_GIT, d)], None)) (hash_git_data H data BLOB SHA1)
  | RContentGitObject => rmap (fun m => ([(bs "manifest", m)], None)) (content_git_object (Some data))
  | RModelContent => rmap dict_of_content (model_content_from_data H data)
  | RModelSkipped => rmap dict_of_content (model_skipped_from_data H data)
  | RDiskBytes => rmap dict_of_content (disk_from_bytes H data)
  | RDiskFile => rmap (fun cb : content * bool => (fst (dict_of_content (fst cb)) ++ [(bs "absent", if snd cb then [1] else [0])],
                                  snd (dict_of_content (fst cb))))
                      (disk_from_file H (FReg data (i_sched i)) (i_maxlen i))
  | RDiskSymlink => rmap (fun cb : content * bool => dict_of_content (fst cb)) (disk_from_file H (FSymlink data) (i_maxlen i))
  | RDiskOther => rmap (fun cb : content * bool => dict_of_content (fst cb)) (disk_from_file H FOther (i_maxlen i))
  | RCliFile => rmap (fun t => ([(bs "swhid", t)], None)) (cli_swhid_of_file H (FReg data (i_sched i)))
  | RCliStdin => rmap (fun t => ([(bs "swhid", t)], None)) (cli_swhid_of_file_content H data)
  end.

(* ------------------------------------------------------------------ examples (run by the kernel) *)




(* the copy script: update; copy; update both; digest both *)
Definition copy_script : list op :=
  [ONew [SHA1; LENGTH] None; OUpdate 0 (bs "a"); OCopy 0; OUpdate 1 (bs "b"); OUpdate 0 (bs "c");
   ODigest 0; ODigest 1].
