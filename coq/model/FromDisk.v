(* Model of from_disk.Directory.from_disk / Content.from_file / mode_to_perms /
   the directory filters / iter_tree + to_model export, over an abstract file
   system tree.  Definitions only.

   The operating system (scandir, lstat, readlink) is abstracted: the tree is
   given as data.  The order in which the OS lists a directory is an oracle
   [ord] (any permutation of the children).  The explicit to_visit stack of
   pass 1 and the breadth-first list of pass 2 are iteration strategies over
   the tree; they are modelled by structural recursion (pass 2 processes a node
   after all of its descendants, which is what reversed BFS order guarantees). *)
From Coq Require Import List NArith Bool.
From SWH.lib Require Import Bytes Dec Hex Order StableSort GitHeader.
From SWH.model Require Import Dir.
From SWH Require Import Generated.
Import ListNotations.
Open Scope N_scope.

Inductive fsnode :=
| Reg (data : bytes) (mode : N)            (* regular file; mode = st_mode permission bits *)
| Lnk (text : bytes)                       (* symbolic link and its target text *)
| Special (mode : N)                       (* fifo, socket, device *)
| FDir (children : list (bytes * fsnode)).

Definition is_fdir (t : fsnode) : bool := match t with FDir _ => true | _ => false end.

(* mode_to_perms for non-link, non-directory modes: "file is executable in any way" *)
Definition file_perms (mode : N) : N :=
  if N.eqb (N.land mode 73) 0 then PERMS_content else PERMS_executable_content.   (* 0o111 = 73 *)

(* what a Content leaf carries *)
Record cinfo := { ci_perms : N; ci_data : bytes; ci_skipped : bool }.

Inductive fd_result (A : Type) := FdOk (a : A) | FdSymlinkTooLarge.
Arguments FdOk {A}. Arguments FdSymlinkTooLarge {A}.

Definition too_large (limit : option N) (len : N) : bool :=
  match limit with Some l => l <? len | None => false end.

(* Content.from_file *)
Definition from_file (limit : option N) (t : fsnode) : fd_result cinfo :=
  match t with
  | Lnk text => if too_large limit (lenN text) then FdSymlinkTooLarge
                else FdOk {| ci_perms := PERMS_symlink; ci_data := text; ci_skipped := false |}
  | Special mode => FdOk {| ci_perms := file_perms mode; ci_data := []; ci_skipped := false |}
  | Reg data mode => FdOk {| ci_perms := file_perms mode; ci_data := data;
                             ci_skipped := too_large limit (lenN data) |}
  | FDir _ => FdOk {| ci_perms := PERMS_directory; ci_data := []; ci_skipped := false |}   (* never called on directories *)
  end.

(* ---- filters ---- *)
Inductive filt := FAll | FEmpty | FNamed (names : list bytes) (case_sensitive : bool).

Definition lower_byte (c : N) : N := if (65 <=? c) && (c <=? 90) then c + 32 else c.   (* bytes.lower(): ASCII only *)
Definition lower (b : bytes) : bytes := map lower_byte b.

(* filter called on a directory: (name, entries) -> keep? *)
Definition filt_dir (f : filt) (name : bytes) (entries : list bytes) : bool :=
  match f with
  | FAll => true
  | FEmpty => match entries with [] => false | _ => true end
  | FNamed ns true => negb (mem_bytes name ns)
  | FNamed ns false => negb (mem_bytes (lower name) (map lower ns))
  end.
(* all three filters accept every file (entries = None) *)

(* ---- the in-memory Merkle tree ---- *)
Inductive mtree := MLeaf (c : cinfo) | MNode (kids : list (bytes * mtree)).

Definition keys (m : mtree) : list bytes := match m with MNode ks => map fst ks | MLeaf _ => [] end.

Section Walk.
  Variable ord : list bytes -> list (bytes * mtree) -> list (bytes * mtree).   (* listing order oracle, per path *)
  Variable f : filt.
  Variable limit : option N.

  (* pass 1: traverse; a non-root directory rejected by the filter is not
     descended into and is removed afterwards *)
  Fixpoint build (path : list bytes) (t : fsnode) : fd_result mtree :=
    match t with
    | FDir cs =>
        match (fix kids (l : list (bytes * fsnode)) : fd_result (list (bytes * mtree)) :=
                 match l with
                 | [] => FdOk []
                 | (n, c) :: r =>
                     match c with
                     | FDir ccs =>
                         if filt_dir f n (map fst ccs)
                         then match build (path ++ [n]) c, kids r with
                              | FdOk m, FdOk ks => FdOk ((n, m) :: ks)
                              | _, _ => FdSymlinkTooLarge
                              end
                         else kids r
                     | _ => match from_file limit c, kids r with
                            | FdOk ci, FdOk ks => FdOk ((n, MLeaf ci) :: ks)
                            | _, _ => FdSymlinkTooLarge
                            end
                     end
                 end) cs with
        | FdOk ks => FdOk (MNode (ord path ks))
        | FdSymlinkTooLarge => FdSymlinkTooLarge
        end
    | _ => match from_file limit t with FdOk ci => FdOk (MLeaf ci) | FdSymlinkTooLarge => FdSymlinkTooLarge end
    end.

  (* pass 2: bottom-up, delete every non-root directory the filter now rejects *)
  Fixpoint prune2 (m : mtree) : mtree :=
    match m with
    | MLeaf _ => m
    | MNode ks =>
        MNode ((fix go (l : list (bytes * mtree)) : list (bytes * mtree) :=
                  match l with
                  | [] => []
                  | (n, c) :: r =>
                      match c with
                      | MLeaf _ => (n, c) :: go r
                      | MNode _ => let c' := prune2 c in
                                   if filt_dir f n (keys c') then (n, c') :: go r else go r
                      end
                  end) ks)
    end.

  Definition from_disk (t : fsnode) : fd_result mtree :=
    match build [] t with FdOk m => FdOk (prune2 m) | FdSymlinkTooLarge => FdSymlinkTooLarge end.
End Walk.

(* ---- hashes ---- *)
Section Ids.
  Variable H : bytes -> bytes.          (* SHA-1, uninterpreted *)

  Definition blob_id (d : bytes) : bytes := H (git_object (bs "blob") d).

  Fixpoint mt_id (m : mtree) : bytes :=
    match m with
    | MLeaf c => blob_id (ci_data c)             (* Content.compute_hash = data["sha1_git"] *)
    | MNode ks =>
        H (dir_manifest ((fix ents (l : list (bytes * mtree)) : list entry :=
                            match l with
                            | [] => []
                            | (n, c) :: r =>
                                {| e_name := n;
                                   e_type := match c with MLeaf _ => EFile | MNode _ => EDir end;
                                   e_target := mt_id c;
                                   e_perms := match c with MLeaf ci => ci_perms ci | MNode _ => PERMS_directory end |}
                                :: ents r
                            end) ks))
    end.

  (* entries of a Directory node (child_to_directory_entry / to_model) *)
  Definition mt_entry (p : bytes * mtree) : entry :=
    {| e_name := fst p;
       e_type := match snd p with MLeaf _ => EFile | MNode _ => EDir end;
       e_target := mt_id (snd p);
       e_perms := match snd p with MLeaf ci => ci_perms ci | MNode _ => PERMS_directory end |}.

  (* node at a "/"-separated path *)
  Fixpoint mt_get (path : list bytes) (m : mtree) : option mtree :=
    match path with
    | [] => Some m
    | n :: rest =>
        match m with
        | MNode ks => match find (fun p => beqb n (fst p)) ks with
                      | Some (_, c) => mt_get rest c
                      | None => None
                      end
        | MLeaf _ => None
        end
    end.

  (* ---- specification: the git tree id of a file-system tree ---- *)
  Fixpoint node_id (t : fsnode) : bytes :=
    match t with
    | Reg d _ => blob_id d
    | Lnk x => blob_id x                 (* the link text; the target is never looked at *)
    | Special _ => blob_id []            (* special files count as empty files *)
    | FDir cs =>
        H (dir_manifest ((fix ents (l : list (bytes * fsnode)) : list entry :=
                            match l with
                            | [] => []
                            | (n, c) :: r =>
                                {| e_name := n;
                                   e_type := if is_fdir c then EDir else EFile;
                                   e_target := node_id c;
                                   e_perms := match c with
                                              | FDir _ => PERMS_directory
                                              | Lnk _ => PERMS_symlink
                                              | Reg _ mode | Special mode => file_perms mode
                                              end |}
                                :: ents r
                            end) cs))
    end.

  (* the same, but with git's own encoder (ordering by base_name_compare): the id git gives the tree *)
  Fixpoint git_node_id (t : fsnode) : bytes :=
    match t with
    | Reg d _ => blob_id d
    | Lnk x => blob_id x
    | Special _ => blob_id []
    | FDir cs =>
        H (git_tree_object ((fix ents (l : list (bytes * fsnode)) : list entry :=
                               match l with
                               | [] => []
                               | (n, c) :: r =>
                                   {| e_name := n;
                                      e_type := if is_fdir c then EDir else EFile;
                                      e_target := git_node_id c;
                                      e_perms := match c with
                                                 | FDir _ => 16384       (* 040000 *)
                                                 | Lnk _ => 40960        (* 120000 *)
                                                 | Reg _ mode | Special mode =>
                                                     if N.eqb (N.land mode 73) 0 then 33188 else 33261   (* 100644 / 100755 *)
                                                 end |}
                                   :: ents r
                               end) cs))
    end.

  (* ---- export: iter_tree(dedup) + to_model ---- *)
  Inductive exported :=
  | XDir (id : bytes) (entries : list entry)
  | XContent (sha1_git : bytes) (data : bytes)
  | XSkipped (sha1_git : bytes) (length : N).

  Definition x_id (x : exported) : bytes :=
    match x with XDir i _ | XContent i _ | XSkipped i _ => i end.

  (* pre-order; a node whose hash was already seen is skipped together with its subtree *)
  Fixpoint iter_tree (seen : list bytes) (m : mtree) : list exported * list bytes :=
    let h := mt_id m in
    if mem_bytes h seen then ([], seen)
    else
      match m with
      | MLeaf c => ([if ci_skipped c then XSkipped h (lenN (ci_data c)) else XContent h (ci_data c)], h :: seen)
      | MNode ks =>
          let '(xs, seen') :=
            (fix go (l : list (bytes * mtree)) (seen : list bytes) : list exported * list bytes :=
               match l with
               | [] => ([], seen)
               | (_, c) :: r => let '(x1, s1) := iter_tree seen c in
                                let '(x2, s2) := go r s1 in (x1 ++ x2, s2)
               end) ks (h :: seen) in
          (XDir h (map mt_entry ks) :: xs, seen')
      end.

  Definition export (m : mtree) : list exported := fst (iter_tree [] m).
End Ids.

(* ---- physical pruning (specification of the filters) ---- *)
Fixpoint prune_empty (t : fsnode) : fsnode :=
  match t with
  | FDir cs =>
      FDir ((fix go (l : list (bytes * fsnode)) : list (bytes * fsnode) :=
               match l with
               | [] => []
               | (n, c) :: r =>
                   match c with
                   | FDir _ => match prune_empty c with
                               | FDir [] => go r                  (* is, or has become, empty: removed *)
                               | c' => (n, c') :: go r
                               end
                   | _ => (n, c) :: go r
                   end
               end) cs)
  | _ => t
  end.

Fixpoint prune_named (ns : list bytes) (cs0 : bool) (t : fsnode) : fsnode :=
  match t with
  | FDir cs =>
      FDir ((fix go (l : list (bytes * fsnode)) : list (bytes * fsnode) :=
               match l with
               | [] => []
               | (n, c) :: r =>
                   match c with
                   | FDir _ => if filt_dir (FNamed ns cs0) n [] then (n, prune_named ns cs0 c) :: go r else go r
                   | _ => (n, c) :: go r
                   end
               end) cs)
  | _ => t
  end.

(* ---- path normalisation at the top of from_disk ---- *)
Fixpoint rstrip_slash_rev (r : bytes) : bytes :=
  match r with c :: r' => if N.eqb c SLASH then rstrip_slash_rev r' else r | [] => [] end.
Definition rstrip_slash (l : bytes) : bytes := rev (rstrip_slash_rev (rev l)).

(* "if 1 < len(path) and path[-1:] == b'/': path = path[0:1] + path[1:].rstrip(b'/')" *)
Definition norm_path (p : bytes) : bytes :=
  match p with
  | c :: (_ :: _) as rest => if N.eqb (last p 0) SLASH then c :: rstrip_slash rest else p
  | _ => p
  end.

(* well-formed file-system trees: what a POSIX directory can hold *)
Fixpoint wf_fs (t : fsnode) : bool :=
  match t with
  | FDir cs =>
      nodup_names [] (map (fun p => {| e_name := fst p; e_type := EFile; e_target := []; e_perms := 0 |}) cs)
      && (fix all (l : list (bytes * fsnode)) : bool :=
            match l with
            | [] => true
            | (n, c) :: r => negb (memb SLASH n) && negb (memb NUL n) && (match n with [] => false | _ => true end)
                             && wf_fs c && all r
            end) cs
  | _ => true
  end.

(* ---- depth ---- *)
(* number of nested directories: a file has depth 0, an empty directory 1 *)
Fixpoint fs_depth (t : fsnode) : nat :=
  match t with
  | FDir cs =>
      S ((fix go (l : list (bytes * fsnode)) : nat :=
            match l with
            | [] => O
            | (_, c) :: r => Nat.max (fs_depth c) (go r)
            end) cs)
  | _ => O
  end.

(* t at the bottom of n nested directories, each holding the single entry [name] *)
Fixpoint chain (n : nat) (name : bytes) (t : fsnode) : fsnode :=
  match n with
  | O => t
  | S k => FDir [(name, chain k name t)]
  end.
