(* LITERAL model of the two passes of from_disk.Directory.from_disk (lines
   ~470-540 of swh/model/from_disk.py), over the abstract file-system tree
   [fsnode] of FromDisk.v.  Definitions only.

   FromDisk.v models the two passes by structural recursion.  The code does not
   recurse; here every loop of the code is transcribed as it is written:

     pass 1    while to_visit: root = to_visit.pop() ...          [pass1]   explicit LIFO stack + fuel
                 for entry in entries_list: ...                   [scan_entry] (fold over the listing)
                 dirs[root].update(entries)                       [mt_update_at]
               for path in reversed(filtered): del top_dir[path]  [del_all (rev filtered)]
     pass 2    while todo: cpath, cdir = todo.pop(0) ...          [bfs]     explicit FIFO queue + fuel
               for dirpath in reversed(traversal):                [fold_left prune_step (rev traversal)]
                 node = top_dir[dirpath]; assert directory        [mt_get]
                 if dirpath and not path_filter(...): del top_dir[dirpath]   [mt_delete_at]

   Representation choices (what is still abstracted):
   * a path is the list of its components ([] = top_path; the code's relative
     byte paths "a/b" and "/a/b" are the component list [a;b]; names contain
     no '/' in a well-formed tree, so the two are in bijection);
   * a Directory object is the [mtree] MNode, its underlying Python dict is the
     association list of its children in INSERTION order ([dict_set],
     [dict_del] have the semantics of dict.__setitem__ / __delitem__);
   * the map [dirs] holds references to Directory objects which are all
     reachable from dirs[top_path]: dirs[p] is the node at path p of the one
     tree [top], and the in-place dirs[root].update(entries) is the functional
     update at that path [mt_update_at]; a failed lookup is [ItKeyError];
   * the stack holds (path, children on disk) instead of the path alone:
     os.scandir(root) is "the children of the popped item, in the order chosen
     by the listing oracle [lord]" (an arbitrary function of the path and the
     children; the theorems quantify over every oracle that permutes);
   * the three filters accept every file (path_filter(root, name, None) = True),
     as in FromDisk.v. *)
From Coq Require Import List NArith Bool.
From SWH.lib Require Import Bytes Dec Hex Order StableSort GitHeader.
From SWH.model Require Import Dir FromDisk.
From SWH Require Import Generated.
Import ListNotations.
Open Scope N_scope.

Definition path := list bytes.

Inductive it_result (A : Type) :=
| ItOk (a : A)
| ItSymlinkTooLarge          (* the ValueError of Content.from_file, as in FromDisk.v *)
| ItKeyError                 (* a lookup / deletion at a path that does not exist *)
| ItAssert                   (* "assert node.object_type == DIRECTORY" *)
| ItOutOfFuel.               (* artefact of the model: a loop ran longer than its fuel *)
Arguments ItOk {A}. Arguments ItSymlinkTooLarge {A}. Arguments ItKeyError {A}.
Arguments ItAssert {A}. Arguments ItOutOfFuel {A}.

Definition it_bind {A B} (r : it_result A) (k : A -> it_result B) : it_result B :=
  match r with
  | ItOk a => k a
  | ItSymlinkTooLarge => ItSymlinkTooLarge
  | ItKeyError => ItKeyError
  | ItAssert => ItAssert
  | ItOutOfFuel => ItOutOfFuel
  end.

(* ---- a Python dict with bytes keys, in insertion order ---- *)
Definition kids := list (bytes * mtree).

Definition has_key (n : bytes) (ks : kids) : bool := existsb (fun p => beqb n (fst p)) ks.

(* d[n] = v : an existing key keeps its position *)
Definition dict_set (n : bytes) (v : mtree) (ks : kids) : kids :=
  if has_key n ks then map (fun p => if beqb n (fst p) then (fst p, v) else p) ks
  else ks ++ [(n, v)].

(* del d[n] (the caller has checked that the key is present) *)
Definition dict_del (n : bytes) (ks : kids) : kids := filter (fun p => negb (beqb n (fst p))) ks.

(* d.update(es) *)
Definition dict_update (ks es : kids) : kids := fold_left (fun acc e => dict_set (fst e) (snd e) acc) es ks.

(* ---- Directory.__getitem__ is FromDisk.mt_get; the node at a path, updated / deleted ---- *)
(* dirs[p].update(es), dirs[p] being the node at path p of [m] *)
Fixpoint mt_update_at (p : path) (es : kids) (m : mtree) : option mtree :=
  match m with
  | MLeaf _ => None
  | MNode ks =>
      match p with
      | [] => Some (MNode (dict_update ks es))
      | n :: rest =>
          match find (fun q => beqb n (fst q)) ks with
          | Some (_, c) => match mt_update_at rest es c with
                           | Some c' => Some (MNode (dict_set n c' ks))
                           | None => None
                           end
          | None => None
          end
      end
  end.

(* Directory.__delitem__ with a nested key: "key1, key2 = key.rsplit(b'/', 1); del self[key1][key2]",
   MerkleNode.__delitem__: "if name in self: ... else: raise KeyError(name)" *)
Fixpoint mt_delete_at (p : path) (m : mtree) : option mtree :=
  match m with
  | MLeaf _ => None
  | MNode ks =>
      match p with
      | [] => None                                       (* del d[b""] : no such key *)
      | [n] => if has_key n ks then Some (MNode (dict_del n ks)) else None
      | n :: rest =>
          match find (fun q => beqb n (fst q)) ks with
          | Some (_, c) => match mt_delete_at rest c with
                           | Some c' => Some (MNode (dict_set n c' ks))
                           | None => None
                           end
          | None => None
          end
      end
  end.

(* "root != top_path" / "if dirpath" *)
Definition nonroot (p : path) : bool := match p with [] => false | _ => true end.
(* os.path.split(p)[1] *)
Definition basename (p : path) : bytes := last p [].

(* number of directories of a tree on disk: the fuel of both loops *)
Fixpoint dir_count (t : fsnode) : nat :=
  match t with
  | FDir cs => S ((fix go (l : list (bytes * fsnode)) : nat :=
                     match l with [] => O | (_, c) :: r => (dir_count c + go r)%nat end) cs)
  | _ => O
  end.

Section Iter.
  Variable lord : path -> list (bytes * fsnode) -> list (bytes * fsnode).   (* os.scandir order, per path *)
  Variable f : filt.
  Variable limit : option N.

  Definition stack := list (path * list (bytes * fsnode)).    (* head = top of the stack = end of the Python list *)

  (* one round of "for entry in entries_list"; an exception of Content.from_file ends the call *)
  Definition scan_entry (root : path) (acc : fd_result (kids * stack)) (e : bytes * fsnode) : fd_result (kids * stack) :=
    match acc with
    | FdSymlinkTooLarge => FdSymlinkTooLarge
    | FdOk (entries, to_visit) =>
        match snd e with
        | FDir ccs =>                            (* entries[name] = cls(...); dirs[entry.path] = ...; to_visit.append(entry.path) *)
            FdOk (dict_set (fst e) (MNode []) entries, (root ++ [fst e], ccs) :: to_visit)
        | c => match from_file limit c with       (* entries[name] = Content.from_file(...) *)
               | FdOk ci => FdOk (dict_set (fst e) (MLeaf ci) entries, to_visit)
               | FdSymlinkTooLarge => FdSymlinkTooLarge
               end
        end
    end.

  (* while to_visit: *)
  Fixpoint pass1 (fuel : nat) (top : mtree) (filtered : list path) (to_visit : stack) {struct fuel}
    : it_result (mtree * list path) :=
    match to_visit with
    | [] => ItOk (top, filtered)
    | (root, cs) :: rest =>                                           (* root = to_visit.pop() *)
        match fuel with
        | O => ItOutOfFuel
        | S fuel' =>
            let entries_list := lord root cs in                       (* list(os.scandir(root)) *)
            if nonroot root && negb (filt_dir f (basename root) (map fst entries_list))
            then pass1 fuel' top (filtered ++ [root]) rest            (* filtered.append(root); continue *)
            else
              match fold_left (scan_entry root) entries_list (FdOk ([], rest)) with
              | FdSymlinkTooLarge => ItSymlinkTooLarge
              | FdOk (entries, to_visit') =>
                  match mt_update_at root entries top with             (* dirs[root].update(entries) *)
                  | Some top' => pass1 fuel' top' filtered to_visit'
                  | None => ItKeyError
                  end
              end
        end
    end.

  (* for path in ...: del top_dir[path] *)
  Definition del_step (acc : it_result mtree) (p : path) : it_result mtree :=
    it_bind acc (fun top => match mt_delete_at p top with Some top' => ItOk top' | None => ItKeyError end).
  Definition del_all (paths : list path) (top : mtree) : it_result mtree := fold_left del_step paths (ItOk top).

  (* "for dirname, subdir in cdir.items(): if subdir is a directory: todo.append((cpath + b'/' + dirname, subdir))" *)
  Definition subdirs_of (cpath : path) (cdir : mtree) : list (path * mtree) :=
    match cdir with
    | MNode ks => flat_map (fun p => match snd p with MNode _ => [(cpath ++ [fst p], snd p)] | MLeaf _ => [] end) ks
    | MLeaf _ => []
    end.

  (* while todo: cpath, cdir = todo.pop(0); traversal.append(cpath); ... *)
  Fixpoint bfs (fuel : nat) (todo : list (path * mtree)) (traversal : list path) {struct fuel} : it_result (list path) :=
    match todo with
    | [] => ItOk traversal
    | (cpath, cdir) :: rest =>
        match fuel with
        | O => ItOutOfFuel
        | S fuel' => bfs fuel' (rest ++ subdirs_of cpath cdir) (traversal ++ [cpath])
        end
    end.

  (* body of "for dirpath in reversed(traversal)" *)
  Definition prune_step (acc : it_result mtree) (dirpath : path) : it_result mtree :=
    it_bind acc (fun top =>
      match mt_get dirpath top with                                   (* node = top_dir[dirpath] *)
      | None => ItKeyError
      | Some (MLeaf _) => ItAssert                                    (* assert node.object_type == DIRECTORY *)
      | Some (MNode ks) =>
          if nonroot dirpath && negb (filt_dir f (basename dirpath) (map fst ks))
          then match mt_delete_at dirpath top with Some top' => ItOk top' | None => ItKeyError end
          else ItOk top
      end).

  Definition from_disk_iter (t : fsnode) : it_result mtree :=
    match t with
    | FDir cs =>
        let fuel := dir_count t in
        it_bind (pass1 fuel (MNode []) [] [([], cs)]) (fun '(top, filtered) =>      (* dirs[top_path] = cls(...); to_visit = [path] *)
        it_bind (del_all (rev filtered) top) (fun top1 =>
        it_bind (bfs fuel [([], top1)] []) (fun traversal =>
        fold_left prune_step (rev traversal) (ItOk top1))))
    | _ =>
        (* not a directory: os.scandir raises in the code; FromDisk.from_disk answers the leaf, and so does this model *)
        match from_file limit t with FdOk ci => ItOk (MLeaf ci) | FdSymlinkTooLarge => ItSymlinkTooLarge end
    end.
End Iter.

(* the two listing oracles of the drivers *)
Definition lid : path -> list (bytes * fsnode) -> list (bytes * fsnode) := fun _ l => l.
Definition lrev : path -> list (bytes * fsnode) -> list (bytes * fsnode) := fun _ l => rev l.

(* equality of Merkle trees up to the order of the children inside each directory *)
Inductive mtree_equiv : mtree -> mtree -> Prop :=
| EqLeaf : forall c, mtree_equiv (MLeaf c) (MLeaf c)
| EqNode : forall ks ks0 ks',
    Permutation.Permutation ks ks0 ->
    Forall2 (fun p q => fst p = fst q /\ mtree_equiv (snd p) (snd q)) ks0 ks' ->
    mtree_equiv (MNode ks) (MNode ks').
