(* Model of git_objects.revision_git_object and of model.Revision
   (validators, __attrs_post_init__ migration of legacy extra headers).  Definitions only. *)
From Coq Require Import List NArith ZArith Bool.
From SWH.lib Require Import Bytes Dec Hex GitHeader Headers.
From SWH.model Require Import Time Rel.
Import ListNotations.
Open Scope N_scope.

Inductive revtype := RtGit | RtTar | RtDsc | RtSvn | RtHg | RtCvs | RtBzr.

Record revision := {
  v_message : option bytes; v_author : option person; v_committer : option person;
  v_date : option tstz; v_committer_date : option tstz; v_type : revtype;
  v_directory : bytes; v_synthetic : bool;
  v_meta_extra : option (list header);       (* metadata["extra_headers"] when the key is present *)
  v_meta_other : list (bytes * bytes);       (* every other metadata item: never read by the id computation *)
  v_parents : list bytes; v_extra_headers : list header; v_raw_manifest : option bytes }.

(* "extra_headers = revision.extra_headers or (); if not extra_headers and
   'extra_headers' in metadata: extra_headers = metadata['extra_headers']" *)
Definition effective_extra (r : revision) : list header :=
  match v_extra_headers r, v_meta_extra r with
  | [], Some l => l
  | e, _ => e
  end.

Definition nonempty (b : bytes) : bool := match b with [] => false | _ => true end.

Definition rev_headers (r : revision) : list header :=
  (bs "tree", hexlify (v_directory r))
  :: map (fun p => (bs "parent", hexlify p)) (filter nonempty (v_parents r))      (* "if parent:" *)
  ++ match v_author r with Some a => [(bs "author", format_author a (v_date r))] | None => [] end
  ++ match v_committer r with Some c => [(bs "committer", format_author c (v_committer_date r))] | None => [] end
  ++ effective_extra r.

Definition rev_manifest (r : revision) : bytes :=
  from_headers (bs "commit") (rev_headers r) (v_message r).

(* validators: date requires author, committer_date requires committer *)
Definition revision_valid (r : revision) : bool :=
  match v_author r, v_date r with None, Some _ => false | _, _ => true end
  && match v_committer r, v_committer_date r with None, Some _ => false | _, _ => true end.

(* __attrs_post_init__ AFTER the id was computed: move legacy extra headers
   from the metadata to the attribute *)
Definition post_init (r : revision) : revision :=
  match v_extra_headers r, v_meta_extra r with
  | [], Some l =>
      {| v_message := v_message r; v_author := v_author r; v_committer := v_committer r;
         v_date := v_date r; v_committer_date := v_committer_date r; v_type := v_type r;
         v_directory := v_directory r; v_synthetic := v_synthetic r;
         v_meta_extra := None; v_meta_other := v_meta_other r;
         v_parents := v_parents r; v_extra_headers := l; v_raw_manifest := v_raw_manifest r |}
  | _, _ => r
  end.

Section WithHash.
  Variable H : bytes -> bytes.
  Definition rev_compute_hash (r : revision) : bytes :=
    H (match v_raw_manifest r with Some m => m | None => rev_manifest r end).
End WithHash.

(* ---- independent commit parser (positional, as git reads a commit) ---- *)
Record commit_fields := {
  c_tree : bytes; c_parents : list bytes; c_author : option bytes; c_committer : option bytes;
  c_extra : list header; c_message : option bytes }.

Fixpoint take_parents (hs : list header) : list bytes * list header :=
  match hs with
  | (k, v) :: rest => if beqb k (bs "parent")
                      then let '(ps, r) := take_parents rest in (v :: ps, r)
                      else ([], hs)
  | [] => ([], [])
  end.

Definition take_named (name : bytes) (hs : list header) : option bytes * list header :=
  match hs with
  | (k, v) :: rest => if beqb k name then (Some v, rest) else (None, hs)
  | [] => (None, [])
  end.

Definition parse_commit (l : bytes) : option commit_fields :=
  match parse_object l with
  | Some (ty, hs, msg) =>
      if beqb ty (bs "commit") then
        match hs with
        | (k0, t) :: rest =>
            if beqb k0 (bs "tree") then
              let '(ps, r1) := take_parents rest in
              let '(a, r2) := take_named (bs "author") r1 in
              let '(c, r3) := take_named (bs "committer") r2 in
              Some {| c_tree := t; c_parents := ps; c_author := a; c_committer := c; c_extra := r3; c_message := msg |}
            else None
        | [] => None
        end
      else None
  | None => None
  end.

Definition reserved_key (k : bytes) : bool :=
  mem_bytes k [bs "tree"; bs "parent"; bs "author"; bs "committer"].

(* well-formed extra-header keys: non-empty, no SP, no LF, not a positional keyword *)
Definition wf_extra (hs : list header) : bool :=
  forallb (fun h => wf_key (fst h) && negb (reserved_key (fst h))) hs.
