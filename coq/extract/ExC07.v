(* Extraction of the C07 model.  ExtrOcamlBasic only; no Extract Constant /
   Extract Inductive of our own.  sha1 (lib/Sha1.v) is the executable instance
   of the hash variable H. *)
Require Extraction.
Require Import ExtrOcamlBasic.
From Coq Require Import ZArith NArith.
From SWH.lib Require Import Sha1.
From SWH.model Require Import Ident.
Extraction "extract/C07/model.ml" construct evolve check compute_hash hash_from_attributes swhid
  swhid_tag has_raw_field all_kinds sha1 Z.of_N N.to_nat.
