(* Extraction of the C14 model: the same Merkle heap machine as C10
   (collect / reset_collect are operations of [step]).  ExtrOcamlBasic only. *)
Require Extraction.
Require Import ExtrOcamlBasic.
From SWH.model Require Import Merkle.
Extraction "extract/C14/model.ml" run step cached hashed.
