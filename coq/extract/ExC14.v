(* Extraction of the C14 model: the same Merkle heap machine as C10
   (collect / reset_collect are operations of [step]).  ExtrOcamlBasic only. *)
Require Extraction.
Require Import ExtrOcamlBasic.
From Coq Require Import ZArith.
From SWH.model Require Import Merkle.
(* Z.of_N only so that the shared ocaml/conv.ml finds the type z *)
Extraction "extract/C14/model.ml" run step cached hashed Z.of_N.
