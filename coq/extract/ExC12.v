(* Extraction of the C12 model.  ExtrOcamlBasic only; no Extract Constant /
   Extract Inductive of our own. *)
Require Extraction.
Require Import ExtrOcamlBasic.
From SWH.model Require Import Codec.
Extraction "extract/C12/model.ml" construct_x to_dict_x from_dict_x from_dict_old_x fd_BaseContent_x from_dict_xd fd_BaseContent_xd
  as_kwargs schema members elided all_classes.
