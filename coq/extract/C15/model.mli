
val negb : bool -> bool

type nat =
| O
| S of nat

val option_map : ('a1 -> 'a2) -> 'a1 option -> 'a2 option

val fst : ('a1 * 'a2) -> 'a1

val snd : ('a1 * 'a2) -> 'a2

val length : 'a1 list -> nat

val app : 'a1 list -> 'a1 list -> 'a1 list

type comparison =
| Eq
| Lt
| Gt

val compOpp : comparison -> comparison

type uint =
| Nil
| D0 of uint
| D1 of uint
| D2 of uint
| D3 of uint
| D4 of uint
| D5 of uint
| D6 of uint
| D7 of uint
| D8 of uint
| D9 of uint

val revapp : uint -> uint -> uint

val rev : uint -> uint

module Little :
 sig
  val double : uint -> uint

  val succ_double : uint -> uint
 end

val add : nat -> nat -> nat

val divmod : nat -> nat -> nat -> nat -> nat * nat

val div : nat -> nat -> nat

type byte =
| X00
| X01
| X02
| X03
| X04
| X05
| X06
| X07
| X08
| X09
| X0a
| X0b
| X0c
| X0d
| X0e
| X0f
| X10
| X11
| X12
| X13
| X14
| X15
| X16
| X17
| X18
| X19
| X1a
| X1b
| X1c
| X1d
| X1e
| X1f
| X20
| X21
| X22
| X23
| X24
| X25
| X26
| X27
| X28
| X29
| X2a
| X2b
| X2c
| X2d
| X2e
| X2f
| X30
| X31
| X32
| X33
| X34
| X35
| X36
| X37
| X38
| X39
| X3a
| X3b
| X3c
| X3d
| X3e
| X3f
| X40
| X41
| X42
| X43
| X44
| X45
| X46
| X47
| X48
| X49
| X4a
| X4b
| X4c
| X4d
| X4e
| X4f
| X50
| X51
| X52
| X53
| X54
| X55
| X56
| X57
| X58
| X59
| X5a
| X5b
| X5c
| X5d
| X5e
| X5f
| X60
| X61
| X62
| X63
| X64
| X65
| X66
| X67
| X68
| X69
| X6a
| X6b
| X6c
| X6d
| X6e
| X6f
| X70
| X71
| X72
| X73
| X74
| X75
| X76
| X77
| X78
| X79
| X7a
| X7b
| X7c
| X7d
| X7e
| X7f
| X80
| X81
| X82
| X83
| X84
| X85
| X86
| X87
| X88
| X89
| X8a
| X8b
| X8c
| X8d
| X8e
| X8f
| X90
| X91
| X92
| X93
| X94
| X95
| X96
| X97
| X98
| X99
| X9a
| X9b
| X9c
| X9d
| X9e
| X9f
| Xa0
| Xa1
| Xa2
| Xa3
| Xa4
| Xa5
| Xa6
| Xa7
| Xa8
| Xa9
| Xaa
| Xab
| Xac
| Xad
| Xae
| Xaf
| Xb0
| Xb1
| Xb2
| Xb3
| Xb4
| Xb5
| Xb6
| Xb7
| Xb8
| Xb9
| Xba
| Xbb
| Xbc
| Xbd
| Xbe
| Xbf
| Xc0
| Xc1
| Xc2
| Xc3
| Xc4
| Xc5
| Xc6
| Xc7
| Xc8
| Xc9
| Xca
| Xcb
| Xcc
| Xcd
| Xce
| Xcf
| Xd0
| Xd1
| Xd2
| Xd3
| Xd4
| Xd5
| Xd6
| Xd7
| Xd8
| Xd9
| Xda
| Xdb
| Xdc
| Xdd
| Xde
| Xdf
| Xe0
| Xe1
| Xe2
| Xe3
| Xe4
| Xe5
| Xe6
| Xe7
| Xe8
| Xe9
| Xea
| Xeb
| Xec
| Xed
| Xee
| Xef
| Xf0
| Xf1
| Xf2
| Xf3
| Xf4
| Xf5
| Xf6
| Xf7
| Xf8
| Xf9
| Xfa
| Xfb
| Xfc
| Xfd
| Xfe
| Xff

val of_bits :
  (bool * (bool * (bool * (bool * (bool * (bool * (bool * bool))))))) -> byte

type positive =
| XI of positive
| XO of positive
| XH

type n =
| N0
| Npos of positive

type z =
| Z0
| Zpos of positive
| Zneg of positive

module Pos :
 sig
  type mask =
  | IsNul
  | IsPos of positive
  | IsNeg
 end

module Coq_Pos :
 sig
  val succ : positive -> positive

  val add : positive -> positive -> positive

  val add_carry : positive -> positive -> positive

  val pred_double : positive -> positive

  type mask = Pos.mask =
  | IsNul
  | IsPos of positive
  | IsNeg

  val succ_double_mask : mask -> mask

  val double_mask : mask -> mask

  val double_pred_mask : positive -> mask

  val sub_mask : positive -> positive -> mask

  val sub_mask_carry : positive -> positive -> mask

  val mul : positive -> positive -> positive

  val iter : ('a1 -> 'a1) -> 'a1 -> positive -> 'a1

  val compare_cont : comparison -> positive -> positive -> comparison

  val compare : positive -> positive -> comparison

  val eqb : positive -> positive -> bool

  val coq_Nsucc_double : n -> n

  val coq_Ndouble : n -> n

  val coq_lor : positive -> positive -> positive

  val coq_land : positive -> positive -> n

  val coq_lxor : positive -> positive -> n

  val shiftl : positive -> n -> positive

  val iter_op : ('a1 -> 'a1 -> 'a1) -> positive -> 'a1 -> 'a1

  val to_nat : positive -> nat

  val of_succ_nat : nat -> positive

  val of_uint_acc : uint -> positive -> positive

  val of_uint : uint -> n

  val to_little_uint : positive -> uint

  val to_uint : positive -> uint
 end

module N :
 sig
  val succ_double : n -> n

  val double : n -> n

  val succ : n -> n

  val add : n -> n -> n

  val sub : n -> n -> n

  val mul : n -> n -> n

  val compare : n -> n -> comparison

  val eqb : n -> n -> bool

  val leb : n -> n -> bool

  val ltb : n -> n -> bool

  val div2 : n -> n

  val pos_div_eucl : positive -> n -> n * n

  val div_eucl : n -> n -> n * n

  val div : n -> n -> n

  val modulo : n -> n -> n

  val coq_lor : n -> n -> n

  val coq_land : n -> n -> n

  val coq_lxor : n -> n -> n

  val shiftl : n -> n -> n

  val shiftr : n -> n -> n

  val to_nat : n -> nat

  val of_nat : nat -> n

  val of_uint : uint -> n

  val to_uint : n -> uint
 end

module Z :
 sig
  val double : z -> z

  val succ_double : z -> z

  val pred_double : z -> z

  val pos_sub : positive -> positive -> z

  val add : z -> z -> z

  val opp : z -> z

  val sub : z -> z -> z

  val mul : z -> z -> z

  val compare : z -> z -> comparison

  val leb : z -> z -> bool

  val ltb : z -> z -> bool

  val eqb : z -> z -> bool

  val of_N : n -> z

  val pos_div_eucl : positive -> z -> z * z

  val div_eucl : z -> z -> z * z

  val div : z -> z -> z

  val modulo : z -> z -> z
 end

val nth : nat -> 'a1 list -> 'a1 -> 'a1

val concat : 'a1 list list -> 'a1 list

val map : ('a1 -> 'a2) -> 'a1 list -> 'a2 list

val flat_map : ('a1 -> 'a2 list) -> 'a1 list -> 'a2 list

val existsb : ('a1 -> bool) -> 'a1 list -> bool

val forallb : ('a1 -> bool) -> 'a1 list -> bool

val filter : ('a1 -> bool) -> 'a1 list -> 'a1 list

val firstn : nat -> 'a1 list -> 'a1 list

val skipn : nat -> 'a1 list -> 'a1 list

val repeat : 'a1 -> nat -> 'a1 list

val to_N : byte -> n

type ascii =
| Ascii of bool * bool * bool * bool * bool * bool * bool * bool

val byte_of_ascii : ascii -> byte

type string =
| EmptyString
| String of ascii * string

val list_ascii_of_string : string -> ascii list

val list_byte_of_string : string -> byte list

type bytes = n list

val bs : string -> bytes

val beqb : bytes -> bytes -> bool

val memb : n -> bytes -> bool

val cut : n -> bytes -> bytes * bytes option

val strip_prefix : bytes -> bytes -> bytes option

val nUL : n

val lF : n

val sP : n

val cOLON : n

val hexdigit : n -> n

val hex_byte : n -> bytes

val hexlify : bytes -> bytes

val unhexdigit : n -> n option

val unhex : bytes -> bytes option

val mask32 : n

val add32 : n -> n -> n

val rotl : n -> n -> n

val not32 : n -> n

val word_of : n -> n -> n -> n -> n

val words_of : bytes -> n list

type st = { h0 : n; h1 : n; h2 : n; h3 : n; h4 : n }

val st_init : st

val rounds :
  nat -> n -> n list -> n -> n -> n -> n -> n -> (((n * n) * n) * n) * n

val compress : st -> bytes -> st

val blocks : nat -> bytes -> st -> st

val be_bytes : nat -> n -> bytes

val pad : bytes -> bytes

val sha1 : bytes -> bytes

val uint_bytes : uint -> bytes

val is_digit : n -> bool

val mkD : n -> uint -> uint

val bytes_uint : bytes -> uint option

val dec_N : n -> bytes

val parse_dec_N : bytes -> n option

val dec_Z : z -> bytes

val parse_dec_Z : bytes -> z option

val lenN : bytes -> n

val git_header : bytes -> n -> bytes

val git_object : bytes -> bytes -> bytes

val parse_git_object : bytes -> (bytes * bytes) option

val escape_newlines : bytes -> bytes

type header = bytes * bytes

val header_line : header -> bytes

val headers_payload : header list -> bytes option -> bytes

val from_headers : bytes -> header list -> bytes option -> bytes

val take_value : bytes -> (bytes * bytes) option

val take_key : bytes -> (bytes * bytes) option

val parse_headers : nat -> bytes -> (header list * bytes option) option

val parse_payload : bytes -> (header list * bytes option) option

val parse_object : bytes -> ((bytes * header list) * bytes option) option

val cut_last : n -> bytes -> (bytes * bytes) option

val issome : 'a1 option -> bool

val opt_lines : (bytes -> bytes option) -> bytes list -> header list

val assoc : bytes -> header list -> bytes option

val subseqb : bytes list -> bytes list -> bool

val eMD_CONTEXT_KEYS : n list list

val sWHID_NAMESPACE : n list

val sWHID_VERSION : z

val sWHID_SEP : n list

type cty =
| CSnp
| CRel
| CRev
| CDir
| CCnt

type ety =
| ECore of cty
| EOri
| EEmd

val all_cty : cty list

val all_ety : ety list

val cty_word : cty -> bytes

val ety_word : ety -> bytes

type cswhid = { cs_ty : cty; cs_id : bytes }

type eswhid = { es_ty : ety; es_id : bytes }

val swhid_prefix : bytes

val print_swhid : bytes -> bytes -> bytes

val print_core : cswhid -> bytes

val print_ext : eswhid -> bytes

val ety_of_word : bytes -> ety option

val parse_ext : bytes -> eswhid option

val parse_core : bytes -> cswhid option

type err =
| ValueError

type 'a result =
| Ok of 'a
| Err of err

val is_ascii_bytes : bytes -> bool

type extid = { x_type : bytes; x_extid : bytes; x_target : cswhid;
               x_version : z; x_payload_type : bytes option;
               x_payload : bytes option }

val extid_headers : extid -> header list

val extid_git_object : extid -> bytes result

val extid_valid : extid -> bool

type auth_type =
| DepositClient
| Forge
| Registry

val all_auth : auth_type list

val auth_word : auth_type -> bytes

val auth_of_word : bytes -> auth_type option

type authority = { au_type : auth_type; au_url : bytes }

type fetcher = { fe_name : bytes; fe_version : bytes }

type datetime = { dt_us : z; dt_off : z }

val normalize_date : datetime -> datetime

type emd = { m_target : eswhid; m_date : datetime; m_authority : authority;
             m_fetcher : fetcher; m_format : bytes; m_metadata : bytes;
             m_origin : bytes option; m_visit : z option;
             m_snapshot : cswhid option; m_release : cswhid option;
             m_revision : cswhid option; m_path : bytes option;
             m_directory : cswhid option }

val ctx_field : emd -> bytes -> bytes option

val emd_context : emd -> header list

val emd_second : emd -> z

val emd_fixed_headers : emd -> header list

val emd_headers : emd -> header list

val emd_git_object : emd -> bytes

val tgt_is_core : ety -> bool

val tgt_in : ety -> cty list -> bool

val cty_is : cty -> cty -> bool

val starts_with : bytes -> bytes -> bool

val check_origin : emd -> bool

val check_visit : emd -> bool

val check_swhid_ctx : emd -> cswhid option -> cty list -> cty -> bool

val check_path : emd -> bool

val emd_valid : emd -> bool

val set_date : emd -> datetime -> emd

val mk_emd : emd -> emd result

val mk_extid : extid -> extid result

type extid_fields = { xf_type : bytes; xf_version : z; xf_extid : bytes;
                      xf_target : bytes; xf_payload_type : bytes option;
                      xf_payload : bytes option }

val parse_extid : bytes -> extid_fields option

type emd_fields = { ef_target : bytes; ef_second : z;
                    ef_auth_type : auth_type; ef_auth_url : bytes;
                    ef_fetcher_name : bytes; ef_fetcher_version : bytes;
                    ef_format : bytes; ef_context : header list;
                    ef_metadata : bytes }

val parse_emd : bytes -> emd_fields option
