Require Extraction.
Require Import ExtrOcamlBasic.
From Coq Require Import ZArith NArith.
From SWH.lib Require Import Sha1.
From SWH.model Require Import Dir Dedup.
Extraction "extract/C19/model.ml" repair repair_old check dir_manifest sha1 Z.of_N N.to_nat.
