Require Extraction.
Require Import ExtrOcamlBasic.
From Coq Require Import ZArith NArith.
From SWH.lib Require Import Sha1.
From SWH.model Require Import Snap.
Extraction "extract/C05/model.ml" snapshot_git_object snap_manifest valid_snapshot decode_snapshot_object unresolved sha1 Z.of_N N.to_nat.
