Require Extraction.
Require Import ExtrOcamlBasic.
From Coq Require Import ZArith NArith.
From SWH.lib Require Import Sha1.
From SWH.model Require Import Time Rel.
Extraction "extract/C04/model.ml" release_git_object rel_compute_hash release_valid parse_tag rtt_of_git_type sha1 Z.of_N N.to_nat.
