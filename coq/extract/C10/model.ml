
(** val negb : bool -> bool **)

let negb = function
| true -> false
| false -> true

type nat =
| O
| S of nat

(** val fst : ('a1 * 'a2) -> 'a1 **)

let fst = function
| (x, _) -> x

(** val snd : ('a1 * 'a2) -> 'a2 **)

let snd = function
| (_, y) -> y

(** val length : 'a1 list -> nat **)

let rec length = function
| [] -> O
| _ :: l' -> S (length l')

(** val app : 'a1 list -> 'a1 list -> 'a1 list **)

let rec app l m =
  match l with
  | [] -> m
  | a :: l1 -> a :: (app l1 m)

type positive =
| XI of positive
| XO of positive
| XH

type n =
| N0
| Npos of positive

type z =
| Z0
| Zpos of positive
| Zneg of positive

module Nat =
 struct
  (** val eqb : nat -> nat -> bool **)

  let rec eqb n0 m =
    match n0 with
    | O -> (match m with
            | O -> true
            | S _ -> false)
    | S n' -> (match m with
               | O -> false
               | S m' -> eqb n' m')
 end

module Pos =
 struct
  (** val eqb : positive -> positive -> bool **)

  let rec eqb p q =
    match p with
    | XI p0 -> (match q with
                | XI q0 -> eqb p0 q0
                | _ -> false)
    | XO p0 -> (match q with
                | XO q0 -> eqb p0 q0
                | _ -> false)
    | XH -> (match q with
             | XH -> true
             | _ -> false)
 end

module N =
 struct
  (** val eqb : n -> n -> bool **)

  let eqb n0 m =
    match n0 with
    | N0 -> (match m with
             | N0 -> true
             | Npos _ -> false)
    | Npos p -> (match m with
                 | N0 -> false
                 | Npos q -> Pos.eqb p q)
 end

module Z =
 struct
  (** val of_N : n -> z **)

  let of_N = function
  | N0 -> Z0
  | Npos p -> Zpos p
 end

(** val nth_error : 'a1 list -> nat -> 'a1 option **)

let rec nth_error l = function
| O -> (match l with
        | [] -> None
        | x :: _ -> Some x)
| S n1 -> (match l with
           | [] -> None
           | _ :: l0 -> nth_error l0 n1)

(** val rev : 'a1 list -> 'a1 list **)

let rec rev = function
| [] -> []
| x :: l' -> app (rev l') (x :: [])

(** val map : ('a1 -> 'a2) -> 'a1 list -> 'a2 list **)

let rec map f = function
| [] -> []
| a :: t -> (f a) :: (map f t)

(** val fold_left : ('a1 -> 'a2 -> 'a1) -> 'a2 list -> 'a1 -> 'a1 **)

let rec fold_left f l a0 =
  match l with
  | [] -> a0
  | b :: t -> fold_left f t (f a0 b)

(** val existsb : ('a1 -> bool) -> 'a1 list -> bool **)

let rec existsb f = function
| [] -> false
| a :: l0 -> (||) (f a) (existsb f l0)

(** val forallb : ('a1 -> bool) -> 'a1 list -> bool **)

let rec forallb f = function
| [] -> true
| a :: l0 -> (&&) (f a) (forallb f l0)

type bytes = n list

(** val beqb : bytes -> bytes -> bool **)

let rec beqb a b =
  match a with
  | [] -> (match b with
           | [] -> true
           | _ :: _ -> false)
  | x :: a' ->
    (match b with
     | [] -> false
     | y :: b' -> (&&) (N.eqb x y) (beqb a' b'))

(** val memb : n -> bytes -> bool **)

let memb c l =
  existsb (N.eqb c) l

(** val cut : n -> bytes -> bytes * bytes option **)

let rec cut c = function
| [] -> ([], None)
| x :: l' ->
  if N.eqb x c
  then ([], (Some l'))
  else let (a, r) = cut c l' in ((x :: a), r)

(** val nUL : n **)

let nUL =
  N0

(** val sLASH : n **)

let sLASH =
  Npos (XI (XI (XI (XI (XO XH)))))

type nkind =
| KNode
| KLeaf
| KDir
| KContent

type entry = (bytes * bytes) * bytes

type node = { kind : nkind; data : bytes; kids : (bytes * nat) list;
              parents : nat list; cached : bytes option; collected : 
              bool; ecache : entry list option; mcache : entry list option }

(** val cached : node -> bytes option **)

let cached n0 =
  n0.cached

type heap = node list

type err =
| EKey
| EValue
| EAttr
| EFuel
| EHandle

type 'a res =
| Ok of 'a
| Err of err

(** val bind : 'a1 res -> ('a1 -> 'a2 res) -> 'a2 res **)

let bind x f =
  match x with
  | Ok a -> f a
  | Err e -> Err e

(** val get : heap -> nat -> node res **)

let get s n0 =
  match nth_error s n0 with
  | Some nd -> Ok nd
  | None -> Err EHandle

(** val upd : nat -> (node -> node) -> heap -> heap **)

let rec upd n0 f = function
| [] -> []
| x :: s' -> (match n0 with
              | O -> (f x) :: s'
              | S n' -> x :: (upd n' f s'))

(** val set_kids : (bytes * nat) list -> node -> node **)

let set_kids ks x =
  { kind = x.kind; data = x.data; kids = ks; parents = x.parents; cached =
    x.cached; collected = x.collected; ecache = x.ecache; mcache = x.mcache }

(** val set_parents : nat list -> node -> node **)

let set_parents ps x =
  { kind = x.kind; data = x.data; kids = x.kids; parents = ps; cached =
    x.cached; collected = x.collected; ecache = x.ecache; mcache = x.mcache }

(** val set_cached : bytes option -> node -> node **)

let set_cached c x =
  { kind = x.kind; data = x.data; kids = x.kids; parents = x.parents;
    cached = c; collected = x.collected; ecache = x.ecache; mcache =
    x.mcache }

(** val set_collected : bool -> node -> node **)

let set_collected b x =
  { kind = x.kind; data = x.data; kids = x.kids; parents = x.parents;
    cached = x.cached; collected = b; ecache = x.ecache; mcache = x.mcache }

(** val set_ecache : entry list option -> node -> node **)

let set_ecache e x =
  { kind = x.kind; data = x.data; kids = x.kids; parents = x.parents;
    cached = x.cached; collected = x.collected; ecache = e; mcache =
    x.mcache }

(** val set_mcache : entry list option -> node -> node **)

let set_mcache m x =
  { kind = x.kind; data = x.data; kids = x.kids; parents = x.parents;
    cached = x.cached; collected = x.collected; ecache = x.ecache; mcache =
    m }

(** val clearc : node -> node **)

let clearc x =
  { kind = x.kind; data = x.data; kids = x.kids; parents = x.parents;
    cached = x.cached; collected = x.collected; ecache = None; mcache = None }

(** val uncache : node -> node **)

let uncache x =
  { kind = x.kind; data = x.data; kids = x.kids; parents = x.parents;
    cached = None; collected = false; ecache = None; mcache = None }

(** val hashed : node -> bool **)

let hashed x =
  match x.cached with
  | Some _ -> true
  | None -> false

(** val store : bool -> bytes -> bytes option **)

let store old_truthy h =
  if old_truthy then (match h with
                      | [] -> None
                      | _ :: _ -> Some h) else Some h

(** val kget : bytes -> (bytes * nat) list -> nat option **)

let rec kget key = function
| [] -> None
| p :: ks' -> let (k, c) = p in if beqb key k then Some c else kget key ks'

(** val kset : bytes -> nat -> (bytes * nat) list -> (bytes * nat) list **)

let rec kset key c = function
| [] -> (key, c) :: []
| p :: ks' ->
  let (k, c') = p in
  if beqb key k then (k, c) :: ks' else (k, c') :: (kset key c ks')

(** val kdel : bytes -> (bytes * nat) list -> (bytes * nat) list **)

let rec kdel key = function
| [] -> []
| p :: ks' ->
  let (k, c) = p in if beqb key k then ks' else (k, c) :: (kdel key ks')

(** val kmem : bytes -> (bytes * nat) list -> bool **)

let kmem key ks =
  match kget key ks with
  | Some _ -> true
  | None -> false

(** val split1 : bytes -> bytes * bytes option **)

let split1 key =
  cut sLASH key

(** val rsplit1 : bytes -> bytes * bytes option **)

let rsplit1 key =
  let (a, o) = cut sLASH (rev key) in
  (match o with
   | Some b -> ((rev b), (Some (rev a)))
   | None -> (key, None))

(** val node_eqb : nat -> heap -> nat -> nat -> bool **)

let rec node_eqb fuel s a b =
  if Nat.eqb a b
  then true
  else (match fuel with
        | O -> false
        | S f ->
          (match nth_error s a with
           | Some x ->
             (match nth_error s b with
              | Some y ->
                (&&)
                  ((&&) (Nat.eqb (length x.kids) (length y.kids))
                    (forallb (fun kc ->
                      match kget (fst kc) y.kids with
                      | Some c' -> node_eqb f s (snd kc) c'
                      | None -> false) x.kids)) (beqb x.data y.data)
              | None -> false)
           | None -> false))

(** val remove_first : (nat -> bool) -> nat list -> nat list option **)

let rec remove_first test = function
| [] -> None
| x :: l' ->
  if test x
  then Some l'
  else (match remove_first test l' with
        | Some r -> Some (x :: r)
        | None -> None)

(** val remove_parent : bool -> heap -> nat -> nat -> heap res **)

let remove_parent by_id s c p =
  bind (get s c) (fun x ->
    let test =
      if by_id then Nat.eqb p else (fun q -> node_eqb (S (length s)) s q p)
    in
    (match remove_first test x.parents with
     | Some ps -> Ok (upd c (set_parents ps) s)
     | None -> Err EValue))

(** val add_parent : heap -> nat -> nat -> heap res **)

let add_parent s c p =
  bind (get s c) (fun x -> Ok
    (upd c (set_parents (app x.parents (p :: []))) s))

(** val fold_res : (nat -> 'a1 -> 'a1 res) -> nat list -> 'a1 -> 'a1 res **)

let rec fold_res f l a =
  match l with
  | [] -> Ok a
  | x :: l' -> bind (f x a) (fun a' -> fold_res f l' a')

(** val invalidate : nat -> nat -> heap -> heap res **)

let rec invalidate fuel n0 s =
  match fuel with
  | O -> Err EFuel
  | S f ->
    bind (get s n0) (fun x ->
      if hashed x
      then fold_res (invalidate f) x.parents (upd n0 uncache s)
      else Ok (upd n0 clearc s))

(** val inval : nat -> heap -> heap res **)

let inval n0 s =
  invalidate (S (length s)) n0 s

(** val read_kids :
    (nat -> heap -> (heap * bytes) res) -> (bytes * nat) list -> heap ->
    (heap * entry list) res **)

let rec read_kids rd ks s =
  match ks with
  | [] -> Ok (s, [])
  | p :: ks' ->
    let (name, k) = p in
    bind (rd k s) (fun r ->
      bind (get (fst r) k) (fun kd ->
        bind (read_kids rd ks' (fst r)) (fun r' -> Ok ((fst r'), (((name,
          kd.data), (snd r)) :: (snd r'))))))

(** val compute :
    (bytes -> entry list -> bytes) -> (nat -> heap -> (heap * bytes) res) ->
    nat -> heap -> (heap * bytes) res **)

let compute nH rd n0 s =
  bind (get s n0) (fun x ->
    match x.kind with
    | KDir ->
      (match x.mcache with
       | Some es -> Ok (s, (nH x.data es))
       | None ->
         bind (read_kids rd x.kids s) (fun r -> Ok
           ((upd n0 (set_mcache (Some (snd r))) (fst r)),
           (nH x.data (snd r)))))
    | _ ->
      bind (read_kids rd x.kids s) (fun r -> Ok ((fst r),
        (nH x.data (snd r)))))

(** val update_hash :
    (bytes -> entry list -> bytes) -> bool -> nat -> bool -> nat -> heap ->
    (heap * bytes) res **)

let rec update_hash nH old_truthy fuel force n0 s =
  match fuel with
  | O -> Err EFuel
  | S f ->
    bind (get s n0) (fun x ->
      match x.cached with
      | Some h ->
        if force
        then bind (if force then inval n0 s else Ok s) (fun s1 ->
               bind
                 (fold_res (fun k t ->
                   bind (update_hash nH old_truthy f force k t) (fun r -> Ok
                     (fst r))) (map snd x.kids) s1) (fun s2 ->
                 bind (compute nH (update_hash nH old_truthy f false) n0 s2)
                   (fun r -> Ok
                   ((upd n0 (set_cached (store old_truthy (snd r))) (fst r)),
                   (snd r)))))
        else Ok (s, h)
      | None ->
        bind (if force then inval n0 s else Ok s) (fun s1 ->
          bind
            (fold_res (fun k t ->
              bind (update_hash nH old_truthy f force k t) (fun r -> Ok
                (fst r))) (map snd x.kids) s1) (fun s2 ->
            bind (compute nH (update_hash nH old_truthy f false) n0 s2)
              (fun r -> Ok
              ((upd n0 (set_cached (store old_truthy (snd r))) (fst r)),
              (snd r))))))

(** val read_hash :
    (bytes -> entry list -> bytes) -> bool -> nat -> heap -> (heap * bytes)
    res **)

let read_hash nH old_truthy n0 s =
  update_hash nH old_truthy (S (length s)) false n0 s

(** val force_hash :
    (bytes -> entry list -> bytes) -> bool -> nat -> heap -> (heap * bytes)
    res **)

let force_hash nH old_truthy n0 s =
  update_hash nH old_truthy (S (length s)) true n0 s

(** val entries :
    (bytes -> entry list -> bytes) -> bool -> nat -> heap -> (heap * entry
    list) res **)

let entries nH old_truthy n0 s =
  bind (get s n0) (fun x ->
    match x.kind with
    | KDir ->
      (match x.ecache with
       | Some es -> Ok (s, es)
       | None ->
         bind (read_kids (read_hash nH old_truthy) x.kids s) (fun r -> Ok
           ((upd n0 (set_ecache (Some (snd r))) (fst r)), (snd r))))
    | _ -> Err EAttr)

(** val to_model :
    (bytes -> entry list -> bytes) -> bool -> nat -> heap -> (heap * entry
    list) res **)

let to_model nH old_truthy n0 s =
  bind (get s n0) (fun x ->
    match x.kind with
    | KDir ->
      (match x.mcache with
       | Some es -> Ok (s, es)
       | None ->
         bind (read_kids (read_hash nH old_truthy) x.kids s) (fun r -> Ok
           ((upd n0 (set_mcache (Some (snd r))) (fst r)), (snd r))))
    | _ -> Err EAttr)

(** val collect_node :
    (bytes -> entry list -> bytes) -> bool -> nat -> heap -> (heap * nat
    list) res **)

let collect_node nH old_truthy n0 s =
  bind (get s n0) (fun x ->
    if x.collected
    then Ok (s, [])
    else bind (read_hash nH old_truthy n0 (upd n0 (set_collected true) s))
           (fun r -> Ok ((fst r), (n0 :: []))))

(** val collect :
    (bytes -> entry list -> bytes) -> bool -> nat -> nat -> heap ->
    (heap * nat list) res **)

let rec collect nH old_truthy fuel n0 s =
  match fuel with
  | O -> Err EFuel
  | S f ->
    bind (get s n0) (fun x ->
      bind (collect_node nH old_truthy n0 s) (fun r ->
        fold_res (fun k acc ->
          bind (collect nH old_truthy f k (fst acc)) (fun r' -> Ok ((fst r'),
            (app (snd acc) (snd r'))))) (map snd x.kids) r))

(** val reset_collect : nat -> nat -> heap -> heap res **)

let rec reset_collect fuel n0 s =
  match fuel with
  | O -> Err EFuel
  | S f ->
    bind (get s n0) (fun x ->
      fold_res (reset_collect f) (map snd x.kids)
        (upd n0 (set_collected false) s))

(** val getitem : nat -> heap -> nat -> bytes -> nat res **)

let rec getitem fuel s n0 key =
  match fuel with
  | O -> Err EFuel
  | S f ->
    bind (get s n0) (fun x ->
      match x.kind with
      | KNode ->
        (match kget key x.kids with
         | Some c -> Ok c
         | None -> Err EKey)
      | KDir ->
        (match key with
         | [] -> Ok n0
         | _ :: _ ->
           let (k1, o) = split1 key in
           (match o with
            | Some k2 -> bind (getitem f s n0 k1) (fun t -> getitem f s t k2)
            | None ->
              (match kget key x.kids with
               | Some c -> Ok c
               | None -> Err EKey)))
      | _ -> Err EValue)

(** val getitem_ : heap -> nat -> bytes -> nat res **)

let getitem_ s n0 key =
  getitem (S (S (length key))) s n0 key

(** val contains : nat -> heap -> nat -> bytes -> bool res **)

let rec contains fuel s n0 key =
  match fuel with
  | O -> Err EFuel
  | S f ->
    bind (get s n0) (fun x ->
      match x.kind with
      | KDir ->
        let (k1, o) = split1 key in
        (match o with
         | Some k2 ->
           if kmem k1 x.kids
           then bind (getitem_ s n0 k1) (fun t -> contains f s t k2)
           else Ok false
         | None -> Ok (kmem key x.kids))
      | _ -> Ok (kmem key x.kids))

(** val contains_ : heap -> nat -> bytes -> bool res **)

let contains_ s n0 key =
  contains (S (length key)) s n0 key

(** val raw_setitem : heap -> nat -> bytes -> nat -> heap res **)

let raw_setitem s p key c =
  bind (get s c) (fun _ ->
    bind (inval p s) (fun s1 ->
      add_parent (upd p (fun x -> set_kids (kset key c x.kids) x) s1) c p))

(** val is_disk : nkind -> bool **)

let is_disk = function
| KNode -> false
| KLeaf -> false
| _ -> true

(** val dir_value_checks : heap -> bytes -> nat -> unit res **)

let dir_value_checks s key c =
  bind (get s c) (fun y ->
    if negb (is_disk y.kind)
    then Err EValue
    else (match key with
          | [] -> Err EValue
          | _ :: _ -> if memb nUL key then Err EValue else Ok ()))

(** val setitem : heap -> nat -> bytes -> nat -> heap res **)

let setitem s p key c =
  bind (get s p) (fun x ->
    match x.kind with
    | KNode -> raw_setitem s p key c
    | KDir ->
      bind (dir_value_checks s key c) (fun _ ->
        let (k1, o) = rsplit1 key in
        (match o with
         | Some k2 ->
           bind (getitem_ s p k1) (fun t ->
             bind (get s t) (fun y ->
               match y.kind with
               | KNode -> raw_setitem s t k2 c
               | KDir ->
                 bind (dir_value_checks s k2 c) (fun _ ->
                   raw_setitem s t k2 c)
               | _ -> Err EValue))
         | None -> raw_setitem s p key c))
    | _ -> Err EValue)

(** val raw_delitem : bool -> heap -> nat -> bytes -> heap * err option **)

let raw_delitem by_id s p name =
  match get s p with
  | Ok x ->
    (match kget name x.kids with
     | Some c ->
       (match inval p s with
        | Ok s1 ->
          (match remove_parent by_id s1 c p with
           | Ok s2 ->
             ((upd p (fun x0 -> set_kids (kdel name x0.kids) x0) s2), None)
           | Err e -> (s1, (Some e)))
        | Err e -> (s, (Some e)))
     | None -> (s, (Some EKey)))
  | Err e -> (s, (Some e))

(** val delitem : bool -> heap -> nat -> bytes -> heap * err option **)

let delitem by_id s p key =
  match get s p with
  | Ok x ->
    (match x.kind with
     | KNode -> raw_delitem by_id s p key
     | KDir ->
       let (k1, o) = rsplit1 key in
       (match o with
        | Some k2 ->
          (match bind (getitem_ s p k1) (fun t ->
                   bind (get s t) (fun y -> Ok (t, y.kind))) with
           | Ok a ->
             let (t, n0) = a in
             (match n0 with
              | KNode -> raw_delitem by_id s t k2
              | KDir -> raw_delitem by_id s t k2
              | _ -> (s, (Some EValue)))
           | Err e -> (s, (Some e)))
        | None -> raw_delitem by_id s p key)
     | _ -> (s, (Some EValue)))
  | Err e -> (s, (Some e))

(** val update_links :
    bool -> heap -> nat -> (bytes * nat) list -> heap * err option **)

let rec update_links by_id s p = function
| [] -> (s, None)
| p0 :: l' ->
  let (name, c) = p0 in
  (match add_parent s c p with
   | Ok s1 ->
     (match contains_ s1 p name with
      | Ok a ->
        if a
        then (match bind (getitem_ s1 p name) (fun old ->
                      remove_parent by_id s1 old p) with
              | Ok s2 -> update_links by_id s2 p l'
              | Err e -> (s1, (Some e)))
        else update_links by_id s1 p l'
      | Err e -> (s1, (Some e)))
   | Err e -> (s, (Some e)))

(** val update_many :
    bool -> heap -> nat -> (bytes * nat) list -> heap * err option **)

let update_many by_id s p l =
  match get s p with
  | Ok x ->
    (match x.kind with
     | KNode ->
       (match l with
        | [] -> (s, None)
        | _ :: _ ->
          (match inval p s with
           | Ok s1 ->
             let (s2, o) = update_links by_id s1 p l in
             (match o with
              | Some e -> (s2, (Some e))
              | None ->
                ((upd p (fun x0 ->
                   set_kids
                     (fold_left (fun ks nc -> kset (fst nc) (snd nc) ks) l
                       x0.kids) x0) s2), None))
           | Err e -> (s, (Some e))))
     | KDir ->
       (match l with
        | [] -> (s, None)
        | _ :: _ ->
          (match inval p s with
           | Ok s1 ->
             let (s2, o) = update_links by_id s1 p l in
             (match o with
              | Some e -> (s2, (Some e))
              | None ->
                ((upd p (fun x0 ->
                   set_kids
                     (fold_left (fun ks nc -> kset (fst nc) (snd nc) ks) l
                       x0.kids) x0) s2), None))
           | Err e -> (s, (Some e))))
     | _ -> (s, (Some EValue)))
  | Err e -> (s, (Some e))

type op =
| ONew of nkind * bytes
| OSet of nat * bytes * nat
| ODel of nat * bytes
| OUpdate of nat * (bytes * nat) list
| OGet of nat * bytes
| OContains of nat * bytes
| OHash of nat
| OForce of nat
| OEntries of nat
| OToModel of nat
| OCollect of nat
| OReset of nat

type out =
| OutUnit
| OutHandle of nat
| OutBool of bool
| OutHash of bytes
| OutEntries of entry list
| OutNodes of nat list
| OutErr of err

(** val new_node : nkind -> bytes -> node **)

let new_node k d =
  { kind = k; data = d; kids = []; parents = []; cached = None; collected =
    false; ecache = None; mcache = None }

(** val of_res : heap -> (heap * 'a1) res -> ('a1 -> out) -> heap * out **)

let of_res s r f =
  match r with
  | Ok a0 -> let (s', a) = a0 in (s', (f a))
  | Err e -> (s, (OutErr e))

(** val of_mut : (heap * err option) -> heap * out **)

let of_mut = function
| (s', o) -> (match o with
              | Some e -> (s', (OutErr e))
              | None -> (s', OutUnit))

(** val step :
    (bytes -> entry list -> bytes) -> bool -> bool -> heap -> op -> heap * out **)

let step nH by_id old_truthy s = function
| ONew (k, d) -> ((app s ((new_node k d) :: [])), (OutHandle (length s)))
| OSet (p, key, c) ->
  (match setitem s p key c with
   | Ok s' -> (s', OutUnit)
   | Err e -> (s, (OutErr e)))
| ODel (p, key) -> of_mut (delitem by_id s p key)
| OUpdate (p, l) -> of_mut (update_many by_id s p l)
| OGet (p, key) ->
  (match getitem_ s p key with
   | Ok c -> (s, (OutHandle c))
   | Err e -> (s, (OutErr e)))
| OContains (p, key) ->
  (match contains_ s p key with
   | Ok b -> (s, (OutBool b))
   | Err e -> (s, (OutErr e)))
| OHash n0 -> of_res s (read_hash nH old_truthy n0 s) (fun x -> OutHash x)
| OForce n0 -> of_res s (force_hash nH old_truthy n0 s) (fun x -> OutHash x)
| OEntries n0 -> of_res s (entries nH old_truthy n0 s) (fun x -> OutEntries x)
| OToModel n0 ->
  of_res s (to_model nH old_truthy n0 s) (fun x -> OutEntries x)
| OCollect n0 ->
  of_res s (collect nH old_truthy (S (length s)) n0 s) (fun x -> OutNodes x)
| OReset n0 ->
  (match reset_collect (S (length s)) n0 s with
   | Ok s' -> (s', OutUnit)
   | Err e -> (s, (OutErr e)))

(** val run :
    (bytes -> entry list -> bytes) -> bool -> bool -> heap -> op list ->
    heap * out list **)

let rec run nH by_id old_truthy s = function
| [] -> (s, [])
| o :: h' ->
  let (s1, x) = step nH by_id old_truthy s o in
  let (s2, xs) = run nH by_id old_truthy s1 h' in (s2, (x :: xs))
