
val negb : bool -> bool

type nat =
| O
| S of nat

val fst : ('a1 * 'a2) -> 'a1

val snd : ('a1 * 'a2) -> 'a2

val length : 'a1 list -> nat

val app : 'a1 list -> 'a1 list -> 'a1 list

type positive =
| XI of positive
| XO of positive
| XH

type n =
| N0
| Npos of positive

type z =
| Z0
| Zpos of positive
| Zneg of positive

module Nat :
 sig
  val eqb : nat -> nat -> bool
 end

module Pos :
 sig
  val eqb : positive -> positive -> bool
 end

module N :
 sig
  val eqb : n -> n -> bool
 end

module Z :
 sig
  val of_N : n -> z
 end

val nth_error : 'a1 list -> nat -> 'a1 option

val rev : 'a1 list -> 'a1 list

val map : ('a1 -> 'a2) -> 'a1 list -> 'a2 list

val fold_left : ('a1 -> 'a2 -> 'a1) -> 'a2 list -> 'a1 -> 'a1

val existsb : ('a1 -> bool) -> 'a1 list -> bool

val forallb : ('a1 -> bool) -> 'a1 list -> bool

type bytes = n list

val beqb : bytes -> bytes -> bool

val memb : n -> bytes -> bool

val cut : n -> bytes -> bytes * bytes option

val nUL : n

val sLASH : n

type nkind =
| KNode
| KLeaf
| KDir
| KContent

type entry = (bytes * bytes) * bytes

type node = { kind : nkind; data : bytes; kids : (bytes * nat) list;
              parents : nat list; cached : bytes option; collected : 
              bool; ecache : entry list option; mcache : entry list option }

val cached : node -> bytes option

type heap = node list

type err =
| EKey
| EValue
| EAttr
| EFuel
| EHandle

type 'a res =
| Ok of 'a
| Err of err

val bind : 'a1 res -> ('a1 -> 'a2 res) -> 'a2 res

val get : heap -> nat -> node res

val upd : nat -> (node -> node) -> heap -> heap

val set_kids : (bytes * nat) list -> node -> node

val set_parents : nat list -> node -> node

val set_cached : bytes option -> node -> node

val set_collected : bool -> node -> node

val set_ecache : entry list option -> node -> node

val set_mcache : entry list option -> node -> node

val clearc : node -> node

val uncache : node -> node

val hashed : node -> bool

val store : bool -> bytes -> bytes option

val kget : bytes -> (bytes * nat) list -> nat option

val kset : bytes -> nat -> (bytes * nat) list -> (bytes * nat) list

val kdel : bytes -> (bytes * nat) list -> (bytes * nat) list

val kmem : bytes -> (bytes * nat) list -> bool

val split1 : bytes -> bytes * bytes option

val rsplit1 : bytes -> bytes * bytes option

val node_eqb : nat -> heap -> nat -> nat -> bool

val remove_first : (nat -> bool) -> nat list -> nat list option

val remove_parent : bool -> heap -> nat -> nat -> heap res

val add_parent : heap -> nat -> nat -> heap res

val fold_res : (nat -> 'a1 -> 'a1 res) -> nat list -> 'a1 -> 'a1 res

val invalidate : nat -> nat -> heap -> heap res

val inval : nat -> heap -> heap res

val read_kids :
  (nat -> heap -> (heap * bytes) res) -> (bytes * nat) list -> heap ->
  (heap * entry list) res

val compute :
  (bytes -> entry list -> bytes) -> (nat -> heap -> (heap * bytes) res) ->
  nat -> heap -> (heap * bytes) res

val update_hash :
  (bytes -> entry list -> bytes) -> bool -> nat -> bool -> nat -> heap ->
  (heap * bytes) res

val read_hash :
  (bytes -> entry list -> bytes) -> bool -> nat -> heap -> (heap * bytes) res

val force_hash :
  (bytes -> entry list -> bytes) -> bool -> nat -> heap -> (heap * bytes) res

val entries :
  (bytes -> entry list -> bytes) -> bool -> nat -> heap -> (heap * entry
  list) res

val to_model :
  (bytes -> entry list -> bytes) -> bool -> nat -> heap -> (heap * entry
  list) res

val collect_node :
  (bytes -> entry list -> bytes) -> bool -> nat -> heap -> (heap * nat list)
  res

val collect :
  (bytes -> entry list -> bytes) -> bool -> nat -> nat -> heap -> (heap * nat
  list) res

val reset_collect : nat -> nat -> heap -> heap res

val getitem : nat -> heap -> nat -> bytes -> nat res

val getitem_ : heap -> nat -> bytes -> nat res

val contains : nat -> heap -> nat -> bytes -> bool res

val contains_ : heap -> nat -> bytes -> bool res

val raw_setitem : heap -> nat -> bytes -> nat -> heap res

val is_disk : nkind -> bool

val dir_value_checks : heap -> bytes -> nat -> unit res

val setitem : heap -> nat -> bytes -> nat -> heap res

val raw_delitem : bool -> heap -> nat -> bytes -> heap * err option

val delitem : bool -> heap -> nat -> bytes -> heap * err option

val update_links :
  bool -> heap -> nat -> (bytes * nat) list -> heap * err option

val update_many :
  bool -> heap -> nat -> (bytes * nat) list -> heap * err option

type op =
| ONew of nkind * bytes
| OSet of nat * bytes * nat
| ODel of nat * bytes
| OUpdate of nat * (bytes * nat) list
| OGet of nat * bytes
| OContains of nat * bytes
| OHash of nat
| OForce of nat
| OEntries of nat
| OToModel of nat
| OCollect of nat
| OReset of nat

type out =
| OutUnit
| OutHandle of nat
| OutBool of bool
| OutHash of bytes
| OutEntries of entry list
| OutNodes of nat list
| OutErr of err

val new_node : nkind -> bytes -> node

val of_res : heap -> (heap * 'a1) res -> ('a1 -> out) -> heap * out

val of_mut : (heap * err option) -> heap * out

val step :
  (bytes -> entry list -> bytes) -> bool -> bool -> heap -> op -> heap * out

val run :
  (bytes -> entry list -> bytes) -> bool -> bool -> heap -> op list ->
  heap * out list
