(* Extraction of the SWHID model for C08.  ExtrOcamlBasic only; no Extract
   Constant / Extract Inductive of our own. *)
Require Extraction.
Require Import ExtrOcamlBasic.
From SWH.model Require Import Swhid.
Extraction "extract/C08/model.ml" mk_core mk_ext mk_q mk_core_nv mk_ext_nv mk_q_nv to_extended to_qualified
  print_core print_q parse_core parse_ext parse_q lang_core lang_ext lang_q.
