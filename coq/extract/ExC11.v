(* Extraction of the C11 model.  ExtrOcamlBasic only; no Extract Constant /
   Extract Inductive of our own.  [Z.of_N], [N.to_nat] are listed only so that
   the types used by the shared ocaml/conv.ml exist. *)
Require Extraction.
Require Import ExtrOcamlBasic.
From Coq Require Import ZArith NArith.
From SWH.model Require Import Frozen.
Extraction "extract/C11/model.ml" run_script run_twins eq_hash_coherent arg_kinds_coherent
  ALL_CLASSES arg_kind is_rebuild Z.of_N N.to_nat.
