(* Extraction of the C17 model.  ExtrOcamlBasic only; no Extract Constant /
   Extract Inductive of our own.  [Z.of_N] is listed only so that the type [z]
   exists for the shared ocaml/conv.ml (the model itself does not use Z). *)
Require Extraction.
Require Import ExtrOcamlBasic.
From Coq Require Import ZArith.
From SWH.model Require Import Discovery.
Extraction "extract/C17/model.ml" filter_known_objects pick_fifo pick_lifo
  sampler_first sampler_last sampler_replay closedb memN Z.of_N.
