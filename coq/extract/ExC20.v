(* Extraction of the C20 model.  ExtrOcamlBasic only; no Extract Constant /
   Extract Inductive of our own. *)
Require Extraction.
Require Import ExtrOcamlBasic.
From SWH.model Require Import Topo.
Extraction "extract/C20/model.ml" toposort fifo lifo is_model_run is_topo_order closed_log.
