(* Extraction of the SWHID model for C09.  ExtrOcamlBasic only; no Extract
   Constant / Extract Inductive of our own. *)
Require Extraction.
Require Import ExtrOcamlBasic.
From SWH.lib Require Import Utf8 Percent.
From SWH.model Require Import Swhid.
Extraction "extract/C09/model.ml" parse_core parse_ext parse_q print_core print_q
  lang_core lang_ext lang_q within_limit WS_TABLE
  unquote unquote_to_bytes quote_from_bytes quote_text utf8_decode_replace utf8_encode.
