
(** val negb : bool -> bool **)

let negb = function
| true -> false
| false -> true

type nat =
| O
| S of nat

(** val option_map : ('a1 -> 'a2) -> 'a1 option -> 'a2 option **)

let option_map f = function
| Some a -> Some (f a)
| None -> None

(** val fst : ('a1 * 'a2) -> 'a1 **)

let fst = function
| (x, _) -> x

(** val snd : ('a1 * 'a2) -> 'a2 **)

let snd = function
| (_, y) -> y

(** val length : 'a1 list -> nat **)

let rec length = function
| [] -> O
| _ :: l' -> S (length l')

(** val app : 'a1 list -> 'a1 list -> 'a1 list **)

let rec app l m =
  match l with
  | [] -> m
  | a :: l1 -> a :: (app l1 m)

type comparison =
| Eq
| Lt
| Gt

(** val add : nat -> nat -> nat **)

let rec add n0 m =
  match n0 with
  | O -> m
  | S p -> S (add p m)

type byte =
| X00
| X01
| X02
| X03
| X04
| X05
| X06
| X07
| X08
| X09
| X0a
| X0b
| X0c
| X0d
| X0e
| X0f
| X10
| X11
| X12
| X13
| X14
| X15
| X16
| X17
| X18
| X19
| X1a
| X1b
| X1c
| X1d
| X1e
| X1f
| X20
| X21
| X22
| X23
| X24
| X25
| X26
| X27
| X28
| X29
| X2a
| X2b
| X2c
| X2d
| X2e
| X2f
| X30
| X31
| X32
| X33
| X34
| X35
| X36
| X37
| X38
| X39
| X3a
| X3b
| X3c
| X3d
| X3e
| X3f
| X40
| X41
| X42
| X43
| X44
| X45
| X46
| X47
| X48
| X49
| X4a
| X4b
| X4c
| X4d
| X4e
| X4f
| X50
| X51
| X52
| X53
| X54
| X55
| X56
| X57
| X58
| X59
| X5a
| X5b
| X5c
| X5d
| X5e
| X5f
| X60
| X61
| X62
| X63
| X64
| X65
| X66
| X67
| X68
| X69
| X6a
| X6b
| X6c
| X6d
| X6e
| X6f
| X70
| X71
| X72
| X73
| X74
| X75
| X76
| X77
| X78
| X79
| X7a
| X7b
| X7c
| X7d
| X7e
| X7f
| X80
| X81
| X82
| X83
| X84
| X85
| X86
| X87
| X88
| X89
| X8a
| X8b
| X8c
| X8d
| X8e
| X8f
| X90
| X91
| X92
| X93
| X94
| X95
| X96
| X97
| X98
| X99
| X9a
| X9b
| X9c
| X9d
| X9e
| X9f
| Xa0
| Xa1
| Xa2
| Xa3
| Xa4
| Xa5
| Xa6
| Xa7
| Xa8
| Xa9
| Xaa
| Xab
| Xac
| Xad
| Xae
| Xaf
| Xb0
| Xb1
| Xb2
| Xb3
| Xb4
| Xb5
| Xb6
| Xb7
| Xb8
| Xb9
| Xba
| Xbb
| Xbc
| Xbd
| Xbe
| Xbf
| Xc0
| Xc1
| Xc2
| Xc3
| Xc4
| Xc5
| Xc6
| Xc7
| Xc8
| Xc9
| Xca
| Xcb
| Xcc
| Xcd
| Xce
| Xcf
| Xd0
| Xd1
| Xd2
| Xd3
| Xd4
| Xd5
| Xd6
| Xd7
| Xd8
| Xd9
| Xda
| Xdb
| Xdc
| Xdd
| Xde
| Xdf
| Xe0
| Xe1
| Xe2
| Xe3
| Xe4
| Xe5
| Xe6
| Xe7
| Xe8
| Xe9
| Xea
| Xeb
| Xec
| Xed
| Xee
| Xef
| Xf0
| Xf1
| Xf2
| Xf3
| Xf4
| Xf5
| Xf6
| Xf7
| Xf8
| Xf9
| Xfa
| Xfb
| Xfc
| Xfd
| Xfe
| Xff

(** val of_bits :
    (bool * (bool * (bool * (bool * (bool * (bool * (bool * bool))))))) ->
    byte **)

let of_bits = function
| (b0, p) ->
  if b0
  then let (b1, p0) = p in
       if b1
       then let (b2, p1) = p0 in
            if b2
            then let (b3, p2) = p1 in
                 if b3
                 then let (b4, p3) = p2 in
                      if b4
                      then let (b5, p4) = p3 in
                           if b5
                           then let (b6, b7) = p4 in
                                if b6
                                then if b7 then Xff else X7f
                                else if b7 then Xbf else X3f
                           else let (b6, b7) = p4 in
                                if b6
                                then if b7 then Xdf else X5f
                                else if b7 then X9f else X1f
                      else let (b5, p4) = p3 in
                           if b5
                           then let (b6, b7) = p4 in
                                if b6
                                then if b7 then Xef else X6f
                                else if b7 then Xaf else X2f
                           else let (b6, b7) = p4 in
                                if b6
                                then if b7 then Xcf else X4f
                                else if b7 then X8f else X0f
                 else let (b4, p3) = p2 in
                      if b4
                      then let (b5, p4) = p3 in
                           if b5
                           then let (b6, b7) = p4 in
                                if b6
                                then if b7 then Xf7 else X77
                                else if b7 then Xb7 else X37
                           else let (b6, b7) = p4 in
                                if b6
                                then if b7 then Xd7 else X57
                                else if b7 then X97 else X17
                      else let (b5, p4) = p3 in
                           if b5
                           then let (b6, b7) = p4 in
                                if b6
                                then if b7 then Xe7 else X67
                                else if b7 then Xa7 else X27
                           else let (b6, b7) = p4 in
                                if b6
                                then if b7 then Xc7 else X47
                                else if b7 then X87 else X07
            else let (b3, p2) = p1 in
                 if b3
                 then let (b4, p3) = p2 in
                      if b4
                      then let (b5, p4) = p3 in
                           if b5
                           then let (b6, b7) = p4 in
                                if b6
                                then if b7 then Xfb else X7b
                                else if b7 then Xbb else X3b
                           else let (b6, b7) = p4 in
                                if b6
                                then if b7 then Xdb else X5b
                                else if b7 then X9b else X1b
                      else let (b5, p4) = p3 in
                           if b5
                           then let (b6, b7) = p4 in
                                if b6
                                then if b7 then Xeb else X6b
                                else if b7 then Xab else X2b
                           else let (b6, b7) = p4 in
                                if b6
                                then if b7 then Xcb else X4b
                                else if b7 then X8b else X0b
                 else let (b4, p3) = p2 in
                      if b4
                      then let (b5, p4) = p3 in
                           if b5
                           then let (b6, b7) = p4 in
                                if b6
                                then if b7 then Xf3 else X73
                                else if b7 then Xb3 else X33
                           else let (b6, b7) = p4 in
                                if b6
                                then if b7 then Xd3 else X53
                                else if b7 then X93 else X13
                      else let (b5, p4) = p3 in
                           if b5
                           then let (b6, b7) = p4 in
                                if b6
                                then if b7 then Xe3 else X63
                                else if b7 then Xa3 else X23
                           else let (b6, b7) = p4 in
                                if b6
                                then if b7 then Xc3 else X43
                                else if b7 then X83 else X03
       else let (b2, p1) = p0 in
            if b2
            then let (b3, p2) = p1 in
                 if b3
                 then let (b4, p3) = p2 in
                      if b4
                      then let (b5, p4) = p3 in
                           if b5
                           then let (b6, b7) = p4 in
                                if b6
                                then if b7 then Xfd else X7d
                                else if b7 then Xbd else X3d
                           else let (b6, b7) = p4 in
                                if b6
                                then if b7 then Xdd else X5d
                                else if b7 then X9d else X1d
                      else let (b5, p4) = p3 in
                           if b5
                           then let (b6, b7) = p4 in
                                if b6
                                then if b7 then Xed else X6d
                                else if b7 then Xad else X2d
                           else let (b6, b7) = p4 in
                                if b6
                                then if b7 then Xcd else X4d
                                else if b7 then X8d else X0d
                 else let (b4, p3) = p2 in
                      if b4
                      then let (b5, p4) = p3 in
                           if b5
                           then let (b6, b7) = p4 in
                                if b6
                                then if b7 then Xf5 else X75
                                else if b7 then Xb5 else X35
                           else let (b6, b7) = p4 in
                                if b6
                                then if b7 then Xd5 else X55
                                else if b7 then X95 else X15
                      else let (b5, p4) = p3 in
                           if b5
                           then let (b6, b7) = p4 in
                                if b6
                                then if b7 then Xe5 else X65
                                else if b7 then Xa5 else X25
                           else let (b6, b7) = p4 in
                                if b6
                                then if b7 then Xc5 else X45
                                else if b7 then X85 else X05
            else let (b3, p2) = p1 in
                 if b3
                 then let (b4, p3) = p2 in
                      if b4
                      then let (b5, p4) = p3 in
                           if b5
                           then let (b6, b7) = p4 in
                                if b6
                                then if b7 then Xf9 else X79
                                else if b7 then Xb9 else X39
                           else let (b6, b7) = p4 in
                                if b6
                                then if b7 then Xd9 else X59
                                else if b7 then X99 else X19
                      else let (b5, p4) = p3 in
                           if b5
                           then let (b6, b7) = p4 in
                                if b6
                                then if b7 then Xe9 else X69
                                else if b7 then Xa9 else X29
                           else let (b6, b7) = p4 in
                                if b6
                                then if b7 then Xc9 else X49
                                else if b7 then X89 else X09
                 else let (b4, p3) = p2 in
                      if b4
                      then let (b5, p4) = p3 in
                           if b5
                           then let (b6, b7) = p4 in
                                if b6
                                then if b7 then Xf1 else X71
                                else if b7 then Xb1 else X31
                           else let (b6, b7) = p4 in
                                if b6
                                then if b7 then Xd1 else X51
                                else if b7 then X91 else X11
                      else let (b5, p4) = p3 in
                           if b5
                           then let (b6, b7) = p4 in
                                if b6
                                then if b7 then Xe1 else X61
                                else if b7 then Xa1 else X21
                           else let (b6, b7) = p4 in
                                if b6
                                then if b7 then Xc1 else X41
                                else if b7 then X81 else X01
  else let (b1, p0) = p in
       if b1
       then let (b2, p1) = p0 in
            if b2
            then let (b3, p2) = p1 in
                 if b3
                 then let (b4, p3) = p2 in
                      if b4
                      then let (b5, p4) = p3 in
                           if b5
                           then let (b6, b7) = p4 in
                                if b6
                                then if b7 then Xfe else X7e
                                else if b7 then Xbe else X3e
                           else let (b6, b7) = p4 in
                                if b6
                                then if b7 then Xde else X5e
                                else if b7 then X9e else X1e
                      else let (b5, p4) = p3 in
                           if b5
                           then let (b6, b7) = p4 in
                                if b6
                                then if b7 then Xee else X6e
                                else if b7 then Xae else X2e
                           else let (b6, b7) = p4 in
                                if b6
                                then if b7 then Xce else X4e
                                else if b7 then X8e else X0e
                 else let (b4, p3) = p2 in
                      if b4
                      then let (b5, p4) = p3 in
                           if b5
                           then let (b6, b7) = p4 in
                                if b6
                                then if b7 then Xf6 else X76
                                else if b7 then Xb6 else X36
                           else let (b6, b7) = p4 in
                                if b6
                                then if b7 then Xd6 else X56
                                else if b7 then X96 else X16
                      else let (b5, p4) = p3 in
                           if b5
                           then let (b6, b7) = p4 in
                                if b6
                                then if b7 then Xe6 else X66
                                else if b7 then Xa6 else X26
                           else let (b6, b7) = p4 in
                                if b6
                                then if b7 then Xc6 else X46
                                else if b7 then X86 else X06
            else let (b3, p2) = p1 in
                 if b3
                 then let (b4, p3) = p2 in
                      if b4
                      then let (b5, p4) = p3 in
                           if b5
                           then let (b6, b7) = p4 in
                                if b6
                                then if b7 then Xfa else X7a
                                else if b7 then Xba else X3a
                           else let (b6, b7) = p4 in
                                if b6
                                then if b7 then Xda else X5a
                                else if b7 then X9a else X1a
                      else let (b5, p4) = p3 in
                           if b5
                           then let (b6, b7) = p4 in
                                if b6
                                then if b7 then Xea else X6a
                                else if b7 then Xaa else X2a
                           else let (b6, b7) = p4 in
                                if b6
                                then if b7 then Xca else X4a
                                else if b7 then X8a else X0a
                 else let (b4, p3) = p2 in
                      if b4
                      then let (b5, p4) = p3 in
                           if b5
                           then let (b6, b7) = p4 in
                                if b6
                                then if b7 then Xf2 else X72
                                else if b7 then Xb2 else X32
                           else let (b6, b7) = p4 in
                                if b6
                                then if b7 then Xd2 else X52
                                else if b7 then X92 else X12
                      else let (b5, p4) = p3 in
                           if b5
                           then let (b6, b7) = p4 in
                                if b6
                                then if b7 then Xe2 else X62
                                else if b7 then Xa2 else X22
                           else let (b6, b7) = p4 in
                                if b6
                                then if b7 then Xc2 else X42
                                else if b7 then X82 else X02
       else let (b2, p1) = p0 in
            if b2
            then let (b3, p2) = p1 in
                 if b3
                 then let (b4, p3) = p2 in
                      if b4
                      then let (b5, p4) = p3 in
                           if b5
                           then let (b6, b7) = p4 in
                                if b6
                                then if b7 then Xfc else X7c
                                else if b7 then Xbc else X3c
                           else let (b6, b7) = p4 in
                                if b6
                                then if b7 then Xdc else X5c
                                else if b7 then X9c else X1c
                      else let (b5, p4) = p3 in
                           if b5
                           then let (b6, b7) = p4 in
                                if b6
                                then if b7 then Xec else X6c
                                else if b7 then Xac else X2c
                           else let (b6, b7) = p4 in
                                if b6
                                then if b7 then Xcc else X4c
                                else if b7 then X8c else X0c
                 else let (b4, p3) = p2 in
                      if b4
                      then let (b5, p4) = p3 in
                           if b5
                           then let (b6, b7) = p4 in
                                if b6
                                then if b7 then Xf4 else X74
                                else if b7 then Xb4 else X34
                           else let (b6, b7) = p4 in
                                if b6
                                then if b7 then Xd4 else X54
                                else if b7 then X94 else X14
                      else let (b5, p4) = p3 in
                           if b5
                           then let (b6, b7) = p4 in
                                if b6
                                then if b7 then Xe4 else X64
                                else if b7 then Xa4 else X24
                           else let (b6, b7) = p4 in
                                if b6
                                then if b7 then Xc4 else X44
                                else if b7 then X84 else X04
            else let (b3, p2) = p1 in
                 if b3
                 then let (b4, p3) = p2 in
                      if b4
                      then let (b5, p4) = p3 in
                           if b5
                           then let (b6, b7) = p4 in
                                if b6
                                then if b7 then Xf8 else X78
                                else if b7 then Xb8 else X38
                           else let (b6, b7) = p4 in
                                if b6
                                then if b7 then Xd8 else X58
                                else if b7 then X98 else X18
                      else let (b5, p4) = p3 in
                           if b5
                           then let (b6, b7) = p4 in
                                if b6
                                then if b7 then Xe8 else X68
                                else if b7 then Xa8 else X28
                           else let (b6, b7) = p4 in
                                if b6
                                then if b7 then Xc8 else X48
                                else if b7 then X88 else X08
                 else let (b4, p3) = p2 in
                      if b4
                      then let (b5, p4) = p3 in
                           if b5
                           then let (b6, b7) = p4 in
                                if b6
                                then if b7 then Xf0 else X70
                                else if b7 then Xb0 else X30
                           else let (b6, b7) = p4 in
                                if b6
                                then if b7 then Xd0 else X50
                                else if b7 then X90 else X10
                      else let (b5, p4) = p3 in
                           if b5
                           then let (b6, b7) = p4 in
                                if b6
                                then if b7 then Xe0 else X60
                                else if b7 then Xa0 else X20
                           else let (b6, b7) = p4 in
                                if b6
                                then if b7 then Xc0 else X40
                                else if b7 then X80 else X00

type positive =
| XI of positive
| XO of positive
| XH

type n =
| N0
| Npos of positive

type z =
| Z0
| Zpos of positive
| Zneg of positive

(** val eqb : bool -> bool -> bool **)

let eqb b1 b2 =
  if b1 then b2 else if b2 then false else true

module Nat =
 struct
  (** val eqb : nat -> nat -> bool **)

  let rec eqb n0 m =
    match n0 with
    | O -> (match m with
            | O -> true
            | S _ -> false)
    | S n' -> (match m with
               | O -> false
               | S m' -> eqb n' m')
 end

module Pos =
 struct
  (** val compare_cont : comparison -> positive -> positive -> comparison **)

  let rec compare_cont r x y =
    match x with
    | XI p ->
      (match y with
       | XI q -> compare_cont r p q
       | XO q -> compare_cont Gt p q
       | XH -> Gt)
    | XO p ->
      (match y with
       | XI q -> compare_cont Lt p q
       | XO q -> compare_cont r p q
       | XH -> Gt)
    | XH -> (match y with
             | XH -> r
             | _ -> Lt)

  (** val compare : positive -> positive -> comparison **)

  let compare =
    compare_cont Eq

  (** val eqb : positive -> positive -> bool **)

  let rec eqb p q =
    match p with
    | XI p0 -> (match q with
                | XI q0 -> eqb p0 q0
                | _ -> false)
    | XO p0 -> (match q with
                | XO q0 -> eqb p0 q0
                | _ -> false)
    | XH -> (match q with
             | XH -> true
             | _ -> false)

  (** val iter_op : ('a1 -> 'a1 -> 'a1) -> positive -> 'a1 -> 'a1 **)

  let rec iter_op op p a =
    match p with
    | XI p0 -> op a (iter_op op p0 (op a a))
    | XO p0 -> iter_op op p0 (op a a)
    | XH -> a

  (** val to_nat : positive -> nat **)

  let to_nat x =
    iter_op add x (S O)
 end

module N =
 struct
  (** val compare : n -> n -> comparison **)

  let compare n0 m =
    match n0 with
    | N0 -> (match m with
             | N0 -> Eq
             | Npos _ -> Lt)
    | Npos n' -> (match m with
                  | N0 -> Gt
                  | Npos m' -> Pos.compare n' m')

  (** val eqb : n -> n -> bool **)

  let eqb n0 m =
    match n0 with
    | N0 -> (match m with
             | N0 -> true
             | Npos _ -> false)
    | Npos p -> (match m with
                 | N0 -> false
                 | Npos q -> Pos.eqb p q)

  (** val to_nat : n -> nat **)

  let to_nat = function
  | N0 -> O
  | Npos p -> Pos.to_nat p
 end

module Z =
 struct
  (** val of_N : n -> z **)

  let of_N = function
  | N0 -> Z0
  | Npos p -> Zpos p
 end

(** val nth_error : 'a1 list -> nat -> 'a1 option **)

let rec nth_error l = function
| O -> (match l with
        | [] -> None
        | x :: _ -> Some x)
| S n1 -> (match l with
           | [] -> None
           | _ :: l0 -> nth_error l0 n1)

(** val removelast : 'a1 list -> 'a1 list **)

let rec removelast = function
| [] -> []
| a :: l0 -> (match l0 with
              | [] -> []
              | _ :: _ -> a :: (removelast l0))

(** val rev : 'a1 list -> 'a1 list **)

let rec rev = function
| [] -> []
| x :: l' -> app (rev l') (x :: [])

(** val map : ('a1 -> 'a2) -> 'a1 list -> 'a2 list **)

let rec map f = function
| [] -> []
| a :: t -> (f a) :: (map f t)

(** val fold_left : ('a1 -> 'a2 -> 'a1) -> 'a2 list -> 'a1 -> 'a1 **)

let rec fold_left f l a0 =
  match l with
  | [] -> a0
  | b :: t -> fold_left f t (f a0 b)

(** val existsb : ('a1 -> bool) -> 'a1 list -> bool **)

let rec existsb f = function
| [] -> false
| a :: l0 -> (||) (f a) (existsb f l0)

(** val forallb : ('a1 -> bool) -> 'a1 list -> bool **)

let rec forallb f = function
| [] -> true
| a :: l0 -> (&&) (f a) (forallb f l0)

(** val find : ('a1 -> bool) -> 'a1 list -> 'a1 option **)

let rec find f = function
| [] -> None
| x :: tl -> if f x then Some x else find f tl

(** val to_N : byte -> n **)

let to_N = function
| X00 -> N0
| X01 -> Npos XH
| X02 -> Npos (XO XH)
| X03 -> Npos (XI XH)
| X04 -> Npos (XO (XO XH))
| X05 -> Npos (XI (XO XH))
| X06 -> Npos (XO (XI XH))
| X07 -> Npos (XI (XI XH))
| X08 -> Npos (XO (XO (XO XH)))
| X09 -> Npos (XI (XO (XO XH)))
| X0a -> Npos (XO (XI (XO XH)))
| X0b -> Npos (XI (XI (XO XH)))
| X0c -> Npos (XO (XO (XI XH)))
| X0d -> Npos (XI (XO (XI XH)))
| X0e -> Npos (XO (XI (XI XH)))
| X0f -> Npos (XI (XI (XI XH)))
| X10 -> Npos (XO (XO (XO (XO XH))))
| X11 -> Npos (XI (XO (XO (XO XH))))
| X12 -> Npos (XO (XI (XO (XO XH))))
| X13 -> Npos (XI (XI (XO (XO XH))))
| X14 -> Npos (XO (XO (XI (XO XH))))
| X15 -> Npos (XI (XO (XI (XO XH))))
| X16 -> Npos (XO (XI (XI (XO XH))))
| X17 -> Npos (XI (XI (XI (XO XH))))
| X18 -> Npos (XO (XO (XO (XI XH))))
| X19 -> Npos (XI (XO (XO (XI XH))))
| X1a -> Npos (XO (XI (XO (XI XH))))
| X1b -> Npos (XI (XI (XO (XI XH))))
| X1c -> Npos (XO (XO (XI (XI XH))))
| X1d -> Npos (XI (XO (XI (XI XH))))
| X1e -> Npos (XO (XI (XI (XI XH))))
| X1f -> Npos (XI (XI (XI (XI XH))))
| X20 -> Npos (XO (XO (XO (XO (XO XH)))))
| X21 -> Npos (XI (XO (XO (XO (XO XH)))))
| X22 -> Npos (XO (XI (XO (XO (XO XH)))))
| X23 -> Npos (XI (XI (XO (XO (XO XH)))))
| X24 -> Npos (XO (XO (XI (XO (XO XH)))))
| X25 -> Npos (XI (XO (XI (XO (XO XH)))))
| X26 -> Npos (XO (XI (XI (XO (XO XH)))))
| X27 -> Npos (XI (XI (XI (XO (XO XH)))))
| X28 -> Npos (XO (XO (XO (XI (XO XH)))))
| X29 -> Npos (XI (XO (XO (XI (XO XH)))))
| X2a -> Npos (XO (XI (XO (XI (XO XH)))))
| X2b -> Npos (XI (XI (XO (XI (XO XH)))))
| X2c -> Npos (XO (XO (XI (XI (XO XH)))))
| X2d -> Npos (XI (XO (XI (XI (XO XH)))))
| X2e -> Npos (XO (XI (XI (XI (XO XH)))))
| X2f -> Npos (XI (XI (XI (XI (XO XH)))))
| X30 -> Npos (XO (XO (XO (XO (XI XH)))))
| X31 -> Npos (XI (XO (XO (XO (XI XH)))))
| X32 -> Npos (XO (XI (XO (XO (XI XH)))))
| X33 -> Npos (XI (XI (XO (XO (XI XH)))))
| X34 -> Npos (XO (XO (XI (XO (XI XH)))))
| X35 -> Npos (XI (XO (XI (XO (XI XH)))))
| X36 -> Npos (XO (XI (XI (XO (XI XH)))))
| X37 -> Npos (XI (XI (XI (XO (XI XH)))))
| X38 -> Npos (XO (XO (XO (XI (XI XH)))))
| X39 -> Npos (XI (XO (XO (XI (XI XH)))))
| X3a -> Npos (XO (XI (XO (XI (XI XH)))))
| X3b -> Npos (XI (XI (XO (XI (XI XH)))))
| X3c -> Npos (XO (XO (XI (XI (XI XH)))))
| X3d -> Npos (XI (XO (XI (XI (XI XH)))))
| X3e -> Npos (XO (XI (XI (XI (XI XH)))))
| X3f -> Npos (XI (XI (XI (XI (XI XH)))))
| X40 -> Npos (XO (XO (XO (XO (XO (XO XH))))))
| X41 -> Npos (XI (XO (XO (XO (XO (XO XH))))))
| X42 -> Npos (XO (XI (XO (XO (XO (XO XH))))))
| X43 -> Npos (XI (XI (XO (XO (XO (XO XH))))))
| X44 -> Npos (XO (XO (XI (XO (XO (XO XH))))))
| X45 -> Npos (XI (XO (XI (XO (XO (XO XH))))))
| X46 -> Npos (XO (XI (XI (XO (XO (XO XH))))))
| X47 -> Npos (XI (XI (XI (XO (XO (XO XH))))))
| X48 -> Npos (XO (XO (XO (XI (XO (XO XH))))))
| X49 -> Npos (XI (XO (XO (XI (XO (XO XH))))))
| X4a -> Npos (XO (XI (XO (XI (XO (XO XH))))))
| X4b -> Npos (XI (XI (XO (XI (XO (XO XH))))))
| X4c -> Npos (XO (XO (XI (XI (XO (XO XH))))))
| X4d -> Npos (XI (XO (XI (XI (XO (XO XH))))))
| X4e -> Npos (XO (XI (XI (XI (XO (XO XH))))))
| X4f -> Npos (XI (XI (XI (XI (XO (XO XH))))))
| X50 -> Npos (XO (XO (XO (XO (XI (XO XH))))))
| X51 -> Npos (XI (XO (XO (XO (XI (XO XH))))))
| X52 -> Npos (XO (XI (XO (XO (XI (XO XH))))))
| X53 -> Npos (XI (XI (XO (XO (XI (XO XH))))))
| X54 -> Npos (XO (XO (XI (XO (XI (XO XH))))))
| X55 -> Npos (XI (XO (XI (XO (XI (XO XH))))))
| X56 -> Npos (XO (XI (XI (XO (XI (XO XH))))))
| X57 -> Npos (XI (XI (XI (XO (XI (XO XH))))))
| X58 -> Npos (XO (XO (XO (XI (XI (XO XH))))))
| X59 -> Npos (XI (XO (XO (XI (XI (XO XH))))))
| X5a -> Npos (XO (XI (XO (XI (XI (XO XH))))))
| X5b -> Npos (XI (XI (XO (XI (XI (XO XH))))))
| X5c -> Npos (XO (XO (XI (XI (XI (XO XH))))))
| X5d -> Npos (XI (XO (XI (XI (XI (XO XH))))))
| X5e -> Npos (XO (XI (XI (XI (XI (XO XH))))))
| X5f -> Npos (XI (XI (XI (XI (XI (XO XH))))))
| X60 -> Npos (XO (XO (XO (XO (XO (XI XH))))))
| X61 -> Npos (XI (XO (XO (XO (XO (XI XH))))))
| X62 -> Npos (XO (XI (XO (XO (XO (XI XH))))))
| X63 -> Npos (XI (XI (XO (XO (XO (XI XH))))))
| X64 -> Npos (XO (XO (XI (XO (XO (XI XH))))))
| X65 -> Npos (XI (XO (XI (XO (XO (XI XH))))))
| X66 -> Npos (XO (XI (XI (XO (XO (XI XH))))))
| X67 -> Npos (XI (XI (XI (XO (XO (XI XH))))))
| X68 -> Npos (XO (XO (XO (XI (XO (XI XH))))))
| X69 -> Npos (XI (XO (XO (XI (XO (XI XH))))))
| X6a -> Npos (XO (XI (XO (XI (XO (XI XH))))))
| X6b -> Npos (XI (XI (XO (XI (XO (XI XH))))))
| X6c -> Npos (XO (XO (XI (XI (XO (XI XH))))))
| X6d -> Npos (XI (XO (XI (XI (XO (XI XH))))))
| X6e -> Npos (XO (XI (XI (XI (XO (XI XH))))))
| X6f -> Npos (XI (XI (XI (XI (XO (XI XH))))))
| X70 -> Npos (XO (XO (XO (XO (XI (XI XH))))))
| X71 -> Npos (XI (XO (XO (XO (XI (XI XH))))))
| X72 -> Npos (XO (XI (XO (XO (XI (XI XH))))))
| X73 -> Npos (XI (XI (XO (XO (XI (XI XH))))))
| X74 -> Npos (XO (XO (XI (XO (XI (XI XH))))))
| X75 -> Npos (XI (XO (XI (XO (XI (XI XH))))))
| X76 -> Npos (XO (XI (XI (XO (XI (XI XH))))))
| X77 -> Npos (XI (XI (XI (XO (XI (XI XH))))))
| X78 -> Npos (XO (XO (XO (XI (XI (XI XH))))))
| X79 -> Npos (XI (XO (XO (XI (XI (XI XH))))))
| X7a -> Npos (XO (XI (XO (XI (XI (XI XH))))))
| X7b -> Npos (XI (XI (XO (XI (XI (XI XH))))))
| X7c -> Npos (XO (XO (XI (XI (XI (XI XH))))))
| X7d -> Npos (XI (XO (XI (XI (XI (XI XH))))))
| X7e -> Npos (XO (XI (XI (XI (XI (XI XH))))))
| X7f -> Npos (XI (XI (XI (XI (XI (XI XH))))))
| X80 -> Npos (XO (XO (XO (XO (XO (XO (XO XH)))))))
| X81 -> Npos (XI (XO (XO (XO (XO (XO (XO XH)))))))
| X82 -> Npos (XO (XI (XO (XO (XO (XO (XO XH)))))))
| X83 -> Npos (XI (XI (XO (XO (XO (XO (XO XH)))))))
| X84 -> Npos (XO (XO (XI (XO (XO (XO (XO XH)))))))
| X85 -> Npos (XI (XO (XI (XO (XO (XO (XO XH)))))))
| X86 -> Npos (XO (XI (XI (XO (XO (XO (XO XH)))))))
| X87 -> Npos (XI (XI (XI (XO (XO (XO (XO XH)))))))
| X88 -> Npos (XO (XO (XO (XI (XO (XO (XO XH)))))))
| X89 -> Npos (XI (XO (XO (XI (XO (XO (XO XH)))))))
| X8a -> Npos (XO (XI (XO (XI (XO (XO (XO XH)))))))
| X8b -> Npos (XI (XI (XO (XI (XO (XO (XO XH)))))))
| X8c -> Npos (XO (XO (XI (XI (XO (XO (XO XH)))))))
| X8d -> Npos (XI (XO (XI (XI (XO (XO (XO XH)))))))
| X8e -> Npos (XO (XI (XI (XI (XO (XO (XO XH)))))))
| X8f -> Npos (XI (XI (XI (XI (XO (XO (XO XH)))))))
| X90 -> Npos (XO (XO (XO (XO (XI (XO (XO XH)))))))
| X91 -> Npos (XI (XO (XO (XO (XI (XO (XO XH)))))))
| X92 -> Npos (XO (XI (XO (XO (XI (XO (XO XH)))))))
| X93 -> Npos (XI (XI (XO (XO (XI (XO (XO XH)))))))
| X94 -> Npos (XO (XO (XI (XO (XI (XO (XO XH)))))))
| X95 -> Npos (XI (XO (XI (XO (XI (XO (XO XH)))))))
| X96 -> Npos (XO (XI (XI (XO (XI (XO (XO XH)))))))
| X97 -> Npos (XI (XI (XI (XO (XI (XO (XO XH)))))))
| X98 -> Npos (XO (XO (XO (XI (XI (XO (XO XH)))))))
| X99 -> Npos (XI (XO (XO (XI (XI (XO (XO XH)))))))
| X9a -> Npos (XO (XI (XO (XI (XI (XO (XO XH)))))))
| X9b -> Npos (XI (XI (XO (XI (XI (XO (XO XH)))))))
| X9c -> Npos (XO (XO (XI (XI (XI (XO (XO XH)))))))
| X9d -> Npos (XI (XO (XI (XI (XI (XO (XO XH)))))))
| X9e -> Npos (XO (XI (XI (XI (XI (XO (XO XH)))))))
| X9f -> Npos (XI (XI (XI (XI (XI (XO (XO XH)))))))
| Xa0 -> Npos (XO (XO (XO (XO (XO (XI (XO XH)))))))
| Xa1 -> Npos (XI (XO (XO (XO (XO (XI (XO XH)))))))
| Xa2 -> Npos (XO (XI (XO (XO (XO (XI (XO XH)))))))
| Xa3 -> Npos (XI (XI (XO (XO (XO (XI (XO XH)))))))
| Xa4 -> Npos (XO (XO (XI (XO (XO (XI (XO XH)))))))
| Xa5 -> Npos (XI (XO (XI (XO (XO (XI (XO XH)))))))
| Xa6 -> Npos (XO (XI (XI (XO (XO (XI (XO XH)))))))
| Xa7 -> Npos (XI (XI (XI (XO (XO (XI (XO XH)))))))
| Xa8 -> Npos (XO (XO (XO (XI (XO (XI (XO XH)))))))
| Xa9 -> Npos (XI (XO (XO (XI (XO (XI (XO XH)))))))
| Xaa -> Npos (XO (XI (XO (XI (XO (XI (XO XH)))))))
| Xab -> Npos (XI (XI (XO (XI (XO (XI (XO XH)))))))
| Xac -> Npos (XO (XO (XI (XI (XO (XI (XO XH)))))))
| Xad -> Npos (XI (XO (XI (XI (XO (XI (XO XH)))))))
| Xae -> Npos (XO (XI (XI (XI (XO (XI (XO XH)))))))
| Xaf -> Npos (XI (XI (XI (XI (XO (XI (XO XH)))))))
| Xb0 -> Npos (XO (XO (XO (XO (XI (XI (XO XH)))))))
| Xb1 -> Npos (XI (XO (XO (XO (XI (XI (XO XH)))))))
| Xb2 -> Npos (XO (XI (XO (XO (XI (XI (XO XH)))))))
| Xb3 -> Npos (XI (XI (XO (XO (XI (XI (XO XH)))))))
| Xb4 -> Npos (XO (XO (XI (XO (XI (XI (XO XH)))))))
| Xb5 -> Npos (XI (XO (XI (XO (XI (XI (XO XH)))))))
| Xb6 -> Npos (XO (XI (XI (XO (XI (XI (XO XH)))))))
| Xb7 -> Npos (XI (XI (XI (XO (XI (XI (XO XH)))))))
| Xb8 -> Npos (XO (XO (XO (XI (XI (XI (XO XH)))))))
| Xb9 -> Npos (XI (XO (XO (XI (XI (XI (XO XH)))))))
| Xba -> Npos (XO (XI (XO (XI (XI (XI (XO XH)))))))
| Xbb -> Npos (XI (XI (XO (XI (XI (XI (XO XH)))))))
| Xbc -> Npos (XO (XO (XI (XI (XI (XI (XO XH)))))))
| Xbd -> Npos (XI (XO (XI (XI (XI (XI (XO XH)))))))
| Xbe -> Npos (XO (XI (XI (XI (XI (XI (XO XH)))))))
| Xbf -> Npos (XI (XI (XI (XI (XI (XI (XO XH)))))))
| Xc0 -> Npos (XO (XO (XO (XO (XO (XO (XI XH)))))))
| Xc1 -> Npos (XI (XO (XO (XO (XO (XO (XI XH)))))))
| Xc2 -> Npos (XO (XI (XO (XO (XO (XO (XI XH)))))))
| Xc3 -> Npos (XI (XI (XO (XO (XO (XO (XI XH)))))))
| Xc4 -> Npos (XO (XO (XI (XO (XO (XO (XI XH)))))))
| Xc5 -> Npos (XI (XO (XI (XO (XO (XO (XI XH)))))))
| Xc6 -> Npos (XO (XI (XI (XO (XO (XO (XI XH)))))))
| Xc7 -> Npos (XI (XI (XI (XO (XO (XO (XI XH)))))))
| Xc8 -> Npos (XO (XO (XO (XI (XO (XO (XI XH)))))))
| Xc9 -> Npos (XI (XO (XO (XI (XO (XO (XI XH)))))))
| Xca -> Npos (XO (XI (XO (XI (XO (XO (XI XH)))))))
| Xcb -> Npos (XI (XI (XO (XI (XO (XO (XI XH)))))))
| Xcc -> Npos (XO (XO (XI (XI (XO (XO (XI XH)))))))
| Xcd -> Npos (XI (XO (XI (XI (XO (XO (XI XH)))))))
| Xce -> Npos (XO (XI (XI (XI (XO (XO (XI XH)))))))
| Xcf -> Npos (XI (XI (XI (XI (XO (XO (XI XH)))))))
| Xd0 -> Npos (XO (XO (XO (XO (XI (XO (XI XH)))))))
| Xd1 -> Npos (XI (XO (XO (XO (XI (XO (XI XH)))))))
| Xd2 -> Npos (XO (XI (XO (XO (XI (XO (XI XH)))))))
| Xd3 -> Npos (XI (XI (XO (XO (XI (XO (XI XH)))))))
| Xd4 -> Npos (XO (XO (XI (XO (XI (XO (XI XH)))))))
| Xd5 -> Npos (XI (XO (XI (XO (XI (XO (XI XH)))))))
| Xd6 -> Npos (XO (XI (XI (XO (XI (XO (XI XH)))))))
| Xd7 -> Npos (XI (XI (XI (XO (XI (XO (XI XH)))))))
| Xd8 -> Npos (XO (XO (XO (XI (XI (XO (XI XH)))))))
| Xd9 -> Npos (XI (XO (XO (XI (XI (XO (XI XH)))))))
| Xda -> Npos (XO (XI (XO (XI (XI (XO (XI XH)))))))
| Xdb -> Npos (XI (XI (XO (XI (XI (XO (XI XH)))))))
| Xdc -> Npos (XO (XO (XI (XI (XI (XO (XI XH)))))))
| Xdd -> Npos (XI (XO (XI (XI (XI (XO (XI XH)))))))
| Xde -> Npos (XO (XI (XI (XI (XI (XO (XI XH)))))))
| Xdf -> Npos (XI (XI (XI (XI (XI (XO (XI XH)))))))
| Xe0 -> Npos (XO (XO (XO (XO (XO (XI (XI XH)))))))
| Xe1 -> Npos (XI (XO (XO (XO (XO (XI (XI XH)))))))
| Xe2 -> Npos (XO (XI (XO (XO (XO (XI (XI XH)))))))
| Xe3 -> Npos (XI (XI (XO (XO (XO (XI (XI XH)))))))
| Xe4 -> Npos (XO (XO (XI (XO (XO (XI (XI XH)))))))
| Xe5 -> Npos (XI (XO (XI (XO (XO (XI (XI XH)))))))
| Xe6 -> Npos (XO (XI (XI (XO (XO (XI (XI XH)))))))
| Xe7 -> Npos (XI (XI (XI (XO (XO (XI (XI XH)))))))
| Xe8 -> Npos (XO (XO (XO (XI (XO (XI (XI XH)))))))
| Xe9 -> Npos (XI (XO (XO (XI (XO (XI (XI XH)))))))
| Xea -> Npos (XO (XI (XO (XI (XO (XI (XI XH)))))))
| Xeb -> Npos (XI (XI (XO (XI (XO (XI (XI XH)))))))
| Xec -> Npos (XO (XO (XI (XI (XO (XI (XI XH)))))))
| Xed -> Npos (XI (XO (XI (XI (XO (XI (XI XH)))))))
| Xee -> Npos (XO (XI (XI (XI (XO (XI (XI XH)))))))
| Xef -> Npos (XI (XI (XI (XI (XO (XI (XI XH)))))))
| Xf0 -> Npos (XO (XO (XO (XO (XI (XI (XI XH)))))))
| Xf1 -> Npos (XI (XO (XO (XO (XI (XI (XI XH)))))))
| Xf2 -> Npos (XO (XI (XO (XO (XI (XI (XI XH)))))))
| Xf3 -> Npos (XI (XI (XO (XO (XI (XI (XI XH)))))))
| Xf4 -> Npos (XO (XO (XI (XO (XI (XI (XI XH)))))))
| Xf5 -> Npos (XI (XO (XI (XO (XI (XI (XI XH)))))))
| Xf6 -> Npos (XO (XI (XI (XO (XI (XI (XI XH)))))))
| Xf7 -> Npos (XI (XI (XI (XO (XI (XI (XI XH)))))))
| Xf8 -> Npos (XO (XO (XO (XI (XI (XI (XI XH)))))))
| Xf9 -> Npos (XI (XO (XO (XI (XI (XI (XI XH)))))))
| Xfa -> Npos (XO (XI (XO (XI (XI (XI (XI XH)))))))
| Xfb -> Npos (XI (XI (XO (XI (XI (XI (XI XH)))))))
| Xfc -> Npos (XO (XO (XI (XI (XI (XI (XI XH)))))))
| Xfd -> Npos (XI (XO (XI (XI (XI (XI (XI XH)))))))
| Xfe -> Npos (XO (XI (XI (XI (XI (XI (XI XH)))))))
| Xff -> Npos (XI (XI (XI (XI (XI (XI (XI XH)))))))

type ascii =
| Ascii of bool * bool * bool * bool * bool * bool * bool * bool

(** val byte_of_ascii : ascii -> byte **)

let byte_of_ascii = function
| Ascii (b0, b1, b2, b3, b4, b5, b6, b7) ->
  of_bits (b0, (b1, (b2, (b3, (b4, (b5, (b6, b7)))))))

type string =
| EmptyString
| String of ascii * string

(** val list_ascii_of_string : string -> ascii list **)

let rec list_ascii_of_string = function
| EmptyString -> []
| String (ch, s0) -> ch :: (list_ascii_of_string s0)

(** val list_byte_of_string : string -> byte list **)

let list_byte_of_string s =
  map byte_of_ascii (list_ascii_of_string s)

type bytes = n list

(** val bs : string -> bytes **)

let bs s =
  map to_N (list_byte_of_string s)

(** val beqb : bytes -> bytes -> bool **)

let rec beqb a b =
  match a with
  | [] -> (match b with
           | [] -> true
           | _ :: _ -> false)
  | x :: a' ->
    (match b with
     | [] -> false
     | y :: b' -> (&&) (N.eqb x y) (beqb a' b'))

(** val bcompare : bytes -> bytes -> comparison **)

let rec bcompare a b =
  match a with
  | [] -> (match b with
           | [] -> Eq
           | _ :: _ -> Lt)
  | x :: a' ->
    (match b with
     | [] -> Gt
     | y :: b' -> (match N.compare x y with
                   | Eq -> bcompare a' b'
                   | x0 -> x0))

(** val bleb : bytes -> bytes -> bool **)

let bleb a b =
  match bcompare a b with
  | Gt -> false
  | _ -> true

(** val insert : ('a1 -> 'a1 -> bool) -> 'a1 -> 'a1 list -> 'a1 list **)

let rec insert leb x = function
| [] -> x :: []
| y :: l' -> if leb x y then x :: (y :: l') else y :: (insert leb x l')

(** val sort : ('a1 -> 'a1 -> bool) -> 'a1 list -> 'a1 list **)

let rec sort leb = function
| [] -> []
| x :: l' -> insert leb x (sort leb l')

(** val fIELDS_BaseContent :
    ((((n list * bool) * bool) * bool) * bool) list **)

let fIELDS_BaseContent =
  ((((((Npos (XI (XI (XO (XO (XI (XI XH))))))) :: ((Npos (XO (XO (XI (XO (XI
    (XI XH))))))) :: ((Npos (XI (XO (XO (XO (XO (XI XH))))))) :: ((Npos (XO
    (XO (XI (XO (XI (XI XH))))))) :: ((Npos (XI (XO (XI (XO (XI (XI
    XH))))))) :: ((Npos (XI (XI (XO (XO (XI (XI XH))))))) :: [])))))), true),
    true), false), false) :: []

(** val fIELDS_Content : ((((n list * bool) * bool) * bool) * bool) list **)

let fIELDS_Content =
  ((((((Npos (XI (XI (XO (XO (XI (XI XH))))))) :: ((Npos (XO (XO (XO (XI (XO
    (XI XH))))))) :: ((Npos (XI (XO (XO (XO (XO (XI XH))))))) :: ((Npos (XI
    (XO (XO (XO (XI XH)))))) :: [])))), true), true), false),
    false) :: (((((((Npos (XI (XI (XO (XO (XI (XI XH))))))) :: ((Npos (XO (XO
    (XO (XI (XO (XI XH))))))) :: ((Npos (XI (XO (XO (XO (XO (XI
    XH))))))) :: ((Npos (XI (XO (XO (XO (XI XH)))))) :: ((Npos (XI (XI (XI
    (XI (XI (XO XH))))))) :: ((Npos (XI (XI (XI (XO (XO (XI
    XH))))))) :: ((Npos (XI (XO (XO (XI (XO (XI XH))))))) :: ((Npos (XO (XO
    (XI (XO (XI (XI XH))))))) :: [])))))))), true), true), false),
    false) :: (((((((Npos (XI (XI (XO (XO (XI (XI XH))))))) :: ((Npos (XO (XO
    (XO (XI (XO (XI XH))))))) :: ((Npos (XI (XO (XO (XO (XO (XI
    XH))))))) :: ((Npos (XO (XI (XO (XO (XI XH)))))) :: ((Npos (XI (XO (XI
    (XO (XI XH)))))) :: ((Npos (XO (XI (XI (XO (XI XH)))))) :: [])))))),
    true), true), false), false) :: (((((((Npos (XO (XI (XO (XO (XO (XI
    XH))))))) :: ((Npos (XO (XO (XI (XI (XO (XI XH))))))) :: ((Npos (XI (XO
    (XO (XO (XO (XI XH))))))) :: ((Npos (XI (XI (XO (XI (XO (XI
    XH))))))) :: ((Npos (XI (XO (XI (XO (XO (XI XH))))))) :: ((Npos (XO (XI
    (XO (XO (XI XH)))))) :: ((Npos (XI (XI (XO (XO (XI (XI
    XH))))))) :: ((Npos (XO (XI (XO (XO (XI XH)))))) :: ((Npos (XI (XO (XI
    (XO (XI XH)))))) :: ((Npos (XO (XI (XI (XO (XI XH)))))) :: [])))))))))),
    true), true), false), false) :: (((((((Npos (XO (XO (XI (XI (XO (XI
    XH))))))) :: ((Npos (XI (XO (XI (XO (XO (XI XH))))))) :: ((Npos (XO (XI
    (XI (XI (XO (XI XH))))))) :: ((Npos (XI (XI (XI (XO (XO (XI
    XH))))))) :: ((Npos (XO (XO (XI (XO (XI (XI XH))))))) :: ((Npos (XO (XO
    (XO (XI (XO (XI XH))))))) :: [])))))), true), true), false),
    false) :: (((((((Npos (XI (XI (XO (XO (XI (XI XH))))))) :: ((Npos (XO (XO
    (XI (XO (XI (XI XH))))))) :: ((Npos (XI (XO (XO (XO (XO (XI
    XH))))))) :: ((Npos (XO (XO (XI (XO (XI (XI XH))))))) :: ((Npos (XI (XO
    (XI (XO (XI (XI XH))))))) :: ((Npos (XI (XI (XO (XO (XI (XI
    XH))))))) :: [])))))), true), true), true), false) :: (((((((Npos (XO (XO
    (XI (XO (XO (XI XH))))))) :: ((Npos (XI (XO (XO (XO (XO (XI
    XH))))))) :: ((Npos (XO (XO (XI (XO (XI (XI XH))))))) :: ((Npos (XI (XO
    (XO (XO (XO (XI XH))))))) :: [])))), true), true), true),
    false) :: (((((((Npos (XI (XI (XI (XO (XO (XI XH))))))) :: ((Npos (XI (XO
    (XI (XO (XO (XI XH))))))) :: ((Npos (XO (XO (XI (XO (XI (XI
    XH))))))) :: ((Npos (XI (XI (XI (XI (XI (XO XH))))))) :: ((Npos (XO (XO
    (XI (XO (XO (XI XH))))))) :: ((Npos (XI (XO (XO (XO (XO (XI
    XH))))))) :: ((Npos (XO (XO (XI (XO (XI (XI XH))))))) :: ((Npos (XI (XO
    (XO (XO (XO (XI XH))))))) :: [])))))))), false), false), true),
    false) :: (((((((Npos (XI (XI (XO (XO (XO (XI XH))))))) :: ((Npos (XO (XO
    (XI (XO (XI (XI XH))))))) :: ((Npos (XI (XO (XO (XI (XO (XI
    XH))))))) :: ((Npos (XI (XO (XI (XI (XO (XI XH))))))) :: ((Npos (XI (XO
    (XI (XO (XO (XI XH))))))) :: []))))), false), false), true),
    false) :: []))))))))

(** val fIELDS_Directory : ((((n list * bool) * bool) * bool) * bool) list **)

let fIELDS_Directory =
  ((((((Npos (XI (XO (XI (XO (XO (XI XH))))))) :: ((Npos (XO (XI (XI (XI (XO
    (XI XH))))))) :: ((Npos (XO (XO (XI (XO (XI (XI XH))))))) :: ((Npos (XO
    (XI (XO (XO (XI (XI XH))))))) :: ((Npos (XI (XO (XO (XI (XO (XI
    XH))))))) :: ((Npos (XI (XO (XI (XO (XO (XI XH))))))) :: ((Npos (XI (XI
    (XO (XO (XI (XI XH))))))) :: []))))))), true), true), false),
    false) :: (((((((Npos (XI (XO (XO (XI (XO (XI XH))))))) :: ((Npos (XO (XO
    (XI (XO (XO (XI XH))))))) :: [])), true), true), true),
    false) :: (((((((Npos (XO (XI (XO (XO (XI (XI XH))))))) :: ((Npos (XI (XO
    (XO (XO (XO (XI XH))))))) :: ((Npos (XI (XI (XI (XO (XI (XI
    XH))))))) :: ((Npos (XI (XI (XI (XI (XI (XO XH))))))) :: ((Npos (XI (XO
    (XI (XI (XO (XI XH))))))) :: ((Npos (XI (XO (XO (XO (XO (XI
    XH))))))) :: ((Npos (XO (XI (XI (XI (XO (XI XH))))))) :: ((Npos (XI (XO
    (XO (XI (XO (XI XH))))))) :: ((Npos (XO (XI (XI (XO (XO (XI
    XH))))))) :: ((Npos (XI (XO (XI (XO (XO (XI XH))))))) :: ((Npos (XI (XI
    (XO (XO (XI (XI XH))))))) :: ((Npos (XO (XO (XI (XO (XI (XI
    XH))))))) :: [])))))))))))), true), true), true), false) :: []))

(** val fIELDS_DirectoryEntry :
    ((((n list * bool) * bool) * bool) * bool) list **)

let fIELDS_DirectoryEntry =
  ((((((Npos (XO (XI (XI (XI (XO (XI XH))))))) :: ((Npos (XI (XO (XO (XO (XO
    (XI XH))))))) :: ((Npos (XI (XO (XI (XI (XO (XI XH))))))) :: ((Npos (XI
    (XO (XI (XO (XO (XI XH))))))) :: [])))), true), true), false),
    false) :: (((((((Npos (XO (XO (XI (XO (XI (XI XH))))))) :: ((Npos (XI (XO
    (XO (XI (XI (XI XH))))))) :: ((Npos (XO (XO (XO (XO (XI (XI
    XH))))))) :: ((Npos (XI (XO (XI (XO (XO (XI XH))))))) :: [])))), true),
    true), false), false) :: (((((((Npos (XO (XO (XI (XO (XI (XI
    XH))))))) :: ((Npos (XI (XO (XO (XO (XO (XI XH))))))) :: ((Npos (XO (XI
    (XO (XO (XI (XI XH))))))) :: ((Npos (XI (XI (XI (XO (XO (XI
    XH))))))) :: ((Npos (XI (XO (XI (XO (XO (XI XH))))))) :: ((Npos (XO (XO
    (XI (XO (XI (XI XH))))))) :: [])))))), true), true), false),
    false) :: (((((((Npos (XO (XO (XO (XO (XI (XI XH))))))) :: ((Npos (XI (XO
    (XI (XO (XO (XI XH))))))) :: ((Npos (XO (XI (XO (XO (XI (XI
    XH))))))) :: ((Npos (XI (XO (XI (XI (XO (XI XH))))))) :: ((Npos (XI (XI
    (XO (XO (XI (XI XH))))))) :: []))))), true), true), false), true) :: [])))

(** val fIELDS_ExtID : ((((n list * bool) * bool) * bool) * bool) list **)

let fIELDS_ExtID =
  ((((((Npos (XI (XO (XI (XO (XO (XI XH))))))) :: ((Npos (XO (XO (XO (XI (XI
    (XI XH))))))) :: ((Npos (XO (XO (XI (XO (XI (XI XH))))))) :: ((Npos (XI
    (XO (XO (XI (XO (XI XH))))))) :: ((Npos (XO (XO (XI (XO (XO (XI
    XH))))))) :: ((Npos (XI (XI (XI (XI (XI (XO XH))))))) :: ((Npos (XO (XO
    (XI (XO (XI (XI XH))))))) :: ((Npos (XI (XO (XO (XI (XI (XI
    XH))))))) :: ((Npos (XO (XO (XO (XO (XI (XI XH))))))) :: ((Npos (XI (XO
    (XI (XO (XO (XI XH))))))) :: [])))))))))), true), true), false),
    false) :: (((((((Npos (XI (XO (XI (XO (XO (XI XH))))))) :: ((Npos (XO (XO
    (XO (XI (XI (XI XH))))))) :: ((Npos (XO (XO (XI (XO (XI (XI
    XH))))))) :: ((Npos (XI (XO (XO (XI (XO (XI XH))))))) :: ((Npos (XO (XO
    (XI (XO (XO (XI XH))))))) :: []))))), true), true), false),
    false) :: (((((((Npos (XO (XO (XI (XO (XI (XI XH))))))) :: ((Npos (XI (XO
    (XO (XO (XO (XI XH))))))) :: ((Npos (XO (XI (XO (XO (XI (XI
    XH))))))) :: ((Npos (XI (XI (XI (XO (XO (XI XH))))))) :: ((Npos (XI (XO
    (XI (XO (XO (XI XH))))))) :: ((Npos (XO (XO (XI (XO (XI (XI
    XH))))))) :: [])))))), true), true), false), false) :: (((((((Npos (XI
    (XO (XI (XO (XO (XI XH))))))) :: ((Npos (XO (XO (XO (XI (XI (XI
    XH))))))) :: ((Npos (XO (XO (XI (XO (XI (XI XH))))))) :: ((Npos (XI (XO
    (XO (XI (XO (XI XH))))))) :: ((Npos (XO (XO (XI (XO (XO (XI
    XH))))))) :: ((Npos (XI (XI (XI (XI (XI (XO XH))))))) :: ((Npos (XO (XI
    (XI (XO (XI (XI XH))))))) :: ((Npos (XI (XO (XI (XO (XO (XI
    XH))))))) :: ((Npos (XO (XI (XO (XO (XI (XI XH))))))) :: ((Npos (XI (XI
    (XO (XO (XI (XI XH))))))) :: ((Npos (XI (XO (XO (XI (XO (XI
    XH))))))) :: ((Npos (XI (XI (XI (XI (XO (XI XH))))))) :: ((Npos (XO (XI
    (XI (XI (XO (XI XH))))))) :: []))))))))))))), true), true), true),
    false) :: (((((((Npos (XO (XO (XO (XO (XI (XI XH))))))) :: ((Npos (XI (XO
    (XO (XO (XO (XI XH))))))) :: ((Npos (XI (XO (XO (XI (XI (XI
    XH))))))) :: ((Npos (XO (XO (XI (XI (XO (XI XH))))))) :: ((Npos (XI (XI
    (XI (XI (XO (XI XH))))))) :: ((Npos (XI (XO (XO (XO (XO (XI
    XH))))))) :: ((Npos (XO (XO (XI (XO (XO (XI XH))))))) :: ((Npos (XI (XI
    (XI (XI (XI (XO XH))))))) :: ((Npos (XO (XO (XI (XO (XI (XI
    XH))))))) :: ((Npos (XI (XO (XO (XI (XI (XI XH))))))) :: ((Npos (XO (XO
    (XO (XO (XI (XI XH))))))) :: ((Npos (XI (XO (XI (XO (XO (XI
    XH))))))) :: [])))))))))))), true), true), true), false) :: (((((((Npos
    (XO (XO (XO (XO (XI (XI XH))))))) :: ((Npos (XI (XO (XO (XO (XO (XI
    XH))))))) :: ((Npos (XI (XO (XO (XI (XI (XI XH))))))) :: ((Npos (XO (XO
    (XI (XI (XO (XI XH))))))) :: ((Npos (XI (XI (XI (XI (XO (XI
    XH))))))) :: ((Npos (XI (XO (XO (XO (XO (XI XH))))))) :: ((Npos (XO (XO
    (XI (XO (XO (XI XH))))))) :: []))))))), true), true), true),
    false) :: (((((((Npos (XI (XO (XO (XI (XO (XI XH))))))) :: ((Npos (XO (XO
    (XI (XO (XO (XI XH))))))) :: [])), true), true), true), false) :: []))))))

(** val fIELDS_MetadataAuthority :
    ((((n list * bool) * bool) * bool) * bool) list **)

let fIELDS_MetadataAuthority =
  ((((((Npos (XO (XO (XI (XO (XI (XI XH))))))) :: ((Npos (XI (XO (XO (XI (XI
    (XI XH))))))) :: ((Npos (XO (XO (XO (XO (XI (XI XH))))))) :: ((Npos (XI
    (XO (XI (XO (XO (XI XH))))))) :: [])))), true), true), false),
    false) :: (((((((Npos (XI (XO (XI (XO (XI (XI XH))))))) :: ((Npos (XO (XI
    (XO (XO (XI (XI XH))))))) :: ((Npos (XO (XO (XI (XI (XO (XI
    XH))))))) :: []))), true), true), false), false) :: (((((((Npos (XI (XO
    (XI (XI (XO (XI XH))))))) :: ((Npos (XI (XO (XI (XO (XO (XI
    XH))))))) :: ((Npos (XO (XO (XI (XO (XI (XI XH))))))) :: ((Npos (XI (XO
    (XO (XO (XO (XI XH))))))) :: ((Npos (XO (XO (XI (XO (XO (XI
    XH))))))) :: ((Npos (XI (XO (XO (XO (XO (XI XH))))))) :: ((Npos (XO (XO
    (XI (XO (XI (XI XH))))))) :: ((Npos (XI (XO (XO (XO (XO (XI
    XH))))))) :: [])))))))), true), true), true), true) :: []))

(** val fIELDS_MetadataFetcher :
    ((((n list * bool) * bool) * bool) * bool) list **)

let fIELDS_MetadataFetcher =
  ((((((Npos (XO (XI (XI (XI (XO (XI XH))))))) :: ((Npos (XI (XO (XO (XO (XO
    (XI XH))))))) :: ((Npos (XI (XO (XI (XI (XO (XI XH))))))) :: ((Npos (XI
    (XO (XI (XO (XO (XI XH))))))) :: [])))), true), true), false),
    false) :: (((((((Npos (XO (XI (XI (XO (XI (XI XH))))))) :: ((Npos (XI (XO
    (XI (XO (XO (XI XH))))))) :: ((Npos (XO (XI (XO (XO (XI (XI
    XH))))))) :: ((Npos (XI (XI (XO (XO (XI (XI XH))))))) :: ((Npos (XI (XO
    (XO (XI (XO (XI XH))))))) :: ((Npos (XI (XI (XI (XI (XO (XI
    XH))))))) :: ((Npos (XO (XI (XI (XI (XO (XI XH))))))) :: []))))))),
    true), true), false), false) :: (((((((Npos (XI (XO (XI (XI (XO (XI
    XH))))))) :: ((Npos (XI (XO (XI (XO (XO (XI XH))))))) :: ((Npos (XO (XO
    (XI (XO (XI (XI XH))))))) :: ((Npos (XI (XO (XO (XO (XO (XI
    XH))))))) :: ((Npos (XO (XO (XI (XO (XO (XI XH))))))) :: ((Npos (XI (XO
    (XO (XO (XO (XI XH))))))) :: ((Npos (XO (XO (XI (XO (XI (XI
    XH))))))) :: ((Npos (XI (XO (XO (XO (XO (XI XH))))))) :: [])))))))),
    true), true), true), true) :: []))

(** val fIELDS_Origin : ((((n list * bool) * bool) * bool) * bool) list **)

let fIELDS_Origin =
  ((((((Npos (XI (XO (XI (XO (XI (XI XH))))))) :: ((Npos (XO (XI (XO (XO (XI
    (XI XH))))))) :: ((Npos (XO (XO (XI (XI (XO (XI XH))))))) :: []))),
    true), true), false), false) :: (((((((Npos (XI (XO (XO (XI (XO (XI
    XH))))))) :: ((Npos (XO (XO (XI (XO (XO (XI XH))))))) :: [])), true),
    true), true), false) :: [])

(** val fIELDS_OriginVisit :
    ((((n list * bool) * bool) * bool) * bool) list **)

let fIELDS_OriginVisit =
  ((((((Npos (XI (XI (XI (XI (XO (XI XH))))))) :: ((Npos (XO (XI (XO (XO (XI
    (XI XH))))))) :: ((Npos (XI (XO (XO (XI (XO (XI XH))))))) :: ((Npos (XI
    (XI (XI (XO (XO (XI XH))))))) :: ((Npos (XI (XO (XO (XI (XO (XI
    XH))))))) :: ((Npos (XO (XI (XI (XI (XO (XI XH))))))) :: [])))))), true),
    true), false), false) :: (((((((Npos (XO (XO (XI (XO (XO (XI
    XH))))))) :: ((Npos (XI (XO (XO (XO (XO (XI XH))))))) :: ((Npos (XO (XO
    (XI (XO (XI (XI XH))))))) :: ((Npos (XI (XO (XI (XO (XO (XI
    XH))))))) :: [])))), true), true), false), false) :: (((((((Npos (XO (XO
    (XI (XO (XI (XI XH))))))) :: ((Npos (XI (XO (XO (XI (XI (XI
    XH))))))) :: ((Npos (XO (XO (XO (XO (XI (XI XH))))))) :: ((Npos (XI (XO
    (XI (XO (XO (XI XH))))))) :: [])))), true), true), false),
    false) :: (((((((Npos (XO (XI (XI (XO (XI (XI XH))))))) :: ((Npos (XI (XO
    (XO (XI (XO (XI XH))))))) :: ((Npos (XI (XI (XO (XO (XI (XI
    XH))))))) :: ((Npos (XI (XO (XO (XI (XO (XI XH))))))) :: ((Npos (XO (XO
    (XI (XO (XI (XI XH))))))) :: []))))), true), true), true), false) :: [])))

(** val fIELDS_OriginVisitStatus :
    ((((n list * bool) * bool) * bool) * bool) list **)

let fIELDS_OriginVisitStatus =
  ((((((Npos (XI (XI (XI (XI (XO (XI XH))))))) :: ((Npos (XO (XI (XO (XO (XI
    (XI XH))))))) :: ((Npos (XI (XO (XO (XI (XO (XI XH))))))) :: ((Npos (XI
    (XI (XI (XO (XO (XI XH))))))) :: ((Npos (XI (XO (XO (XI (XO (XI
    XH))))))) :: ((Npos (XO (XI (XI (XI (XO (XI XH))))))) :: [])))))), true),
    true), false), false) :: (((((((Npos (XO (XI (XI (XO (XI (XI
    XH))))))) :: ((Npos (XI (XO (XO (XI (XO (XI XH))))))) :: ((Npos (XI (XI
    (XO (XO (XI (XI XH))))))) :: ((Npos (XI (XO (XO (XI (XO (XI
    XH))))))) :: ((Npos (XO (XO (XI (XO (XI (XI XH))))))) :: []))))), true),
    true), false), false) :: (((((((Npos (XO (XO (XI (XO (XO (XI
    XH))))))) :: ((Npos (XI (XO (XO (XO (XO (XI XH))))))) :: ((Npos (XO (XO
    (XI (XO (XI (XI XH))))))) :: ((Npos (XI (XO (XI (XO (XO (XI
    XH))))))) :: [])))), true), true), false), false) :: (((((((Npos (XI (XI
    (XO (XO (XI (XI XH))))))) :: ((Npos (XO (XO (XI (XO (XI (XI
    XH))))))) :: ((Npos (XI (XO (XO (XO (XO (XI XH))))))) :: ((Npos (XO (XO
    (XI (XO (XI (XI XH))))))) :: ((Npos (XI (XO (XI (XO (XI (XI
    XH))))))) :: ((Npos (XI (XI (XO (XO (XI (XI XH))))))) :: [])))))), true),
    true), false), false) :: (((((((Npos (XI (XI (XO (XO (XI (XI
    XH))))))) :: ((Npos (XO (XI (XI (XI (XO (XI XH))))))) :: ((Npos (XI (XO
    (XO (XO (XO (XI XH))))))) :: ((Npos (XO (XO (XO (XO (XI (XI
    XH))))))) :: ((Npos (XI (XI (XO (XO (XI (XI XH))))))) :: ((Npos (XO (XO
    (XO (XI (XO (XI XH))))))) :: ((Npos (XI (XI (XI (XI (XO (XI
    XH))))))) :: ((Npos (XO (XO (XI (XO (XI (XI XH))))))) :: [])))))))),
    true), true), false), false) :: (((((((Npos (XO (XO (XI (XO (XI (XI
    XH))))))) :: ((Npos (XI (XO (XO (XI (XI (XI XH))))))) :: ((Npos (XO (XO
    (XO (XO (XI (XI XH))))))) :: ((Npos (XI (XO (XI (XO (XO (XI
    XH))))))) :: [])))), true), true), true), false) :: (((((((Npos (XI (XO
    (XI (XI (XO (XI XH))))))) :: ((Npos (XI (XO (XI (XO (XO (XI
    XH))))))) :: ((Npos (XO (XO (XI (XO (XI (XI XH))))))) :: ((Npos (XI (XO
    (XO (XO (XO (XI XH))))))) :: ((Npos (XO (XO (XI (XO (XO (XI
    XH))))))) :: ((Npos (XI (XO (XO (XO (XO (XI XH))))))) :: ((Npos (XO (XO
    (XI (XO (XI (XI XH))))))) :: ((Npos (XI (XO (XO (XO (XO (XI
    XH))))))) :: [])))))))), true), true), true), true) :: []))))))

(** val fIELDS_Person : ((((n list * bool) * bool) * bool) * bool) list **)

let fIELDS_Person =
  ((((((Npos (XO (XI (XI (XO (XO (XI XH))))))) :: ((Npos (XI (XO (XI (XO (XI
    (XI XH))))))) :: ((Npos (XO (XO (XI (XI (XO (XI XH))))))) :: ((Npos (XO
    (XO (XI (XI (XO (XI XH))))))) :: ((Npos (XO (XI (XI (XI (XO (XI
    XH))))))) :: ((Npos (XI (XO (XO (XO (XO (XI XH))))))) :: ((Npos (XI (XO
    (XI (XI (XO (XI XH))))))) :: ((Npos (XI (XO (XI (XO (XO (XI
    XH))))))) :: [])))))))), true), true), false), false) :: (((((((Npos (XO
    (XI (XI (XI (XO (XI XH))))))) :: ((Npos (XI (XO (XO (XO (XO (XI
    XH))))))) :: ((Npos (XI (XO (XI (XI (XO (XI XH))))))) :: ((Npos (XI (XO
    (XI (XO (XO (XI XH))))))) :: [])))), false), false), false),
    false) :: (((((((Npos (XI (XO (XI (XO (XO (XI XH))))))) :: ((Npos (XI (XO
    (XI (XI (XO (XI XH))))))) :: ((Npos (XI (XO (XO (XO (XO (XI
    XH))))))) :: ((Npos (XI (XO (XO (XI (XO (XI XH))))))) :: ((Npos (XO (XO
    (XI (XI (XO (XI XH))))))) :: []))))), false), false), false),
    false) :: []))

(** val fIELDS_RawExtrinsicMetadata :
    ((((n list * bool) * bool) * bool) * bool) list **)

let fIELDS_RawExtrinsicMetadata =
  ((((((Npos (XO (XO (XI (XO (XI (XI XH))))))) :: ((Npos (XI (XO (XO (XO (XO
    (XI XH))))))) :: ((Npos (XO (XI (XO (XO (XI (XI XH))))))) :: ((Npos (XI
    (XI (XI (XO (XO (XI XH))))))) :: ((Npos (XI (XO (XI (XO (XO (XI
    XH))))))) :: ((Npos (XO (XO (XI (XO (XI (XI XH))))))) :: [])))))), true),
    true), false), false) :: (((((((Npos (XO (XO (XI (XO (XO (XI
    XH))))))) :: ((Npos (XI (XO (XO (XI (XO (XI XH))))))) :: ((Npos (XI (XI
    (XO (XO (XI (XI XH))))))) :: ((Npos (XI (XI (XO (XO (XO (XI
    XH))))))) :: ((Npos (XI (XI (XI (XI (XO (XI XH))))))) :: ((Npos (XO (XI
    (XI (XO (XI (XI XH))))))) :: ((Npos (XI (XO (XI (XO (XO (XI
    XH))))))) :: ((Npos (XO (XI (XO (XO (XI (XI XH))))))) :: ((Npos (XI (XO
    (XO (XI (XI (XI XH))))))) :: ((Npos (XI (XI (XI (XI (XI (XO
    XH))))))) :: ((Npos (XO (XO (XI (XO (XO (XI XH))))))) :: ((Npos (XI (XO
    (XO (XO (XO (XI XH))))))) :: ((Npos (XO (XO (XI (XO (XI (XI
    XH))))))) :: ((Npos (XI (XO (XI (XO (XO (XI
    XH))))))) :: [])))))))))))))), true), true), false), true) :: (((((((Npos
    (XI (XO (XO (XO (XO (XI XH))))))) :: ((Npos (XI (XO (XI (XO (XI (XI
    XH))))))) :: ((Npos (XO (XO (XI (XO (XI (XI XH))))))) :: ((Npos (XO (XO
    (XO (XI (XO (XI XH))))))) :: ((Npos (XI (XI (XI (XI (XO (XI
    XH))))))) :: ((Npos (XO (XI (XO (XO (XI (XI XH))))))) :: ((Npos (XI (XO
    (XO (XI (XO (XI XH))))))) :: ((Npos (XO (XO (XI (XO (XI (XI
    XH))))))) :: ((Npos (XI (XO (XO (XI (XI (XI XH))))))) :: []))))))))),
    true), true), false), false) :: (((((((Npos (XO (XI (XI (XO (XO (XI
    XH))))))) :: ((Npos (XI (XO (XI (XO (XO (XI XH))))))) :: ((Npos (XO (XO
    (XI (XO (XI (XI XH))))))) :: ((Npos (XI (XI (XO (XO (XO (XI
    XH))))))) :: ((Npos (XO (XO (XO (XI (XO (XI XH))))))) :: ((Npos (XI (XO
    (XI (XO (XO (XI XH))))))) :: ((Npos (XO (XI (XO (XO (XI (XI
    XH))))))) :: []))))))), true), true), false), false) :: (((((((Npos (XO
    (XI (XI (XO (XO (XI XH))))))) :: ((Npos (XI (XI (XI (XI (XO (XI
    XH))))))) :: ((Npos (XO (XI (XO (XO (XI (XI XH))))))) :: ((Npos (XI (XO
    (XI (XI (XO (XI XH))))))) :: ((Npos (XI (XO (XO (XO (XO (XI
    XH))))))) :: ((Npos (XO (XO (XI (XO (XI (XI XH))))))) :: [])))))), true),
    true), false), false) :: (((((((Npos (XI (XO (XI (XI (XO (XI
    XH))))))) :: ((Npos (XI (XO (XI (XO (XO (XI XH))))))) :: ((Npos (XO (XO
    (XI (XO (XI (XI XH))))))) :: ((Npos (XI (XO (XO (XO (XO (XI
    XH))))))) :: ((Npos (XO (XO (XI (XO (XO (XI XH))))))) :: ((Npos (XI (XO
    (XO (XO (XO (XI XH))))))) :: ((Npos (XO (XO (XI (XO (XI (XI
    XH))))))) :: ((Npos (XI (XO (XO (XO (XO (XI XH))))))) :: [])))))))),
    true), true), false), false) :: (((((((Npos (XI (XI (XI (XI (XO (XI
    XH))))))) :: ((Npos (XO (XI (XO (XO (XI (XI XH))))))) :: ((Npos (XI (XO
    (XO (XI (XO (XI XH))))))) :: ((Npos (XI (XI (XI (XO (XO (XI
    XH))))))) :: ((Npos (XI (XO (XO (XI (XO (XI XH))))))) :: ((Npos (XO (XI
    (XI (XI (XO (XI XH))))))) :: [])))))), true), true), true),
    false) :: (((((((Npos (XO (XI (XI (XO (XI (XI XH))))))) :: ((Npos (XI (XO
    (XO (XI (XO (XI XH))))))) :: ((Npos (XI (XI (XO (XO (XI (XI
    XH))))))) :: ((Npos (XI (XO (XO (XI (XO (XI XH))))))) :: ((Npos (XO (XO
    (XI (XO (XI (XI XH))))))) :: []))))), true), true), true),
    false) :: (((((((Npos (XI (XI (XO (XO (XI (XI XH))))))) :: ((Npos (XO (XI
    (XI (XI (XO (XI XH))))))) :: ((Npos (XI (XO (XO (XO (XO (XI
    XH))))))) :: ((Npos (XO (XO (XO (XO (XI (XI XH))))))) :: ((Npos (XI (XI
    (XO (XO (XI (XI XH))))))) :: ((Npos (XO (XO (XO (XI (XO (XI
    XH))))))) :: ((Npos (XI (XI (XI (XI (XO (XI XH))))))) :: ((Npos (XO (XO
    (XI (XO (XI (XI XH))))))) :: [])))))))), true), true), true),
    false) :: (((((((Npos (XO (XI (XO (XO (XI (XI XH))))))) :: ((Npos (XI (XO
    (XI (XO (XO (XI XH))))))) :: ((Npos (XO (XO (XI (XI (XO (XI
    XH))))))) :: ((Npos (XI (XO (XI (XO (XO (XI XH))))))) :: ((Npos (XI (XO
    (XO (XO (XO (XI XH))))))) :: ((Npos (XI (XI (XO (XO (XI (XI
    XH))))))) :: ((Npos (XI (XO (XI (XO (XO (XI XH))))))) :: []))))))),
    true), true), true), false) :: (((((((Npos (XO (XI (XO (XO (XI (XI
    XH))))))) :: ((Npos (XI (XO (XI (XO (XO (XI XH))))))) :: ((Npos (XO (XI
    (XI (XO (XI (XI XH))))))) :: ((Npos (XI (XO (XO (XI (XO (XI
    XH))))))) :: ((Npos (XI (XI (XO (XO (XI (XI XH))))))) :: ((Npos (XI (XO
    (XO (XI (XO (XI XH))))))) :: ((Npos (XI (XI (XI (XI (XO (XI
    XH))))))) :: ((Npos (XO (XI (XI (XI (XO (XI XH))))))) :: [])))))))),
    true), true), true), false) :: (((((((Npos (XO (XO (XO (XO (XI (XI
    XH))))))) :: ((Npos (XI (XO (XO (XO (XO (XI XH))))))) :: ((Npos (XO (XO
    (XI (XO (XI (XI XH))))))) :: ((Npos (XO (XO (XO (XI (XO (XI
    XH))))))) :: [])))), true), true), true), false) :: (((((((Npos (XO (XO
    (XI (XO (XO (XI XH))))))) :: ((Npos (XI (XO (XO (XI (XO (XI
    XH))))))) :: ((Npos (XO (XI (XO (XO (XI (XI XH))))))) :: ((Npos (XI (XO
    (XI (XO (XO (XI XH))))))) :: ((Npos (XI (XI (XO (XO (XO (XI
    XH))))))) :: ((Npos (XO (XO (XI (XO (XI (XI XH))))))) :: ((Npos (XI (XI
    (XI (XI (XO (XI XH))))))) :: ((Npos (XO (XI (XO (XO (XI (XI
    XH))))))) :: ((Npos (XI (XO (XO (XI (XI (XI XH))))))) :: []))))))))),
    true), true), true), false) :: (((((((Npos (XI (XO (XO (XI (XO (XI
    XH))))))) :: ((Npos (XO (XO (XI (XO (XO (XI XH))))))) :: [])), true),
    true), true), false) :: [])))))))))))))

(** val fIELDS_Release : ((((n list * bool) * bool) * bool) * bool) list **)

let fIELDS_Release =
  ((((((Npos (XO (XI (XI (XI (XO (XI XH))))))) :: ((Npos (XI (XO (XO (XO (XO
    (XI XH))))))) :: ((Npos (XI (XO (XI (XI (XO (XI XH))))))) :: ((Npos (XI
    (XO (XI (XO (XO (XI XH))))))) :: [])))), true), true), false),
    false) :: (((((((Npos (XI (XO (XI (XI (XO (XI XH))))))) :: ((Npos (XI (XO
    (XI (XO (XO (XI XH))))))) :: ((Npos (XI (XI (XO (XO (XI (XI
    XH))))))) :: ((Npos (XI (XI (XO (XO (XI (XI XH))))))) :: ((Npos (XI (XO
    (XO (XO (XO (XI XH))))))) :: ((Npos (XI (XI (XI (XO (XO (XI
    XH))))))) :: ((Npos (XI (XO (XI (XO (XO (XI XH))))))) :: []))))))),
    true), true), false), false) :: (((((((Npos (XO (XO (XI (XO (XI (XI
    XH))))))) :: ((Npos (XI (XO (XO (XO (XO (XI XH))))))) :: ((Npos (XO (XI
    (XO (XO (XI (XI XH))))))) :: ((Npos (XI (XI (XI (XO (XO (XI
    XH))))))) :: ((Npos (XI (XO (XI (XO (XO (XI XH))))))) :: ((Npos (XO (XO
    (XI (XO (XI (XI XH))))))) :: [])))))), true), true), false),
    false) :: (((((((Npos (XO (XO (XI (XO (XI (XI XH))))))) :: ((Npos (XI (XO
    (XO (XO (XO (XI XH))))))) :: ((Npos (XO (XI (XO (XO (XI (XI
    XH))))))) :: ((Npos (XI (XI (XI (XO (XO (XI XH))))))) :: ((Npos (XI (XO
    (XI (XO (XO (XI XH))))))) :: ((Npos (XO (XO (XI (XO (XI (XI
    XH))))))) :: ((Npos (XI (XI (XI (XI (XI (XO XH))))))) :: ((Npos (XO (XO
    (XI (XO (XI (XI XH))))))) :: ((Npos (XI (XO (XO (XI (XI (XI
    XH))))))) :: ((Npos (XO (XO (XO (XO (XI (XI XH))))))) :: ((Npos (XI (XO
    (XI (XO (XO (XI XH))))))) :: []))))))))))), true), true), false),
    false) :: (((((((Npos (XI (XI (XO (XO (XI (XI XH))))))) :: ((Npos (XI (XO
    (XO (XI (XI (XI XH))))))) :: ((Npos (XO (XI (XI (XI (XO (XI
    XH))))))) :: ((Npos (XO (XO (XI (XO (XI (XI XH))))))) :: ((Npos (XO (XO
    (XO (XI (XO (XI XH))))))) :: ((Npos (XI (XO (XI (XO (XO (XI
    XH))))))) :: ((Npos (XO (XO (XI (XO (XI (XI XH))))))) :: ((Npos (XI (XO
    (XO (XI (XO (XI XH))))))) :: ((Npos (XI (XI (XO (XO (XO (XI
    XH))))))) :: []))))))))), true), true), false), false) :: (((((((Npos (XI
    (XO (XO (XO (XO (XI XH))))))) :: ((Npos (XI (XO (XI (XO (XI (XI
    XH))))))) :: ((Npos (XO (XO (XI (XO (XI (XI XH))))))) :: ((Npos (XO (XO
    (XO (XI (XO (XI XH))))))) :: ((Npos (XI (XI (XI (XI (XO (XI
    XH))))))) :: ((Npos (XO (XI (XO (XO (XI (XI XH))))))) :: [])))))), true),
    true), true), false) :: (((((((Npos (XO (XO (XI (XO (XO (XI
    XH))))))) :: ((Npos (XI (XO (XO (XO (XO (XI XH))))))) :: ((Npos (XO (XO
    (XI (XO (XI (XI XH))))))) :: ((Npos (XI (XO (XI (XO (XO (XI
    XH))))))) :: [])))), true), true), true), false) :: (((((((Npos (XI (XO
    (XI (XI (XO (XI XH))))))) :: ((Npos (XI (XO (XI (XO (XO (XI
    XH))))))) :: ((Npos (XO (XO (XI (XO (XI (XI XH))))))) :: ((Npos (XI (XO
    (XO (XO (XO (XI XH))))))) :: ((Npos (XO (XO (XI (XO (XO (XI
    XH))))))) :: ((Npos (XI (XO (XO (XO (XO (XI XH))))))) :: ((Npos (XO (XO
    (XI (XO (XI (XI XH))))))) :: ((Npos (XI (XO (XO (XO (XO (XI
    XH))))))) :: [])))))))), true), true), true), true) :: (((((((Npos (XI
    (XO (XO (XI (XO (XI XH))))))) :: ((Npos (XO (XO (XI (XO (XO (XI
    XH))))))) :: [])), true), true), true), false) :: (((((((Npos (XO (XI (XO
    (XO (XI (XI XH))))))) :: ((Npos (XI (XO (XO (XO (XO (XI
    XH))))))) :: ((Npos (XI (XI (XI (XO (XI (XI XH))))))) :: ((Npos (XI (XI
    (XI (XI (XI (XO XH))))))) :: ((Npos (XI (XO (XI (XI (XO (XI
    XH))))))) :: ((Npos (XI (XO (XO (XO (XO (XI XH))))))) :: ((Npos (XO (XI
    (XI (XI (XO (XI XH))))))) :: ((Npos (XI (XO (XO (XI (XO (XI
    XH))))))) :: ((Npos (XO (XI (XI (XO (XO (XI XH))))))) :: ((Npos (XI (XO
    (XI (XO (XO (XI XH))))))) :: ((Npos (XI (XI (XO (XO (XI (XI
    XH))))))) :: ((Npos (XO (XO (XI (XO (XI (XI XH))))))) :: [])))))))))))),
    true), true), true), false) :: [])))))))))

(** val fIELDS_Revision : ((((n list * bool) * bool) * bool) * bool) list **)

let fIELDS_Revision =
  ((((((Npos (XI (XO (XI (XI (XO (XI XH))))))) :: ((Npos (XI (XO (XI (XO (XO
    (XI XH))))))) :: ((Npos (XI (XI (XO (XO (XI (XI XH))))))) :: ((Npos (XI
    (XI (XO (XO (XI (XI XH))))))) :: ((Npos (XI (XO (XO (XO (XO (XI
    XH))))))) :: ((Npos (XI (XI (XI (XO (XO (XI XH))))))) :: ((Npos (XI (XO
    (XI (XO (XO (XI XH))))))) :: []))))))), true), true), false),
    false) :: (((((((Npos (XI (XO (XO (XO (XO (XI XH))))))) :: ((Npos (XI (XO
    (XI (XO (XI (XI XH))))))) :: ((Npos (XO (XO (XI (XO (XI (XI
    XH))))))) :: ((Npos (XO (XO (XO (XI (XO (XI XH))))))) :: ((Npos (XI (XI
    (XI (XI (XO (XI XH))))))) :: ((Npos (XO (XI (XO (XO (XI (XI
    XH))))))) :: [])))))), true), true), false), false) :: (((((((Npos (XI
    (XI (XO (XO (XO (XI XH))))))) :: ((Npos (XI (XI (XI (XI (XO (XI
    XH))))))) :: ((Npos (XI (XO (XI (XI (XO (XI XH))))))) :: ((Npos (XI (XO
    (XI (XI (XO (XI XH))))))) :: ((Npos (XI (XO (XO (XI (XO (XI
    XH))))))) :: ((Npos (XO (XO (XI (XO (XI (XI XH))))))) :: ((Npos (XO (XO
    (XI (XO (XI (XI XH))))))) :: ((Npos (XI (XO (XI (XO (XO (XI
    XH))))))) :: ((Npos (XO (XI (XO (XO (XI (XI XH))))))) :: []))))))))),
    true), true), false), false) :: (((((((Npos (XO (XO (XI (XO (XO (XI
    XH))))))) :: ((Npos (XI (XO (XO (XO (XO (XI XH))))))) :: ((Npos (XO (XO
    (XI (XO (XI (XI XH))))))) :: ((Npos (XI (XO (XI (XO (XO (XI
    XH))))))) :: [])))), true), true), false), false) :: (((((((Npos (XI (XI
    (XO (XO (XO (XI XH))))))) :: ((Npos (XI (XI (XI (XI (XO (XI
    XH))))))) :: ((Npos (XI (XO (XI (XI (XO (XI XH))))))) :: ((Npos (XI (XO
    (XI (XI (XO (XI XH))))))) :: ((Npos (XI (XO (XO (XI (XO (XI
    XH))))))) :: ((Npos (XO (XO (XI (XO (XI (XI XH))))))) :: ((Npos (XO (XO
    (XI (XO (XI (XI XH))))))) :: ((Npos (XI (XO (XI (XO (XO (XI
    XH))))))) :: ((Npos (XO (XI (XO (XO (XI (XI XH))))))) :: ((Npos (XI (XI
    (XI (XI (XI (XO XH))))))) :: ((Npos (XO (XO (XI (XO (XO (XI
    XH))))))) :: ((Npos (XI (XO (XO (XO (XO (XI XH))))))) :: ((Npos (XO (XO
    (XI (XO (XI (XI XH))))))) :: ((Npos (XI (XO (XI (XO (XO (XI
    XH))))))) :: [])))))))))))))), true), true), false),
    false) :: (((((((Npos (XO (XO (XI (XO (XI (XI XH))))))) :: ((Npos (XI (XO
    (XO (XI (XI (XI XH))))))) :: ((Npos (XO (XO (XO (XO (XI (XI
    XH))))))) :: ((Npos (XI (XO (XI (XO (XO (XI XH))))))) :: [])))), true),
    true), false), false) :: (((((((Npos (XO (XO (XI (XO (XO (XI
    XH))))))) :: ((Npos (XI (XO (XO (XI (XO (XI XH))))))) :: ((Npos (XO (XI
    (XO (XO (XI (XI XH))))))) :: ((Npos (XI (XO (XI (XO (XO (XI
    XH))))))) :: ((Npos (XI (XI (XO (XO (XO (XI XH))))))) :: ((Npos (XO (XO
    (XI (XO (XI (XI XH))))))) :: ((Npos (XI (XI (XI (XI (XO (XI
    XH))))))) :: ((Npos (XO (XI (XO (XO (XI (XI XH))))))) :: ((Npos (XI (XO
    (XO (XI (XI (XI XH))))))) :: []))))))))), true), true), false),
    false) :: (((((((Npos (XI (XI (XO (XO (XI (XI XH))))))) :: ((Npos (XI (XO
    (XO (XI (XI (XI XH))))))) :: ((Npos (XO (XI (XI (XI (XO (XI
    XH))))))) :: ((Npos (XO (XO (XI (XO (XI (XI XH))))))) :: ((Npos (XO (XO
    (XO (XI (XO (XI XH))))))) :: ((Npos (XI (XO (XI (XO (XO (XI
    XH))))))) :: ((Npos (XO (XO (XI (XO (XI (XI XH))))))) :: ((Npos (XI (XO
    (XO (XI (XO (XI XH))))))) :: ((Npos (XI (XI (XO (XO (XO (XI
    XH))))))) :: []))))))))), true), true), false), false) :: (((((((Npos (XI
    (XO (XI (XI (XO (XI XH))))))) :: ((Npos (XI (XO (XI (XO (XO (XI
    XH))))))) :: ((Npos (XO (XO (XI (XO (XI (XI XH))))))) :: ((Npos (XI (XO
    (XO (XO (XO (XI XH))))))) :: ((Npos (XO (XO (XI (XO (XO (XI
    XH))))))) :: ((Npos (XI (XO (XO (XO (XO (XI XH))))))) :: ((Npos (XO (XO
    (XI (XO (XI (XI XH))))))) :: ((Npos (XI (XO (XO (XO (XO (XI
    XH))))))) :: [])))))))), true), true), true), true) :: (((((((Npos (XO
    (XO (XO (XO (XI (XI XH))))))) :: ((Npos (XI (XO (XO (XO (XO (XI
    XH))))))) :: ((Npos (XO (XI (XO (XO (XI (XI XH))))))) :: ((Npos (XI (XO
    (XI (XO (XO (XI XH))))))) :: ((Npos (XO (XI (XI (XI (XO (XI
    XH))))))) :: ((Npos (XO (XO (XI (XO (XI (XI XH))))))) :: ((Npos (XI (XI
    (XO (XO (XI (XI XH))))))) :: []))))))), true), true), true),
    false) :: (((((((Npos (XI (XO (XO (XI (XO (XI XH))))))) :: ((Npos (XO (XO
    (XI (XO (XO (XI XH))))))) :: [])), true), true), true),
    false) :: (((((((Npos (XI (XO (XI (XO (XO (XI XH))))))) :: ((Npos (XO (XO
    (XO (XI (XI (XI XH))))))) :: ((Npos (XO (XO (XI (XO (XI (XI
    XH))))))) :: ((Npos (XO (XI (XO (XO (XI (XI XH))))))) :: ((Npos (XI (XO
    (XO (XO (XO (XI XH))))))) :: ((Npos (XI (XI (XI (XI (XI (XO
    XH))))))) :: ((Npos (XO (XO (XO (XI (XO (XI XH))))))) :: ((Npos (XI (XO
    (XI (XO (XO (XI XH))))))) :: ((Npos (XI (XO (XO (XO (XO (XI
    XH))))))) :: ((Npos (XO (XO (XI (XO (XO (XI XH))))))) :: ((Npos (XI (XO
    (XI (XO (XO (XI XH))))))) :: ((Npos (XO (XI (XO (XO (XI (XI
    XH))))))) :: ((Npos (XI (XI (XO (XO (XI (XI XH))))))) :: []))))))))))))),
    true), true), true), true) :: (((((((Npos (XO (XI (XO (XO (XI (XI
    XH))))))) :: ((Npos (XI (XO (XO (XO (XO (XI XH))))))) :: ((Npos (XI (XI
    (XI (XO (XI (XI XH))))))) :: ((Npos (XI (XI (XI (XI (XI (XO
    XH))))))) :: ((Npos (XI (XO (XI (XI (XO (XI XH))))))) :: ((Npos (XI (XO
    (XO (XO (XO (XI XH))))))) :: ((Npos (XO (XI (XI (XI (XO (XI
    XH))))))) :: ((Npos (XI (XO (XO (XI (XO (XI XH))))))) :: ((Npos (XO (XI
    (XI (XO (XO (XI XH))))))) :: ((Npos (XI (XO (XI (XO (XO (XI
    XH))))))) :: ((Npos (XI (XI (XO (XO (XI (XI XH))))))) :: ((Npos (XO (XO
    (XI (XO (XI (XI XH))))))) :: [])))))))))))), true), true), true),
    false) :: []))))))))))))

(** val fIELDS_SkippedContent :
    ((((n list * bool) * bool) * bool) * bool) list **)

let fIELDS_SkippedContent =
  ((((((Npos (XI (XI (XO (XO (XI (XI XH))))))) :: ((Npos (XO (XO (XO (XI (XO
    (XI XH))))))) :: ((Npos (XI (XO (XO (XO (XO (XI XH))))))) :: ((Npos (XI
    (XO (XO (XO (XI XH)))))) :: [])))), true), true), false),
    false) :: (((((((Npos (XI (XI (XO (XO (XI (XI XH))))))) :: ((Npos (XO (XO
    (XO (XI (XO (XI XH))))))) :: ((Npos (XI (XO (XO (XO (XO (XI
    XH))))))) :: ((Npos (XI (XO (XO (XO (XI XH)))))) :: ((Npos (XI (XI (XI
    (XI (XI (XO XH))))))) :: ((Npos (XI (XI (XI (XO (XO (XI
    XH))))))) :: ((Npos (XI (XO (XO (XI (XO (XI XH))))))) :: ((Npos (XO (XO
    (XI (XO (XI (XI XH))))))) :: [])))))))), true), true), false),
    false) :: (((((((Npos (XI (XI (XO (XO (XI (XI XH))))))) :: ((Npos (XO (XO
    (XO (XI (XO (XI XH))))))) :: ((Npos (XI (XO (XO (XO (XO (XI
    XH))))))) :: ((Npos (XO (XI (XO (XO (XI XH)))))) :: ((Npos (XI (XO (XI
    (XO (XI XH)))))) :: ((Npos (XO (XI (XI (XO (XI XH)))))) :: [])))))),
    true), true), false), false) :: (((((((Npos (XO (XI (XO (XO (XO (XI
    XH))))))) :: ((Npos (XO (XO (XI (XI (XO (XI XH))))))) :: ((Npos (XI (XO
    (XO (XO (XO (XI XH))))))) :: ((Npos (XI (XI (XO (XI (XO (XI
    XH))))))) :: ((Npos (XI (XO (XI (XO (XO (XI XH))))))) :: ((Npos (XO (XI
    (XO (XO (XI XH)))))) :: ((Npos (XI (XI (XO (XO (XI (XI
    XH))))))) :: ((Npos (XO (XI (XO (XO (XI XH)))))) :: ((Npos (XI (XO (XI
    (XO (XI XH)))))) :: ((Npos (XO (XI (XI (XO (XI XH)))))) :: [])))))))))),
    true), true), false), false) :: (((((((Npos (XO (XO (XI (XI (XO (XI
    XH))))))) :: ((Npos (XI (XO (XI (XO (XO (XI XH))))))) :: ((Npos (XO (XI
    (XI (XI (XO (XI XH))))))) :: ((Npos (XI (XI (XI (XO (XO (XI
    XH))))))) :: ((Npos (XO (XO (XI (XO (XI (XI XH))))))) :: ((Npos (XO (XO
    (XO (XI (XO (XI XH))))))) :: [])))))), true), true), false),
    false) :: (((((((Npos (XI (XI (XO (XO (XI (XI XH))))))) :: ((Npos (XO (XO
    (XI (XO (XI (XI XH))))))) :: ((Npos (XI (XO (XO (XO (XO (XI
    XH))))))) :: ((Npos (XO (XO (XI (XO (XI (XI XH))))))) :: ((Npos (XI (XO
    (XI (XO (XI (XI XH))))))) :: ((Npos (XI (XI (XO (XO (XI (XI
    XH))))))) :: [])))))), true), true), false), false) :: (((((((Npos (XO
    (XI (XO (XO (XI (XI XH))))))) :: ((Npos (XI (XO (XI (XO (XO (XI
    XH))))))) :: ((Npos (XI (XO (XO (XO (XO (XI XH))))))) :: ((Npos (XI (XI
    (XO (XO (XI (XI XH))))))) :: ((Npos (XI (XI (XI (XI (XO (XI
    XH))))))) :: ((Npos (XO (XI (XI (XI (XO (XI XH))))))) :: [])))))), true),
    true), true), false) :: (((((((Npos (XI (XI (XI (XI (XO (XI
    XH))))))) :: ((Npos (XO (XI (XO (XO (XI (XI XH))))))) :: ((Npos (XI (XO
    (XO (XI (XO (XI XH))))))) :: ((Npos (XI (XI (XI (XO (XO (XI
    XH))))))) :: ((Npos (XI (XO (XO (XI (XO (XI XH))))))) :: ((Npos (XO (XI
    (XI (XI (XO (XI XH))))))) :: [])))))), true), true), true),
    false) :: (((((((Npos (XI (XI (XO (XO (XO (XI XH))))))) :: ((Npos (XO (XO
    (XI (XO (XI (XI XH))))))) :: ((Npos (XI (XO (XO (XI (XO (XI
    XH))))))) :: ((Npos (XI (XO (XI (XI (XO (XI XH))))))) :: ((Npos (XI (XO
    (XI (XO (XO (XI XH))))))) :: []))))), false), false), true),
    false) :: []))))))))

(** val fIELDS_Snapshot : ((((n list * bool) * bool) * bool) * bool) list **)

let fIELDS_Snapshot =
  ((((((Npos (XO (XI (XO (XO (XO (XI XH))))))) :: ((Npos (XO (XI (XO (XO (XI
    (XI XH))))))) :: ((Npos (XI (XO (XO (XO (XO (XI XH))))))) :: ((Npos (XO
    (XI (XI (XI (XO (XI XH))))))) :: ((Npos (XI (XI (XO (XO (XO (XI
    XH))))))) :: ((Npos (XO (XO (XO (XI (XO (XI XH))))))) :: ((Npos (XI (XO
    (XI (XO (XO (XI XH))))))) :: ((Npos (XI (XI (XO (XO (XI (XI
    XH))))))) :: [])))))))), true), true), false), true) :: (((((((Npos (XI
    (XO (XO (XI (XO (XI XH))))))) :: ((Npos (XO (XO (XI (XO (XO (XI
    XH))))))) :: [])), true), true), true), false) :: [])

(** val fIELDS_SnapshotBranch :
    ((((n list * bool) * bool) * bool) * bool) list **)

let fIELDS_SnapshotBranch =
  ((((((Npos (XO (XO (XI (XO (XI (XI XH))))))) :: ((Npos (XI (XO (XO (XO (XO
    (XI XH))))))) :: ((Npos (XO (XI (XO (XO (XI (XI XH))))))) :: ((Npos (XI
    (XI (XI (XO (XO (XI XH))))))) :: ((Npos (XI (XO (XI (XO (XO (XI
    XH))))))) :: ((Npos (XO (XO (XI (XO (XI (XI XH))))))) :: [])))))), true),
    true), false), false) :: (((((((Npos (XO (XO (XI (XO (XI (XI
    XH))))))) :: ((Npos (XI (XO (XO (XO (XO (XI XH))))))) :: ((Npos (XO (XI
    (XO (XO (XI (XI XH))))))) :: ((Npos (XI (XI (XI (XO (XO (XI
    XH))))))) :: ((Npos (XI (XO (XI (XO (XO (XI XH))))))) :: ((Npos (XO (XO
    (XI (XO (XI (XI XH))))))) :: ((Npos (XI (XI (XI (XI (XI (XO
    XH))))))) :: ((Npos (XO (XO (XI (XO (XI (XI XH))))))) :: ((Npos (XI (XO
    (XO (XI (XI (XI XH))))))) :: ((Npos (XO (XO (XO (XO (XI (XI
    XH))))))) :: ((Npos (XI (XO (XI (XO (XO (XI XH))))))) :: []))))))))))),
    true), true), false), false) :: [])

(** val fIELDS_Timestamp : ((((n list * bool) * bool) * bool) * bool) list **)

let fIELDS_Timestamp =
  ((((((Npos (XI (XI (XO (XO (XI (XI XH))))))) :: ((Npos (XI (XO (XI (XO (XO
    (XI XH))))))) :: ((Npos (XI (XI (XO (XO (XO (XI XH))))))) :: ((Npos (XI
    (XI (XI (XI (XO (XI XH))))))) :: ((Npos (XO (XI (XI (XI (XO (XI
    XH))))))) :: ((Npos (XO (XO (XI (XO (XO (XI XH))))))) :: ((Npos (XI (XI
    (XO (XO (XI (XI XH))))))) :: []))))))), true), true), false),
    false) :: (((((((Npos (XI (XO (XI (XI (XO (XI XH))))))) :: ((Npos (XI (XO
    (XO (XI (XO (XI XH))))))) :: ((Npos (XI (XI (XO (XO (XO (XI
    XH))))))) :: ((Npos (XO (XI (XO (XO (XI (XI XH))))))) :: ((Npos (XI (XI
    (XI (XI (XO (XI XH))))))) :: ((Npos (XI (XI (XO (XO (XI (XI
    XH))))))) :: ((Npos (XI (XO (XI (XO (XO (XI XH))))))) :: ((Npos (XI (XI
    (XO (XO (XO (XI XH))))))) :: ((Npos (XI (XI (XI (XI (XO (XI
    XH))))))) :: ((Npos (XO (XI (XI (XI (XO (XI XH))))))) :: ((Npos (XO (XO
    (XI (XO (XO (XI XH))))))) :: ((Npos (XI (XI (XO (XO (XI (XI
    XH))))))) :: [])))))))))))), true), true), false), false) :: [])

(** val fIELDS_TimestampWithTimezone :
    ((((n list * bool) * bool) * bool) * bool) list **)

let fIELDS_TimestampWithTimezone =
  ((((((Npos (XO (XO (XI (XO (XI (XI XH))))))) :: ((Npos (XI (XO (XO (XI (XO
    (XI XH))))))) :: ((Npos (XI (XO (XI (XI (XO (XI XH))))))) :: ((Npos (XI
    (XO (XI (XO (XO (XI XH))))))) :: ((Npos (XI (XI (XO (XO (XI (XI
    XH))))))) :: ((Npos (XO (XO (XI (XO (XI (XI XH))))))) :: ((Npos (XI (XO
    (XO (XO (XO (XI XH))))))) :: ((Npos (XI (XO (XI (XI (XO (XI
    XH))))))) :: ((Npos (XO (XO (XO (XO (XI (XI XH))))))) :: []))))))))),
    true), true), false), false) :: (((((((Npos (XI (XI (XI (XI (XO (XI
    XH))))))) :: ((Npos (XO (XI (XI (XO (XO (XI XH))))))) :: ((Npos (XO (XI
    (XI (XO (XO (XI XH))))))) :: ((Npos (XI (XI (XO (XO (XI (XI
    XH))))))) :: ((Npos (XI (XO (XI (XO (XO (XI XH))))))) :: ((Npos (XO (XO
    (XI (XO (XI (XI XH))))))) :: ((Npos (XI (XI (XI (XI (XI (XO
    XH))))))) :: ((Npos (XO (XI (XO (XO (XO (XI XH))))))) :: ((Npos (XI (XO
    (XO (XI (XI (XI XH))))))) :: ((Npos (XO (XO (XI (XO (XI (XI
    XH))))))) :: ((Npos (XI (XO (XI (XO (XO (XI XH))))))) :: ((Npos (XI (XI
    (XO (XO (XI (XI XH))))))) :: [])))))))))))), true), true), false),
    false) :: [])

(** val fIELDS_CoreSWHID : ((((n list * bool) * bool) * bool) * bool) list **)

let fIELDS_CoreSWHID =
  ((((((Npos (XO (XI (XI (XI (XO (XI XH))))))) :: ((Npos (XI (XO (XO (XO (XO
    (XI XH))))))) :: ((Npos (XI (XO (XI (XI (XO (XI XH))))))) :: ((Npos (XI
    (XO (XI (XO (XO (XI XH))))))) :: ((Npos (XI (XI (XO (XO (XI (XI
    XH))))))) :: ((Npos (XO (XO (XO (XO (XI (XI XH))))))) :: ((Npos (XI (XO
    (XO (XO (XO (XI XH))))))) :: ((Npos (XI (XI (XO (XO (XO (XI
    XH))))))) :: ((Npos (XI (XO (XI (XO (XO (XI XH))))))) :: []))))))))),
    true), true), true), false) :: (((((((Npos (XI (XI (XO (XO (XI (XI
    XH))))))) :: ((Npos (XI (XI (XO (XO (XO (XI XH))))))) :: ((Npos (XO (XO
    (XO (XI (XO (XI XH))))))) :: ((Npos (XI (XO (XI (XO (XO (XI
    XH))))))) :: ((Npos (XI (XO (XI (XI (XO (XI XH))))))) :: ((Npos (XI (XO
    (XI (XO (XO (XI XH))))))) :: ((Npos (XI (XI (XI (XI (XI (XO
    XH))))))) :: ((Npos (XO (XI (XI (XO (XI (XI XH))))))) :: ((Npos (XI (XO
    (XI (XO (XO (XI XH))))))) :: ((Npos (XO (XI (XO (XO (XI (XI
    XH))))))) :: ((Npos (XI (XI (XO (XO (XI (XI XH))))))) :: ((Npos (XI (XO
    (XO (XI (XO (XI XH))))))) :: ((Npos (XI (XI (XI (XI (XO (XI
    XH))))))) :: ((Npos (XO (XI (XI (XI (XO (XI
    XH))))))) :: [])))))))))))))), true), true), true), false) :: (((((((Npos
    (XI (XI (XI (XI (XO (XI XH))))))) :: ((Npos (XO (XI (XO (XO (XO (XI
    XH))))))) :: ((Npos (XO (XI (XO (XI (XO (XI XH))))))) :: ((Npos (XI (XO
    (XI (XO (XO (XI XH))))))) :: ((Npos (XI (XI (XO (XO (XO (XI
    XH))))))) :: ((Npos (XO (XO (XI (XO (XI (XI XH))))))) :: ((Npos (XI (XI
    (XI (XI (XI (XO XH))))))) :: ((Npos (XI (XO (XO (XI (XO (XI
    XH))))))) :: ((Npos (XO (XO (XI (XO (XO (XI XH))))))) :: []))))))))),
    true), true), false), false) :: (((((((Npos (XI (XI (XI (XI (XO (XI
    XH))))))) :: ((Npos (XO (XI (XO (XO (XO (XI XH))))))) :: ((Npos (XO (XI
    (XO (XI (XO (XI XH))))))) :: ((Npos (XI (XO (XI (XO (XO (XI
    XH))))))) :: ((Npos (XI (XI (XO (XO (XO (XI XH))))))) :: ((Npos (XO (XO
    (XI (XO (XI (XI XH))))))) :: ((Npos (XI (XI (XI (XI (XI (XO
    XH))))))) :: ((Npos (XO (XO (XI (XO (XI (XI XH))))))) :: ((Npos (XI (XO
    (XO (XI (XI (XI XH))))))) :: ((Npos (XO (XO (XO (XO (XI (XI
    XH))))))) :: ((Npos (XI (XO (XI (XO (XO (XI XH))))))) :: []))))))))))),
    true), true), false), true) :: [])))

(** val fIELDS_ExtendedSWHID :
    ((((n list * bool) * bool) * bool) * bool) list **)

let fIELDS_ExtendedSWHID =
  ((((((Npos (XO (XI (XI (XI (XO (XI XH))))))) :: ((Npos (XI (XO (XO (XO (XO
    (XI XH))))))) :: ((Npos (XI (XO (XI (XI (XO (XI XH))))))) :: ((Npos (XI
    (XO (XI (XO (XO (XI XH))))))) :: ((Npos (XI (XI (XO (XO (XI (XI
    XH))))))) :: ((Npos (XO (XO (XO (XO (XI (XI XH))))))) :: ((Npos (XI (XO
    (XO (XO (XO (XI XH))))))) :: ((Npos (XI (XI (XO (XO (XO (XI
    XH))))))) :: ((Npos (XI (XO (XI (XO (XO (XI XH))))))) :: []))))))))),
    true), true), true), false) :: (((((((Npos (XI (XI (XO (XO (XI (XI
    XH))))))) :: ((Npos (XI (XI (XO (XO (XO (XI XH))))))) :: ((Npos (XO (XO
    (XO (XI (XO (XI XH))))))) :: ((Npos (XI (XO (XI (XO (XO (XI
    XH))))))) :: ((Npos (XI (XO (XI (XI (XO (XI XH))))))) :: ((Npos (XI (XO
    (XI (XO (XO (XI XH))))))) :: ((Npos (XI (XI (XI (XI (XI (XO
    XH))))))) :: ((Npos (XO (XI (XI (XO (XI (XI XH))))))) :: ((Npos (XI (XO
    (XI (XO (XO (XI XH))))))) :: ((Npos (XO (XI (XO (XO (XI (XI
    XH))))))) :: ((Npos (XI (XI (XO (XO (XI (XI XH))))))) :: ((Npos (XI (XO
    (XO (XI (XO (XI XH))))))) :: ((Npos (XI (XI (XI (XI (XO (XI
    XH))))))) :: ((Npos (XO (XI (XI (XI (XO (XI
    XH))))))) :: [])))))))))))))), true), true), true), false) :: (((((((Npos
    (XI (XI (XI (XI (XO (XI XH))))))) :: ((Npos (XO (XI (XO (XO (XO (XI
    XH))))))) :: ((Npos (XO (XI (XO (XI (XO (XI XH))))))) :: ((Npos (XI (XO
    (XI (XO (XO (XI XH))))))) :: ((Npos (XI (XI (XO (XO (XO (XI
    XH))))))) :: ((Npos (XO (XO (XI (XO (XI (XI XH))))))) :: ((Npos (XI (XI
    (XI (XI (XI (XO XH))))))) :: ((Npos (XI (XO (XO (XI (XO (XI
    XH))))))) :: ((Npos (XO (XO (XI (XO (XO (XI XH))))))) :: []))))))))),
    true), true), false), false) :: (((((((Npos (XI (XI (XI (XI (XO (XI
    XH))))))) :: ((Npos (XO (XI (XO (XO (XO (XI XH))))))) :: ((Npos (XO (XI
    (XO (XI (XO (XI XH))))))) :: ((Npos (XI (XO (XI (XO (XO (XI
    XH))))))) :: ((Npos (XI (XI (XO (XO (XO (XI XH))))))) :: ((Npos (XO (XO
    (XI (XO (XI (XI XH))))))) :: ((Npos (XI (XI (XI (XI (XI (XO
    XH))))))) :: ((Npos (XO (XO (XI (XO (XI (XI XH))))))) :: ((Npos (XI (XO
    (XO (XI (XI (XI XH))))))) :: ((Npos (XO (XO (XO (XO (XI (XI
    XH))))))) :: ((Npos (XI (XO (XI (XO (XO (XI XH))))))) :: []))))))))))),
    true), true), false), true) :: [])))

(** val fIELDS_QualifiedSWHID :
    ((((n list * bool) * bool) * bool) * bool) list **)

let fIELDS_QualifiedSWHID =
  ((((((Npos (XO (XI (XI (XI (XO (XI XH))))))) :: ((Npos (XI (XO (XO (XO (XO
    (XI XH))))))) :: ((Npos (XI (XO (XI (XI (XO (XI XH))))))) :: ((Npos (XI
    (XO (XI (XO (XO (XI XH))))))) :: ((Npos (XI (XI (XO (XO (XI (XI
    XH))))))) :: ((Npos (XO (XO (XO (XO (XI (XI XH))))))) :: ((Npos (XI (XO
    (XO (XO (XO (XI XH))))))) :: ((Npos (XI (XI (XO (XO (XO (XI
    XH))))))) :: ((Npos (XI (XO (XI (XO (XO (XI XH))))))) :: []))))))))),
    true), true), true), false) :: (((((((Npos (XI (XI (XO (XO (XI (XI
    XH))))))) :: ((Npos (XI (XI (XO (XO (XO (XI XH))))))) :: ((Npos (XO (XO
    (XO (XI (XO (XI XH))))))) :: ((Npos (XI (XO (XI (XO (XO (XI
    XH))))))) :: ((Npos (XI (XO (XI (XI (XO (XI XH))))))) :: ((Npos (XI (XO
    (XI (XO (XO (XI XH))))))) :: ((Npos (XI (XI (XI (XI (XI (XO
    XH))))))) :: ((Npos (XO (XI (XI (XO (XI (XI XH))))))) :: ((Npos (XI (XO
    (XI (XO (XO (XI XH))))))) :: ((Npos (XO (XI (XO (XO (XI (XI
    XH))))))) :: ((Npos (XI (XI (XO (XO (XI (XI XH))))))) :: ((Npos (XI (XO
    (XO (XI (XO (XI XH))))))) :: ((Npos (XI (XI (XI (XI (XO (XI
    XH))))))) :: ((Npos (XO (XI (XI (XI (XO (XI
    XH))))))) :: [])))))))))))))), true), true), true), false) :: (((((((Npos
    (XI (XI (XI (XI (XO (XI XH))))))) :: ((Npos (XO (XI (XO (XO (XO (XI
    XH))))))) :: ((Npos (XO (XI (XO (XI (XO (XI XH))))))) :: ((Npos (XI (XO
    (XI (XO (XO (XI XH))))))) :: ((Npos (XI (XI (XO (XO (XO (XI
    XH))))))) :: ((Npos (XO (XO (XI (XO (XI (XI XH))))))) :: ((Npos (XI (XI
    (XI (XI (XI (XO XH))))))) :: ((Npos (XI (XO (XO (XI (XO (XI
    XH))))))) :: ((Npos (XO (XO (XI (XO (XO (XI XH))))))) :: []))))))))),
    true), true), false), false) :: (((((((Npos (XI (XI (XI (XI (XO (XI
    XH))))))) :: ((Npos (XO (XI (XO (XO (XO (XI XH))))))) :: ((Npos (XO (XI
    (XO (XI (XO (XI XH))))))) :: ((Npos (XI (XO (XI (XO (XO (XI
    XH))))))) :: ((Npos (XI (XI (XO (XO (XO (XI XH))))))) :: ((Npos (XO (XO
    (XI (XO (XI (XI XH))))))) :: ((Npos (XI (XI (XI (XI (XI (XO
    XH))))))) :: ((Npos (XO (XO (XI (XO (XI (XI XH))))))) :: ((Npos (XI (XO
    (XO (XI (XI (XI XH))))))) :: ((Npos (XO (XO (XO (XO (XI (XI
    XH))))))) :: ((Npos (XI (XO (XI (XO (XO (XI XH))))))) :: []))))))))))),
    true), true), false), true) :: (((((((Npos (XI (XI (XI (XI (XO (XI
    XH))))))) :: ((Npos (XO (XI (XO (XO (XI (XI XH))))))) :: ((Npos (XI (XO
    (XO (XI (XO (XI XH))))))) :: ((Npos (XI (XI (XI (XO (XO (XI
    XH))))))) :: ((Npos (XI (XO (XO (XI (XO (XI XH))))))) :: ((Npos (XO (XI
    (XI (XI (XO (XI XH))))))) :: [])))))), true), true), true),
    false) :: (((((((Npos (XO (XI (XI (XO (XI (XI XH))))))) :: ((Npos (XI (XO
    (XO (XI (XO (XI XH))))))) :: ((Npos (XI (XI (XO (XO (XI (XI
    XH))))))) :: ((Npos (XI (XO (XO (XI (XO (XI XH))))))) :: ((Npos (XO (XO
    (XI (XO (XI (XI XH))))))) :: []))))), true), true), true),
    true) :: (((((((Npos (XI (XO (XO (XO (XO (XI XH))))))) :: ((Npos (XO (XI
    (XI (XI (XO (XI XH))))))) :: ((Npos (XI (XI (XO (XO (XO (XI
    XH))))))) :: ((Npos (XO (XO (XO (XI (XO (XI XH))))))) :: ((Npos (XI (XI
    (XI (XI (XO (XI XH))))))) :: ((Npos (XO (XI (XO (XO (XI (XI
    XH))))))) :: [])))))), true), true), true), true) :: (((((((Npos (XO (XO
    (XO (XO (XI (XI XH))))))) :: ((Npos (XI (XO (XO (XO (XO (XI
    XH))))))) :: ((Npos (XO (XO (XI (XO (XI (XI XH))))))) :: ((Npos (XO (XO
    (XO (XI (XO (XI XH))))))) :: [])))), true), true), true),
    true) :: (((((((Npos (XO (XO (XI (XI (XO (XI XH))))))) :: ((Npos (XI (XO
    (XO (XI (XO (XI XH))))))) :: ((Npos (XO (XI (XI (XI (XO (XI
    XH))))))) :: ((Npos (XI (XO (XI (XO (XO (XI XH))))))) :: ((Npos (XI (XI
    (XO (XO (XI (XI XH))))))) :: []))))), true), true), true),
    true) :: []))))))))

(** val mODEL_CLASSES :
    (n list * ((((n list * bool) * bool) * bool) * bool) list) list **)

let mODEL_CLASSES =
  (((Npos (XO (XI (XO (XO (XO (XO XH))))))) :: ((Npos (XI (XO (XO (XO (XO (XI
    XH))))))) :: ((Npos (XI (XI (XO (XO (XI (XI XH))))))) :: ((Npos (XI (XO
    (XI (XO (XO (XI XH))))))) :: ((Npos (XI (XI (XO (XO (XO (XO
    XH))))))) :: ((Npos (XI (XI (XI (XI (XO (XI XH))))))) :: ((Npos (XO (XI
    (XI (XI (XO (XI XH))))))) :: ((Npos (XO (XO (XI (XO (XI (XI
    XH))))))) :: ((Npos (XI (XO (XI (XO (XO (XI XH))))))) :: ((Npos (XO (XI
    (XI (XI (XO (XI XH))))))) :: ((Npos (XO (XO (XI (XO (XI (XI
    XH))))))) :: []))))))))))), fIELDS_BaseContent) :: ((((Npos (XI (XI (XO
    (XO (XO (XO XH))))))) :: ((Npos (XI (XI (XI (XI (XO (XI
    XH))))))) :: ((Npos (XO (XI (XI (XI (XO (XI XH))))))) :: ((Npos (XO (XO
    (XI (XO (XI (XI XH))))))) :: ((Npos (XI (XO (XI (XO (XO (XI
    XH))))))) :: ((Npos (XO (XI (XI (XI (XO (XI XH))))))) :: ((Npos (XO (XO
    (XI (XO (XI (XI XH))))))) :: []))))))), fIELDS_Content) :: ((((Npos (XO
    (XO (XI (XO (XO (XO XH))))))) :: ((Npos (XI (XO (XO (XI (XO (XI
    XH))))))) :: ((Npos (XO (XI (XO (XO (XI (XI XH))))))) :: ((Npos (XI (XO
    (XI (XO (XO (XI XH))))))) :: ((Npos (XI (XI (XO (XO (XO (XI
    XH))))))) :: ((Npos (XO (XO (XI (XO (XI (XI XH))))))) :: ((Npos (XI (XI
    (XI (XI (XO (XI XH))))))) :: ((Npos (XO (XI (XO (XO (XI (XI
    XH))))))) :: ((Npos (XI (XO (XO (XI (XI (XI XH))))))) :: []))))))))),
    fIELDS_Directory) :: ((((Npos (XO (XO (XI (XO (XO (XO XH))))))) :: ((Npos
    (XI (XO (XO (XI (XO (XI XH))))))) :: ((Npos (XO (XI (XO (XO (XI (XI
    XH))))))) :: ((Npos (XI (XO (XI (XO (XO (XI XH))))))) :: ((Npos (XI (XI
    (XO (XO (XO (XI XH))))))) :: ((Npos (XO (XO (XI (XO (XI (XI
    XH))))))) :: ((Npos (XI (XI (XI (XI (XO (XI XH))))))) :: ((Npos (XO (XI
    (XO (XO (XI (XI XH))))))) :: ((Npos (XI (XO (XO (XI (XI (XI
    XH))))))) :: ((Npos (XI (XO (XI (XO (XO (XO XH))))))) :: ((Npos (XO (XI
    (XI (XI (XO (XI XH))))))) :: ((Npos (XO (XO (XI (XO (XI (XI
    XH))))))) :: ((Npos (XO (XI (XO (XO (XI (XI XH))))))) :: ((Npos (XI (XO
    (XO (XI (XI (XI XH))))))) :: [])))))))))))))),
    fIELDS_DirectoryEntry) :: ((((Npos (XI (XO (XI (XO (XO (XO
    XH))))))) :: ((Npos (XO (XO (XO (XI (XI (XI XH))))))) :: ((Npos (XO (XO
    (XI (XO (XI (XI XH))))))) :: ((Npos (XI (XO (XO (XI (XO (XO
    XH))))))) :: ((Npos (XO (XO (XI (XO (XO (XO XH))))))) :: []))))),
    fIELDS_ExtID) :: ((((Npos (XI (XO (XI (XI (XO (XO XH))))))) :: ((Npos (XI
    (XO (XI (XO (XO (XI XH))))))) :: ((Npos (XO (XO (XI (XO (XI (XI
    XH))))))) :: ((Npos (XI (XO (XO (XO (XO (XI XH))))))) :: ((Npos (XO (XO
    (XI (XO (XO (XI XH))))))) :: ((Npos (XI (XO (XO (XO (XO (XI
    XH))))))) :: ((Npos (XO (XO (XI (XO (XI (XI XH))))))) :: ((Npos (XI (XO
    (XO (XO (XO (XI XH))))))) :: ((Npos (XI (XO (XO (XO (XO (XO
    XH))))))) :: ((Npos (XI (XO (XI (XO (XI (XI XH))))))) :: ((Npos (XO (XO
    (XI (XO (XI (XI XH))))))) :: ((Npos (XO (XO (XO (XI (XO (XI
    XH))))))) :: ((Npos (XI (XI (XI (XI (XO (XI XH))))))) :: ((Npos (XO (XI
    (XO (XO (XI (XI XH))))))) :: ((Npos (XI (XO (XO (XI (XO (XI
    XH))))))) :: ((Npos (XO (XO (XI (XO (XI (XI XH))))))) :: ((Npos (XI (XO
    (XO (XI (XI (XI XH))))))) :: []))))))))))))))))),
    fIELDS_MetadataAuthority) :: ((((Npos (XI (XO (XI (XI (XO (XO
    XH))))))) :: ((Npos (XI (XO (XI (XO (XO (XI XH))))))) :: ((Npos (XO (XO
    (XI (XO (XI (XI XH))))))) :: ((Npos (XI (XO (XO (XO (XO (XI
    XH))))))) :: ((Npos (XO (XO (XI (XO (XO (XI XH))))))) :: ((Npos (XI (XO
    (XO (XO (XO (XI XH))))))) :: ((Npos (XO (XO (XI (XO (XI (XI
    XH))))))) :: ((Npos (XI (XO (XO (XO (XO (XI XH))))))) :: ((Npos (XO (XI
    (XI (XO (XO (XO XH))))))) :: ((Npos (XI (XO (XI (XO (XO (XI
    XH))))))) :: ((Npos (XO (XO (XI (XO (XI (XI XH))))))) :: ((Npos (XI (XI
    (XO (XO (XO (XI XH))))))) :: ((Npos (XO (XO (XO (XI (XO (XI
    XH))))))) :: ((Npos (XI (XO (XI (XO (XO (XI XH))))))) :: ((Npos (XO (XI
    (XO (XO (XI (XI XH))))))) :: []))))))))))))))),
    fIELDS_MetadataFetcher) :: ((((Npos (XI (XI (XI (XI (XO (XO
    XH))))))) :: ((Npos (XO (XI (XO (XO (XI (XI XH))))))) :: ((Npos (XI (XO
    (XO (XI (XO (XI XH))))))) :: ((Npos (XI (XI (XI (XO (XO (XI
    XH))))))) :: ((Npos (XI (XO (XO (XI (XO (XI XH))))))) :: ((Npos (XO (XI
    (XI (XI (XO (XI XH))))))) :: [])))))), fIELDS_Origin) :: ((((Npos (XI (XI
    (XI (XI (XO (XO XH))))))) :: ((Npos (XO (XI (XO (XO (XI (XI
    XH))))))) :: ((Npos (XI (XO (XO (XI (XO (XI XH))))))) :: ((Npos (XI (XI
    (XI (XO (XO (XI XH))))))) :: ((Npos (XI (XO (XO (XI (XO (XI
    XH))))))) :: ((Npos (XO (XI (XI (XI (XO (XI XH))))))) :: ((Npos (XO (XI
    (XI (XO (XI (XO XH))))))) :: ((Npos (XI (XO (XO (XI (XO (XI
    XH))))))) :: ((Npos (XI (XI (XO (XO (XI (XI XH))))))) :: ((Npos (XI (XO
    (XO (XI (XO (XI XH))))))) :: ((Npos (XO (XO (XI (XO (XI (XI
    XH))))))) :: []))))))))))), fIELDS_OriginVisit) :: ((((Npos (XI (XI (XI
    (XI (XO (XO XH))))))) :: ((Npos (XO (XI (XO (XO (XI (XI
    XH))))))) :: ((Npos (XI (XO (XO (XI (XO (XI XH))))))) :: ((Npos (XI (XI
    (XI (XO (XO (XI XH))))))) :: ((Npos (XI (XO (XO (XI (XO (XI
    XH))))))) :: ((Npos (XO (XI (XI (XI (XO (XI XH))))))) :: ((Npos (XO (XI
    (XI (XO (XI (XO XH))))))) :: ((Npos (XI (XO (XO (XI (XO (XI
    XH))))))) :: ((Npos (XI (XI (XO (XO (XI (XI XH))))))) :: ((Npos (XI (XO
    (XO (XI (XO (XI XH))))))) :: ((Npos (XO (XO (XI (XO (XI (XI
    XH))))))) :: ((Npos (XI (XI (XO (XO (XI (XO XH))))))) :: ((Npos (XO (XO
    (XI (XO (XI (XI XH))))))) :: ((Npos (XI (XO (XO (XO (XO (XI
    XH))))))) :: ((Npos (XO (XO (XI (XO (XI (XI XH))))))) :: ((Npos (XI (XO
    (XI (XO (XI (XI XH))))))) :: ((Npos (XI (XI (XO (XO (XI (XI
    XH))))))) :: []))))))))))))))))), fIELDS_OriginVisitStatus) :: ((((Npos
    (XO (XO (XO (XO (XI (XO XH))))))) :: ((Npos (XI (XO (XI (XO (XO (XI
    XH))))))) :: ((Npos (XO (XI (XO (XO (XI (XI XH))))))) :: ((Npos (XI (XI
    (XO (XO (XI (XI XH))))))) :: ((Npos (XI (XI (XI (XI (XO (XI
    XH))))))) :: ((Npos (XO (XI (XI (XI (XO (XI XH))))))) :: [])))))),
    fIELDS_Person) :: ((((Npos (XO (XI (XO (XO (XI (XO XH))))))) :: ((Npos
    (XI (XO (XO (XO (XO (XI XH))))))) :: ((Npos (XI (XI (XI (XO (XI (XI
    XH))))))) :: ((Npos (XI (XO (XI (XO (XO (XO XH))))))) :: ((Npos (XO (XO
    (XO (XI (XI (XI XH))))))) :: ((Npos (XO (XO (XI (XO (XI (XI
    XH))))))) :: ((Npos (XO (XI (XO (XO (XI (XI XH))))))) :: ((Npos (XI (XO
    (XO (XI (XO (XI XH))))))) :: ((Npos (XO (XI (XI (XI (XO (XI
    XH))))))) :: ((Npos (XI (XI (XO (XO (XI (XI XH))))))) :: ((Npos (XI (XO
    (XO (XI (XO (XI XH))))))) :: ((Npos (XI (XI (XO (XO (XO (XI
    XH))))))) :: ((Npos (XI (XO (XI (XI (XO (XO XH))))))) :: ((Npos (XI (XO
    (XI (XO (XO (XI XH))))))) :: ((Npos (XO (XO (XI (XO (XI (XI
    XH))))))) :: ((Npos (XI (XO (XO (XO (XO (XI XH))))))) :: ((Npos (XO (XO
    (XI (XO (XO (XI XH))))))) :: ((Npos (XI (XO (XO (XO (XO (XI
    XH))))))) :: ((Npos (XO (XO (XI (XO (XI (XI XH))))))) :: ((Npos (XI (XO
    (XO (XO (XO (XI XH))))))) :: [])))))))))))))))))))),
    fIELDS_RawExtrinsicMetadata) :: ((((Npos (XO (XI (XO (XO (XI (XO
    XH))))))) :: ((Npos (XI (XO (XI (XO (XO (XI XH))))))) :: ((Npos (XO (XO
    (XI (XI (XO (XI XH))))))) :: ((Npos (XI (XO (XI (XO (XO (XI
    XH))))))) :: ((Npos (XI (XO (XO (XO (XO (XI XH))))))) :: ((Npos (XI (XI
    (XO (XO (XI (XI XH))))))) :: ((Npos (XI (XO (XI (XO (XO (XI
    XH))))))) :: []))))))), fIELDS_Release) :: ((((Npos (XO (XI (XO (XO (XI
    (XO XH))))))) :: ((Npos (XI (XO (XI (XO (XO (XI XH))))))) :: ((Npos (XO
    (XI (XI (XO (XI (XI XH))))))) :: ((Npos (XI (XO (XO (XI (XO (XI
    XH))))))) :: ((Npos (XI (XI (XO (XO (XI (XI XH))))))) :: ((Npos (XI (XO
    (XO (XI (XO (XI XH))))))) :: ((Npos (XI (XI (XI (XI (XO (XI
    XH))))))) :: ((Npos (XO (XI (XI (XI (XO (XI XH))))))) :: [])))))))),
    fIELDS_Revision) :: ((((Npos (XI (XI (XO (XO (XI (XO XH))))))) :: ((Npos
    (XI (XI (XO (XI (XO (XI XH))))))) :: ((Npos (XI (XO (XO (XI (XO (XI
    XH))))))) :: ((Npos (XO (XO (XO (XO (XI (XI XH))))))) :: ((Npos (XO (XO
    (XO (XO (XI (XI XH))))))) :: ((Npos (XI (XO (XI (XO (XO (XI
    XH))))))) :: ((Npos (XO (XO (XI (XO (XO (XI XH))))))) :: ((Npos (XI (XI
    (XO (XO (XO (XO XH))))))) :: ((Npos (XI (XI (XI (XI (XO (XI
    XH))))))) :: ((Npos (XO (XI (XI (XI (XO (XI XH))))))) :: ((Npos (XO (XO
    (XI (XO (XI (XI XH))))))) :: ((Npos (XI (XO (XI (XO (XO (XI
    XH))))))) :: ((Npos (XO (XI (XI (XI (XO (XI XH))))))) :: ((Npos (XO (XO
    (XI (XO (XI (XI XH))))))) :: [])))))))))))))),
    fIELDS_SkippedContent) :: ((((Npos (XI (XI (XO (XO (XI (XO
    XH))))))) :: ((Npos (XO (XI (XI (XI (XO (XI XH))))))) :: ((Npos (XI (XO
    (XO (XO (XO (XI XH))))))) :: ((Npos (XO (XO (XO (XO (XI (XI
    XH))))))) :: ((Npos (XI (XI (XO (XO (XI (XI XH))))))) :: ((Npos (XO (XO
    (XO (XI (XO (XI XH))))))) :: ((Npos (XI (XI (XI (XI (XO (XI
    XH))))))) :: ((Npos (XO (XO (XI (XO (XI (XI XH))))))) :: [])))))))),
    fIELDS_Snapshot) :: ((((Npos (XI (XI (XO (XO (XI (XO XH))))))) :: ((Npos
    (XO (XI (XI (XI (XO (XI XH))))))) :: ((Npos (XI (XO (XO (XO (XO (XI
    XH))))))) :: ((Npos (XO (XO (XO (XO (XI (XI XH))))))) :: ((Npos (XI (XI
    (XO (XO (XI (XI XH))))))) :: ((Npos (XO (XO (XO (XI (XO (XI
    XH))))))) :: ((Npos (XI (XI (XI (XI (XO (XI XH))))))) :: ((Npos (XO (XO
    (XI (XO (XI (XI XH))))))) :: ((Npos (XO (XI (XO (XO (XO (XO
    XH))))))) :: ((Npos (XO (XI (XO (XO (XI (XI XH))))))) :: ((Npos (XI (XO
    (XO (XO (XO (XI XH))))))) :: ((Npos (XO (XI (XI (XI (XO (XI
    XH))))))) :: ((Npos (XI (XI (XO (XO (XO (XI XH))))))) :: ((Npos (XO (XO
    (XO (XI (XO (XI XH))))))) :: [])))))))))))))),
    fIELDS_SnapshotBranch) :: ((((Npos (XO (XO (XI (XO (XI (XO
    XH))))))) :: ((Npos (XI (XO (XO (XI (XO (XI XH))))))) :: ((Npos (XI (XO
    (XI (XI (XO (XI XH))))))) :: ((Npos (XI (XO (XI (XO (XO (XI
    XH))))))) :: ((Npos (XI (XI (XO (XO (XI (XI XH))))))) :: ((Npos (XO (XO
    (XI (XO (XI (XI XH))))))) :: ((Npos (XI (XO (XO (XO (XO (XI
    XH))))))) :: ((Npos (XI (XO (XI (XI (XO (XI XH))))))) :: ((Npos (XO (XO
    (XO (XO (XI (XI XH))))))) :: []))))))))), fIELDS_Timestamp) :: ((((Npos
    (XO (XO (XI (XO (XI (XO XH))))))) :: ((Npos (XI (XO (XO (XI (XO (XI
    XH))))))) :: ((Npos (XI (XO (XI (XI (XO (XI XH))))))) :: ((Npos (XI (XO
    (XI (XO (XO (XI XH))))))) :: ((Npos (XI (XI (XO (XO (XI (XI
    XH))))))) :: ((Npos (XO (XO (XI (XO (XI (XI XH))))))) :: ((Npos (XI (XO
    (XO (XO (XO (XI XH))))))) :: ((Npos (XI (XO (XI (XI (XO (XI
    XH))))))) :: ((Npos (XO (XO (XO (XO (XI (XI XH))))))) :: ((Npos (XI (XI
    (XI (XO (XI (XO XH))))))) :: ((Npos (XI (XO (XO (XI (XO (XI
    XH))))))) :: ((Npos (XO (XO (XI (XO (XI (XI XH))))))) :: ((Npos (XO (XO
    (XO (XI (XO (XI XH))))))) :: ((Npos (XO (XO (XI (XO (XI (XO
    XH))))))) :: ((Npos (XI (XO (XO (XI (XO (XI XH))))))) :: ((Npos (XI (XO
    (XI (XI (XO (XI XH))))))) :: ((Npos (XI (XO (XI (XO (XO (XI
    XH))))))) :: ((Npos (XO (XI (XO (XI (XI (XI XH))))))) :: ((Npos (XI (XI
    (XI (XI (XO (XI XH))))))) :: ((Npos (XO (XI (XI (XI (XO (XI
    XH))))))) :: ((Npos (XI (XO (XI (XO (XO (XI
    XH))))))) :: []))))))))))))))))))))),
    fIELDS_TimestampWithTimezone) :: []))))))))))))))))))

type atom = bytes

type handle = nat

type pyval =
| VNone
| VAtom of atom
| VTuple of pyval list
| VObj of bytes * pyval list
| VIDict of handle
| VRef of handle
| VOList of pyval list
| VOMap of bool * (atom * pyval) list

type cell =
| PyDict of (atom * pyval) list
| PyList of pyval list

type store = cell list

(** val lookup : store -> handle -> cell option **)

let lookup =
  nth_error

(** val alloc : store -> cell -> handle * store **)

let alloc s c =
  ((length s), (app s (c :: [])))

(** val update : store -> handle -> cell -> store **)

let rec update s h c =
  match s with
  | [] -> []
  | x :: s' -> (match h with
                | O -> c :: s'
                | S h' -> x :: (update s' h' c))

type err =
| ETypeError
| EValueError
| EKeyError
| EIndexError
| EFrozenInstanceError
| EAttributeError
| EOutOfFuel

type 'a result =
| Ok of 'a
| Err of err

(** val assoc : atom -> (atom * 'a1) list -> 'a1 option **)

let rec assoc k = function
| [] -> None
| p :: r -> let (k', v) = p in if beqb k k' then Some v else assoc k r

(** val dict_set : atom -> 'a1 -> (atom * 'a1) list -> (atom * 'a1) list **)

let rec dict_set k v = function
| [] -> (k, v) :: []
| p :: r ->
  let (k', v') = p in
  if beqb k k' then (k, v) :: r else (k', v') :: (dict_set k v r)

(** val dict_del : atom -> (atom * 'a1) list -> (atom * 'a1) list **)

let rec dict_del k = function
| [] -> []
| p :: r ->
  let (k', v') = p in if beqb k k' then r else (k', v') :: (dict_del k r)

(** val dict_of_pairs : (atom * 'a1) list -> (atom * 'a1) list **)

let dict_of_pairs kvs =
  fold_left (fun d kv -> dict_set (fst kv) (snd kv) d) kvs []

(** val set_nth : nat -> 'a1 -> 'a1 list -> 'a1 list **)

let rec set_nth i v = function
| [] -> []
| x :: r -> (match i with
             | O -> v :: r
             | S i' -> x :: (set_nth i' v r))

(** val seq_opt : 'a1 option list -> 'a1 list option **)

let rec seq_opt = function
| [] -> Some []
| o :: r ->
  (match o with
   | Some x -> (match seq_opt r with
                | Some r' -> Some (x :: r')
                | None -> None)
   | None -> None)

type mut =
| MSetItem of handle * atom * pyval
| MDelItem of handle * atom
| MClear of handle
| MAppend of handle * pyval
| MSetIndex of handle * nat * pyval
| MPop of handle

(** val apply_mut : store -> mut -> store **)

let apply_mut s = function
| MSetItem (h, k, v) ->
  (match lookup s h with
   | Some c ->
     (match c with
      | PyDict it -> update s h (PyDict (dict_set k v it))
      | PyList _ -> s)
   | None -> s)
| MDelItem (h, k) ->
  (match lookup s h with
   | Some c ->
     (match c with
      | PyDict it -> update s h (PyDict (dict_del k it))
      | PyList _ -> s)
   | None -> s)
| MClear h ->
  (match lookup s h with
   | Some c ->
     (match c with
      | PyDict _ -> update s h (PyDict [])
      | PyList _ -> update s h (PyList []))
   | None -> s)
| MAppend (h, v) ->
  (match lookup s h with
   | Some c ->
     (match c with
      | PyDict _ -> s
      | PyList l -> update s h (PyList (app l (v :: []))))
   | None -> s)
| MSetIndex (h, i, v) ->
  (match lookup s h with
   | Some c ->
     (match c with
      | PyDict _ -> s
      | PyList l -> update s h (PyList (set_nth i v l)))
   | None -> s)
| MPop h ->
  (match lookup s h with
   | Some c ->
     (match c with
      | PyDict _ -> s
      | PyList l -> update s h (PyList (removelast l)))
   | None -> s)

type field_row = (((bytes * bool) * bool) * bool) * bool

(** val f_name : field_row -> bytes **)

let f_name = function
| (p, _) -> let (p0, _) = p in let (p1, _) = p0 in let (n0, _) = p1 in n0

(** val f_eq : field_row -> bool **)

let f_eq = function
| (p, _) -> let (p0, _) = p in let (p1, _) = p0 in let (_, e) = p1 in e

(** val f_hash : field_row -> bool **)

let f_hash = function
| (p, _) -> let (p0, _) = p in let (_, h) = p0 in h

(** val f_default : field_row -> bool **)

let f_default = function
| (p, _) -> let (_, d) = p in d

(** val f_conv : field_row -> bool **)

let f_conv = function
| (_, c) -> c

type class_table = (bytes * field_row list) list

(** val aLL_CLASSES : class_table **)

let aLL_CLASSES =
  app mODEL_CLASSES
    (((bs (String ((Ascii (true, true, false, false, false, false, true,
        false)), (String ((Ascii (true, true, true, true, false, true, true,
        false)), (String ((Ascii (false, true, false, false, true, true,
        true, false)), (String ((Ascii (true, false, true, false, false,
        true, true, false)), (String ((Ascii (true, true, false, false, true,
        false, true, false)), (String ((Ascii (true, true, true, false, true,
        false, true, false)), (String ((Ascii (false, false, false, true,
        false, false, true, false)), (String ((Ascii (true, false, false,
        true, false, false, true, false)), (String ((Ascii (false, false,
        true, false, false, false, true, false)),
        EmptyString))))))))))))))))))),
    fIELDS_CoreSWHID) :: (((bs (String ((Ascii (true, false, true, false,
                             false, false, true, false)), (String ((Ascii
                             (false, false, false, true, true, true, true,
                             false)), (String ((Ascii (false, false, true,
                             false, true, true, true, false)), (String
                             ((Ascii (true, false, true, false, false, true,
                             true, false)), (String ((Ascii (false, true,
                             true, true, false, true, true, false)), (String
                             ((Ascii (false, false, true, false, false, true,
                             true, false)), (String ((Ascii (true, false,
                             true, false, false, true, true, false)), (String
                             ((Ascii (false, false, true, false, false, true,
                             true, false)), (String ((Ascii (true, true,
                             false, false, true, false, true, false)),
                             (String ((Ascii (true, true, true, false, true,
                             false, true, false)), (String ((Ascii (false,
                             false, false, true, false, false, true, false)),
                             (String ((Ascii (true, false, false, true,
                             false, false, true, false)), (String ((Ascii
                             (false, false, true, false, false, false, true,
                             false)), EmptyString))))))))))))))))))))))))))),
    fIELDS_ExtendedSWHID) :: (((bs (String ((Ascii (true, false, false,
                                 false, true, false, true, false)), (String
                                 ((Ascii (true, false, true, false, true,
                                 true, true, false)), (String ((Ascii (true,
                                 false, false, false, false, true, true,
                                 false)), (String ((Ascii (false, false,
                                 true, true, false, true, true, false)),
                                 (String ((Ascii (true, false, false, true,
                                 false, true, true, false)), (String ((Ascii
                                 (false, true, true, false, false, true,
                                 true, false)), (String ((Ascii (true, false,
                                 false, true, false, true, true, false)),
                                 (String ((Ascii (true, false, true, false,
                                 false, true, true, false)), (String ((Ascii
                                 (false, false, true, false, false, true,
                                 true, false)), (String ((Ascii (true, true,
                                 false, false, true, false, true, false)),
                                 (String ((Ascii (true, true, true, false,
                                 true, false, true, false)), (String ((Ascii
                                 (false, false, false, true, false, false,
                                 true, false)), (String ((Ascii (true, false,
                                 false, true, false, false, true, false)),
                                 (String ((Ascii (false, false, true, false,
                                 false, false, true, false)),
                                 EmptyString))))))))))))))))))))))))))))),
    fIELDS_QualifiedSWHID) :: [])))

(** val class_fields : class_table -> bytes -> field_row list option **)

let class_fields t cls =
  assoc cls t

(** val eq_hash_coherent : class_table -> bool **)

let eq_hash_coherent t =
  forallb (fun c -> forallb (fun r -> eqb (f_eq r) (f_hash r)) (snd c)) t

type argkind =
| KChecked
| KFreezeDict
| KTuplify
| KUnchecked

(** val aRG_KINDS : ((bytes * bytes) * argkind) list **)

let aRG_KINDS =
  (((bs (String ((Ascii (true, false, true, true, false, false, true,
      false)), (String ((Ascii (true, false, true, false, false, true, true,
      false)), (String ((Ascii (false, false, true, false, true, true, true,
      false)), (String ((Ascii (true, false, false, false, false, true, true,
      false)), (String ((Ascii (false, false, true, false, false, true, true,
      false)), (String ((Ascii (true, false, false, false, false, true, true,
      false)), (String ((Ascii (false, false, true, false, true, true, true,
      false)), (String ((Ascii (true, false, false, false, false, true, true,
      false)), (String ((Ascii (true, false, false, false, false, false,
      true, false)), (String ((Ascii (true, false, true, false, true, true,
      true, false)), (String ((Ascii (false, false, true, false, true, true,
      true, false)), (String ((Ascii (false, false, false, true, false, true,
      true, false)), (String ((Ascii (true, true, true, true, false, true,
      true, false)), (String ((Ascii (false, true, false, false, true, true,
      true, false)), (String ((Ascii (true, false, false, true, false, true,
      true, false)), (String ((Ascii (false, false, true, false, true, true,
      true, false)), (String ((Ascii (true, false, false, true, true, true,
      true, false)), EmptyString))))))))))))))))))))))))))))))))))),
    (bs (String ((Ascii (true, false, true, true, false, true, true, false)),
      (String ((Ascii (true, false, true, false, false, true, true, false)),
      (String ((Ascii (false, false, true, false, true, true, true, false)),
      (String ((Ascii (true, false, false, false, false, true, true, false)),
      (String ((Ascii (false, false, true, false, false, true, true, false)),
      (String ((Ascii (true, false, false, false, false, true, true, false)),
      (String ((Ascii (false, false, true, false, true, true, true, false)),
      (String ((Ascii (true, false, false, false, false, true, true, false)),
      EmptyString)))))))))))))))))),
    KFreezeDict) :: ((((bs (String ((Ascii (true, false, true, true, false,
                         false, true, false)), (String ((Ascii (true, false,
                         true, false, false, true, true, false)), (String
                         ((Ascii (false, false, true, false, true, true,
                         true, false)), (String ((Ascii (true, false, false,
                         false, false, true, true, false)), (String ((Ascii
                         (false, false, true, false, false, true, true,
                         false)), (String ((Ascii (true, false, false, false,
                         false, true, true, false)), (String ((Ascii (false,
                         false, true, false, true, true, true, false)),
                         (String ((Ascii (true, false, false, false, false,
                         true, true, false)), (String ((Ascii (false, true,
                         true, false, false, false, true, false)), (String
                         ((Ascii (true, false, true, false, false, true,
                         true, false)), (String ((Ascii (false, false, true,
                         false, true, true, true, false)), (String ((Ascii
                         (true, true, false, false, false, true, true,
                         false)), (String ((Ascii (false, false, false, true,
                         false, true, true, false)), (String ((Ascii (true,
                         false, true, false, false, true, true, false)),
                         (String ((Ascii (false, true, false, false, true,
                         true, true, false)),
                         EmptyString))))))))))))))))))))))))))))))),
    (bs (String ((Ascii (true, false, true, true, false, true, true, false)),
      (String ((Ascii (true, false, true, false, false, true, true, false)),
      (String ((Ascii (false, false, true, false, true, true, true, false)),
      (String ((Ascii (true, false, false, false, false, true, true, false)),
      (String ((Ascii (false, false, true, false, false, true, true, false)),
      (String ((Ascii (true, false, false, false, false, true, true, false)),
      (String ((Ascii (false, false, true, false, true, true, true, false)),
      (String ((Ascii (true, false, false, false, false, true, true, false)),
      EmptyString)))))))))))))))))),
    KFreezeDict) :: ((((bs (String ((Ascii (true, true, true, true, false,
                         false, true, false)), (String ((Ascii (false, true,
                         false, false, true, true, true, false)), (String
                         ((Ascii (true, false, false, true, false, true,
                         true, false)), (String ((Ascii (true, true, true,
                         false, false, true, true, false)), (String ((Ascii
                         (true, false, false, true, false, true, true,
                         false)), (String ((Ascii (false, true, true, true,
                         false, true, true, false)), (String ((Ascii (false,
                         true, true, false, true, false, true, false)),
                         (String ((Ascii (true, false, false, true, false,
                         true, true, false)), (String ((Ascii (true, true,
                         false, false, true, true, true, false)), (String
                         ((Ascii (true, false, false, true, false, true,
                         true, false)), (String ((Ascii (false, false, true,
                         false, true, true, true, false)), (String ((Ascii
                         (true, true, false, false, true, false, true,
                         false)), (String ((Ascii (false, false, true, false,
                         true, true, true, false)), (String ((Ascii (true,
                         false, false, false, false, true, true, false)),
                         (String ((Ascii (false, false, true, false, true,
                         true, true, false)), (String ((Ascii (true, false,
                         true, false, true, true, true, false)), (String
                         ((Ascii (true, true, false, false, true, true, true,
                         false)),
                         EmptyString))))))))))))))))))))))))))))))))))),
    (bs (String ((Ascii (true, false, true, true, false, true, true, false)),
      (String ((Ascii (true, false, true, false, false, true, true, false)),
      (String ((Ascii (false, false, true, false, true, true, true, false)),
      (String ((Ascii (true, false, false, false, false, true, true, false)),
      (String ((Ascii (false, false, true, false, false, true, true, false)),
      (String ((Ascii (true, false, false, false, false, true, true, false)),
      (String ((Ascii (false, false, true, false, true, true, true, false)),
      (String ((Ascii (true, false, false, false, false, true, true, false)),
      EmptyString)))))))))))))))))),
    KFreezeDict) :: ((((bs (String ((Ascii (false, true, false, false, true,
                         false, true, false)), (String ((Ascii (true, false,
                         true, false, false, true, true, false)), (String
                         ((Ascii (false, false, true, true, false, true,
                         true, false)), (String ((Ascii (true, false, true,
                         false, false, true, true, false)), (String ((Ascii
                         (true, false, false, false, false, true, true,
                         false)), (String ((Ascii (true, true, false, false,
                         true, true, true, false)), (String ((Ascii (true,
                         false, true, false, false, true, true, false)),
                         EmptyString))))))))))))))),
    (bs (String ((Ascii (true, false, true, true, false, true, true, false)),
      (String ((Ascii (true, false, true, false, false, true, true, false)),
      (String ((Ascii (false, false, true, false, true, true, true, false)),
      (String ((Ascii (true, false, false, false, false, true, true, false)),
      (String ((Ascii (false, false, true, false, false, true, true, false)),
      (String ((Ascii (true, false, false, false, false, true, true, false)),
      (String ((Ascii (false, false, true, false, true, true, true, false)),
      (String ((Ascii (true, false, false, false, false, true, true, false)),
      EmptyString)))))))))))))))))),
    KFreezeDict) :: ((((bs (String ((Ascii (false, true, false, false, true,
                         false, true, false)), (String ((Ascii (true, false,
                         true, false, false, true, true, false)), (String
                         ((Ascii (false, true, true, false, true, true, true,
                         false)), (String ((Ascii (true, false, false, true,
                         false, true, true, false)), (String ((Ascii (true,
                         true, false, false, true, true, true, false)),
                         (String ((Ascii (true, false, false, true, false,
                         true, true, false)), (String ((Ascii (true, true,
                         true, true, false, true, true, false)), (String
                         ((Ascii (false, true, true, true, false, true, true,
                         false)), EmptyString))))))))))))))))),
    (bs (String ((Ascii (true, false, true, true, false, true, true, false)),
      (String ((Ascii (true, false, true, false, false, true, true, false)),
      (String ((Ascii (false, false, true, false, true, true, true, false)),
      (String ((Ascii (true, false, false, false, false, true, true, false)),
      (String ((Ascii (false, false, true, false, false, true, true, false)),
      (String ((Ascii (true, false, false, false, false, true, true, false)),
      (String ((Ascii (false, false, true, false, true, true, true, false)),
      (String ((Ascii (true, false, false, false, false, true, true, false)),
      EmptyString)))))))))))))))))),
    KFreezeDict) :: ((((bs (String ((Ascii (true, true, false, false, true,
                         false, true, false)), (String ((Ascii (false, true,
                         true, true, false, true, true, false)), (String
                         ((Ascii (true, false, false, false, false, true,
                         true, false)), (String ((Ascii (false, false, false,
                         false, true, true, true, false)), (String ((Ascii
                         (true, true, false, false, true, true, true,
                         false)), (String ((Ascii (false, false, false, true,
                         false, true, true, false)), (String ((Ascii (true,
                         true, true, true, false, true, true, false)),
                         (String ((Ascii (false, false, true, false, true,
                         true, true, false)), EmptyString))))))))))))))))),
    (bs (String ((Ascii (false, true, false, false, false, true, true,
      false)), (String ((Ascii (false, true, false, false, true, true, true,
      false)), (String ((Ascii (true, false, false, false, false, true, true,
      false)), (String ((Ascii (false, true, true, true, false, true, true,
      false)), (String ((Ascii (true, true, false, false, false, true, true,
      false)), (String ((Ascii (false, false, false, true, false, true, true,
      false)), (String ((Ascii (true, false, true, false, false, true, true,
      false)), (String ((Ascii (true, true, false, false, true, true, true,
      false)), EmptyString)))))))))))))))))),
    KFreezeDict) :: ((((bs (String ((Ascii (false, true, false, false, true,
                         false, true, false)), (String ((Ascii (true, false,
                         true, false, false, true, true, false)), (String
                         ((Ascii (false, true, true, false, true, true, true,
                         false)), (String ((Ascii (true, false, false, true,
                         false, true, true, false)), (String ((Ascii (true,
                         true, false, false, true, true, true, false)),
                         (String ((Ascii (true, false, false, true, false,
                         true, true, false)), (String ((Ascii (true, true,
                         true, true, false, true, true, false)), (String
                         ((Ascii (false, true, true, true, false, true, true,
                         false)), EmptyString))))))))))))))))),
    (bs (String ((Ascii (true, false, true, false, false, true, true,
      false)), (String ((Ascii (false, false, false, true, true, true, true,
      false)), (String ((Ascii (false, false, true, false, true, true, true,
      false)), (String ((Ascii (false, true, false, false, true, true, true,
      false)), (String ((Ascii (true, false, false, false, false, true, true,
      false)), (String ((Ascii (true, true, true, true, true, false, true,
      false)), (String ((Ascii (false, false, false, true, false, true, true,
      false)), (String ((Ascii (true, false, true, false, false, true, true,
      false)), (String ((Ascii (true, false, false, false, false, true, true,
      false)), (String ((Ascii (false, false, true, false, false, true, true,
      false)), (String ((Ascii (true, false, true, false, false, true, true,
      false)), (String ((Ascii (false, true, false, false, true, true, true,
      false)), (String ((Ascii (true, true, false, false, true, true, true,
      false)), EmptyString)))))))))))))))))))))))))))),
    KTuplify) :: ((((bs (String ((Ascii (false, false, true, false, false,
                      false, true, false)), (String ((Ascii (true, false,
                      false, true, false, true, true, false)), (String
                      ((Ascii (false, true, false, false, true, true, true,
                      false)), (String ((Ascii (true, false, true, false,
                      false, true, true, false)), (String ((Ascii (true,
                      true, false, false, false, true, true, false)), (String
                      ((Ascii (false, false, true, false, true, true, true,
                      false)), (String ((Ascii (true, true, true, true,
                      false, true, true, false)), (String ((Ascii (false,
                      true, false, false, true, true, true, false)), (String
                      ((Ascii (true, false, false, true, true, true, true,
                      false)), EmptyString))))))))))))))))))),
    (bs (String ((Ascii (false, true, false, false, true, true, true,
      false)), (String ((Ascii (true, false, false, false, false, true, true,
      false)), (String ((Ascii (true, true, true, false, true, true, true,
      false)), (String ((Ascii (true, true, true, true, true, false, true,
      false)), (String ((Ascii (true, false, true, true, false, true, true,
      false)), (String ((Ascii (true, false, false, false, false, true, true,
      false)), (String ((Ascii (false, true, true, true, false, true, true,
      false)), (String ((Ascii (true, false, false, true, false, true, true,
      false)), (String ((Ascii (false, true, true, false, false, true, true,
      false)), (String ((Ascii (true, false, true, false, false, true, true,
      false)), (String ((Ascii (true, true, false, false, true, true, true,
      false)), (String ((Ascii (false, false, true, false, true, true, true,
      false)), EmptyString)))))))))))))))))))))))))),
    KUnchecked) :: ((((bs (String ((Ascii (false, true, false, false, true,
                        false, true, false)), (String ((Ascii (true, false,
                        true, false, false, true, true, false)), (String
                        ((Ascii (false, false, true, true, false, true, true,
                        false)), (String ((Ascii (true, false, true, false,
                        false, true, true, false)), (String ((Ascii (true,
                        false, false, false, false, true, true, false)),
                        (String ((Ascii (true, true, false, false, true,
                        true, true, false)), (String ((Ascii (true, false,
                        true, false, false, true, true, false)),
                        EmptyString))))))))))))))),
    (bs (String ((Ascii (false, true, false, false, true, true, true,
      false)), (String ((Ascii (true, false, false, false, false, true, true,
      false)), (String ((Ascii (true, true, true, false, true, true, true,
      false)), (String ((Ascii (true, true, true, true, true, false, true,
      false)), (String ((Ascii (true, false, true, true, false, true, true,
      false)), (String ((Ascii (true, false, false, false, false, true, true,
      false)), (String ((Ascii (false, true, true, true, false, true, true,
      false)), (String ((Ascii (true, false, false, true, false, true, true,
      false)), (String ((Ascii (false, true, true, false, false, true, true,
      false)), (String ((Ascii (true, false, true, false, false, true, true,
      false)), (String ((Ascii (true, true, false, false, true, true, true,
      false)), (String ((Ascii (false, false, true, false, true, true, true,
      false)), EmptyString)))))))))))))))))))))))))),
    KUnchecked) :: ((((bs (String ((Ascii (false, true, false, false, true,
                        false, true, false)), (String ((Ascii (true, false,
                        true, false, false, true, true, false)), (String
                        ((Ascii (false, true, true, false, true, true, true,
                        false)), (String ((Ascii (true, false, false, true,
                        false, true, true, false)), (String ((Ascii (true,
                        true, false, false, true, true, true, false)),
                        (String ((Ascii (true, false, false, true, false,
                        true, true, false)), (String ((Ascii (true, true,
                        true, true, false, true, true, false)), (String
                        ((Ascii (false, true, true, true, false, true, true,
                        false)), EmptyString))))))))))))))))),
    (bs (String ((Ascii (false, true, false, false, true, true, true,
      false)), (String ((Ascii (true, false, false, false, false, true, true,
      false)), (String ((Ascii (true, true, true, false, true, true, true,
      false)), (String ((Ascii (true, true, true, true, true, false, true,
      false)), (String ((Ascii (true, false, true, true, false, true, true,
      false)), (String ((Ascii (true, false, false, false, false, true, true,
      false)), (String ((Ascii (false, true, true, true, false, true, true,
      false)), (String ((Ascii (true, false, false, true, false, true, true,
      false)), (String ((Ascii (false, true, true, false, false, true, true,
      false)), (String ((Ascii (true, false, true, false, false, true, true,
      false)), (String ((Ascii (true, true, false, false, true, true, true,
      false)), (String ((Ascii (false, false, true, false, true, true, true,
      false)), EmptyString)))))))))))))))))))))))))),
    KUnchecked) :: ((((bs (String ((Ascii (true, true, false, false, false,
                        false, true, false)), (String ((Ascii (true, true,
                        true, true, false, true, true, false)), (String
                        ((Ascii (false, true, true, true, false, true, true,
                        false)), (String ((Ascii (false, false, true, false,
                        true, true, true, false)), (String ((Ascii (true,
                        false, true, false, false, true, true, false)),
                        (String ((Ascii (false, true, true, true, false,
                        true, true, false)), (String ((Ascii (false, false,
                        true, false, true, true, true, false)),
                        EmptyString))))))))))))))),
    (bs (String ((Ascii (true, true, true, false, false, true, true, false)),
      (String ((Ascii (true, false, true, false, false, true, true, false)),
      (String ((Ascii (false, false, true, false, true, true, true, false)),
      (String ((Ascii (true, true, true, true, true, false, true, false)),
      (String ((Ascii (false, false, true, false, false, true, true, false)),
      (String ((Ascii (true, false, false, false, false, true, true, false)),
      (String ((Ascii (false, false, true, false, true, true, true, false)),
      (String ((Ascii (true, false, false, false, false, true, true, false)),
      EmptyString)))))))))))))))))), KUnchecked) :: []))))))))))

(** val fROMDICT_REBUILD : (bytes * bytes) list **)

let fROMDICT_REBUILD =
  ((bs (String ((Ascii (true, true, false, false, true, false, true, false)),
     (String ((Ascii (false, true, true, true, false, true, true, false)),
     (String ((Ascii (true, false, false, false, false, true, true, false)),
     (String ((Ascii (false, false, false, false, true, true, true, false)),
     (String ((Ascii (true, true, false, false, true, true, true, false)),
     (String ((Ascii (false, false, false, true, false, true, true, false)),
     (String ((Ascii (true, true, true, true, false, true, true, false)),
     (String ((Ascii (false, false, true, false, true, true, true, false)),
     EmptyString))))))))))))))))),
    (bs (String ((Ascii (false, true, false, false, false, true, true,
      false)), (String ((Ascii (false, true, false, false, true, true, true,
      false)), (String ((Ascii (true, false, false, false, false, true, true,
      false)), (String ((Ascii (false, true, true, true, false, true, true,
      false)), (String ((Ascii (true, true, false, false, false, true, true,
      false)), (String ((Ascii (false, false, false, true, false, true, true,
      false)), (String ((Ascii (true, false, true, false, false, true, true,
      false)), (String ((Ascii (true, true, false, false, true, true, true,
      false)), EmptyString)))))))))))))))))) :: []

(** val arg_kind : bytes -> bytes -> argkind **)

let arg_kind cls fname =
  match find (fun e ->
          (&&) (beqb cls (fst (fst e))) (beqb fname (snd (fst e)))) aRG_KINDS with
  | Some e -> snd e
  | None -> KChecked

(** val is_rebuild : bytes -> bytes -> bool **)

let is_rebuild cls fname =
  existsb (fun e -> (&&) (beqb cls (fst e)) (beqb fname (snd e)))
    fROMDICT_REBUILD

(** val arg_kinds_coherent : class_table -> bool **)

let arg_kinds_coherent t =
  (&&)
    (forallb (fun e ->
      match class_fields t (fst (fst e)) with
      | Some rows ->
        (match find (fun r -> beqb (f_name r) (snd (fst e))) rows with
         | Some r ->
           (match snd e with
            | KChecked -> true
            | KUnchecked -> negb (f_conv r)
            | _ -> f_conv r)
         | None -> false)
      | None -> false) aRG_KINDS)
    (forallb (fun e ->
      match arg_kind (fst e) (snd e) with
      | KFreezeDict -> true
      | _ -> false) fROMDICT_REBUILD)

(** val iDICT : bytes **)

let iDICT =
  bs (String ((Ascii (true, false, false, true, false, false, true, false)),
    (String ((Ascii (true, false, true, true, false, true, true, false)),
    (String ((Ascii (true, false, true, true, false, true, true, false)),
    (String ((Ascii (true, false, true, false, true, true, true, false)),
    (String ((Ascii (false, false, true, false, true, true, true, false)),
    (String ((Ascii (true, false, false, false, false, true, true, false)),
    (String ((Ascii (false, true, false, false, false, true, true, false)),
    (String ((Ascii (false, false, true, true, false, true, true, false)),
    (String ((Ascii (true, false, true, false, false, true, true, false)),
    (String ((Ascii (false, false, true, false, false, false, true, false)),
    (String ((Ascii (true, false, false, true, false, true, true, false)),
    (String ((Ascii (true, true, false, false, false, true, true, false)),
    (String ((Ascii (false, false, true, false, true, true, true, false)),
    EmptyString))))))))))))))))))))))))))

(** val eMPTY_BYTES : atom **)

let eMPTY_BYTES =
  (Npos XH) :: []

(** val freeze : nat -> store -> pyval -> pyval option **)

let rec freeze f s v =
  match f with
  | O -> None
  | S f' ->
    (match v with
     | VTuple l ->
       option_map (fun x -> VTuple x) (seq_opt (map (freeze f' s) l))
     | VObj (c, l) ->
       option_map (fun x -> VObj (c, x)) (seq_opt (map (freeze f' s) l))
     | VIDict h ->
       (match lookup s h with
        | Some c ->
          (match c with
           | PyDict it ->
             option_map (fun x -> VTuple x)
               (seq_opt
                 (map (fun kv ->
                   option_map (fun x -> VTuple ((VAtom
                     (fst kv)) :: (x :: []))) (freeze f' s (snd kv))) it))
           | PyList l ->
             option_map (fun x -> VTuple x) (seq_opt (map (freeze f' s) l)))
        | None -> None)
     | VRef h ->
       (match lookup s h with
        | Some c ->
          (match c with
           | PyDict it ->
             option_map (fun x -> VTuple x)
               (seq_opt
                 (map (fun kv ->
                   option_map (fun x -> VTuple ((VAtom
                     (fst kv)) :: (x :: []))) (freeze f' s (snd kv))) it))
           | PyList l ->
             option_map (fun x -> VTuple x) (seq_opt (map (freeze f' s) l)))
        | None -> None)
     | VOList l ->
       option_map (fun x -> VTuple x) (seq_opt (map (freeze f' s) l))
     | VOMap (_, it) ->
       option_map (fun x -> VTuple x)
         (seq_opt
           (map (fun kv ->
             option_map (fun x -> VTuple ((VAtom (fst kv)) :: (x :: [])))
               (freeze f' s (snd kv))) it))
     | x -> Some x)

(** val deepcopy : nat -> store -> pyval -> pyval option **)

let rec deepcopy f s v =
  match f with
  | O -> None
  | S f' ->
    let items = fun it ->
      seq_opt
        (map (fun kv ->
          option_map (fun x -> ((fst kv), x)) (deepcopy f' s (snd kv))) it)
    in
    (match v with
     | VTuple l ->
       option_map (fun x -> VTuple x) (seq_opt (map (deepcopy f' s) l))
     | VObj (c, l) ->
       option_map (fun x -> VObj (c, x)) (seq_opt (map (deepcopy f' s) l))
     | VIDict h ->
       (match lookup s h with
        | Some c ->
          (match c with
           | PyDict it -> option_map (fun x -> VOMap (false, x)) (items it)
           | PyList _ -> None)
        | None -> None)
     | VRef h ->
       (match lookup s h with
        | Some c ->
          (match c with
           | PyDict it -> option_map (fun x -> VOMap (true, x)) (items it)
           | PyList l ->
             option_map (fun x -> VOList x) (seq_opt (map (deepcopy f' s) l)))
        | None -> None)
     | VOList l ->
       option_map (fun x -> VOList x) (seq_opt (map (deepcopy f' s) l))
     | VOMap (m, it) -> option_map (fun x -> VOMap (m, x)) (items it)
     | x -> Some x)

(** val as_pair : store -> pyval -> (pyval * pyval) option **)

let as_pair s = function
| VTuple l ->
  (match l with
   | [] -> None
   | k :: l0 ->
     (match l0 with
      | [] -> None
      | x :: l1 -> (match l1 with
                    | [] -> Some (k, x)
                    | _ :: _ -> None)))
| VRef h ->
  (match lookup s h with
   | Some c ->
     (match c with
      | PyDict _ -> None
      | PyList items ->
        (match items with
         | [] -> None
         | k :: l ->
           (match l with
            | [] -> None
            | x :: l0 -> (match l0 with
                          | [] -> Some (k, x)
                          | _ :: _ -> None))))
   | None -> None)
| VOList l ->
  (match l with
   | [] -> None
   | k :: l0 ->
     (match l0 with
      | [] -> None
      | x :: l1 -> (match l1 with
                    | [] -> Some (k, x)
                    | _ :: _ -> None)))
| _ -> None

(** val as_kv : store -> pyval -> (atom * pyval) option **)

let as_kv s v =
  match as_pair s v with
  | Some p ->
    let (p0, x) = p in (match p0 with
                        | VAtom k -> Some (k, x)
                        | _ -> None)
  | None -> None

type variant =
| New
| Old
| PopInPlace

(** val idict_of_seq : store -> pyval list -> (pyval * store) result **)

let idict_of_seq s l =
  match seq_opt (map (as_kv s) l) with
  | Some kvs ->
    let (h, s') = alloc s (PyDict (dict_of_pairs kvs)) in Ok ((VIDict h), s')
  | None -> Err ETypeError

(** val idict_init : variant -> store -> pyval -> (pyval * store) result **)

let idict_init var s = function
| VTuple l -> idict_of_seq s l
| VIDict h -> Ok ((VIDict h), s)
| VRef h ->
  (match lookup s h with
   | Some c ->
     (match c with
      | PyDict it ->
        (match var with
         | Old -> Ok ((VIDict h), s)
         | _ -> let (h', s') = alloc s (PyDict it) in Ok ((VIDict h'), s'))
      | PyList l -> idict_of_seq s l)
   | None -> Err ETypeError)
| _ -> Err ETypeError

(** val popped : atom -> (atom * 'a1) list -> 'a1 -> 'a1 **)

let popped k it dflt =
  match assoc k it with
  | Some x -> x
  | None -> dflt

(** val copy_pop :
    variant -> nat -> store -> pyval -> atom -> ((pyval * pyval) * store)
    result **)

let copy_pop var f s v k =
  match v with
  | VIDict h ->
    (match lookup s h with
     | Some c ->
       (match c with
        | PyDict it ->
          (match var with
           | PopInPlace ->
             Ok (((popped k it VNone), (VIDict h)),
               (update s h (PyDict (dict_del k it))))
           | _ ->
             (match deepcopy f s (VIDict h) with
              | Some p ->
                (match p with
                 | VOMap (_, kvs) ->
                   let (h', s') = alloc s (PyDict (dict_del k kvs)) in
                   Ok (((popped k kvs VNone), (VIDict h')), s')
                 | _ -> Err EOutOfFuel)
              | None -> Err EOutOfFuel))
        | PyList _ -> Err ETypeError)
     | None -> Err ETypeError)
  | _ -> Err ETypeError

(** val tuplify : store -> pyval -> pyval result **)

let tuplify s v =
  let go = fun l ->
    match seq_opt (map (as_pair s) l) with
    | Some ps ->
      Ok (VTuple (map (fun p -> VTuple ((fst p) :: ((snd p) :: []))) ps))
    | None -> Err EValueError
  in
  (match v with
   | VTuple l -> go l
   | VRef h ->
     (match lookup s h with
      | Some c ->
        (match c with
         | PyDict items ->
           (match items with
            | [] -> Ok (VTuple [])
            | _ :: _ -> Err EValueError)
         | PyList l -> go l)
      | None -> Err ETypeError)
   | VOList l -> go l
   | _ -> Err ETypeError)

(** val is_atom : pyval -> bool **)

let is_atom = function
| VAtom _ -> true
| _ -> false

(** val atom_pairs : pyval -> bool **)

let atom_pairs = function
| VTuple l ->
  forallb (fun p ->
    match p with
    | VTuple l0 ->
      (match l0 with
       | [] -> false
       | k :: l1 ->
         (match l1 with
          | [] -> false
          | x :: l2 ->
            (match l2 with
             | [] -> (&&) (is_atom k) (is_atom x)
             | _ :: _ -> false)))
    | _ -> false) l
| _ -> false

(** val is_container : pyval -> bool **)

let is_container = function
| VIDict _ -> true
| VRef _ -> true
| _ -> false

(** val checked_ok : pyval -> bool **)

let checked_ok v =
  (&&) (negb (is_container v))
    (match v with
     | VTuple l -> forallb (fun x -> negb (is_container x)) l
     | _ -> true)

type route =
| Ctor
| FromDict

(** val conv_one :
    variant -> nat -> route -> bytes -> bytes -> store -> pyval ->
    (pyval * store) result **)

let conv_one var f rt cls fname s v =
  match arg_kind cls fname with
  | KChecked ->
    (match rt with
     | Ctor -> if checked_ok v then Ok (v, s) else Err ETypeError
     | FromDict ->
       (match freeze f s v with
        | Some v' -> Ok (v', s)
        | None -> Err EOutOfFuel))
  | KFreezeDict ->
    if match rt with
       | Ctor -> false
       | FromDict -> is_rebuild cls fname
    then (match freeze f s v with
          | Some p ->
            (match p with
             | VTuple l -> idict_of_seq s l
             | _ -> Err ETypeError)
          | None -> Err EOutOfFuel)
    else (match v with
          | VNone -> Ok (v, s)
          | VIDict _ -> Ok (v, s)
          | VRef h ->
            (match lookup s h with
             | Some c ->
               (match c with
                | PyDict _ -> idict_init var s v
                | PyList _ -> Err ETypeError)
             | None -> Err ETypeError)
          | _ -> Err ETypeError)
  | KTuplify ->
    (match tuplify s v with
     | Ok t -> if atom_pairs t then Ok (t, s) else Err ETypeError
     | Err e -> Err e)
  | KUnchecked -> Ok (v, s)

(** val conv_fields :
    variant -> nat -> route -> bytes -> field_row list -> pyval list -> store
    -> (pyval list * store) result **)

let rec conv_fields var f rt cls rows args s =
  match rows with
  | [] -> (match args with
           | [] -> Ok ([], s)
           | _ :: _ -> Err ETypeError)
  | r :: rows' ->
    (match args with
     | [] -> Err ETypeError
     | a :: args' ->
       (match conv_one var f rt cls (f_name r) s a with
        | Ok a0 ->
          let (v, s') = a0 in
          (match conv_fields var f rt cls rows' args' s' with
           | Ok a1 -> let (vs, s'') = a1 in Ok ((v :: vs), s'')
           | Err e -> Err e)
        | Err e -> Err e))

(** val get_field : bytes -> field_row list -> pyval list -> pyval option **)

let rec get_field name rows vals =
  match rows with
  | [] -> None
  | r :: rows' ->
    (match vals with
     | [] -> None
     | v :: vals' ->
       if beqb name (f_name r) then Some v else get_field name rows' vals')

(** val set_field :
    bytes -> pyval -> field_row list -> pyval list -> pyval list **)

let rec set_field name x rows vals =
  match rows with
  | [] -> vals
  | r :: rows' ->
    (match vals with
     | [] -> vals
     | v :: vals' ->
       if beqb name (f_name r)
       then x :: vals'
       else v :: (set_field name x rows' vals'))

type rval =
| RNone
| RAtom of atom
| RSeq of bool * rval list
| RMap of bool * (atom * rval) list
| RObj of bytes * rval list
| ROut
| RBad

(** val resolve : nat -> store -> pyval -> rval **)

let rec resolve f s v =
  match f with
  | O -> ROut
  | S f' ->
    (match v with
     | VNone -> RNone
     | VAtom a -> RAtom a
     | VTuple l -> RSeq (false, (map (resolve f' s) l))
     | VObj (c, fs) -> RObj (c, (map (resolve f' s) fs))
     | VIDict h ->
       (match lookup s h with
        | Some c ->
          (match c with
           | PyDict it ->
             RMap (false,
               (map (fun kv -> ((fst kv), (resolve f' s (snd kv)))) it))
           | PyList _ -> RBad)
        | None -> RBad)
     | VRef h ->
       (match lookup s h with
        | Some c ->
          (match c with
           | PyDict it ->
             RMap (true,
               (map (fun kv -> ((fst kv), (resolve f' s (snd kv)))) it))
           | PyList l -> RSeq (true, (map (resolve f' s) l)))
        | None -> RBad)
     | VOList l -> RSeq (true, (map (resolve f' s) l))
     | VOMap (m, it) ->
       RMap (m, (map (fun kv -> ((fst kv), (resolve f' s (snd kv)))) it)))

(** val flags_of :
    class_table -> (field_row -> bool) -> bytes -> bool list **)

let flags_of t sel cls =
  match class_fields t cls with
  | Some rows -> map sel rows
  | None -> []

(** val next_flag : bool list -> bool * bool list **)

let next_flag = function
| [] -> (true, [])
| b :: r -> (b, r)

(** val r_eqb : class_table -> rval -> rval -> bool **)

let rec r_eqb t x y =
  match x with
  | RNone -> (match y with
              | RNone -> true
              | _ -> false)
  | RAtom a -> (match y with
                | RAtom b -> beqb a b
                | _ -> false)
  | RSeq (m, l) ->
    (match y with
     | RSeq (m', l') ->
       (&&) (eqb m m')
         (let rec go l0 l'0 =
            match l0 with
            | [] -> (match l'0 with
                     | [] -> true
                     | _ :: _ -> false)
            | a :: r ->
              (match l'0 with
               | [] -> false
               | b :: r' -> (&&) (r_eqb t a b) (go r r'))
          in go l l')
     | _ -> false)
  | RMap (_, it) ->
    (match y with
     | RMap (_, it') ->
       (&&) (Nat.eqb (length it) (length it'))
         (let rec go = function
          | [] -> true
          | kv :: r ->
            (&&)
              (match assoc (fst kv) it' with
               | Some v' -> r_eqb t (snd kv) v'
               | None -> false) (go r)
          in go it)
     | _ -> false)
  | RObj (c, fs) ->
    (match y with
     | RObj (c', fs') ->
       (&&) (beqb c c')
         (let rec go fl l l' =
            match l with
            | [] -> (match l' with
                     | [] -> true
                     | _ :: _ -> false)
            | a :: r ->
              (match l' with
               | [] -> false
               | b :: r' ->
                 (&&) (if fst (next_flag fl) then r_eqb t a b else true)
                   (go (snd (next_flag fl)) r r'))
          in go (flags_of t f_eq c) fs fs')
     | _ -> false)
  | ROut -> (match y with
             | ROut -> true
             | _ -> false)
  | RBad -> (match y with
             | RBad -> true
             | _ -> false)

(** val kleb : (atom * rval) -> (atom * rval) -> bool **)

let kleb a b =
  bleb (fst a) (fst b)

(** val norm : class_table -> rval -> rval option **)

let rec norm t = function
| RNone -> Some RNone
| RAtom a -> Some (RAtom a)
| RSeq (mutable0, l) ->
  if mutable0
  then None
  else option_map (fun x0 -> RSeq (false, x0)) (seq_opt (map (norm t) l))
| RMap (mutable0, it) ->
  if mutable0
  then None
  else option_map (fun it' -> RMap (false, (sort kleb it')))
         (seq_opt
           (map (fun kv ->
             option_map (fun x0 -> ((fst kv), x0)) (norm t (snd kv))) it))
| RObj (c, fs) ->
  option_map (fun x0 -> RObj (c, x0))
    (seq_opt
      (let rec go fl = function
       | [] -> []
       | a :: r ->
         if fst (next_flag fl)
         then (norm t a) :: (go (snd (next_flag fl)) r)
         else go (snd (next_flag fl)) r
       in go (flags_of t f_hash c) fs))
| _ -> None

(** val to_dict : class_table -> rval -> rval **)

let rec to_dict t x = match x with
| RSeq (m, l) -> RSeq (m, (map (to_dict t) l))
| RMap (_, it) ->
  RMap (true, (map (fun kv -> ((fst kv), (to_dict t (snd kv)))) it))
| RObj (c, fs) ->
  RMap (true,
    (let rec go names = function
     | [] -> []
     | a :: r ->
       (match names with
        | [] -> (c, (to_dict t a)) :: (go [] r)
        | n0 :: ns -> (n0, (to_dict t a)) :: (go ns r))
     in go
          (match class_fields t c with
           | Some rows -> map f_name rows
           | None -> []) fs))
| _ -> x

(** val iD : bytes **)

let iD =
  bs (String ((Ascii (true, false, false, true, false, true, true, false)),
    (String ((Ascii (false, false, true, false, false, true, true, false)),
    EmptyString))))

(** val compute_id :
    (rval -> atom) -> nat -> bytes -> field_row list -> pyval list -> store
    -> atom **)

let compute_id hid f cls rows vals s =
  hid (resolve f s (VObj (cls, (set_field iD VNone rows vals))))

(** val post_id :
    (rval -> atom) -> nat -> bytes -> field_row list -> pyval list -> store
    -> pyval list **)

let post_id hid f cls rows vals s =
  match get_field iD rows vals with
  | Some p ->
    (match p with
     | VAtom a ->
       if beqb a eMPTY_BYTES
       then set_field iD (VAtom (compute_id hid f cls rows vals s)) rows vals
       else vals
     | _ -> vals)
  | None -> vals

(** val k_META : bytes **)

let k_META =
  bs (String ((Ascii (true, false, true, true, false, true, true, false)),
    (String ((Ascii (true, false, true, false, false, true, true, false)),
    (String ((Ascii (false, false, true, false, true, true, true, false)),
    (String ((Ascii (true, false, false, false, false, true, true, false)),
    (String ((Ascii (false, false, true, false, false, true, true, false)),
    (String ((Ascii (true, false, false, false, false, true, true, false)),
    (String ((Ascii (false, false, true, false, true, true, true, false)),
    (String ((Ascii (true, false, false, false, false, true, true, false)),
    EmptyString))))))))))))))))

(** val k_XH : bytes **)

let k_XH =
  bs (String ((Ascii (true, false, true, false, false, true, true, false)),
    (String ((Ascii (false, false, false, true, true, true, true, false)),
    (String ((Ascii (false, false, true, false, true, true, true, false)),
    (String ((Ascii (false, true, false, false, true, true, true, false)),
    (String ((Ascii (true, false, false, false, false, true, true, false)),
    (String ((Ascii (true, true, true, true, true, false, true, false)),
    (String ((Ascii (false, false, false, true, false, true, true, false)),
    (String ((Ascii (true, false, true, false, false, true, true, false)),
    (String ((Ascii (true, false, false, false, false, true, true, false)),
    (String ((Ascii (false, false, true, false, false, true, true, false)),
    (String ((Ascii (true, false, true, false, false, true, true, false)),
    (String ((Ascii (false, true, false, false, true, true, true, false)),
    (String ((Ascii (true, true, false, false, true, true, true, false)),
    EmptyString))))))))))))))))))))))))))

(** val xH_KEY : atom **)

let xH_KEY =
  (Npos (XO
    XH)) :: (bs (String ((Ascii (true, false, true, false, false, true, true,
              false)), (String ((Ascii (false, false, false, true, true,
              true, true, false)), (String ((Ascii (false, false, true,
              false, true, true, true, false)), (String ((Ascii (false, true,
              false, false, true, true, true, false)), (String ((Ascii (true,
              false, false, false, false, true, true, false)), (String
              ((Ascii (true, true, true, true, true, false, true, false)),
              (String ((Ascii (false, false, false, true, false, true, true,
              false)), (String ((Ascii (true, false, true, false, false,
              true, true, false)), (String ((Ascii (true, false, false,
              false, false, true, true, false)), (String ((Ascii (false,
              false, true, false, false, true, true, false)), (String ((Ascii
              (true, false, true, false, false, true, true, false)), (String
              ((Ascii (false, true, false, false, true, true, true, false)),
              (String ((Ascii (true, true, false, false, true, true, true,
              false)), EmptyString)))))))))))))))))))))))))))

(** val post_revision :
    variant -> nat -> bytes -> field_row list -> pyval list -> store ->
    (pyval list * store) result **)

let post_revision var f cls rows vals s =
  if negb
       (beqb cls
         (bs (String ((Ascii (false, true, false, false, true, false, true,
           false)), (String ((Ascii (true, false, true, false, false, true,
           true, false)), (String ((Ascii (false, true, true, false, true,
           true, true, false)), (String ((Ascii (true, false, false, true,
           false, true, true, false)), (String ((Ascii (true, true, false,
           false, true, true, true, false)), (String ((Ascii (true, false,
           false, true, false, true, true, false)), (String ((Ascii (true,
           true, true, true, false, true, true, false)), (String ((Ascii
           (false, true, true, true, false, true, true, false)),
           EmptyString))))))))))))))))))
  then Ok (vals, s)
  else (match get_field k_META rows vals with
        | Some p ->
          (match p with
           | VIDict hm ->
             (match get_field k_XH rows vals with
              | Some p0 ->
                (match p0 with
                 | VTuple l ->
                   (match l with
                    | [] ->
                      (match lookup s hm with
                       | Some c ->
                         (match c with
                          | PyDict it ->
                            (match assoc xH_KEY it with
                             | Some _ ->
                               (match copy_pop var f s (VIDict hm) xH_KEY with
                                | Ok a ->
                                  let (p1, s') = a in
                                  let (xh', md) = p1 in
                                  (match tuplify s' xh' with
                                   | Ok t ->
                                     if atom_pairs t
                                     then Ok
                                            ((set_field k_XH t rows
                                               (set_field k_META md rows vals)),
                                            s')
                                     else Err ETypeError
                                   | Err e -> Err e)
                                | Err e -> Err e)
                             | None -> Ok (vals, s))
                          | PyList _ -> Ok (vals, s))
                       | None -> Ok (vals, s))
                    | _ :: _ -> Ok (vals, s))
                 | _ -> Ok (vals, s))
              | None -> Ok (vals, s))
           | _ -> Ok (vals, s))
        | None -> Ok (vals, s))

(** val construct :
    (rval -> atom) -> variant -> nat -> route -> bytes -> store -> pyval list
    -> (pyval * store) result **)

let construct hid var f rt cls s args =
  if beqb cls iDICT
  then (match args with
        | [] -> Err ETypeError
        | v :: l ->
          (match l with
           | [] -> idict_init var s v
           | _ :: _ -> Err ETypeError))
  else (match class_fields aLL_CLASSES cls with
        | Some rows ->
          (match conv_fields var f rt cls rows args s with
           | Ok a ->
             let (vals, s1) = a in
             (match post_revision var f cls rows
                      (post_id hid f cls rows vals s1) s1 with
              | Ok a0 -> let (vals', s2) = a0 in Ok ((VObj (cls, vals')), s2)
              | Err e -> Err e)
           | Err e -> Err e)
        | None -> Err ETypeError)

(** val default_of : bytes -> pyval **)

let default_of fname =
  if beqb fname iD
  then VAtom eMPTY_BYTES
  else if (||)
            (beqb fname
              (bs (String ((Ascii (false, false, false, false, true, true,
                true, false)), (String ((Ascii (true, false, false, false,
                false, true, true, false)), (String ((Ascii (false, true,
                false, false, true, true, true, false)), (String ((Ascii
                (true, false, true, false, false, true, true, false)),
                (String ((Ascii (false, true, true, true, false, true, true,
                false)), (String ((Ascii (false, false, true, false, true,
                true, true, false)), (String ((Ascii (true, true, false,
                false, true, true, true, false)), EmptyString))))))))))))))))
            (beqb fname k_XH)
       then VTuple []
       else VNone

(** val from_dict_args :
    field_row list -> (atom * pyval) list -> pyval list option **)

let from_dict_args rows items =
  seq_opt
    (map (fun r ->
      match assoc ((Npos (XO XH)) :: (f_name r)) items with
      | Some v -> Some v
      | None -> if f_default r then Some (default_of (f_name r)) else None)
      rows)

(** val from_dict :
    (rval -> atom) -> variant -> nat -> bytes -> store -> pyval ->
    (pyval * store) result **)

let from_dict hid var f cls s = function
| VRef hd ->
  (match lookup s hd with
   | Some c ->
     (match c with
      | PyDict items ->
        (match class_fields aLL_CLASSES cls with
         | Some rows ->
           (match from_dict_args rows items with
            | Some args -> construct hid var f FromDict cls s args
            | None -> Err ETypeError)
         | None -> Err ETypeError)
      | PyList _ -> Err ETypeError)
   | None -> Err ETypeError)
| _ -> Err ETypeError

(** val id_ok : (rval -> atom) -> rval -> bool **)

let id_ok hid = function
| RObj (c, fs) ->
  (match class_fields aLL_CLASSES c with
   | Some rows ->
     let rec go rows0 l pre =
       match rows0 with
       | [] -> true
       | r0 :: rows' ->
         (match l with
          | [] -> true
          | a :: l' ->
            if beqb (f_name r0) iD
            then (match a with
                  | RAtom i ->
                    beqb i (hid (RObj (c, (app (rev pre) (RNone :: l')))))
                  | _ -> false)
            else go rows' l' (a :: pre))
     in go rows fs []
   | None -> true)
| _ -> true

(** val obj_hash : (rval -> n) -> rval -> n result **)

let obj_hash hpy r =
  match norm aLL_CLASSES r with
  | Some n0 -> Ok (hpy n0)
  | None -> Err ETypeError

type observation = (((rval * rval) * rval option) * n result) * bool

(** val observe_r : (rval -> atom) -> (rval -> n) -> rval -> observation **)

let observe_r hid hpy r =
  ((((r, (to_dict aLL_CLASSES r)), (norm aLL_CLASSES r)), (obj_hash hpy r)),
    (id_ok hid r))

(** val observe :
    (rval -> atom) -> (rval -> n) -> nat -> store -> pyval -> observation **)

let observe hid hpy f s o =
  observe_r hid hpy (resolve f s o)

type channel =
| CSetAttr of bytes * pyval
| CDelAttr of bytes
| CSetItem of atom * pyval
| CDelItem of atom

(** val obj_mutate : store -> pyval -> channel -> (err * store) * pyval **)

let obj_mutate s o c =
  match o with
  | VIDict _ ->
    (match c with
     | CSetAttr (_, _) -> ((EAttributeError, s), o)
     | CDelAttr _ -> ((EAttributeError, s), o)
     | _ -> ((ETypeError, s), o))
  | _ ->
    (match c with
     | CSetAttr (_, _) -> ((EFrozenInstanceError, s), o)
     | CDelAttr _ -> ((EFrozenInstanceError, s), o)
     | _ -> ((ETypeError, s), o))

type step =
| SMut of mut
| SChan of channel
| SCopyPop of atom

(** val run_steps :
    (rval -> atom) -> (rval -> n) -> variant -> nat -> store -> pyval -> step
    list -> (err option * observation) list * store **)

let rec run_steps hid hpy var f s o = function
| [] -> ([], s)
| s0 :: r ->
  (match s0 with
   | SMut m ->
     let s' = apply_mut s m in
     let (l, sf) = run_steps hid hpy var f s' o r in
     (((None, (observe hid hpy f s' o)) :: l), sf)
   | SChan c ->
     let (p, o') = obj_mutate s o c in
     let (e, s') = p in
     let (l, sf) = run_steps hid hpy var f s' o' r in
     ((((Some e), (observe hid hpy f s' o')) :: l), sf)
   | SCopyPop k ->
     (match copy_pop var f s o k with
      | Ok a ->
        let (_, s') = a in
        let (l, sf) = run_steps hid hpy var f s' o r in
        (((None, (observe hid hpy f s' o)) :: l), sf)
      | Err e ->
        let (l, sf) = run_steps hid hpy var f s o r in
        ((((Some e), (observe hid hpy f s o)) :: l), sf)))

(** val run_script :
    (rval -> atom) -> (rval -> n) -> variant -> nat -> route -> bytes ->
    store -> pyval list -> step list -> pyval list -> (((observation * (err
    option * observation) list) * observation list) * observation list) result **)

let run_script hid hpy var f rt cls s args steps watch =
  match match rt with
        | Ctor -> construct hid var f Ctor cls s args
        | FromDict ->
          (match args with
           | [] -> Err ETypeError
           | d :: l ->
             (match l with
              | [] -> from_dict hid var f cls s d
              | _ :: _ -> Err ETypeError)) with
  | Ok a ->
    let (o, s1) = a in
    let (l, sf) = run_steps hid hpy var f s1 o steps in
    Ok ((((observe hid hpy f s1 o), l), (map (observe hid hpy f s) watch)),
    (map (observe hid hpy f sf) watch))
  | Err e -> Err e

(** val run_twins :
    (rval -> atom) -> variant -> nat -> bytes -> store -> pyval list -> pyval
    list -> (((bool * bool) * rval option) * rval option) result **)

let run_twins hid var f cls s args1 args2 =
  match construct hid var f Ctor cls s args1 with
  | Ok a ->
    let (o1, s1) = a in
    (match construct hid var f Ctor cls s1 args2 with
     | Ok a0 ->
       let (o2, s2) = a0 in
       let r1 = resolve f s2 o1 in
       let r2 = resolve f s2 o2 in
       Ok ((((r_eqb aLL_CLASSES r1 r2), (r_eqb aLL_CLASSES r2 r1)),
       (norm aLL_CLASSES r1)), (norm aLL_CLASSES r2))
     | Err e -> Err e)
  | Err e -> Err e
