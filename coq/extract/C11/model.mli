
val negb : bool -> bool

type nat =
| O
| S of nat

val option_map : ('a1 -> 'a2) -> 'a1 option -> 'a2 option

val fst : ('a1 * 'a2) -> 'a1

val snd : ('a1 * 'a2) -> 'a2

val length : 'a1 list -> nat

val app : 'a1 list -> 'a1 list -> 'a1 list

type comparison =
| Eq
| Lt
| Gt

val add : nat -> nat -> nat

type byte =
| X00
| X01
| X02
| X03
| X04
| X05
| X06
| X07
| X08
| X09
| X0a
| X0b
| X0c
| X0d
| X0e
| X0f
| X10
| X11
| X12
| X13
| X14
| X15
| X16
| X17
| X18
| X19
| X1a
| X1b
| X1c
| X1d
| X1e
| X1f
| X20
| X21
| X22
| X23
| X24
| X25
| X26
| X27
| X28
| X29
| X2a
| X2b
| X2c
| X2d
| X2e
| X2f
| X30
| X31
| X32
| X33
| X34
| X35
| X36
| X37
| X38
| X39
| X3a
| X3b
| X3c
| X3d
| X3e
| X3f
| X40
| X41
| X42
| X43
| X44
| X45
| X46
| X47
| X48
| X49
| X4a
| X4b
| X4c
| X4d
| X4e
| X4f
| X50
| X51
| X52
| X53
| X54
| X55
| X56
| X57
| X58
| X59
| X5a
| X5b
| X5c
| X5d
| X5e
| X5f
| X60
| X61
| X62
| X63
| X64
| X65
| X66
| X67
| X68
| X69
| X6a
| X6b
| X6c
| X6d
| X6e
| X6f
| X70
| X71
| X72
| X73
| X74
| X75
| X76
| X77
| X78
| X79
| X7a
| X7b
| X7c
| X7d
| X7e
| X7f
| X80
| X81
| X82
| X83
| X84
| X85
| X86
| X87
| X88
| X89
| X8a
| X8b
| X8c
| X8d
| X8e
| X8f
| X90
| X91
| X92
| X93
| X94
| X95
| X96
| X97
| X98
| X99
| X9a
| X9b
| X9c
| X9d
| X9e
| X9f
| Xa0
| Xa1
| Xa2
| Xa3
| Xa4
| Xa5
| Xa6
| Xa7
| Xa8
| Xa9
| Xaa
| Xab
| Xac
| Xad
| Xae
| Xaf
| Xb0
| Xb1
| Xb2
| Xb3
| Xb4
| Xb5
| Xb6
| Xb7
| Xb8
| Xb9
| Xba
| Xbb
| Xbc
| Xbd
| Xbe
| Xbf
| Xc0
| Xc1
| Xc2
| Xc3
| Xc4
| Xc5
| Xc6
| Xc7
| Xc8
| Xc9
| Xca
| Xcb
| Xcc
| Xcd
| Xce
| Xcf
| Xd0
| Xd1
| Xd2
| Xd3
| Xd4
| Xd5
| Xd6
| Xd7
| Xd8
| Xd9
| Xda
| Xdb
| Xdc
| Xdd
| Xde
| Xdf
| Xe0
| Xe1
| Xe2
| Xe3
| Xe4
| Xe5
| Xe6
| Xe7
| Xe8
| Xe9
| Xea
| Xeb
| Xec
| Xed
| Xee
| Xef
| Xf0
| Xf1
| Xf2
| Xf3
| Xf4
| Xf5
| Xf6
| Xf7
| Xf8
| Xf9
| Xfa
| Xfb
| Xfc
| Xfd
| Xfe
| Xff

val of_bits :
  (bool * (bool * (bool * (bool * (bool * (bool * (bool * bool))))))) -> byte

type positive =
| XI of positive
| XO of positive
| XH

type n =
| N0
| Npos of positive

type z =
| Z0
| Zpos of positive
| Zneg of positive

val eqb : bool -> bool -> bool

module Nat :
 sig
  val eqb : nat -> nat -> bool
 end

module Pos :
 sig
  val compare_cont : comparison -> positive -> positive -> comparison

  val compare : positive -> positive -> comparison

  val eqb : positive -> positive -> bool

  val iter_op : ('a1 -> 'a1 -> 'a1) -> positive -> 'a1 -> 'a1

  val to_nat : positive -> nat
 end

module N :
 sig
  val compare : n -> n -> comparison

  val eqb : n -> n -> bool

  val to_nat : n -> nat
 end

module Z :
 sig
  val of_N : n -> z
 end

val nth_error : 'a1 list -> nat -> 'a1 option

val removelast : 'a1 list -> 'a1 list

val rev : 'a1 list -> 'a1 list

val map : ('a1 -> 'a2) -> 'a1 list -> 'a2 list

val fold_left : ('a1 -> 'a2 -> 'a1) -> 'a2 list -> 'a1 -> 'a1

val existsb : ('a1 -> bool) -> 'a1 list -> bool

val forallb : ('a1 -> bool) -> 'a1 list -> bool

val find : ('a1 -> bool) -> 'a1 list -> 'a1 option

val to_N : byte -> n

type ascii =
| Ascii of bool * bool * bool * bool * bool * bool * bool * bool

val byte_of_ascii : ascii -> byte

type string =
| EmptyString
| String of ascii * string

val list_ascii_of_string : string -> ascii list

val list_byte_of_string : string -> byte list

type bytes = n list

val bs : string -> bytes

val beqb : bytes -> bytes -> bool

val bcompare : bytes -> bytes -> comparison

val bleb : bytes -> bytes -> bool

val insert : ('a1 -> 'a1 -> bool) -> 'a1 -> 'a1 list -> 'a1 list

val sort : ('a1 -> 'a1 -> bool) -> 'a1 list -> 'a1 list

val fIELDS_BaseContent : ((((n list * bool) * bool) * bool) * bool) list

val fIELDS_Content : ((((n list * bool) * bool) * bool) * bool) list

val fIELDS_Directory : ((((n list * bool) * bool) * bool) * bool) list

val fIELDS_DirectoryEntry : ((((n list * bool) * bool) * bool) * bool) list

val fIELDS_ExtID : ((((n list * bool) * bool) * bool) * bool) list

val fIELDS_MetadataAuthority : ((((n list * bool) * bool) * bool) * bool) list

val fIELDS_MetadataFetcher : ((((n list * bool) * bool) * bool) * bool) list

val fIELDS_Origin : ((((n list * bool) * bool) * bool) * bool) list

val fIELDS_OriginVisit : ((((n list * bool) * bool) * bool) * bool) list

val fIELDS_OriginVisitStatus : ((((n list * bool) * bool) * bool) * bool) list

val fIELDS_Person : ((((n list * bool) * bool) * bool) * bool) list

val fIELDS_RawExtrinsicMetadata :
  ((((n list * bool) * bool) * bool) * bool) list

val fIELDS_Release : ((((n list * bool) * bool) * bool) * bool) list

val fIELDS_Revision : ((((n list * bool) * bool) * bool) * bool) list

val fIELDS_SkippedContent : ((((n list * bool) * bool) * bool) * bool) list

val fIELDS_Snapshot : ((((n list * bool) * bool) * bool) * bool) list

val fIELDS_SnapshotBranch : ((((n list * bool) * bool) * bool) * bool) list

val fIELDS_Timestamp : ((((n list * bool) * bool) * bool) * bool) list

val fIELDS_TimestampWithTimezone :
  ((((n list * bool) * bool) * bool) * bool) list

val fIELDS_CoreSWHID : ((((n list * bool) * bool) * bool) * bool) list

val fIELDS_ExtendedSWHID : ((((n list * bool) * bool) * bool) * bool) list

val fIELDS_QualifiedSWHID : ((((n list * bool) * bool) * bool) * bool) list

val mODEL_CLASSES :
  (n list * ((((n list * bool) * bool) * bool) * bool) list) list

type atom = bytes

type handle = nat

type pyval =
| VNone
| VAtom of atom
| VTuple of pyval list
| VObj of bytes * pyval list
| VIDict of handle
| VRef of handle
| VOList of pyval list
| VOMap of bool * (atom * pyval) list

type cell =
| PyDict of (atom * pyval) list
| PyList of pyval list

type store = cell list

val lookup : store -> handle -> cell option

val alloc : store -> cell -> handle * store

val update : store -> handle -> cell -> store

type err =
| ETypeError
| EValueError
| EKeyError
| EIndexError
| EFrozenInstanceError
| EAttributeError
| EOutOfFuel

type 'a result =
| Ok of 'a
| Err of err

val assoc : atom -> (atom * 'a1) list -> 'a1 option

val dict_set : atom -> 'a1 -> (atom * 'a1) list -> (atom * 'a1) list

val dict_del : atom -> (atom * 'a1) list -> (atom * 'a1) list

val dict_of_pairs : (atom * 'a1) list -> (atom * 'a1) list

val set_nth : nat -> 'a1 -> 'a1 list -> 'a1 list

val seq_opt : 'a1 option list -> 'a1 list option

type mut =
| MSetItem of handle * atom * pyval
| MDelItem of handle * atom
| MClear of handle
| MAppend of handle * pyval
| MSetIndex of handle * nat * pyval
| MPop of handle

val apply_mut : store -> mut -> store

type field_row = (((bytes * bool) * bool) * bool) * bool

val f_name : field_row -> bytes

val f_eq : field_row -> bool

val f_hash : field_row -> bool

val f_default : field_row -> bool

val f_conv : field_row -> bool

type class_table = (bytes * field_row list) list

val aLL_CLASSES : class_table

val class_fields : class_table -> bytes -> field_row list option

val eq_hash_coherent : class_table -> bool

type argkind =
| KChecked
| KFreezeDict
| KTuplify
| KUnchecked

val aRG_KINDS : ((bytes * bytes) * argkind) list

val fROMDICT_REBUILD : (bytes * bytes) list

val arg_kind : bytes -> bytes -> argkind

val is_rebuild : bytes -> bytes -> bool

val arg_kinds_coherent : class_table -> bool

val iDICT : bytes

val eMPTY_BYTES : atom

val freeze : nat -> store -> pyval -> pyval option

val deepcopy : nat -> store -> pyval -> pyval option

val as_pair : store -> pyval -> (pyval * pyval) option

val as_kv : store -> pyval -> (atom * pyval) option

type variant =
| New
| Old
| PopInPlace

val idict_of_seq : store -> pyval list -> (pyval * store) result

val idict_init : variant -> store -> pyval -> (pyval * store) result

val popped : atom -> (atom * 'a1) list -> 'a1 -> 'a1

val copy_pop :
  variant -> nat -> store -> pyval -> atom -> ((pyval * pyval) * store) result

val tuplify : store -> pyval -> pyval result

val is_atom : pyval -> bool

val atom_pairs : pyval -> bool

val is_container : pyval -> bool

val checked_ok : pyval -> bool

type route =
| Ctor
| FromDict

val conv_one :
  variant -> nat -> route -> bytes -> bytes -> store -> pyval ->
  (pyval * store) result

val conv_fields :
  variant -> nat -> route -> bytes -> field_row list -> pyval list -> store
  -> (pyval list * store) result

val get_field : bytes -> field_row list -> pyval list -> pyval option

val set_field : bytes -> pyval -> field_row list -> pyval list -> pyval list

type rval =
| RNone
| RAtom of atom
| RSeq of bool * rval list
| RMap of bool * (atom * rval) list
| RObj of bytes * rval list
| ROut
| RBad

val resolve : nat -> store -> pyval -> rval

val flags_of : class_table -> (field_row -> bool) -> bytes -> bool list

val next_flag : bool list -> bool * bool list

val r_eqb : class_table -> rval -> rval -> bool

val kleb : (atom * rval) -> (atom * rval) -> bool

val norm : class_table -> rval -> rval option

val to_dict : class_table -> rval -> rval

val iD : bytes

val compute_id :
  (rval -> atom) -> nat -> bytes -> field_row list -> pyval list -> store ->
  atom

val post_id :
  (rval -> atom) -> nat -> bytes -> field_row list -> pyval list -> store ->
  pyval list

val k_META : bytes

val k_XH : bytes

val xH_KEY : atom

val post_revision :
  variant -> nat -> bytes -> field_row list -> pyval list -> store -> (pyval
  list * store) result

val construct :
  (rval -> atom) -> variant -> nat -> route -> bytes -> store -> pyval list
  -> (pyval * store) result

val default_of : bytes -> pyval

val from_dict_args :
  field_row list -> (atom * pyval) list -> pyval list option

val from_dict :
  (rval -> atom) -> variant -> nat -> bytes -> store -> pyval ->
  (pyval * store) result

val id_ok : (rval -> atom) -> rval -> bool

val obj_hash : (rval -> n) -> rval -> n result

type observation = (((rval * rval) * rval option) * n result) * bool

val observe_r : (rval -> atom) -> (rval -> n) -> rval -> observation

val observe :
  (rval -> atom) -> (rval -> n) -> nat -> store -> pyval -> observation

type channel =
| CSetAttr of bytes * pyval
| CDelAttr of bytes
| CSetItem of atom * pyval
| CDelItem of atom

val obj_mutate : store -> pyval -> channel -> (err * store) * pyval

type step =
| SMut of mut
| SChan of channel
| SCopyPop of atom

val run_steps :
  (rval -> atom) -> (rval -> n) -> variant -> nat -> store -> pyval -> step
  list -> (err option * observation) list * store

val run_script :
  (rval -> atom) -> (rval -> n) -> variant -> nat -> route -> bytes -> store
  -> pyval list -> step list -> pyval list -> (((observation * (err
  option * observation) list) * observation list) * observation list) result

val run_twins :
  (rval -> atom) -> variant -> nat -> bytes -> store -> pyval list -> pyval
  list -> (((bool * bool) * rval option) * rval option) result
