(* Extraction of the C01 model.  ExtrOcamlBasic only; no Extract Constant /
   Extract Inductive of our own. *)
Require Extraction.
Require Import ExtrOcamlBasic.
From Coq Require Import ZArith NArith.
From SWH.model Require Import Hashutil.
Extraction "extract/C01/model.ml" run_route run_script hash_git_data Hsym Hexec view i_data from_state_new from_state_old Z.of_N N.to_nat.
