
val negb : bool -> bool

type nat =
| O
| S of nat

val option_map : ('a1 -> 'a2) -> 'a1 option -> 'a2 option

val fst : ('a1 * 'a2) -> 'a1

val snd : ('a1 * 'a2) -> 'a2

val length : 'a1 list -> nat

val app : 'a1 list -> 'a1 list -> 'a1 list

type comparison =
| Eq
| Lt
| Gt

type uint =
| Nil
| D0 of uint
| D1 of uint
| D2 of uint
| D3 of uint
| D4 of uint
| D5 of uint
| D6 of uint
| D7 of uint
| D8 of uint
| D9 of uint

val revapp : uint -> uint -> uint

val rev : uint -> uint

module Little :
 sig
  val double : uint -> uint

  val succ_double : uint -> uint
 end

type byte =
| X00
| X01
| X02
| X03
| X04
| X05
| X06
| X07
| X08
| X09
| X0a
| X0b
| X0c
| X0d
| X0e
| X0f
| X10
| X11
| X12
| X13
| X14
| X15
| X16
| X17
| X18
| X19
| X1a
| X1b
| X1c
| X1d
| X1e
| X1f
| X20
| X21
| X22
| X23
| X24
| X25
| X26
| X27
| X28
| X29
| X2a
| X2b
| X2c
| X2d
| X2e
| X2f
| X30
| X31
| X32
| X33
| X34
| X35
| X36
| X37
| X38
| X39
| X3a
| X3b
| X3c
| X3d
| X3e
| X3f
| X40
| X41
| X42
| X43
| X44
| X45
| X46
| X47
| X48
| X49
| X4a
| X4b
| X4c
| X4d
| X4e
| X4f
| X50
| X51
| X52
| X53
| X54
| X55
| X56
| X57
| X58
| X59
| X5a
| X5b
| X5c
| X5d
| X5e
| X5f
| X60
| X61
| X62
| X63
| X64
| X65
| X66
| X67
| X68
| X69
| X6a
| X6b
| X6c
| X6d
| X6e
| X6f
| X70
| X71
| X72
| X73
| X74
| X75
| X76
| X77
| X78
| X79
| X7a
| X7b
| X7c
| X7d
| X7e
| X7f
| X80
| X81
| X82
| X83
| X84
| X85
| X86
| X87
| X88
| X89
| X8a
| X8b
| X8c
| X8d
| X8e
| X8f
| X90
| X91
| X92
| X93
| X94
| X95
| X96
| X97
| X98
| X99
| X9a
| X9b
| X9c
| X9d
| X9e
| X9f
| Xa0
| Xa1
| Xa2
| Xa3
| Xa4
| Xa5
| Xa6
| Xa7
| Xa8
| Xa9
| Xaa
| Xab
| Xac
| Xad
| Xae
| Xaf
| Xb0
| Xb1
| Xb2
| Xb3
| Xb4
| Xb5
| Xb6
| Xb7
| Xb8
| Xb9
| Xba
| Xbb
| Xbc
| Xbd
| Xbe
| Xbf
| Xc0
| Xc1
| Xc2
| Xc3
| Xc4
| Xc5
| Xc6
| Xc7
| Xc8
| Xc9
| Xca
| Xcb
| Xcc
| Xcd
| Xce
| Xcf
| Xd0
| Xd1
| Xd2
| Xd3
| Xd4
| Xd5
| Xd6
| Xd7
| Xd8
| Xd9
| Xda
| Xdb
| Xdc
| Xdd
| Xde
| Xdf
| Xe0
| Xe1
| Xe2
| Xe3
| Xe4
| Xe5
| Xe6
| Xe7
| Xe8
| Xe9
| Xea
| Xeb
| Xec
| Xed
| Xee
| Xef
| Xf0
| Xf1
| Xf2
| Xf3
| Xf4
| Xf5
| Xf6
| Xf7
| Xf8
| Xf9
| Xfa
| Xfb
| Xfc
| Xfd
| Xfe
| Xff

val of_bits :
  (bool * (bool * (bool * (bool * (bool * (bool * (bool * bool))))))) -> byte

module Nat :
 sig
  val eqb : nat -> nat -> bool
 end

val last : 'a1 list -> 'a1 -> 'a1

val rev0 : 'a1 list -> 'a1 list

val map : ('a1 -> 'a2) -> 'a1 list -> 'a2 list

val flat_map : ('a1 -> 'a2 list) -> 'a1 list -> 'a2 list

val fold_left : ('a1 -> 'a2 -> 'a1) -> 'a2 list -> 'a1 -> 'a1

val existsb : ('a1 -> bool) -> 'a1 list -> bool

val forallb : ('a1 -> bool) -> 'a1 list -> bool

val filter : ('a1 -> bool) -> 'a1 list -> 'a1 list

val find : ('a1 -> bool) -> 'a1 list -> 'a1 option

val firstn : nat -> 'a1 list -> 'a1 list

val skipn : nat -> 'a1 list -> 'a1 list

type positive =
| XI of positive
| XO of positive
| XH

type n =
| N0
| Npos of positive

type z =
| Z0
| Zpos of positive
| Zneg of positive

module Pos :
 sig
  type mask =
  | IsNul
  | IsPos of positive
  | IsNeg
 end

module Coq_Pos :
 sig
  val succ : positive -> positive

  val add : positive -> positive -> positive

  val add_carry : positive -> positive -> positive

  val pred_double : positive -> positive

  type mask = Pos.mask =
  | IsNul
  | IsPos of positive
  | IsNeg

  val succ_double_mask : mask -> mask

  val double_mask : mask -> mask

  val double_pred_mask : positive -> mask

  val sub_mask : positive -> positive -> mask

  val sub_mask_carry : positive -> positive -> mask

  val mul : positive -> positive -> positive

  val compare_cont : comparison -> positive -> positive -> comparison

  val compare : positive -> positive -> comparison

  val eqb : positive -> positive -> bool

  val of_succ_nat : nat -> positive

  val of_uint_acc : uint -> positive -> positive

  val of_uint : uint -> n

  val to_little_uint : positive -> uint

  val to_uint : positive -> uint
 end

module N :
 sig
  val succ_double : n -> n

  val double : n -> n

  val add : n -> n -> n

  val sub : n -> n -> n

  val mul : n -> n -> n

  val compare : n -> n -> comparison

  val eqb : n -> n -> bool

  val leb : n -> n -> bool

  val ltb : n -> n -> bool

  val pos_div_eucl : positive -> n -> n * n

  val div_eucl : n -> n -> n * n

  val div : n -> n -> n

  val modulo : n -> n -> n

  val of_nat : nat -> n

  val of_uint : uint -> n

  val to_uint : n -> uint
 end

val to_N : byte -> n

type ascii =
| Ascii of bool * bool * bool * bool * bool * bool * bool * bool

val byte_of_ascii : ascii -> byte

module Z :
 sig
  val eqb : z -> z -> bool

  val abs_N : z -> n

  val of_N : n -> z
 end

type string =
| EmptyString
| String of ascii * string

val list_ascii_of_string : string -> ascii list

val list_byte_of_string : string -> byte list

type bytes = n list

val bs : string -> bytes

val beqb : bytes -> bytes -> bool

val memb : n -> bytes -> bool

val mem_bytes : bytes -> bytes list -> bool

val cut : n -> bytes -> bytes * bytes option

val strip_prefix : bytes -> bytes -> bytes option

val take : nat -> n list -> n list

val drop : nat -> n list -> n list

val uint_bytes : uint -> bytes

val is_digit : n -> bool

val mkD : n -> uint -> uint

val bytes_uint : bytes -> uint option

val dec_N : n -> bytes

val parse_dec_N : bytes -> n option

val dec_Z : z -> bytes

val parse_dec_Z : bytes -> z option

val hexdigit : n -> n

val hex_byte : n -> bytes

val hexlify : bytes -> bytes

val is_lower_hex : n -> bool

val unhexdigit : n -> n option

val unhex : bytes -> bytes option

type text = n list

val rEPL : n

val is_surrogate : n -> bool

val is_scalar : n -> bool

val enc_cp : n -> bytes option

val utf8_encode : text -> bytes option

val is_cont : n -> bool

val ok2_of3 : n -> n -> bool

val ok2_of4 : n -> n -> bool

val cp2 : n -> n -> n

val cp3 : n -> n -> n -> n

val cp4 : n -> n -> n -> n -> n

val utf8_decode_replace : bytes -> text

val always_safe : n -> bool

val hexdigit_upper : n -> n

val pct_byte : n -> bytes

val quote_byte : n -> text

val quote_from_bytes : bytes -> text

val quote_text : text -> text option

val hexval : n -> n option

val unquote_bytes : bytes -> bytes

val unquote_to_bytes : text -> bytes option

val flush_run : bytes -> text

val unquote_runs : bytes -> text -> text

val unquote : text -> text

val sWHID_NAMESPACE : n list

val sWHID_VERSION : z

val eXTENDED_SWHID_TYPES : n list list

val sWHID_QUALIFIERS : n list list

val oBJECT_TYPES : (n list * n list) list

val eXTENDED_OBJECT_TYPES : (n list * n list) list

val qUALIFIER_PRINT_ORDER : n list list

type err =
| EValidation
| EValue
| EType
| EAssertion

type 'a result =
| Ok of 'a
| Err of err

val bind : 'a1 result -> ('a1 -> 'a2 result) -> 'a2 result

val value_error_to_validation : 'a1 result -> 'a1 result

val is_nil : 'a1 list -> bool

val wS_TABLE : n list

val is_space : n -> bool

val split_on : n -> text -> text list

val replace_char : n -> text -> text -> text

val span : (n -> bool) -> text -> text * text

val first_some : ('a1 -> 'a2 option) -> 'a1 list -> 'a2 option

type dict = (text * text) list

val dict_get : text -> dict -> text option

val over_limit : n -> nat -> bool

val str_int : n -> z -> text result

val int_of_digits : n -> text -> z result

type core = { c_ty : text; c_oid : bytes }

type qualified = { q_ty : text; q_oid : bytes; q_origin : text option;
                   q_visit : core option; q_anchor : core option;
                   q_path : bytes option; q_lines : (z * z option) option }

val core_of : qualified -> core

val enum_values : (n list * n list) list -> text list

val enum_member : n list -> text

val tY_SNAPSHOT : text

val tY_DIRECTORY : text

val tY_REVISION : text

val tY_RELEASE : text

val aNCHOR_TYPES : text list

val mk_simple : text list -> text -> bytes -> core result

val mk_core : text -> bytes -> core result

val mk_ext : text -> bytes -> core result

val mk_q :
  text -> bytes -> text option -> core option -> core option -> bytes option
  -> (z * z option) option -> qualified result

val to_extended : core -> core result

val to_qualified : core -> qualified result

val k_origin : bytes

val k_visit : bytes

val k_anchor : bytes

val k_path : bytes

val k_lines : bytes

val fIELD_KEYS : text list

val print_core : core -> text

val quote_spaces : text -> text option

val esc_origin : text -> text option

val print_origin : (text -> text option) -> text -> text result

val print_lines : n -> (z * z option) -> text result

val qual_value :
  (text -> text option) -> n -> qualified -> text -> text option result

val print_quals :
  (text -> text option) -> n -> qualified -> text list -> text result

val print_q_gen : (text -> text option) -> n -> qualified -> text result

val print_q : n -> qualified -> text result

val re_head : text

val match_after_type : text -> text -> ((text * text) * text option) option

val match_swhid_re : text -> ((text * text) * text option) option

val parse_quals : text list -> dict result

val parse_swhid : text -> ((text * bytes) * dict) result

val parse_simple : text list -> text -> core result

val parse_core : text -> core result

val parse_ext : text -> core result

val lines_re_match : text -> bool

val parse_lines : n -> text -> (z * z option) result

val opt_conv : (text -> 'a1 result) -> text option -> 'a1 option result

val parse_path : text -> bytes result

val construct_q :
  (n -> text -> (z * z option) result) -> n -> text -> bytes -> dict ->
  qualified result

val unquote_origin : dict -> dict

val parse_q_gen :
  (n -> text -> (z * z option) result) -> n -> text -> qualified result

val parse_q : n -> text -> qualified result

val dOC_CORE_TYPES : text list

val dOC_EXT_TYPES : text list

val dOC_VISIT_TYPES : text list

val dOC_ANCHOR_TYPES : text list

val dOC_KEYS : text list

val lang_head : text list -> text -> text option

val lang_id : text list -> text -> bool

val lang_core : text -> bool

val lang_ext : text -> bool

val digits1 : text -> bool

val lang_lines : text -> bool

val item_kv : text -> (text * text) option

val effective : text -> text list -> text option

val opt_ok : (text -> bool) -> text option -> bool

val lang_q : text -> bool
