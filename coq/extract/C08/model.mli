
val negb : bool -> bool

type nat =
| O
| S of nat

val option_map : ('a1 -> 'a2) -> 'a1 option -> 'a2 option

val fst : ('a1 * 'a2) -> 'a1

val snd : ('a1 * 'a2) -> 'a2

val length : 'a1 list -> nat

val app : 'a1 list -> 'a1 list -> 'a1 list

type comparison =
| Eq
| Lt
| Gt

type uint =
| Nil
| D0 of uint
| D1 of uint
| D2 of uint
| D3 of uint
| D4 of uint
| D5 of uint
| D6 of uint
| D7 of uint
| D8 of uint
| D9 of uint

val revapp : uint -> uint -> uint

val rev : uint -> uint

module Little :
 sig
  val double : uint -> uint

  val succ_double : uint -> uint
 end

module Nat :
 sig
  val eqb : nat -> nat -> bool
 end

val last : 'a1 list -> 'a1 -> 'a1

val rev0 : 'a1 list -> 'a1 list

val map : ('a1 -> 'a2) -> 'a1 list -> 'a2 list

val flat_map : ('a1 -> 'a2 list) -> 'a1 list -> 'a2 list

val fold_left : ('a1 -> 'a2 -> 'a1) -> 'a2 list -> 'a1 -> 'a1

val existsb : ('a1 -> bool) -> 'a1 list -> bool

val forallb : ('a1 -> bool) -> 'a1 list -> bool

val filter : ('a1 -> bool) -> 'a1 list -> 'a1 list

val find : ('a1 -> bool) -> 'a1 list -> 'a1 option

val firstn : nat -> 'a1 list -> 'a1 list

val skipn : nat -> 'a1 list -> 'a1 list

type positive =
| XI of positive
| XO of positive
| XH

type n =
| N0
| Npos of positive

type z =
| Z0
| Zpos of positive
| Zneg of positive

module Pos :
 sig
  type mask =
  | IsNul
  | IsPos of positive
  | IsNeg
 end

module Coq_Pos :
 sig
  val succ : positive -> positive

  val add : positive -> positive -> positive

  val add_carry : positive -> positive -> positive

  val pred_double : positive -> positive

  type mask = Pos.mask =
  | IsNul
  | IsPos of positive
  | IsNeg

  val succ_double_mask : mask -> mask

  val double_mask : mask -> mask

  val double_pred_mask : positive -> mask

  val sub_mask : positive -> positive -> mask

  val sub_mask_carry : positive -> positive -> mask

  val mul : positive -> positive -> positive

  val compare_cont : comparison -> positive -> positive -> comparison

  val compare : positive -> positive -> comparison

  val eqb : positive -> positive -> bool

  val of_succ_nat : nat -> positive

  val of_uint_acc : uint -> positive -> positive

  val of_uint : uint -> n

  val to_little_uint : positive -> uint

  val to_uint : positive -> uint
 end

module N :
 sig
  val succ_double : n -> n

  val double : n -> n

  val add : n -> n -> n

  val sub : n -> n -> n

  val mul : n -> n -> n

  val compare : n -> n -> comparison

  val eqb : n -> n -> bool

  val leb : n -> n -> bool

  val ltb : n -> n -> bool

  val pos_div_eucl : positive -> n -> n * n

  val div_eucl : n -> n -> n * n

  val div : n -> n -> n

  val modulo : n -> n -> n

  val of_nat : nat -> n

  val of_uint : uint -> n

  val to_uint : n -> uint
 end

module Z :
 sig
  val eqb : z -> z -> bool

  val abs_N : z -> n

  val of_N : n -> z
 end

type bytes = n list

val beqb : bytes -> bytes -> bool

val memb : n -> bytes -> bool

val mem_bytes : bytes -> bytes list -> bool

val cut : n -> bytes -> bytes * bytes option

val strip_prefix : bytes -> bytes -> bytes option

val take : nat -> n list -> n list

val drop : nat -> n list -> n list

val uint_bytes : uint -> bytes

val is_digit : n -> bool

val mkD : n -> uint -> uint

val bytes_uint : bytes -> uint option

val dec_N : n -> bytes

val parse_dec_N : bytes -> n option

val dec_Z : z -> bytes

val parse_dec_Z : bytes -> z option

val hexdigit : n -> n

val hex_byte : n -> bytes

val hexlify : bytes -> bytes

val is_lower_hex : n -> bool

val unhexdigit : n -> n option

val unhex : bytes -> bytes option

type text = n list

val rEPL : n

val is_surrogate : n -> bool

val is_scalar : n -> bool

val enc_cp : n -> bytes option

val utf8_encode : text -> bytes option

val is_cont : n -> bool

val ok2_of3 : n -> n -> bool

val ok2_of4 : n -> n -> bool

val cp2 : n -> n -> n

val cp3 : n -> n -> n -> n

val cp4 : n -> n -> n -> n -> n

val utf8_decode_replace : bytes -> text

val always_safe : n -> bool

val hexdigit_upper : n -> n

val pct_byte : n -> bytes

val quote_byte : n -> text

val quote_from_bytes : bytes -> text

val quote_text : text -> text option

val hexval : n -> n option

val unquote_bytes : bytes -> bytes

val unquote_to_bytes : text -> bytes option

val flush_run : bytes -> text

val unquote_runs : bytes -> text -> text

val unquote : text -> text

val sWHID_NAMESPACE : n list

val sWHID_VERSION : z

val eXTENDED_SWHID_TYPES : n list list

val sWHID_QUALIFIERS : n list list

val oBJECT_TYPES : (n list * n list) list

val eXTENDED_OBJECT_TYPES : (n list * n list) list

val qUALIFIER_PRINT_ORDER : n list list

type err =
| EValidation
| EValue
| EType
| EAssertion

type 'a result =
| Ok of 'a
| Err of err

val bind : 'a1 result -> ('a1 -> 'a2 result) -> 'a2 result

val value_error_to_validation : 'a1 result -> 'a1 result

val is_nil : 'a1 list -> bool

val s_SNAPSHOT : text

val s_DIRECTORY : text

val s_REVISION : text

val s_RELEASE : text

val s_pct3B : text

val s_pct25 : text

val s_swh1 : text

val s_colon : text

val s_visit : text

val s_anchor : text

val s_lines : text

val s_path : text

val s_snp : text

val s_rel : text

val s_rev : text

val s_dir : text

val s_cnt : text

val s_ori : text

val s_emd : text

val s_origin : text

val wS_TABLE : n list

val is_space : n -> bool

val split_on : n -> text -> text list

val replace_char : n -> text -> text -> text

val span : (n -> bool) -> text -> text * text

val first_some : ('a1 -> 'a2 option) -> 'a1 list -> 'a2 option

type dict = (text * text) list

val dict_get : text -> dict -> text option

val over_limit : n -> nat -> bool

val str_int : n -> z -> text result

val int_of_digits : n -> text -> z result

type core = { c_ty : text; c_oid : bytes }

type qualified = { q_ty : text; q_oid : bytes; q_origin : text option;
                   q_visit : core option; q_anchor : core option;
                   q_path : bytes option; q_lines : (z * z option) option }

val core_of : qualified -> core

val enum_values : (n list * n list) list -> text list

val enum_member : n list -> text

val tY_SNAPSHOT : text

val tY_DIRECTORY : text

val tY_REVISION : text

val tY_RELEASE : text

val aNCHOR_TYPES : text list

val mk_simple : text list -> text -> bytes -> core result

val mk_core : text -> bytes -> core result

val mk_ext : text -> bytes -> core result

val mk_q :
  text -> bytes -> text option -> core option -> core option -> bytes option
  -> (z * z option) option -> qualified result

val to_extended : core -> core result

val to_qualified : core -> qualified result

val k_origin : text

val k_visit : text

val k_anchor : text

val k_path : text

val k_lines : text

val fIELD_KEYS : text list

val print_core : core -> text

val quote_spaces : text -> text option

val esc_origin : text -> text option

val print_origin : (text -> text option) -> text -> text result

val print_lines : n -> (z * z option) -> text result

val qual_value :
  (text -> text option) -> n -> qualified -> text -> text option result

val print_quals :
  (text -> text option) -> n -> qualified -> text list -> text result

val print_q_gen : (text -> text option) -> n -> qualified -> text result

val print_q : n -> qualified -> text result

val re_head : text

val match_after_type : text -> text -> ((text * text) * text option) option

val match_swhid_re : text -> ((text * text) * text option) option

val parse_quals : text list -> dict result

val parse_swhid : text -> ((text * bytes) * dict) result

val parse_simple : text list -> text -> core result

val parse_core : text -> core result

val parse_ext : text -> core result

val lines_re_match : text -> bool

val parse_lines : n -> text -> (z * z option) result

val opt_conv : (text -> 'a1 result) -> text option -> 'a1 option result

val parse_path : text -> bytes result

val construct_q :
  (n -> text -> (z * z option) result) -> n -> text -> bytes -> dict ->
  qualified result

val unquote_origin : dict -> dict

val parse_q_gen :
  (n -> text -> (z * z option) result) -> n -> text -> qualified result

val parse_q : n -> text -> qualified result

val dOC_CORE_TYPES : text list

val dOC_EXT_TYPES : text list

val dOC_VISIT_TYPES : text list

val dOC_ANCHOR_TYPES : text list

val dOC_KEYS : text list

val lang_head : text list -> text -> text option

val lang_id : text list -> text -> bool

val lang_core : text -> bool

val lang_ext : text -> bool

val digits1 : text -> bool

val lang_lines : text -> bool

val item_kv : text -> (text * text) option

val effective : text -> text list -> text option

val opt_ok : (text -> bool) -> text option -> bool

val lang_q : text -> bool
