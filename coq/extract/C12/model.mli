
val negb : bool -> bool

type nat =
| O
| S of nat

val option_map : ('a1 -> 'a2) -> 'a1 option -> 'a2 option

val fst : ('a1 * 'a2) -> 'a1

val snd : ('a1 * 'a2) -> 'a2

val length : 'a1 list -> nat

val app : 'a1 list -> 'a1 list -> 'a1 list

type comparison =
| Eq
| Lt
| Gt

val compOpp : comparison -> comparison

type uint =
| Nil
| D0 of uint
| D1 of uint
| D2 of uint
| D3 of uint
| D4 of uint
| D5 of uint
| D6 of uint
| D7 of uint
| D8 of uint
| D9 of uint

val revapp : uint -> uint -> uint

val rev : uint -> uint

module Little :
 sig
  val double : uint -> uint

  val succ_double : uint -> uint
 end

val sub : nat -> nat -> nat

module Nat :
 sig
  val eqb : nat -> nat -> bool

  val leb : nat -> nat -> bool
 end

val map : ('a1 -> 'a2) -> 'a1 list -> 'a2 list

val flat_map : ('a1 -> 'a2 list) -> 'a1 list -> 'a2 list

val fold_left : ('a1 -> 'a2 -> 'a1) -> 'a2 list -> 'a1 -> 'a1

val fold_right : ('a2 -> 'a1 -> 'a1) -> 'a1 -> 'a2 list -> 'a1

val existsb : ('a1 -> bool) -> 'a1 list -> bool

val forallb : ('a1 -> bool) -> 'a1 list -> bool

val filter : ('a1 -> bool) -> 'a1 list -> 'a1 list

val firstn : nat -> 'a1 list -> 'a1 list

val skipn : nat -> 'a1 list -> 'a1 list

val repeat : 'a1 -> nat -> 'a1 list

type positive =
| XI of positive
| XO of positive
| XH

type n =
| N0
| Npos of positive

type z =
| Z0
| Zpos of positive
| Zneg of positive

module Pos :
 sig
  type mask =
  | IsNul
  | IsPos of positive
  | IsNeg
 end

module Coq_Pos :
 sig
  val succ : positive -> positive

  val add : positive -> positive -> positive

  val add_carry : positive -> positive -> positive

  val pred_double : positive -> positive

  type mask = Pos.mask =
  | IsNul
  | IsPos of positive
  | IsNeg

  val succ_double_mask : mask -> mask

  val double_mask : mask -> mask

  val double_pred_mask : positive -> mask

  val sub_mask : positive -> positive -> mask

  val sub_mask_carry : positive -> positive -> mask

  val mul : positive -> positive -> positive

  val compare_cont : comparison -> positive -> positive -> comparison

  val compare : positive -> positive -> comparison

  val eqb : positive -> positive -> bool

  val of_uint_acc : uint -> positive -> positive

  val of_uint : uint -> n

  val to_little_uint : positive -> uint

  val to_uint : positive -> uint
 end

module N :
 sig
  val succ_double : n -> n

  val double : n -> n

  val add : n -> n -> n

  val sub : n -> n -> n

  val mul : n -> n -> n

  val compare : n -> n -> comparison

  val eqb : n -> n -> bool

  val leb : n -> n -> bool

  val ltb : n -> n -> bool

  val pos_div_eucl : positive -> n -> n * n

  val div_eucl : n -> n -> n * n

  val div : n -> n -> n

  val modulo : n -> n -> n

  val of_uint : uint -> n

  val to_uint : n -> uint
 end

module Z :
 sig
  val double : z -> z

  val succ_double : z -> z

  val pred_double : z -> z

  val pos_sub : positive -> positive -> z

  val add : z -> z -> z

  val opp : z -> z

  val sub : z -> z -> z

  val mul : z -> z -> z

  val compare : z -> z -> comparison

  val leb : z -> z -> bool

  val ltb : z -> z -> bool

  val eqb : z -> z -> bool

  val abs : z -> z

  val to_N : z -> n

  val of_N : n -> z

  val pos_div_eucl : positive -> z -> z * z

  val div_eucl : z -> z -> z * z

  val div : z -> z -> z

  val modulo : z -> z -> z

  val quotrem : z -> z -> z * z

  val quot : z -> z -> z
 end

type bytes = n list

val beqb : bytes -> bytes -> bool

val memb : n -> bytes -> bool

val mem_bytes : bytes -> bytes list -> bool

val cut : n -> bytes -> bytes * bytes option

val strip_prefix : bytes -> bytes -> bytes option

val uint_bytes : uint -> bytes

val is_digit : n -> bool

val mkD : n -> uint -> uint

val bytes_uint : bytes -> uint option

val dec_N : n -> bytes

val parse_dec_N : bytes -> n option

val parse_dec_Z : bytes -> z option

val dec_pad : nat -> n -> bytes

val hexdigit : n -> n

val hex_byte : n -> bytes

val hexlify : bytes -> bytes

val is_lower_hex : n -> bool

val unhexdigit : n -> n option

val unhex : bytes -> bytes option

val rELEASE_TARGET_TO_GIT : (n list * n list) list

val sNAPSHOT_TARGET_TYPES : n list list

val tS_MIN_SECONDS : z

val tS_MAX_SECONDS : z

val tS_MIN_MICROSECONDS : z

val tS_MAX_MICROSECONDS : z

val sWHID_NAMESPACE : n list

val sWHID_TYPES : n list list

val eXTENDED_SWHID_TYPES : n list list

val sWHID_SEP : n list

type text = n list

type cls =
| CPerson
| CTimestamp
| CTimestampWithTimezone
| COrigin
| COriginVisit
| COriginVisitStatus
| CSnapshotBranch
| CSnapshot
| CRelease
| CRevision
| CDirectoryEntry
| CDirectory
| CContent
| CSkippedContent
| CMetadataAuthority
| CMetadataFetcher
| CRawExtrinsicMetadata
| CExtID

val all_classes : cls list

type enum_ty =
| ESnapshotTarget
| EReleaseTarget
| ERevisionType
| EAuthorityType

type swhid_kind =
| Core
| Extended

type pyval =
| VNone
| VBool of bool
| VInt of z
| VBytes of bytes
| VStr of text
| VDate of z * z
| VTuple of pyval list
| VList of pyval list
| VDict of (pyval * pyval) list
| VIDict of (pyval * pyval) list
| VEnum of enum_ty * text
| VSwhid of swhid_kind * text * bytes
| VObj of cls * (text * pyval) list

type dict = (pyval * pyval) list

type fields = (text * pyval) list

type err =
| TypeError
| ValueError
| KeyError
| AssertionError
| ValidationError
| AttributeError

type 'a result =
| Ok of 'a
| Err of err

val rbind : 'a1 result -> ('a1 -> 'a2 result) -> 'a2 result

val rmap : ('a1 -> 'a2 result) -> 'a1 list -> 'a2 list result

val k_fullname : text

val k_name : text

val k_email : text

val k_seconds : text

val k_microseconds : text

val k_timestamp : text

val k_offset_bytes : text

val k_offset : text

val k_negative_utc : text

val k_url : text

val k_id : text

val k_origin : text

val k_date : text

val k_type : text

val k_visit : text

val k_status : text

val k_snapshot : text

val k_metadata : text

val k_target : text

val k_target_type : text

val k_branches : text

val k_message : text

val k_synthetic : text

val k_author : text

val k_raw_manifest : text

val k_committer : text

val k_committer_date : text

val k_directory : text

val k_parents : text

val k_extra_headers : text

val k_perms : text

val k_entries : text

val k_sha1 : text

val k_sha1_git : text

val k_sha256 : text

val k_blake2s256 : text

val k_length : text

val k_data : text

val k_get_data : text

val k_ctime : text

val k_reason : text

val k_version : text

val k_discovery_date : text

val k_authority : text

val k_fetcher : text

val k_format : text

val k_release : text

val k_revision : text

val k_path : text

val k_extid_type : text

val k_extid : text

val k_extid_version : text

val k_payload_type : text

val k_payload : text

val s_visible : text

val s_hidden : text

val s_absent : text

val s_alias : text

val s_origin : text

val s_file : text

val s_dir : text

val s_rev : text

val s_swh_colon : text

val t_snp : text

val t_rel : text

val t_rev : text

val t_dir : text

val t_cnt : text

val t_ori : text

val visit_statuses : text list

val revision_types : text list

val authority_types : text list

val members : enum_ty -> text list

val swhid_tags : swhid_kind -> text list

val is_key : text -> pyval -> bool

val dget : text -> dict -> pyval option

val ddel : text -> dict -> dict

val dset : text -> pyval -> dict -> dict

val fget : text -> fields -> pyval

val fset : text -> pyval -> fields -> fields

val fdel : text -> fields -> fields

val as_kwargs : fields -> dict

val is_none : pyval -> bool

val truthy : pyval -> bool

type ty =
| TBytes
| TStr
| TInt
| TBool
| TDate
| TAny
| TObject
| TOpt of ty
| TTupleOf of ty
| TPairBytes
| TObj of cls
| TEnum of enum_ty
| TIDict of ty * ty
| TSwhid of swhid_kind
| TCallable

type conv =
| CNone
| CFreeze
| CTuplifyHeaders
| CInt
| CDiscoveryDate

type field = { fname : text; fty : ty; fdefault : pyval option; fconv : 
               conv; fgeneric : bool; felide : bool }

val fld : text -> ty -> field

val fldc : text -> ty -> field

val opt : text -> ty -> pyval -> field

val md_ty : ty

val md_any : ty

val schema : cls -> field list

val elided : cls -> text list

val hashable : cls -> bool

val has_type : ty -> pyval -> bool

val utf8_len : text -> n

val has_surrogate : text -> bool

val starts_with : text -> text -> bool

val exact_int : pyval -> bool

val int_of : pyval -> z

val str_in : text list -> pyval -> bool

val is_date_or_none : pyval -> bool

val swhid_tag : pyval -> text

val entry_name : pyval -> pyval

val bytes_nodup : bytes list -> bool

val name_bytes : pyval -> bytes

val custom : cls -> fields -> bool

val pair_of : pyval -> pyval result

val tuplify_extra_headers : pyval -> pyval result

val apply_conv : conv -> pyval -> pyval result

val keys_known : field list -> dict -> bool

val bind_field : dict -> field -> (text * pyval) result

val bind_args : field list -> dict -> fields result

val convert : field list -> fields -> fields result

val typecheck : field list -> fields -> bool

val validate : cls -> fields -> bool

val fill_id :
  (cls -> fields -> bytes result) -> cls -> fields -> fields result

val migrate_extra_headers : fields -> fields result

val post_init :
  (cls -> fields -> bytes result) -> cls -> fields -> fields result

val construct : (cls -> fields -> bytes result) -> cls -> dict -> pyval result

val elide : text list -> dict -> dict

val dictify : (swhid_kind -> text -> bytes -> text) -> pyval -> pyval

val to_dict : (swhid_kind -> text -> bytes -> text) -> pyval -> pyval

type dvar = { cur : dict; caller : dict; aliased : bool }

val dv_init : dict -> dvar

type 'a m = dvar -> 'a result * dvar

val ret : 'a1 -> 'a1 m

val fail : err -> 'a1 m

val lift : 'a1 result -> 'a1 m

val bind : 'a1 m -> ('a1 -> 'a2 m) -> 'a2 m

val copy : unit m

val get_opt : text -> pyval option m

val get_req : text -> pyval m

val setk : text -> pyval -> unit m

val pop_req : text -> pyval m

val pop_opt : text -> pyval option m

val construct_d : (cls -> fields -> bytes result) -> cls -> pyval m

val construct_with : (cls -> fields -> bytes result) -> cls -> dict -> pyval m

val run : 'a1 m -> dict -> 'a1 result * dict

val enum_of : enum_ty -> pyval -> pyval result

val swhid_of :
  (swhid_kind -> text -> (text * bytes) result) -> swhid_kind -> pyval ->
  pyval result

val iter_values : pyval -> pyval list result

val kw1 : text -> pyval -> pyval * pyval

val on_dict : err -> pyval -> 'a1 m -> 'a1 result * pyval

val fd_generic :
  (cls -> fields -> bytes result) -> cls -> pyval -> pyval result * pyval

val bytes_of : pyval -> bytes result

val fd_Person :
  (cls -> fields -> bytes result) -> pyval -> pyval result * pyval

val mk_timestamp :
  (cls -> fields -> bytes result) -> pyval -> pyval -> pyval result

val fmt_offset : z -> bool -> bytes

val parse_offset_bytes : bytes -> z result

val from_numeric_offset :
  (cls -> fields -> bytes result) -> pyval -> pyval -> bool -> pyval result

val fd_TimestampWithTimezone :
  (cls -> fields -> bytes result) -> pyval -> pyval result * pyval

val fd_SnapshotBranch :
  (cls -> fields -> bytes result) -> pyval -> pyval result * pyval

val items_of : pyval -> dict result

val fd_Snapshot :
  (cls -> fields -> bytes result) -> pyval -> pyval result * pyval

val decode_if_truthy : text -> (pyval -> pyval result * pyval) -> unit m

val fd_Release :
  (cls -> fields -> bytes result) -> pyval -> pyval result * pyval

val pop_decode : text -> (pyval -> pyval result * pyval) -> pyval m

val fd_Revision :
  (cls -> fields -> bytes result) -> pyval -> pyval result * pyval

val fd_Directory :
  (cls -> fields -> bytes result) -> pyval -> pyval result * pyval

val fd_Content :
  (cls -> fields -> bytes result) -> (text -> pyval result) -> pyval -> pyval
  result * pyval

val fd_SkippedContent :
  (cls -> fields -> bytes result) -> pyval -> pyval result * pyval

val fd_BaseContent :
  (cls -> fields -> bytes result) -> (text -> pyval result) -> pyval -> pyval
  result * pyval

val fd_MetadataAuthority :
  (cls -> fields -> bytes result) -> pyval -> pyval result * pyval

val origin_swhid_str :
  (cls -> fields -> bytes result) -> (swhid_kind -> text -> bytes -> text) ->
  pyval -> pyval result

val decode_swhid_if_truthy :
  (swhid_kind -> text -> (text * bytes) result) -> text -> unit m

val rem_tail :
  (cls -> fields -> bytes result) -> (swhid_kind -> text -> (text * bytes)
  result) -> pyval m

val rem_legacy :
  (cls -> fields -> bytes result) -> (swhid_kind -> text -> bytes -> text) ->
  bool -> unit m

val fd_RawExtrinsicMetadata :
  (cls -> fields -> bytes result) -> (swhid_kind -> text -> bytes -> text) ->
  (swhid_kind -> text -> (text * bytes) result) -> pyval -> pyval
  result * pyval

val fd_RawExtrinsicMetadata_old :
  (cls -> fields -> bytes result) -> (swhid_kind -> text -> bytes -> text) ->
  (swhid_kind -> text -> (text * bytes) result) -> pyval -> pyval
  result * pyval

val get_default : text -> pyval -> pyval m

val extid_prog :
  (cls -> fields -> bytes result) -> (swhid_kind -> text -> (text * bytes)
  result) -> bool -> pyval m

val fd_ExtID :
  (cls -> fields -> bytes result) -> (swhid_kind -> text -> (text * bytes)
  result) -> pyval -> pyval result * pyval

val fd_ExtID_old :
  (cls -> fields -> bytes result) -> (swhid_kind -> text -> (text * bytes)
  result) -> pyval -> pyval result * pyval

val from_dict :
  (cls -> fields -> bytes result) -> (swhid_kind -> text -> bytes -> text) ->
  (swhid_kind -> text -> (text * bytes) result) -> (text -> pyval result) ->
  cls -> pyval -> pyval result * pyval

val from_dict_old :
  (cls -> fields -> bytes result) -> (swhid_kind -> text -> bytes -> text) ->
  (swhid_kind -> text -> (text * bytes) result) -> (text -> pyval result) ->
  cls -> pyval -> pyval result * pyval

val swhid_str_c : swhid_kind -> text -> bytes -> text

val swhid_parse_c : swhid_kind -> text -> (text * bytes) result

val dateparse_none : text -> pyval result

val construct_x : bytes result -> bytes result -> cls -> dict -> pyval result

val to_dict_x : pyval -> pyval

val from_dict_x :
  bytes result -> bytes result -> cls -> pyval -> pyval result * pyval

val from_dict_old_x :
  bytes result -> bytes result -> cls -> pyval -> pyval result * pyval

val fd_BaseContent_x : bytes result -> pyval -> pyval result * pyval
