
(** val negb : bool -> bool **)

let negb = function
| true -> false
| false -> true

type nat =
| O
| S of nat

(** val option_map : ('a1 -> 'a2) -> 'a1 option -> 'a2 option **)

let option_map f = function
| Some a -> Some (f a)
| None -> None

(** val fst : ('a1 * 'a2) -> 'a1 **)

let fst = function
| (x, _) -> x

(** val snd : ('a1 * 'a2) -> 'a2 **)

let snd = function
| (_, y) -> y

(** val length : 'a1 list -> nat **)

let rec length = function
| [] -> O
| _ :: l' -> S (length l')

(** val app : 'a1 list -> 'a1 list -> 'a1 list **)

let rec app l m0 =
  match l with
  | [] -> m0
  | a :: l1 -> a :: (app l1 m0)

type comparison =
| Eq
| Lt
| Gt

(** val compOpp : comparison -> comparison **)

let compOpp = function
| Eq -> Eq
| Lt -> Gt
| Gt -> Lt

type uint =
| Nil
| D0 of uint
| D1 of uint
| D2 of uint
| D3 of uint
| D4 of uint
| D5 of uint
| D6 of uint
| D7 of uint
| D8 of uint
| D9 of uint

(** val revapp : uint -> uint -> uint **)

let rec revapp d d' =
  match d with
  | Nil -> d'
  | D0 d0 -> revapp d0 (D0 d')
  | D1 d0 -> revapp d0 (D1 d')
  | D2 d0 -> revapp d0 (D2 d')
  | D3 d0 -> revapp d0 (D3 d')
  | D4 d0 -> revapp d0 (D4 d')
  | D5 d0 -> revapp d0 (D5 d')
  | D6 d0 -> revapp d0 (D6 d')
  | D7 d0 -> revapp d0 (D7 d')
  | D8 d0 -> revapp d0 (D8 d')
  | D9 d0 -> revapp d0 (D9 d')

(** val rev : uint -> uint **)

let rev d =
  revapp d Nil

module Little =
 struct
  (** val double : uint -> uint **)

  let rec double = function
  | Nil -> Nil
  | D0 d0 -> D0 (double d0)
  | D1 d0 -> D2 (double d0)
  | D2 d0 -> D4 (double d0)
  | D3 d0 -> D6 (double d0)
  | D4 d0 -> D8 (double d0)
  | D5 d0 -> D0 (succ_double d0)
  | D6 d0 -> D2 (succ_double d0)
  | D7 d0 -> D4 (succ_double d0)
  | D8 d0 -> D6 (succ_double d0)
  | D9 d0 -> D8 (succ_double d0)

  (** val succ_double : uint -> uint **)

  and succ_double = function
  | Nil -> D1 Nil
  | D0 d0 -> D1 (double d0)
  | D1 d0 -> D3 (double d0)
  | D2 d0 -> D5 (double d0)
  | D3 d0 -> D7 (double d0)
  | D4 d0 -> D9 (double d0)
  | D5 d0 -> D1 (succ_double d0)
  | D6 d0 -> D3 (succ_double d0)
  | D7 d0 -> D5 (succ_double d0)
  | D8 d0 -> D7 (succ_double d0)
  | D9 d0 -> D9 (succ_double d0)
 end

(** val sub : nat -> nat -> nat **)

let rec sub n0 m0 =
  match n0 with
  | O -> n0
  | S k -> (match m0 with
            | O -> n0
            | S l -> sub k l)

module Nat =
 struct
  (** val eqb : nat -> nat -> bool **)

  let rec eqb n0 m0 =
    match n0 with
    | O -> (match m0 with
            | O -> true
            | S _ -> false)
    | S n' -> (match m0 with
               | O -> false
               | S m' -> eqb n' m')

  (** val leb : nat -> nat -> bool **)

  let rec leb n0 m0 =
    match n0 with
    | O -> true
    | S n' -> (match m0 with
               | O -> false
               | S m' -> leb n' m')
 end

(** val map : ('a1 -> 'a2) -> 'a1 list -> 'a2 list **)

let rec map f = function
| [] -> []
| a :: t -> (f a) :: (map f t)

(** val flat_map : ('a1 -> 'a2 list) -> 'a1 list -> 'a2 list **)

let rec flat_map f = function
| [] -> []
| x :: t -> app (f x) (flat_map f t)

(** val fold_left : ('a1 -> 'a2 -> 'a1) -> 'a2 list -> 'a1 -> 'a1 **)

let rec fold_left f l a0 =
  match l with
  | [] -> a0
  | b :: t -> fold_left f t (f a0 b)

(** val fold_right : ('a2 -> 'a1 -> 'a1) -> 'a1 -> 'a2 list -> 'a1 **)

let rec fold_right f a0 = function
| [] -> a0
| b :: t -> f b (fold_right f a0 t)

(** val existsb : ('a1 -> bool) -> 'a1 list -> bool **)

let rec existsb f = function
| [] -> false
| a :: l0 -> (||) (f a) (existsb f l0)

(** val forallb : ('a1 -> bool) -> 'a1 list -> bool **)

let rec forallb f = function
| [] -> true
| a :: l0 -> (&&) (f a) (forallb f l0)

(** val filter : ('a1 -> bool) -> 'a1 list -> 'a1 list **)

let rec filter f = function
| [] -> []
| x :: l0 -> if f x then x :: (filter f l0) else filter f l0

(** val firstn : nat -> 'a1 list -> 'a1 list **)

let rec firstn n0 l =
  match n0 with
  | O -> []
  | S n1 -> (match l with
             | [] -> []
             | a :: l0 -> a :: (firstn n1 l0))

(** val skipn : nat -> 'a1 list -> 'a1 list **)

let rec skipn n0 l =
  match n0 with
  | O -> l
  | S n1 -> (match l with
             | [] -> []
             | _ :: l0 -> skipn n1 l0)

(** val repeat : 'a1 -> nat -> 'a1 list **)

let rec repeat x = function
| O -> []
| S k -> x :: (repeat x k)

type positive =
| XI of positive
| XO of positive
| XH

type n =
| N0
| Npos of positive

type z =
| Z0
| Zpos of positive
| Zneg of positive

module Pos =
 struct
  type mask =
  | IsNul
  | IsPos of positive
  | IsNeg
 end

module Coq_Pos =
 struct
  (** val succ : positive -> positive **)

  let rec succ = function
  | XI p -> XO (succ p)
  | XO p -> XI p
  | XH -> XO XH

  (** val add : positive -> positive -> positive **)

  let rec add x y =
    match x with
    | XI p ->
      (match y with
       | XI q -> XO (add_carry p q)
       | XO q -> XI (add p q)
       | XH -> XO (succ p))
    | XO p ->
      (match y with
       | XI q -> XI (add p q)
       | XO q -> XO (add p q)
       | XH -> XI p)
    | XH -> (match y with
             | XI q -> XO (succ q)
             | XO q -> XI q
             | XH -> XO XH)

  (** val add_carry : positive -> positive -> positive **)

  and add_carry x y =
    match x with
    | XI p ->
      (match y with
       | XI q -> XI (add_carry p q)
       | XO q -> XO (add_carry p q)
       | XH -> XI (succ p))
    | XO p ->
      (match y with
       | XI q -> XO (add_carry p q)
       | XO q -> XI (add p q)
       | XH -> XO (succ p))
    | XH ->
      (match y with
       | XI q -> XI (succ q)
       | XO q -> XO (succ q)
       | XH -> XI XH)

  (** val pred_double : positive -> positive **)

  let rec pred_double = function
  | XI p -> XI (XO p)
  | XO p -> XI (pred_double p)
  | XH -> XH

  type mask = Pos.mask =
  | IsNul
  | IsPos of positive
  | IsNeg

  (** val succ_double_mask : mask -> mask **)

  let succ_double_mask = function
  | IsNul -> IsPos XH
  | IsPos p -> IsPos (XI p)
  | IsNeg -> IsNeg

  (** val double_mask : mask -> mask **)

  let double_mask = function
  | IsPos p -> IsPos (XO p)
  | x0 -> x0

  (** val double_pred_mask : positive -> mask **)

  let double_pred_mask = function
  | XI p -> IsPos (XO (XO p))
  | XO p -> IsPos (XO (pred_double p))
  | XH -> IsNul

  (** val sub_mask : positive -> positive -> mask **)

  let rec sub_mask x y =
    match x with
    | XI p ->
      (match y with
       | XI q -> double_mask (sub_mask p q)
       | XO q -> succ_double_mask (sub_mask p q)
       | XH -> IsPos (XO p))
    | XO p ->
      (match y with
       | XI q -> succ_double_mask (sub_mask_carry p q)
       | XO q -> double_mask (sub_mask p q)
       | XH -> IsPos (pred_double p))
    | XH -> (match y with
             | XH -> IsNul
             | _ -> IsNeg)

  (** val sub_mask_carry : positive -> positive -> mask **)

  and sub_mask_carry x y =
    match x with
    | XI p ->
      (match y with
       | XI q -> succ_double_mask (sub_mask_carry p q)
       | XO q -> double_mask (sub_mask p q)
       | XH -> IsPos (pred_double p))
    | XO p ->
      (match y with
       | XI q -> double_mask (sub_mask_carry p q)
       | XO q -> succ_double_mask (sub_mask_carry p q)
       | XH -> double_pred_mask p)
    | XH -> IsNeg

  (** val mul : positive -> positive -> positive **)

  let rec mul x y =
    match x with
    | XI p -> add y (XO (mul p y))
    | XO p -> XO (mul p y)
    | XH -> y

  (** val compare_cont : comparison -> positive -> positive -> comparison **)

  let rec compare_cont r x y =
    match x with
    | XI p ->
      (match y with
       | XI q -> compare_cont r p q
       | XO q -> compare_cont Gt p q
       | XH -> Gt)
    | XO p ->
      (match y with
       | XI q -> compare_cont Lt p q
       | XO q -> compare_cont r p q
       | XH -> Gt)
    | XH -> (match y with
             | XH -> r
             | _ -> Lt)

  (** val compare : positive -> positive -> comparison **)

  let compare =
    compare_cont Eq

  (** val eqb : positive -> positive -> bool **)

  let rec eqb p q =
    match p with
    | XI p0 -> (match q with
                | XI q0 -> eqb p0 q0
                | _ -> false)
    | XO p0 -> (match q with
                | XO q0 -> eqb p0 q0
                | _ -> false)
    | XH -> (match q with
             | XH -> true
             | _ -> false)

  (** val of_uint_acc : uint -> positive -> positive **)

  let rec of_uint_acc d acc =
    match d with
    | Nil -> acc
    | D0 l -> of_uint_acc l (mul (XO (XI (XO XH))) acc)
    | D1 l -> of_uint_acc l (add XH (mul (XO (XI (XO XH))) acc))
    | D2 l -> of_uint_acc l (add (XO XH) (mul (XO (XI (XO XH))) acc))
    | D3 l -> of_uint_acc l (add (XI XH) (mul (XO (XI (XO XH))) acc))
    | D4 l -> of_uint_acc l (add (XO (XO XH)) (mul (XO (XI (XO XH))) acc))
    | D5 l -> of_uint_acc l (add (XI (XO XH)) (mul (XO (XI (XO XH))) acc))
    | D6 l -> of_uint_acc l (add (XO (XI XH)) (mul (XO (XI (XO XH))) acc))
    | D7 l -> of_uint_acc l (add (XI (XI XH)) (mul (XO (XI (XO XH))) acc))
    | D8 l ->
      of_uint_acc l (add (XO (XO (XO XH))) (mul (XO (XI (XO XH))) acc))
    | D9 l ->
      of_uint_acc l (add (XI (XO (XO XH))) (mul (XO (XI (XO XH))) acc))

  (** val of_uint : uint -> n **)

  let rec of_uint = function
  | Nil -> N0
  | D0 l -> of_uint l
  | D1 l -> Npos (of_uint_acc l XH)
  | D2 l -> Npos (of_uint_acc l (XO XH))
  | D3 l -> Npos (of_uint_acc l (XI XH))
  | D4 l -> Npos (of_uint_acc l (XO (XO XH)))
  | D5 l -> Npos (of_uint_acc l (XI (XO XH)))
  | D6 l -> Npos (of_uint_acc l (XO (XI XH)))
  | D7 l -> Npos (of_uint_acc l (XI (XI XH)))
  | D8 l -> Npos (of_uint_acc l (XO (XO (XO XH))))
  | D9 l -> Npos (of_uint_acc l (XI (XO (XO XH))))

  (** val to_little_uint : positive -> uint **)

  let rec to_little_uint = function
  | XI p0 -> Little.succ_double (to_little_uint p0)
  | XO p0 -> Little.double (to_little_uint p0)
  | XH -> D1 Nil

  (** val to_uint : positive -> uint **)

  let to_uint p =
    rev (to_little_uint p)
 end

module N =
 struct
  (** val succ_double : n -> n **)

  let succ_double = function
  | N0 -> Npos XH
  | Npos p -> Npos (XI p)

  (** val double : n -> n **)

  let double = function
  | N0 -> N0
  | Npos p -> Npos (XO p)

  (** val add : n -> n -> n **)

  let add n0 m0 =
    match n0 with
    | N0 -> m0
    | Npos p -> (match m0 with
                 | N0 -> n0
                 | Npos q -> Npos (Coq_Pos.add p q))

  (** val sub : n -> n -> n **)

  let sub n0 m0 =
    match n0 with
    | N0 -> N0
    | Npos n' ->
      (match m0 with
       | N0 -> n0
       | Npos m' ->
         (match Coq_Pos.sub_mask n' m' with
          | Coq_Pos.IsPos p -> Npos p
          | _ -> N0))

  (** val mul : n -> n -> n **)

  let mul n0 m0 =
    match n0 with
    | N0 -> N0
    | Npos p -> (match m0 with
                 | N0 -> N0
                 | Npos q -> Npos (Coq_Pos.mul p q))

  (** val compare : n -> n -> comparison **)

  let compare n0 m0 =
    match n0 with
    | N0 -> (match m0 with
             | N0 -> Eq
             | Npos _ -> Lt)
    | Npos n' -> (match m0 with
                  | N0 -> Gt
                  | Npos m' -> Coq_Pos.compare n' m')

  (** val eqb : n -> n -> bool **)

  let eqb n0 m0 =
    match n0 with
    | N0 -> (match m0 with
             | N0 -> true
             | Npos _ -> false)
    | Npos p -> (match m0 with
                 | N0 -> false
                 | Npos q -> Coq_Pos.eqb p q)

  (** val leb : n -> n -> bool **)

  let leb x y =
    match compare x y with
    | Gt -> false
    | _ -> true

  (** val ltb : n -> n -> bool **)

  let ltb x y =
    match compare x y with
    | Lt -> true
    | _ -> false

  (** val pos_div_eucl : positive -> n -> n * n **)

  let rec pos_div_eucl a b =
    match a with
    | XI a' ->
      let (q, r) = pos_div_eucl a' b in
      let r' = succ_double r in
      if leb b r' then ((succ_double q), (sub r' b)) else ((double q), r')
    | XO a' ->
      let (q, r) = pos_div_eucl a' b in
      let r' = double r in
      if leb b r' then ((succ_double q), (sub r' b)) else ((double q), r')
    | XH ->
      (match b with
       | N0 -> (N0, (Npos XH))
       | Npos p -> (match p with
                    | XH -> ((Npos XH), N0)
                    | _ -> (N0, (Npos XH))))

  (** val div_eucl : n -> n -> n * n **)

  let div_eucl a b =
    match a with
    | N0 -> (N0, N0)
    | Npos na -> (match b with
                  | N0 -> (N0, a)
                  | Npos _ -> pos_div_eucl na b)

  (** val div : n -> n -> n **)

  let div a b =
    fst (div_eucl a b)

  (** val modulo : n -> n -> n **)

  let modulo a b =
    snd (div_eucl a b)

  (** val of_uint : uint -> n **)

  let of_uint =
    Coq_Pos.of_uint

  (** val to_uint : n -> uint **)

  let to_uint = function
  | N0 -> D0 Nil
  | Npos p -> Coq_Pos.to_uint p
 end

module Z =
 struct
  (** val double : z -> z **)

  let double = function
  | Z0 -> Z0
  | Zpos p -> Zpos (XO p)
  | Zneg p -> Zneg (XO p)

  (** val succ_double : z -> z **)

  let succ_double = function
  | Z0 -> Zpos XH
  | Zpos p -> Zpos (XI p)
  | Zneg p -> Zneg (Coq_Pos.pred_double p)

  (** val pred_double : z -> z **)

  let pred_double = function
  | Z0 -> Zneg XH
  | Zpos p -> Zpos (Coq_Pos.pred_double p)
  | Zneg p -> Zneg (XI p)

  (** val pos_sub : positive -> positive -> z **)

  let rec pos_sub x y =
    match x with
    | XI p ->
      (match y with
       | XI q -> double (pos_sub p q)
       | XO q -> succ_double (pos_sub p q)
       | XH -> Zpos (XO p))
    | XO p ->
      (match y with
       | XI q -> pred_double (pos_sub p q)
       | XO q -> double (pos_sub p q)
       | XH -> Zpos (Coq_Pos.pred_double p))
    | XH ->
      (match y with
       | XI q -> Zneg (XO q)
       | XO q -> Zneg (Coq_Pos.pred_double q)
       | XH -> Z0)

  (** val add : z -> z -> z **)

  let add x y =
    match x with
    | Z0 -> y
    | Zpos x' ->
      (match y with
       | Z0 -> x
       | Zpos y' -> Zpos (Coq_Pos.add x' y')
       | Zneg y' -> pos_sub x' y')
    | Zneg x' ->
      (match y with
       | Z0 -> x
       | Zpos y' -> pos_sub y' x'
       | Zneg y' -> Zneg (Coq_Pos.add x' y'))

  (** val opp : z -> z **)

  let opp = function
  | Z0 -> Z0
  | Zpos x0 -> Zneg x0
  | Zneg x0 -> Zpos x0

  (** val sub : z -> z -> z **)

  let sub m0 n0 =
    add m0 (opp n0)

  (** val mul : z -> z -> z **)

  let mul x y =
    match x with
    | Z0 -> Z0
    | Zpos x' ->
      (match y with
       | Z0 -> Z0
       | Zpos y' -> Zpos (Coq_Pos.mul x' y')
       | Zneg y' -> Zneg (Coq_Pos.mul x' y'))
    | Zneg x' ->
      (match y with
       | Z0 -> Z0
       | Zpos y' -> Zneg (Coq_Pos.mul x' y')
       | Zneg y' -> Zpos (Coq_Pos.mul x' y'))

  (** val compare : z -> z -> comparison **)

  let compare x y =
    match x with
    | Z0 -> (match y with
             | Z0 -> Eq
             | Zpos _ -> Lt
             | Zneg _ -> Gt)
    | Zpos x' -> (match y with
                  | Zpos y' -> Coq_Pos.compare x' y'
                  | _ -> Gt)
    | Zneg x' ->
      (match y with
       | Zneg y' -> compOpp (Coq_Pos.compare x' y')
       | _ -> Lt)

  (** val leb : z -> z -> bool **)

  let leb x y =
    match compare x y with
    | Gt -> false
    | _ -> true

  (** val ltb : z -> z -> bool **)

  let ltb x y =
    match compare x y with
    | Lt -> true
    | _ -> false

  (** val eqb : z -> z -> bool **)

  let eqb x y =
    match x with
    | Z0 -> (match y with
             | Z0 -> true
             | _ -> false)
    | Zpos p -> (match y with
                 | Zpos q -> Coq_Pos.eqb p q
                 | _ -> false)
    | Zneg p -> (match y with
                 | Zneg q -> Coq_Pos.eqb p q
                 | _ -> false)

  (** val abs : z -> z **)

  let abs = function
  | Zneg p -> Zpos p
  | x -> x

  (** val to_N : z -> n **)

  let to_N = function
  | Zpos p -> Npos p
  | _ -> N0

  (** val of_N : n -> z **)

  let of_N = function
  | N0 -> Z0
  | Npos p -> Zpos p

  (** val pos_div_eucl : positive -> z -> z * z **)

  let rec pos_div_eucl a b =
    match a with
    | XI a' ->
      let (q, r) = pos_div_eucl a' b in
      let r' = add (mul (Zpos (XO XH)) r) (Zpos XH) in
      if ltb r' b
      then ((mul (Zpos (XO XH)) q), r')
      else ((add (mul (Zpos (XO XH)) q) (Zpos XH)), (sub r' b))
    | XO a' ->
      let (q, r) = pos_div_eucl a' b in
      let r' = mul (Zpos (XO XH)) r in
      if ltb r' b
      then ((mul (Zpos (XO XH)) q), r')
      else ((add (mul (Zpos (XO XH)) q) (Zpos XH)), (sub r' b))
    | XH -> if leb (Zpos (XO XH)) b then (Z0, (Zpos XH)) else ((Zpos XH), Z0)

  (** val div_eucl : z -> z -> z * z **)

  let div_eucl a b =
    match a with
    | Z0 -> (Z0, Z0)
    | Zpos a' ->
      (match b with
       | Z0 -> (Z0, a)
       | Zpos _ -> pos_div_eucl a' b
       | Zneg b' ->
         let (q, r) = pos_div_eucl a' (Zpos b') in
         (match r with
          | Z0 -> ((opp q), Z0)
          | _ -> ((opp (add q (Zpos XH))), (add b r))))
    | Zneg a' ->
      (match b with
       | Z0 -> (Z0, a)
       | Zpos _ ->
         let (q, r) = pos_div_eucl a' b in
         (match r with
          | Z0 -> ((opp q), Z0)
          | _ -> ((opp (add q (Zpos XH))), (sub b r)))
       | Zneg b' -> let (q, r) = pos_div_eucl a' (Zpos b') in (q, (opp r)))

  (** val div : z -> z -> z **)

  let div a b =
    let (q, _) = div_eucl a b in q

  (** val modulo : z -> z -> z **)

  let modulo a b =
    let (_, r) = div_eucl a b in r

  (** val quotrem : z -> z -> z * z **)

  let quotrem a b =
    match a with
    | Z0 -> (Z0, Z0)
    | Zpos a0 ->
      (match b with
       | Z0 -> (Z0, a)
       | Zpos b0 ->
         let (q, r) = N.pos_div_eucl a0 (Npos b0) in ((of_N q), (of_N r))
       | Zneg b0 ->
         let (q, r) = N.pos_div_eucl a0 (Npos b0) in
         ((opp (of_N q)), (of_N r)))
    | Zneg a0 ->
      (match b with
       | Z0 -> (Z0, a)
       | Zpos b0 ->
         let (q, r) = N.pos_div_eucl a0 (Npos b0) in
         ((opp (of_N q)), (opp (of_N r)))
       | Zneg b0 ->
         let (q, r) = N.pos_div_eucl a0 (Npos b0) in
         ((of_N q), (opp (of_N r))))

  (** val quot : z -> z -> z **)

  let quot a b =
    fst (quotrem a b)
 end

type bytes = n list

(** val beqb : bytes -> bytes -> bool **)

let rec beqb a b =
  match a with
  | [] -> (match b with
           | [] -> true
           | _ :: _ -> false)
  | x :: a' ->
    (match b with
     | [] -> false
     | y :: b' -> (&&) (N.eqb x y) (beqb a' b'))

(** val memb : n -> bytes -> bool **)

let memb c l =
  existsb (N.eqb c) l

(** val mem_bytes : bytes -> bytes list -> bool **)

let mem_bytes k l =
  existsb (beqb k) l

(** val cut : n -> bytes -> bytes * bytes option **)

let rec cut c = function
| [] -> ([], None)
| x :: l' ->
  if N.eqb x c
  then ([], (Some l'))
  else let (a, r) = cut c l' in ((x :: a), r)

(** val strip_prefix : bytes -> bytes -> bytes option **)

let rec strip_prefix p l =
  match p with
  | [] -> Some l
  | x :: p' ->
    (match l with
     | [] -> None
     | y :: l' -> if N.eqb x y then strip_prefix p' l' else None)

(** val uint_bytes : uint -> bytes **)

let rec uint_bytes = function
| Nil -> []
| D0 d0 -> (Npos (XO (XO (XO (XO (XI XH)))))) :: (uint_bytes d0)
| D1 d0 -> (Npos (XI (XO (XO (XO (XI XH)))))) :: (uint_bytes d0)
| D2 d0 -> (Npos (XO (XI (XO (XO (XI XH)))))) :: (uint_bytes d0)
| D3 d0 -> (Npos (XI (XI (XO (XO (XI XH)))))) :: (uint_bytes d0)
| D4 d0 -> (Npos (XO (XO (XI (XO (XI XH)))))) :: (uint_bytes d0)
| D5 d0 -> (Npos (XI (XO (XI (XO (XI XH)))))) :: (uint_bytes d0)
| D6 d0 -> (Npos (XO (XI (XI (XO (XI XH)))))) :: (uint_bytes d0)
| D7 d0 -> (Npos (XI (XI (XI (XO (XI XH)))))) :: (uint_bytes d0)
| D8 d0 -> (Npos (XO (XO (XO (XI (XI XH)))))) :: (uint_bytes d0)
| D9 d0 -> (Npos (XI (XO (XO (XI (XI XH)))))) :: (uint_bytes d0)

(** val is_digit : n -> bool **)

let is_digit b =
  (&&) (N.leb (Npos (XO (XO (XO (XO (XI XH)))))) b)
    (N.leb b (Npos (XI (XO (XO (XI (XI XH)))))))

(** val mkD : n -> uint -> uint **)

let mkD b d =
  match b with
  | N0 -> D9 d
  | Npos p ->
    (match p with
     | XI p0 ->
       (match p0 with
        | XI p1 ->
          (match p1 with
           | XI p2 ->
             (match p2 with
              | XO p3 ->
                (match p3 with
                 | XI p4 -> (match p4 with
                             | XH -> D7 d
                             | _ -> D9 d)
                 | _ -> D9 d)
              | _ -> D9 d)
           | XO p2 ->
             (match p2 with
              | XO p3 ->
                (match p3 with
                 | XI p4 -> (match p4 with
                             | XH -> D3 d
                             | _ -> D9 d)
                 | _ -> D9 d)
              | _ -> D9 d)
           | XH -> D9 d)
        | XO p1 ->
          (match p1 with
           | XI p2 ->
             (match p2 with
              | XO p3 ->
                (match p3 with
                 | XI p4 -> (match p4 with
                             | XH -> D5 d
                             | _ -> D9 d)
                 | _ -> D9 d)
              | _ -> D9 d)
           | XO p2 ->
             (match p2 with
              | XO p3 ->
                (match p3 with
                 | XI p4 -> (match p4 with
                             | XH -> D1 d
                             | _ -> D9 d)
                 | _ -> D9 d)
              | _ -> D9 d)
           | XH -> D9 d)
        | XH -> D9 d)
     | XO p0 ->
       (match p0 with
        | XI p1 ->
          (match p1 with
           | XI p2 ->
             (match p2 with
              | XO p3 ->
                (match p3 with
                 | XI p4 -> (match p4 with
                             | XH -> D6 d
                             | _ -> D9 d)
                 | _ -> D9 d)
              | _ -> D9 d)
           | XO p2 ->
             (match p2 with
              | XO p3 ->
                (match p3 with
                 | XI p4 -> (match p4 with
                             | XH -> D2 d
                             | _ -> D9 d)
                 | _ -> D9 d)
              | _ -> D9 d)
           | XH -> D9 d)
        | XO p1 ->
          (match p1 with
           | XI p2 ->
             (match p2 with
              | XO p3 ->
                (match p3 with
                 | XI p4 -> (match p4 with
                             | XH -> D4 d
                             | _ -> D9 d)
                 | _ -> D9 d)
              | _ -> D9 d)
           | XO p2 ->
             (match p2 with
              | XI p3 ->
                (match p3 with
                 | XI p4 -> (match p4 with
                             | XH -> D8 d
                             | _ -> D9 d)
                 | _ -> D9 d)
              | XO p3 ->
                (match p3 with
                 | XI p4 -> (match p4 with
                             | XH -> D0 d
                             | _ -> D9 d)
                 | _ -> D9 d)
              | XH -> D9 d)
           | XH -> D9 d)
        | XH -> D9 d)
     | XH -> D9 d)

(** val bytes_uint : bytes -> uint option **)

let rec bytes_uint = function
| [] -> Some Nil
| b :: l' -> if is_digit b then option_map (mkD b) (bytes_uint l') else None

(** val dec_N : n -> bytes **)

let dec_N n0 =
  uint_bytes (N.to_uint n0)

(** val parse_dec_N : bytes -> n option **)

let parse_dec_N l = match l with
| [] -> None
| _ :: _ -> option_map N.of_uint (bytes_uint l)

(** val parse_dec_Z : bytes -> z option **)

let parse_dec_Z l = match l with
| [] -> option_map Z.of_N (parse_dec_N l)
| n0 :: l' ->
  (match n0 with
   | N0 -> option_map Z.of_N (parse_dec_N l)
   | Npos p ->
     (match p with
      | XI p0 ->
        (match p0 with
         | XO p1 ->
           (match p1 with
            | XI p2 ->
              (match p2 with
               | XI p3 ->
                 (match p3 with
                  | XO p4 ->
                    (match p4 with
                     | XH ->
                       (match parse_dec_N l' with
                        | Some n1 ->
                          (match n1 with
                           | N0 -> None
                           | Npos p5 -> Some (Zneg p5))
                        | None -> None)
                     | _ -> option_map Z.of_N (parse_dec_N l))
                  | _ -> option_map Z.of_N (parse_dec_N l))
               | _ -> option_map Z.of_N (parse_dec_N l))
            | _ -> option_map Z.of_N (parse_dec_N l))
         | _ -> option_map Z.of_N (parse_dec_N l))
      | _ -> option_map Z.of_N (parse_dec_N l)))

(** val dec_pad : nat -> n -> bytes **)

let dec_pad k n0 =
  let d = dec_N n0 in
  app (repeat (Npos (XO (XO (XO (XO (XI XH)))))) (sub k (length d))) d

(** val hexdigit : n -> n **)

let hexdigit n0 =
  if N.ltb n0 (Npos (XO (XI (XO XH))))
  then N.add (Npos (XO (XO (XO (XO (XI XH)))))) n0
  else N.add (Npos (XI (XI (XI (XO (XI (XO XH))))))) n0

(** val hex_byte : n -> bytes **)

let hex_byte b =
  (hexdigit (N.div b (Npos (XO (XO (XO (XO XH))))))) :: ((hexdigit
                                                           (N.modulo b (Npos
                                                             (XO (XO (XO (XO
                                                             XH))))))) :: [])

(** val hexlify : bytes -> bytes **)

let hexlify l =
  flat_map hex_byte l

(** val is_lower_hex : n -> bool **)

let is_lower_hex c =
  (||)
    ((&&) (N.leb (Npos (XO (XO (XO (XO (XI XH)))))) c)
      (N.leb c (Npos (XI (XO (XO (XI (XI XH))))))))
    ((&&) (N.leb (Npos (XI (XO (XO (XO (XO (XI XH))))))) c)
      (N.leb c (Npos (XO (XI (XI (XO (XO (XI XH)))))))))

(** val unhexdigit : n -> n option **)

let unhexdigit c =
  if (&&) (N.leb (Npos (XO (XO (XO (XO (XI XH)))))) c)
       (N.leb c (Npos (XI (XO (XO (XI (XI XH)))))))
  then Some (N.sub c (Npos (XO (XO (XO (XO (XI XH)))))))
  else if (&&) (N.leb (Npos (XI (XO (XO (XO (XO (XI XH))))))) c)
            (N.leb c (Npos (XO (XI (XI (XO (XO (XI XH))))))))
       then Some (N.sub c (Npos (XI (XI (XI (XO (XI (XO XH))))))))
       else None

(** val unhex : bytes -> bytes option **)

let rec unhex = function
| [] -> Some []
| a :: l0 ->
  (match l0 with
   | [] -> None
   | b :: r ->
     (match unhexdigit a with
      | Some x ->
        (match unhexdigit b with
         | Some y ->
           (match unhex r with
            | Some t ->
              Some ((N.add (N.mul (Npos (XO (XO (XO (XO XH))))) x) y) :: t)
            | None -> None)
         | None -> None)
      | None -> None))

(** val rELEASE_TARGET_TO_GIT : (n list * n list) list **)

let rELEASE_TARGET_TO_GIT =
  (((Npos (XI (XI (XO (XO (XO (XI XH))))))) :: ((Npos (XI (XI (XI (XI (XO (XI
    XH))))))) :: ((Npos (XO (XI (XI (XI (XO (XI XH))))))) :: ((Npos (XO (XO
    (XI (XO (XI (XI XH))))))) :: ((Npos (XI (XO (XI (XO (XO (XI
    XH))))))) :: ((Npos (XO (XI (XI (XI (XO (XI XH))))))) :: ((Npos (XO (XO
    (XI (XO (XI (XI XH))))))) :: []))))))), ((Npos (XO (XI (XO (XO (XO (XI
    XH))))))) :: ((Npos (XO (XO (XI (XI (XO (XI XH))))))) :: ((Npos (XI (XI
    (XI (XI (XO (XI XH))))))) :: ((Npos (XO (XI (XO (XO (XO (XI
    XH))))))) :: []))))) :: ((((Npos (XO (XO (XI (XO (XO (XI
    XH))))))) :: ((Npos (XI (XO (XO (XI (XO (XI XH))))))) :: ((Npos (XO (XI
    (XO (XO (XI (XI XH))))))) :: ((Npos (XI (XO (XI (XO (XO (XI
    XH))))))) :: ((Npos (XI (XI (XO (XO (XO (XI XH))))))) :: ((Npos (XO (XO
    (XI (XO (XI (XI XH))))))) :: ((Npos (XI (XI (XI (XI (XO (XI
    XH))))))) :: ((Npos (XO (XI (XO (XO (XI (XI XH))))))) :: ((Npos (XI (XO
    (XO (XI (XI (XI XH))))))) :: []))))))))), ((Npos (XO (XO (XI (XO (XI (XI
    XH))))))) :: ((Npos (XO (XI (XO (XO (XI (XI XH))))))) :: ((Npos (XI (XO
    (XI (XO (XO (XI XH))))))) :: ((Npos (XI (XO (XI (XO (XO (XI
    XH))))))) :: []))))) :: ((((Npos (XO (XI (XO (XO (XI (XI
    XH))))))) :: ((Npos (XI (XO (XI (XO (XO (XI XH))))))) :: ((Npos (XO (XI
    (XI (XO (XI (XI XH))))))) :: ((Npos (XI (XO (XO (XI (XO (XI
    XH))))))) :: ((Npos (XI (XI (XO (XO (XI (XI XH))))))) :: ((Npos (XI (XO
    (XO (XI (XO (XI XH))))))) :: ((Npos (XI (XI (XI (XI (XO (XI
    XH))))))) :: ((Npos (XO (XI (XI (XI (XO (XI XH))))))) :: [])))))))),
    ((Npos (XI (XI (XO (XO (XO (XI XH))))))) :: ((Npos (XI (XI (XI (XI (XO
    (XI XH))))))) :: ((Npos (XI (XO (XI (XI (XO (XI XH))))))) :: ((Npos (XI
    (XO (XI (XI (XO (XI XH))))))) :: ((Npos (XI (XO (XO (XI (XO (XI
    XH))))))) :: ((Npos (XO (XO (XI (XO (XI (XI
    XH))))))) :: []))))))) :: ((((Npos (XO (XI (XO (XO (XI (XI
    XH))))))) :: ((Npos (XI (XO (XI (XO (XO (XI XH))))))) :: ((Npos (XO (XO
    (XI (XI (XO (XI XH))))))) :: ((Npos (XI (XO (XI (XO (XO (XI
    XH))))))) :: ((Npos (XI (XO (XO (XO (XO (XI XH))))))) :: ((Npos (XI (XI
    (XO (XO (XI (XI XH))))))) :: ((Npos (XI (XO (XI (XO (XO (XI
    XH))))))) :: []))))))), ((Npos (XO (XO (XI (XO (XI (XI
    XH))))))) :: ((Npos (XI (XO (XO (XO (XO (XI XH))))))) :: ((Npos (XI (XI
    (XI (XO (XO (XI XH))))))) :: [])))) :: ((((Npos (XI (XI (XO (XO (XI (XI
    XH))))))) :: ((Npos (XO (XI (XI (XI (XO (XI XH))))))) :: ((Npos (XI (XO
    (XO (XO (XO (XI XH))))))) :: ((Npos (XO (XO (XO (XO (XI (XI
    XH))))))) :: ((Npos (XI (XI (XO (XO (XI (XI XH))))))) :: ((Npos (XO (XO
    (XO (XI (XO (XI XH))))))) :: ((Npos (XI (XI (XI (XI (XO (XI
    XH))))))) :: ((Npos (XO (XO (XI (XO (XI (XI XH))))))) :: [])))))))),
    ((Npos (XO (XI (XO (XO (XI (XI XH))))))) :: ((Npos (XI (XO (XI (XO (XO
    (XI XH))))))) :: ((Npos (XO (XI (XI (XO (XO (XI XH))))))) :: ((Npos (XI
    (XI (XO (XO (XI (XI XH))))))) :: []))))) :: []))))

(** val sNAPSHOT_TARGET_TYPES : n list list **)

let sNAPSHOT_TARGET_TYPES =
  ((Npos (XI (XI (XO (XO (XO (XI XH))))))) :: ((Npos (XI (XI (XI (XI (XO (XI
    XH))))))) :: ((Npos (XO (XI (XI (XI (XO (XI XH))))))) :: ((Npos (XO (XO
    (XI (XO (XI (XI XH))))))) :: ((Npos (XI (XO (XI (XO (XO (XI
    XH))))))) :: ((Npos (XO (XI (XI (XI (XO (XI XH))))))) :: ((Npos (XO (XO
    (XI (XO (XI (XI XH))))))) :: []))))))) :: (((Npos (XO (XO (XI (XO (XO (XI
    XH))))))) :: ((Npos (XI (XO (XO (XI (XO (XI XH))))))) :: ((Npos (XO (XI
    (XO (XO (XI (XI XH))))))) :: ((Npos (XI (XO (XI (XO (XO (XI
    XH))))))) :: ((Npos (XI (XI (XO (XO (XO (XI XH))))))) :: ((Npos (XO (XO
    (XI (XO (XI (XI XH))))))) :: ((Npos (XI (XI (XI (XI (XO (XI
    XH))))))) :: ((Npos (XO (XI (XO (XO (XI (XI XH))))))) :: ((Npos (XI (XO
    (XO (XI (XI (XI XH))))))) :: []))))))))) :: (((Npos (XO (XI (XO (XO (XI
    (XI XH))))))) :: ((Npos (XI (XO (XI (XO (XO (XI XH))))))) :: ((Npos (XO
    (XI (XI (XO (XI (XI XH))))))) :: ((Npos (XI (XO (XO (XI (XO (XI
    XH))))))) :: ((Npos (XI (XI (XO (XO (XI (XI XH))))))) :: ((Npos (XI (XO
    (XO (XI (XO (XI XH))))))) :: ((Npos (XI (XI (XI (XI (XO (XI
    XH))))))) :: ((Npos (XO (XI (XI (XI (XO (XI
    XH))))))) :: [])))))))) :: (((Npos (XO (XI (XO (XO (XI (XI
    XH))))))) :: ((Npos (XI (XO (XI (XO (XO (XI XH))))))) :: ((Npos (XO (XO
    (XI (XI (XO (XI XH))))))) :: ((Npos (XI (XO (XI (XO (XO (XI
    XH))))))) :: ((Npos (XI (XO (XO (XO (XO (XI XH))))))) :: ((Npos (XI (XI
    (XO (XO (XI (XI XH))))))) :: ((Npos (XI (XO (XI (XO (XO (XI
    XH))))))) :: []))))))) :: (((Npos (XI (XI (XO (XO (XI (XI
    XH))))))) :: ((Npos (XO (XI (XI (XI (XO (XI XH))))))) :: ((Npos (XI (XO
    (XO (XO (XO (XI XH))))))) :: ((Npos (XO (XO (XO (XO (XI (XI
    XH))))))) :: ((Npos (XI (XI (XO (XO (XI (XI XH))))))) :: ((Npos (XO (XO
    (XO (XI (XO (XI XH))))))) :: ((Npos (XI (XI (XI (XI (XO (XI
    XH))))))) :: ((Npos (XO (XO (XI (XO (XI (XI
    XH))))))) :: [])))))))) :: (((Npos (XI (XO (XO (XO (XO (XI
    XH))))))) :: ((Npos (XO (XO (XI (XI (XO (XI XH))))))) :: ((Npos (XI (XO
    (XO (XI (XO (XI XH))))))) :: ((Npos (XI (XO (XO (XO (XO (XI
    XH))))))) :: ((Npos (XI (XI (XO (XO (XI (XI
    XH))))))) :: []))))) :: [])))))

(** val tS_MIN_SECONDS : z **)

let tS_MIN_SECONDS =
  Zneg (XI (XO (XO (XO (XI (XI (XO (XI (XI (XI (XI (XO (XO (XI (XO (XI (XO
    (XO (XO (XO (XI (XO (XO (XI (XI (XI (XI (XO (XI (XI (XI (XO (XO (XI (XI
    XH)))))))))))))))))))))))))))))))))))

(** val tS_MAX_SECONDS : z **)

let tS_MAX_SECONDS =
  Zpos (XI (XI (XI (XI (XO (XI (XI (XO (XI (XI (XO (XO (XI (XI (XO (XO (XO
    (XO (XI (XO (XI (XI (XI (XI (XI (XI (XI (XI (XI (XI (XI (XI (XO (XI (XO
    (XI (XI XH)))))))))))))))))))))))))))))))))))))

(** val tS_MIN_MICROSECONDS : z **)

let tS_MIN_MICROSECONDS =
  Z0

(** val tS_MAX_MICROSECONDS : z **)

let tS_MAX_MICROSECONDS =
  Zpos (XI (XI (XI (XI (XI (XI (XO (XO (XO (XI (XO (XO (XO (XO (XI (XO (XI
    (XI (XI XH)))))))))))))))))))

(** val sWHID_NAMESPACE : n list **)

let sWHID_NAMESPACE =
  (Npos (XI (XI (XO (XO (XI (XI XH))))))) :: ((Npos (XI (XI (XI (XO (XI (XI
    XH))))))) :: ((Npos (XO (XO (XO (XI (XO (XI XH))))))) :: []))

(** val sWHID_TYPES : n list list **)

let sWHID_TYPES =
  ((Npos (XI (XI (XO (XO (XI (XI XH))))))) :: ((Npos (XO (XI (XI (XI (XO (XI
    XH))))))) :: ((Npos (XO (XO (XO (XO (XI (XI XH))))))) :: []))) :: (((Npos
    (XO (XI (XO (XO (XI (XI XH))))))) :: ((Npos (XI (XO (XI (XO (XO (XI
    XH))))))) :: ((Npos (XO (XO (XI (XI (XO (XI XH))))))) :: []))) :: (((Npos
    (XO (XI (XO (XO (XI (XI XH))))))) :: ((Npos (XI (XO (XI (XO (XO (XI
    XH))))))) :: ((Npos (XO (XI (XI (XO (XI (XI XH))))))) :: []))) :: (((Npos
    (XO (XO (XI (XO (XO (XI XH))))))) :: ((Npos (XI (XO (XO (XI (XO (XI
    XH))))))) :: ((Npos (XO (XI (XO (XO (XI (XI XH))))))) :: []))) :: (((Npos
    (XI (XI (XO (XO (XO (XI XH))))))) :: ((Npos (XO (XI (XI (XI (XO (XI
    XH))))))) :: ((Npos (XO (XO (XI (XO (XI (XI XH))))))) :: []))) :: []))))

(** val eXTENDED_SWHID_TYPES : n list list **)

let eXTENDED_SWHID_TYPES =
  ((Npos (XI (XI (XO (XO (XI (XI XH))))))) :: ((Npos (XO (XI (XI (XI (XO (XI
    XH))))))) :: ((Npos (XO (XO (XO (XO (XI (XI XH))))))) :: []))) :: (((Npos
    (XO (XI (XO (XO (XI (XI XH))))))) :: ((Npos (XI (XO (XI (XO (XO (XI
    XH))))))) :: ((Npos (XO (XO (XI (XI (XO (XI XH))))))) :: []))) :: (((Npos
    (XO (XI (XO (XO (XI (XI XH))))))) :: ((Npos (XI (XO (XI (XO (XO (XI
    XH))))))) :: ((Npos (XO (XI (XI (XO (XI (XI XH))))))) :: []))) :: (((Npos
    (XO (XO (XI (XO (XO (XI XH))))))) :: ((Npos (XI (XO (XO (XI (XO (XI
    XH))))))) :: ((Npos (XO (XI (XO (XO (XI (XI XH))))))) :: []))) :: (((Npos
    (XI (XI (XO (XO (XO (XI XH))))))) :: ((Npos (XO (XI (XI (XI (XO (XI
    XH))))))) :: ((Npos (XO (XO (XI (XO (XI (XI XH))))))) :: []))) :: (((Npos
    (XI (XI (XI (XI (XO (XI XH))))))) :: ((Npos (XO (XI (XO (XO (XI (XI
    XH))))))) :: ((Npos (XI (XO (XO (XI (XO (XI XH))))))) :: []))) :: (((Npos
    (XI (XO (XI (XO (XO (XI XH))))))) :: ((Npos (XI (XO (XI (XI (XO (XI
    XH))))))) :: ((Npos (XO (XO (XI (XO (XO (XI XH))))))) :: []))) :: []))))))

(** val sWHID_SEP : n list **)

let sWHID_SEP =
  (Npos (XO (XI (XO (XI (XI XH)))))) :: []

type text = n list

type cls =
| CPerson
| CTimestamp
| CTimestampWithTimezone
| COrigin
| COriginVisit
| COriginVisitStatus
| CSnapshotBranch
| CSnapshot
| CRelease
| CRevision
| CDirectoryEntry
| CDirectory
| CContent
| CSkippedContent
| CMetadataAuthority
| CMetadataFetcher
| CRawExtrinsicMetadata
| CExtID

(** val all_classes : cls list **)

let all_classes =
  CPerson :: (CTimestamp :: (CTimestampWithTimezone :: (COrigin :: (COriginVisit :: (COriginVisitStatus :: (CSnapshotBranch :: (CSnapshot :: (CRelease :: (CRevision :: (CDirectoryEntry :: (CDirectory :: (CContent :: (CSkippedContent :: (CMetadataAuthority :: (CMetadataFetcher :: (CRawExtrinsicMetadata :: (CExtID :: [])))))))))))))))))

type enum_ty =
| ESnapshotTarget
| EReleaseTarget
| ERevisionType
| EAuthorityType

type swhid_kind =
| Core
| Extended

type pyval =
| VNone
| VBool of bool
| VInt of z
| VBytes of bytes
| VStr of text
| VDate of z * z
| VTuple of pyval list
| VList of pyval list
| VDict of (pyval * pyval) list
| VIDict of (pyval * pyval) list
| VEnum of enum_ty * text
| VSwhid of swhid_kind * text * bytes
| VObj of cls * (text * pyval) list

type dict = (pyval * pyval) list

type fields = (text * pyval) list

type err =
| TypeError
| ValueError
| KeyError
| AssertionError
| ValidationError
| AttributeError

type 'a result =
| Ok of 'a
| Err of err

(** val rbind : 'a1 result -> ('a1 -> 'a2 result) -> 'a2 result **)

let rbind r f =
  match r with
  | Ok a -> f a
  | Err e -> Err e

(** val rmap : ('a1 -> 'a2 result) -> 'a1 list -> 'a2 list result **)

let rec rmap f = function
| [] -> Ok []
| x :: r ->
  (match f x with
   | Ok y -> (match rmap f r with
              | Ok ys -> Ok (y :: ys)
              | Err e -> Err e)
   | Err e -> Err e)

(** val k_fullname : text **)

let k_fullname =
  (Npos (XO (XI (XI (XO (XO (XI XH))))))) :: ((Npos (XI (XO (XI (XO (XI (XI
    XH))))))) :: ((Npos (XO (XO (XI (XI (XO (XI XH))))))) :: ((Npos (XO (XO
    (XI (XI (XO (XI XH))))))) :: ((Npos (XO (XI (XI (XI (XO (XI
    XH))))))) :: ((Npos (XI (XO (XO (XO (XO (XI XH))))))) :: ((Npos (XI (XO
    (XI (XI (XO (XI XH))))))) :: ((Npos (XI (XO (XI (XO (XO (XI
    XH))))))) :: [])))))))

(** val k_name : text **)

let k_name =
  (Npos (XO (XI (XI (XI (XO (XI XH))))))) :: ((Npos (XI (XO (XO (XO (XO (XI
    XH))))))) :: ((Npos (XI (XO (XI (XI (XO (XI XH))))))) :: ((Npos (XI (XO
    (XI (XO (XO (XI XH))))))) :: [])))

(** val k_email : text **)

let k_email =
  (Npos (XI (XO (XI (XO (XO (XI XH))))))) :: ((Npos (XI (XO (XI (XI (XO (XI
    XH))))))) :: ((Npos (XI (XO (XO (XO (XO (XI XH))))))) :: ((Npos (XI (XO
    (XO (XI (XO (XI XH))))))) :: ((Npos (XO (XO (XI (XI (XO (XI
    XH))))))) :: []))))

(** val k_seconds : text **)

let k_seconds =
  (Npos (XI (XI (XO (XO (XI (XI XH))))))) :: ((Npos (XI (XO (XI (XO (XO (XI
    XH))))))) :: ((Npos (XI (XI (XO (XO (XO (XI XH))))))) :: ((Npos (XI (XI
    (XI (XI (XO (XI XH))))))) :: ((Npos (XO (XI (XI (XI (XO (XI
    XH))))))) :: ((Npos (XO (XO (XI (XO (XO (XI XH))))))) :: ((Npos (XI (XI
    (XO (XO (XI (XI XH))))))) :: []))))))

(** val k_microseconds : text **)

let k_microseconds =
  (Npos (XI (XO (XI (XI (XO (XI XH))))))) :: ((Npos (XI (XO (XO (XI (XO (XI
    XH))))))) :: ((Npos (XI (XI (XO (XO (XO (XI XH))))))) :: ((Npos (XO (XI
    (XO (XO (XI (XI XH))))))) :: ((Npos (XI (XI (XI (XI (XO (XI
    XH))))))) :: ((Npos (XI (XI (XO (XO (XI (XI XH))))))) :: ((Npos (XI (XO
    (XI (XO (XO (XI XH))))))) :: ((Npos (XI (XI (XO (XO (XO (XI
    XH))))))) :: ((Npos (XI (XI (XI (XI (XO (XI XH))))))) :: ((Npos (XO (XI
    (XI (XI (XO (XI XH))))))) :: ((Npos (XO (XO (XI (XO (XO (XI
    XH))))))) :: ((Npos (XI (XI (XO (XO (XI (XI XH))))))) :: [])))))))))))

(** val k_timestamp : text **)

let k_timestamp =
  (Npos (XO (XO (XI (XO (XI (XI XH))))))) :: ((Npos (XI (XO (XO (XI (XO (XI
    XH))))))) :: ((Npos (XI (XO (XI (XI (XO (XI XH))))))) :: ((Npos (XI (XO
    (XI (XO (XO (XI XH))))))) :: ((Npos (XI (XI (XO (XO (XI (XI
    XH))))))) :: ((Npos (XO (XO (XI (XO (XI (XI XH))))))) :: ((Npos (XI (XO
    (XO (XO (XO (XI XH))))))) :: ((Npos (XI (XO (XI (XI (XO (XI
    XH))))))) :: ((Npos (XO (XO (XO (XO (XI (XI XH))))))) :: []))))))))

(** val k_offset_bytes : text **)

let k_offset_bytes =
  (Npos (XI (XI (XI (XI (XO (XI XH))))))) :: ((Npos (XO (XI (XI (XO (XO (XI
    XH))))))) :: ((Npos (XO (XI (XI (XO (XO (XI XH))))))) :: ((Npos (XI (XI
    (XO (XO (XI (XI XH))))))) :: ((Npos (XI (XO (XI (XO (XO (XI
    XH))))))) :: ((Npos (XO (XO (XI (XO (XI (XI XH))))))) :: ((Npos (XI (XI
    (XI (XI (XI (XO XH))))))) :: ((Npos (XO (XI (XO (XO (XO (XI
    XH))))))) :: ((Npos (XI (XO (XO (XI (XI (XI XH))))))) :: ((Npos (XO (XO
    (XI (XO (XI (XI XH))))))) :: ((Npos (XI (XO (XI (XO (XO (XI
    XH))))))) :: ((Npos (XI (XI (XO (XO (XI (XI XH))))))) :: [])))))))))))

(** val k_offset : text **)

let k_offset =
  (Npos (XI (XI (XI (XI (XO (XI XH))))))) :: ((Npos (XO (XI (XI (XO (XO (XI
    XH))))))) :: ((Npos (XO (XI (XI (XO (XO (XI XH))))))) :: ((Npos (XI (XI
    (XO (XO (XI (XI XH))))))) :: ((Npos (XI (XO (XI (XO (XO (XI
    XH))))))) :: ((Npos (XO (XO (XI (XO (XI (XI XH))))))) :: [])))))

(** val k_negative_utc : text **)

let k_negative_utc =
  (Npos (XO (XI (XI (XI (XO (XI XH))))))) :: ((Npos (XI (XO (XI (XO (XO (XI
    XH))))))) :: ((Npos (XI (XI (XI (XO (XO (XI XH))))))) :: ((Npos (XI (XO
    (XO (XO (XO (XI XH))))))) :: ((Npos (XO (XO (XI (XO (XI (XI
    XH))))))) :: ((Npos (XI (XO (XO (XI (XO (XI XH))))))) :: ((Npos (XO (XI
    (XI (XO (XI (XI XH))))))) :: ((Npos (XI (XO (XI (XO (XO (XI
    XH))))))) :: ((Npos (XI (XI (XI (XI (XI (XO XH))))))) :: ((Npos (XI (XO
    (XI (XO (XI (XI XH))))))) :: ((Npos (XO (XO (XI (XO (XI (XI
    XH))))))) :: ((Npos (XI (XI (XO (XO (XO (XI XH))))))) :: [])))))))))))

(** val k_url : text **)

let k_url =
  (Npos (XI (XO (XI (XO (XI (XI XH))))))) :: ((Npos (XO (XI (XO (XO (XI (XI
    XH))))))) :: ((Npos (XO (XO (XI (XI (XO (XI XH))))))) :: []))

(** val k_id : text **)

let k_id =
  (Npos (XI (XO (XO (XI (XO (XI XH))))))) :: ((Npos (XO (XO (XI (XO (XO (XI
    XH))))))) :: [])

(** val k_origin : text **)

let k_origin =
  (Npos (XI (XI (XI (XI (XO (XI XH))))))) :: ((Npos (XO (XI (XO (XO (XI (XI
    XH))))))) :: ((Npos (XI (XO (XO (XI (XO (XI XH))))))) :: ((Npos (XI (XI
    (XI (XO (XO (XI XH))))))) :: ((Npos (XI (XO (XO (XI (XO (XI
    XH))))))) :: ((Npos (XO (XI (XI (XI (XO (XI XH))))))) :: [])))))

(** val k_date : text **)

let k_date =
  (Npos (XO (XO (XI (XO (XO (XI XH))))))) :: ((Npos (XI (XO (XO (XO (XO (XI
    XH))))))) :: ((Npos (XO (XO (XI (XO (XI (XI XH))))))) :: ((Npos (XI (XO
    (XI (XO (XO (XI XH))))))) :: [])))

(** val k_type : text **)

let k_type =
  (Npos (XO (XO (XI (XO (XI (XI XH))))))) :: ((Npos (XI (XO (XO (XI (XI (XI
    XH))))))) :: ((Npos (XO (XO (XO (XO (XI (XI XH))))))) :: ((Npos (XI (XO
    (XI (XO (XO (XI XH))))))) :: [])))

(** val k_visit : text **)

let k_visit =
  (Npos (XO (XI (XI (XO (XI (XI XH))))))) :: ((Npos (XI (XO (XO (XI (XO (XI
    XH))))))) :: ((Npos (XI (XI (XO (XO (XI (XI XH))))))) :: ((Npos (XI (XO
    (XO (XI (XO (XI XH))))))) :: ((Npos (XO (XO (XI (XO (XI (XI
    XH))))))) :: []))))

(** val k_status : text **)

let k_status =
  (Npos (XI (XI (XO (XO (XI (XI XH))))))) :: ((Npos (XO (XO (XI (XO (XI (XI
    XH))))))) :: ((Npos (XI (XO (XO (XO (XO (XI XH))))))) :: ((Npos (XO (XO
    (XI (XO (XI (XI XH))))))) :: ((Npos (XI (XO (XI (XO (XI (XI
    XH))))))) :: ((Npos (XI (XI (XO (XO (XI (XI XH))))))) :: [])))))

(** val k_snapshot : text **)

let k_snapshot =
  (Npos (XI (XI (XO (XO (XI (XI XH))))))) :: ((Npos (XO (XI (XI (XI (XO (XI
    XH))))))) :: ((Npos (XI (XO (XO (XO (XO (XI XH))))))) :: ((Npos (XO (XO
    (XO (XO (XI (XI XH))))))) :: ((Npos (XI (XI (XO (XO (XI (XI
    XH))))))) :: ((Npos (XO (XO (XO (XI (XO (XI XH))))))) :: ((Npos (XI (XI
    (XI (XI (XO (XI XH))))))) :: ((Npos (XO (XO (XI (XO (XI (XI
    XH))))))) :: [])))))))

(** val k_metadata : text **)

let k_metadata =
  (Npos (XI (XO (XI (XI (XO (XI XH))))))) :: ((Npos (XI (XO (XI (XO (XO (XI
    XH))))))) :: ((Npos (XO (XO (XI (XO (XI (XI XH))))))) :: ((Npos (XI (XO
    (XO (XO (XO (XI XH))))))) :: ((Npos (XO (XO (XI (XO (XO (XI
    XH))))))) :: ((Npos (XI (XO (XO (XO (XO (XI XH))))))) :: ((Npos (XO (XO
    (XI (XO (XI (XI XH))))))) :: ((Npos (XI (XO (XO (XO (XO (XI
    XH))))))) :: [])))))))

(** val k_target : text **)

let k_target =
  (Npos (XO (XO (XI (XO (XI (XI XH))))))) :: ((Npos (XI (XO (XO (XO (XO (XI
    XH))))))) :: ((Npos (XO (XI (XO (XO (XI (XI XH))))))) :: ((Npos (XI (XI
    (XI (XO (XO (XI XH))))))) :: ((Npos (XI (XO (XI (XO (XO (XI
    XH))))))) :: ((Npos (XO (XO (XI (XO (XI (XI XH))))))) :: [])))))

(** val k_target_type : text **)

let k_target_type =
  (Npos (XO (XO (XI (XO (XI (XI XH))))))) :: ((Npos (XI (XO (XO (XO (XO (XI
    XH))))))) :: ((Npos (XO (XI (XO (XO (XI (XI XH))))))) :: ((Npos (XI (XI
    (XI (XO (XO (XI XH))))))) :: ((Npos (XI (XO (XI (XO (XO (XI
    XH))))))) :: ((Npos (XO (XO (XI (XO (XI (XI XH))))))) :: ((Npos (XI (XI
    (XI (XI (XI (XO XH))))))) :: ((Npos (XO (XO (XI (XO (XI (XI
    XH))))))) :: ((Npos (XI (XO (XO (XI (XI (XI XH))))))) :: ((Npos (XO (XO
    (XO (XO (XI (XI XH))))))) :: ((Npos (XI (XO (XI (XO (XO (XI
    XH))))))) :: []))))))))))

(** val k_branches : text **)

let k_branches =
  (Npos (XO (XI (XO (XO (XO (XI XH))))))) :: ((Npos (XO (XI (XO (XO (XI (XI
    XH))))))) :: ((Npos (XI (XO (XO (XO (XO (XI XH))))))) :: ((Npos (XO (XI
    (XI (XI (XO (XI XH))))))) :: ((Npos (XI (XI (XO (XO (XO (XI
    XH))))))) :: ((Npos (XO (XO (XO (XI (XO (XI XH))))))) :: ((Npos (XI (XO
    (XI (XO (XO (XI XH))))))) :: ((Npos (XI (XI (XO (XO (XI (XI
    XH))))))) :: [])))))))

(** val k_message : text **)

let k_message =
  (Npos (XI (XO (XI (XI (XO (XI XH))))))) :: ((Npos (XI (XO (XI (XO (XO (XI
    XH))))))) :: ((Npos (XI (XI (XO (XO (XI (XI XH))))))) :: ((Npos (XI (XI
    (XO (XO (XI (XI XH))))))) :: ((Npos (XI (XO (XO (XO (XO (XI
    XH))))))) :: ((Npos (XI (XI (XI (XO (XO (XI XH))))))) :: ((Npos (XI (XO
    (XI (XO (XO (XI XH))))))) :: []))))))

(** val k_synthetic : text **)

let k_synthetic =
  (Npos (XI (XI (XO (XO (XI (XI XH))))))) :: ((Npos (XI (XO (XO (XI (XI (XI
    XH))))))) :: ((Npos (XO (XI (XI (XI (XO (XI XH))))))) :: ((Npos (XO (XO
    (XI (XO (XI (XI XH))))))) :: ((Npos (XO (XO (XO (XI (XO (XI
    XH))))))) :: ((Npos (XI (XO (XI (XO (XO (XI XH))))))) :: ((Npos (XO (XO
    (XI (XO (XI (XI XH))))))) :: ((Npos (XI (XO (XO (XI (XO (XI
    XH))))))) :: ((Npos (XI (XI (XO (XO (XO (XI XH))))))) :: []))))))))

(** val k_author : text **)

let k_author =
  (Npos (XI (XO (XO (XO (XO (XI XH))))))) :: ((Npos (XI (XO (XI (XO (XI (XI
    XH))))))) :: ((Npos (XO (XO (XI (XO (XI (XI XH))))))) :: ((Npos (XO (XO
    (XO (XI (XO (XI XH))))))) :: ((Npos (XI (XI (XI (XI (XO (XI
    XH))))))) :: ((Npos (XO (XI (XO (XO (XI (XI XH))))))) :: [])))))

(** val k_raw_manifest : text **)

let k_raw_manifest =
  (Npos (XO (XI (XO (XO (XI (XI XH))))))) :: ((Npos (XI (XO (XO (XO (XO (XI
    XH))))))) :: ((Npos (XI (XI (XI (XO (XI (XI XH))))))) :: ((Npos (XI (XI
    (XI (XI (XI (XO XH))))))) :: ((Npos (XI (XO (XI (XI (XO (XI
    XH))))))) :: ((Npos (XI (XO (XO (XO (XO (XI XH))))))) :: ((Npos (XO (XI
    (XI (XI (XO (XI XH))))))) :: ((Npos (XI (XO (XO (XI (XO (XI
    XH))))))) :: ((Npos (XO (XI (XI (XO (XO (XI XH))))))) :: ((Npos (XI (XO
    (XI (XO (XO (XI XH))))))) :: ((Npos (XI (XI (XO (XO (XI (XI
    XH))))))) :: ((Npos (XO (XO (XI (XO (XI (XI XH))))))) :: [])))))))))))

(** val k_committer : text **)

let k_committer =
  (Npos (XI (XI (XO (XO (XO (XI XH))))))) :: ((Npos (XI (XI (XI (XI (XO (XI
    XH))))))) :: ((Npos (XI (XO (XI (XI (XO (XI XH))))))) :: ((Npos (XI (XO
    (XI (XI (XO (XI XH))))))) :: ((Npos (XI (XO (XO (XI (XO (XI
    XH))))))) :: ((Npos (XO (XO (XI (XO (XI (XI XH))))))) :: ((Npos (XO (XO
    (XI (XO (XI (XI XH))))))) :: ((Npos (XI (XO (XI (XO (XO (XI
    XH))))))) :: ((Npos (XO (XI (XO (XO (XI (XI XH))))))) :: []))))))))

(** val k_committer_date : text **)

let k_committer_date =
  (Npos (XI (XI (XO (XO (XO (XI XH))))))) :: ((Npos (XI (XI (XI (XI (XO (XI
    XH))))))) :: ((Npos (XI (XO (XI (XI (XO (XI XH))))))) :: ((Npos (XI (XO
    (XI (XI (XO (XI XH))))))) :: ((Npos (XI (XO (XO (XI (XO (XI
    XH))))))) :: ((Npos (XO (XO (XI (XO (XI (XI XH))))))) :: ((Npos (XO (XO
    (XI (XO (XI (XI XH))))))) :: ((Npos (XI (XO (XI (XO (XO (XI
    XH))))))) :: ((Npos (XO (XI (XO (XO (XI (XI XH))))))) :: ((Npos (XI (XI
    (XI (XI (XI (XO XH))))))) :: ((Npos (XO (XO (XI (XO (XO (XI
    XH))))))) :: ((Npos (XI (XO (XO (XO (XO (XI XH))))))) :: ((Npos (XO (XO
    (XI (XO (XI (XI XH))))))) :: ((Npos (XI (XO (XI (XO (XO (XI
    XH))))))) :: [])))))))))))))

(** val k_directory : text **)

let k_directory =
  (Npos (XO (XO (XI (XO (XO (XI XH))))))) :: ((Npos (XI (XO (XO (XI (XO (XI
    XH))))))) :: ((Npos (XO (XI (XO (XO (XI (XI XH))))))) :: ((Npos (XI (XO
    (XI (XO (XO (XI XH))))))) :: ((Npos (XI (XI (XO (XO (XO (XI
    XH))))))) :: ((Npos (XO (XO (XI (XO (XI (XI XH))))))) :: ((Npos (XI (XI
    (XI (XI (XO (XI XH))))))) :: ((Npos (XO (XI (XO (XO (XI (XI
    XH))))))) :: ((Npos (XI (XO (XO (XI (XI (XI XH))))))) :: []))))))))

(** val k_parents : text **)

let k_parents =
  (Npos (XO (XO (XO (XO (XI (XI XH))))))) :: ((Npos (XI (XO (XO (XO (XO (XI
    XH))))))) :: ((Npos (XO (XI (XO (XO (XI (XI XH))))))) :: ((Npos (XI (XO
    (XI (XO (XO (XI XH))))))) :: ((Npos (XO (XI (XI (XI (XO (XI
    XH))))))) :: ((Npos (XO (XO (XI (XO (XI (XI XH))))))) :: ((Npos (XI (XI
    (XO (XO (XI (XI XH))))))) :: []))))))

(** val k_extra_headers : text **)

let k_extra_headers =
  (Npos (XI (XO (XI (XO (XO (XI XH))))))) :: ((Npos (XO (XO (XO (XI (XI (XI
    XH))))))) :: ((Npos (XO (XO (XI (XO (XI (XI XH))))))) :: ((Npos (XO (XI
    (XO (XO (XI (XI XH))))))) :: ((Npos (XI (XO (XO (XO (XO (XI
    XH))))))) :: ((Npos (XI (XI (XI (XI (XI (XO XH))))))) :: ((Npos (XO (XO
    (XO (XI (XO (XI XH))))))) :: ((Npos (XI (XO (XI (XO (XO (XI
    XH))))))) :: ((Npos (XI (XO (XO (XO (XO (XI XH))))))) :: ((Npos (XO (XO
    (XI (XO (XO (XI XH))))))) :: ((Npos (XI (XO (XI (XO (XO (XI
    XH))))))) :: ((Npos (XO (XI (XO (XO (XI (XI XH))))))) :: ((Npos (XI (XI
    (XO (XO (XI (XI XH))))))) :: []))))))))))))

(** val k_perms : text **)

let k_perms =
  (Npos (XO (XO (XO (XO (XI (XI XH))))))) :: ((Npos (XI (XO (XI (XO (XO (XI
    XH))))))) :: ((Npos (XO (XI (XO (XO (XI (XI XH))))))) :: ((Npos (XI (XO
    (XI (XI (XO (XI XH))))))) :: ((Npos (XI (XI (XO (XO (XI (XI
    XH))))))) :: []))))

(** val k_entries : text **)

let k_entries =
  (Npos (XI (XO (XI (XO (XO (XI XH))))))) :: ((Npos (XO (XI (XI (XI (XO (XI
    XH))))))) :: ((Npos (XO (XO (XI (XO (XI (XI XH))))))) :: ((Npos (XO (XI
    (XO (XO (XI (XI XH))))))) :: ((Npos (XI (XO (XO (XI (XO (XI
    XH))))))) :: ((Npos (XI (XO (XI (XO (XO (XI XH))))))) :: ((Npos (XI (XI
    (XO (XO (XI (XI XH))))))) :: []))))))

(** val k_sha1 : text **)

let k_sha1 =
  (Npos (XI (XI (XO (XO (XI (XI XH))))))) :: ((Npos (XO (XO (XO (XI (XO (XI
    XH))))))) :: ((Npos (XI (XO (XO (XO (XO (XI XH))))))) :: ((Npos (XI (XO
    (XO (XO (XI XH)))))) :: [])))

(** val k_sha1_git : text **)

let k_sha1_git =
  (Npos (XI (XI (XO (XO (XI (XI XH))))))) :: ((Npos (XO (XO (XO (XI (XO (XI
    XH))))))) :: ((Npos (XI (XO (XO (XO (XO (XI XH))))))) :: ((Npos (XI (XO
    (XO (XO (XI XH)))))) :: ((Npos (XI (XI (XI (XI (XI (XO
    XH))))))) :: ((Npos (XI (XI (XI (XO (XO (XI XH))))))) :: ((Npos (XI (XO
    (XO (XI (XO (XI XH))))))) :: ((Npos (XO (XO (XI (XO (XI (XI
    XH))))))) :: [])))))))

(** val k_sha256 : text **)

let k_sha256 =
  (Npos (XI (XI (XO (XO (XI (XI XH))))))) :: ((Npos (XO (XO (XO (XI (XO (XI
    XH))))))) :: ((Npos (XI (XO (XO (XO (XO (XI XH))))))) :: ((Npos (XO (XI
    (XO (XO (XI XH)))))) :: ((Npos (XI (XO (XI (XO (XI XH)))))) :: ((Npos (XO
    (XI (XI (XO (XI XH)))))) :: [])))))

(** val k_blake2s256 : text **)

let k_blake2s256 =
  (Npos (XO (XI (XO (XO (XO (XI XH))))))) :: ((Npos (XO (XO (XI (XI (XO (XI
    XH))))))) :: ((Npos (XI (XO (XO (XO (XO (XI XH))))))) :: ((Npos (XI (XI
    (XO (XI (XO (XI XH))))))) :: ((Npos (XI (XO (XI (XO (XO (XI
    XH))))))) :: ((Npos (XO (XI (XO (XO (XI XH)))))) :: ((Npos (XI (XI (XO
    (XO (XI (XI XH))))))) :: ((Npos (XO (XI (XO (XO (XI XH)))))) :: ((Npos
    (XI (XO (XI (XO (XI XH)))))) :: ((Npos (XO (XI (XI (XO (XI
    XH)))))) :: [])))))))))

(** val k_length : text **)

let k_length =
  (Npos (XO (XO (XI (XI (XO (XI XH))))))) :: ((Npos (XI (XO (XI (XO (XO (XI
    XH))))))) :: ((Npos (XO (XI (XI (XI (XO (XI XH))))))) :: ((Npos (XI (XI
    (XI (XO (XO (XI XH))))))) :: ((Npos (XO (XO (XI (XO (XI (XI
    XH))))))) :: ((Npos (XO (XO (XO (XI (XO (XI XH))))))) :: [])))))

(** val k_data : text **)

let k_data =
  (Npos (XO (XO (XI (XO (XO (XI XH))))))) :: ((Npos (XI (XO (XO (XO (XO (XI
    XH))))))) :: ((Npos (XO (XO (XI (XO (XI (XI XH))))))) :: ((Npos (XI (XO
    (XO (XO (XO (XI XH))))))) :: [])))

(** val k_get_data : text **)

let k_get_data =
  (Npos (XI (XI (XI (XO (XO (XI XH))))))) :: ((Npos (XI (XO (XI (XO (XO (XI
    XH))))))) :: ((Npos (XO (XO (XI (XO (XI (XI XH))))))) :: ((Npos (XI (XI
    (XI (XI (XI (XO XH))))))) :: ((Npos (XO (XO (XI (XO (XO (XI
    XH))))))) :: ((Npos (XI (XO (XO (XO (XO (XI XH))))))) :: ((Npos (XO (XO
    (XI (XO (XI (XI XH))))))) :: ((Npos (XI (XO (XO (XO (XO (XI
    XH))))))) :: [])))))))

(** val k_ctime : text **)

let k_ctime =
  (Npos (XI (XI (XO (XO (XO (XI XH))))))) :: ((Npos (XO (XO (XI (XO (XI (XI
    XH))))))) :: ((Npos (XI (XO (XO (XI (XO (XI XH))))))) :: ((Npos (XI (XO
    (XI (XI (XO (XI XH))))))) :: ((Npos (XI (XO (XI (XO (XO (XI
    XH))))))) :: []))))

(** val k_reason : text **)

let k_reason =
  (Npos (XO (XI (XO (XO (XI (XI XH))))))) :: ((Npos (XI (XO (XI (XO (XO (XI
    XH))))))) :: ((Npos (XI (XO (XO (XO (XO (XI XH))))))) :: ((Npos (XI (XI
    (XO (XO (XI (XI XH))))))) :: ((Npos (XI (XI (XI (XI (XO (XI
    XH))))))) :: ((Npos (XO (XI (XI (XI (XO (XI XH))))))) :: [])))))

(** val k_version : text **)

let k_version =
  (Npos (XO (XI (XI (XO (XI (XI XH))))))) :: ((Npos (XI (XO (XI (XO (XO (XI
    XH))))))) :: ((Npos (XO (XI (XO (XO (XI (XI XH))))))) :: ((Npos (XI (XI
    (XO (XO (XI (XI XH))))))) :: ((Npos (XI (XO (XO (XI (XO (XI
    XH))))))) :: ((Npos (XI (XI (XI (XI (XO (XI XH))))))) :: ((Npos (XO (XI
    (XI (XI (XO (XI XH))))))) :: []))))))

(** val k_discovery_date : text **)

let k_discovery_date =
  (Npos (XO (XO (XI (XO (XO (XI XH))))))) :: ((Npos (XI (XO (XO (XI (XO (XI
    XH))))))) :: ((Npos (XI (XI (XO (XO (XI (XI XH))))))) :: ((Npos (XI (XI
    (XO (XO (XO (XI XH))))))) :: ((Npos (XI (XI (XI (XI (XO (XI
    XH))))))) :: ((Npos (XO (XI (XI (XO (XI (XI XH))))))) :: ((Npos (XI (XO
    (XI (XO (XO (XI XH))))))) :: ((Npos (XO (XI (XO (XO (XI (XI
    XH))))))) :: ((Npos (XI (XO (XO (XI (XI (XI XH))))))) :: ((Npos (XI (XI
    (XI (XI (XI (XO XH))))))) :: ((Npos (XO (XO (XI (XO (XO (XI
    XH))))))) :: ((Npos (XI (XO (XO (XO (XO (XI XH))))))) :: ((Npos (XO (XO
    (XI (XO (XI (XI XH))))))) :: ((Npos (XI (XO (XI (XO (XO (XI
    XH))))))) :: [])))))))))))))

(** val k_authority : text **)

let k_authority =
  (Npos (XI (XO (XO (XO (XO (XI XH))))))) :: ((Npos (XI (XO (XI (XO (XI (XI
    XH))))))) :: ((Npos (XO (XO (XI (XO (XI (XI XH))))))) :: ((Npos (XO (XO
    (XO (XI (XO (XI XH))))))) :: ((Npos (XI (XI (XI (XI (XO (XI
    XH))))))) :: ((Npos (XO (XI (XO (XO (XI (XI XH))))))) :: ((Npos (XI (XO
    (XO (XI (XO (XI XH))))))) :: ((Npos (XO (XO (XI (XO (XI (XI
    XH))))))) :: ((Npos (XI (XO (XO (XI (XI (XI XH))))))) :: []))))))))

(** val k_fetcher : text **)

let k_fetcher =
  (Npos (XO (XI (XI (XO (XO (XI XH))))))) :: ((Npos (XI (XO (XI (XO (XO (XI
    XH))))))) :: ((Npos (XO (XO (XI (XO (XI (XI XH))))))) :: ((Npos (XI (XI
    (XO (XO (XO (XI XH))))))) :: ((Npos (XO (XO (XO (XI (XO (XI
    XH))))))) :: ((Npos (XI (XO (XI (XO (XO (XI XH))))))) :: ((Npos (XO (XI
    (XO (XO (XI (XI XH))))))) :: []))))))

(** val k_format : text **)

let k_format =
  (Npos (XO (XI (XI (XO (XO (XI XH))))))) :: ((Npos (XI (XI (XI (XI (XO (XI
    XH))))))) :: ((Npos (XO (XI (XO (XO (XI (XI XH))))))) :: ((Npos (XI (XO
    (XI (XI (XO (XI XH))))))) :: ((Npos (XI (XO (XO (XO (XO (XI
    XH))))))) :: ((Npos (XO (XO (XI (XO (XI (XI XH))))))) :: [])))))

(** val k_release : text **)

let k_release =
  (Npos (XO (XI (XO (XO (XI (XI XH))))))) :: ((Npos (XI (XO (XI (XO (XO (XI
    XH))))))) :: ((Npos (XO (XO (XI (XI (XO (XI XH))))))) :: ((Npos (XI (XO
    (XI (XO (XO (XI XH))))))) :: ((Npos (XI (XO (XO (XO (XO (XI
    XH))))))) :: ((Npos (XI (XI (XO (XO (XI (XI XH))))))) :: ((Npos (XI (XO
    (XI (XO (XO (XI XH))))))) :: []))))))

(** val k_revision : text **)

let k_revision =
  (Npos (XO (XI (XO (XO (XI (XI XH))))))) :: ((Npos (XI (XO (XI (XO (XO (XI
    XH))))))) :: ((Npos (XO (XI (XI (XO (XI (XI XH))))))) :: ((Npos (XI (XO
    (XO (XI (XO (XI XH))))))) :: ((Npos (XI (XI (XO (XO (XI (XI
    XH))))))) :: ((Npos (XI (XO (XO (XI (XO (XI XH))))))) :: ((Npos (XI (XI
    (XI (XI (XO (XI XH))))))) :: ((Npos (XO (XI (XI (XI (XO (XI
    XH))))))) :: [])))))))

(** val k_path : text **)

let k_path =
  (Npos (XO (XO (XO (XO (XI (XI XH))))))) :: ((Npos (XI (XO (XO (XO (XO (XI
    XH))))))) :: ((Npos (XO (XO (XI (XO (XI (XI XH))))))) :: ((Npos (XO (XO
    (XO (XI (XO (XI XH))))))) :: [])))

(** val k_extid_type : text **)

let k_extid_type =
  (Npos (XI (XO (XI (XO (XO (XI XH))))))) :: ((Npos (XO (XO (XO (XI (XI (XI
    XH))))))) :: ((Npos (XO (XO (XI (XO (XI (XI XH))))))) :: ((Npos (XI (XO
    (XO (XI (XO (XI XH))))))) :: ((Npos (XO (XO (XI (XO (XO (XI
    XH))))))) :: ((Npos (XI (XI (XI (XI (XI (XO XH))))))) :: ((Npos (XO (XO
    (XI (XO (XI (XI XH))))))) :: ((Npos (XI (XO (XO (XI (XI (XI
    XH))))))) :: ((Npos (XO (XO (XO (XO (XI (XI XH))))))) :: ((Npos (XI (XO
    (XI (XO (XO (XI XH))))))) :: [])))))))))

(** val k_extid : text **)

let k_extid =
  (Npos (XI (XO (XI (XO (XO (XI XH))))))) :: ((Npos (XO (XO (XO (XI (XI (XI
    XH))))))) :: ((Npos (XO (XO (XI (XO (XI (XI XH))))))) :: ((Npos (XI (XO
    (XO (XI (XO (XI XH))))))) :: ((Npos (XO (XO (XI (XO (XO (XI
    XH))))))) :: []))))

(** val k_extid_version : text **)

let k_extid_version =
  (Npos (XI (XO (XI (XO (XO (XI XH))))))) :: ((Npos (XO (XO (XO (XI (XI (XI
    XH))))))) :: ((Npos (XO (XO (XI (XO (XI (XI XH))))))) :: ((Npos (XI (XO
    (XO (XI (XO (XI XH))))))) :: ((Npos (XO (XO (XI (XO (XO (XI
    XH))))))) :: ((Npos (XI (XI (XI (XI (XI (XO XH))))))) :: ((Npos (XO (XI
    (XI (XO (XI (XI XH))))))) :: ((Npos (XI (XO (XI (XO (XO (XI
    XH))))))) :: ((Npos (XO (XI (XO (XO (XI (XI XH))))))) :: ((Npos (XI (XI
    (XO (XO (XI (XI XH))))))) :: ((Npos (XI (XO (XO (XI (XO (XI
    XH))))))) :: ((Npos (XI (XI (XI (XI (XO (XI XH))))))) :: ((Npos (XO (XI
    (XI (XI (XO (XI XH))))))) :: []))))))))))))

(** val k_payload_type : text **)

let k_payload_type =
  (Npos (XO (XO (XO (XO (XI (XI XH))))))) :: ((Npos (XI (XO (XO (XO (XO (XI
    XH))))))) :: ((Npos (XI (XO (XO (XI (XI (XI XH))))))) :: ((Npos (XO (XO
    (XI (XI (XO (XI XH))))))) :: ((Npos (XI (XI (XI (XI (XO (XI
    XH))))))) :: ((Npos (XI (XO (XO (XO (XO (XI XH))))))) :: ((Npos (XO (XO
    (XI (XO (XO (XI XH))))))) :: ((Npos (XI (XI (XI (XI (XI (XO
    XH))))))) :: ((Npos (XO (XO (XI (XO (XI (XI XH))))))) :: ((Npos (XI (XO
    (XO (XI (XI (XI XH))))))) :: ((Npos (XO (XO (XO (XO (XI (XI
    XH))))))) :: ((Npos (XI (XO (XI (XO (XO (XI XH))))))) :: [])))))))))))

(** val k_payload : text **)

let k_payload =
  (Npos (XO (XO (XO (XO (XI (XI XH))))))) :: ((Npos (XI (XO (XO (XO (XO (XI
    XH))))))) :: ((Npos (XI (XO (XO (XI (XI (XI XH))))))) :: ((Npos (XO (XO
    (XI (XI (XO (XI XH))))))) :: ((Npos (XI (XI (XI (XI (XO (XI
    XH))))))) :: ((Npos (XI (XO (XO (XO (XO (XI XH))))))) :: ((Npos (XO (XO
    (XI (XO (XO (XI XH))))))) :: []))))))

(** val s_visible : text **)

let s_visible =
  (Npos (XO (XI (XI (XO (XI (XI XH))))))) :: ((Npos (XI (XO (XO (XI (XO (XI
    XH))))))) :: ((Npos (XI (XI (XO (XO (XI (XI XH))))))) :: ((Npos (XI (XO
    (XO (XI (XO (XI XH))))))) :: ((Npos (XO (XI (XO (XO (XO (XI
    XH))))))) :: ((Npos (XO (XO (XI (XI (XO (XI XH))))))) :: ((Npos (XI (XO
    (XI (XO (XO (XI XH))))))) :: []))))))

(** val s_hidden : text **)

let s_hidden =
  (Npos (XO (XO (XO (XI (XO (XI XH))))))) :: ((Npos (XI (XO (XO (XI (XO (XI
    XH))))))) :: ((Npos (XO (XO (XI (XO (XO (XI XH))))))) :: ((Npos (XO (XO
    (XI (XO (XO (XI XH))))))) :: ((Npos (XI (XO (XI (XO (XO (XI
    XH))))))) :: ((Npos (XO (XI (XI (XI (XO (XI XH))))))) :: [])))))

(** val s_absent : text **)

let s_absent =
  (Npos (XI (XO (XO (XO (XO (XI XH))))))) :: ((Npos (XO (XI (XO (XO (XO (XI
    XH))))))) :: ((Npos (XI (XI (XO (XO (XI (XI XH))))))) :: ((Npos (XI (XO
    (XI (XO (XO (XI XH))))))) :: ((Npos (XO (XI (XI (XI (XO (XI
    XH))))))) :: ((Npos (XO (XO (XI (XO (XI (XI XH))))))) :: [])))))

(** val s_alias : text **)

let s_alias =
  (Npos (XI (XO (XO (XO (XO (XI XH))))))) :: ((Npos (XO (XO (XI (XI (XO (XI
    XH))))))) :: ((Npos (XI (XO (XO (XI (XO (XI XH))))))) :: ((Npos (XI (XO
    (XO (XO (XO (XI XH))))))) :: ((Npos (XI (XI (XO (XO (XI (XI
    XH))))))) :: []))))

(** val s_origin : text **)

let s_origin =
  (Npos (XI (XI (XI (XI (XO (XI XH))))))) :: ((Npos (XO (XI (XO (XO (XI (XI
    XH))))))) :: ((Npos (XI (XO (XO (XI (XO (XI XH))))))) :: ((Npos (XI (XI
    (XI (XO (XO (XI XH))))))) :: ((Npos (XI (XO (XO (XI (XO (XI
    XH))))))) :: ((Npos (XO (XI (XI (XI (XO (XI XH))))))) :: [])))))

(** val s_file : text **)

let s_file =
  (Npos (XO (XI (XI (XO (XO (XI XH))))))) :: ((Npos (XI (XO (XO (XI (XO (XI
    XH))))))) :: ((Npos (XO (XO (XI (XI (XO (XI XH))))))) :: ((Npos (XI (XO
    (XI (XO (XO (XI XH))))))) :: [])))

(** val s_dir : text **)

let s_dir =
  (Npos (XO (XO (XI (XO (XO (XI XH))))))) :: ((Npos (XI (XO (XO (XI (XO (XI
    XH))))))) :: ((Npos (XO (XI (XO (XO (XI (XI XH))))))) :: []))

(** val s_rev : text **)

let s_rev =
  (Npos (XO (XI (XO (XO (XI (XI XH))))))) :: ((Npos (XI (XO (XI (XO (XO (XI
    XH))))))) :: ((Npos (XO (XI (XI (XO (XI (XI XH))))))) :: []))

(** val s_swh_colon : text **)

let s_swh_colon =
  (Npos (XI (XI (XO (XO (XI (XI XH))))))) :: ((Npos (XI (XI (XI (XO (XI (XI
    XH))))))) :: ((Npos (XO (XO (XO (XI (XO (XI XH))))))) :: ((Npos (XO (XI
    (XO (XI (XI XH)))))) :: [])))

(** val t_snp : text **)

let t_snp =
  (Npos (XI (XI (XO (XO (XI (XI XH))))))) :: ((Npos (XO (XI (XI (XI (XO (XI
    XH))))))) :: ((Npos (XO (XO (XO (XO (XI (XI XH))))))) :: []))

(** val t_rel : text **)

let t_rel =
  (Npos (XO (XI (XO (XO (XI (XI XH))))))) :: ((Npos (XI (XO (XI (XO (XO (XI
    XH))))))) :: ((Npos (XO (XO (XI (XI (XO (XI XH))))))) :: []))

(** val t_rev : text **)

let t_rev =
  (Npos (XO (XI (XO (XO (XI (XI XH))))))) :: ((Npos (XI (XO (XI (XO (XO (XI
    XH))))))) :: ((Npos (XO (XI (XI (XO (XI (XI XH))))))) :: []))

(** val t_dir : text **)

let t_dir =
  (Npos (XO (XO (XI (XO (XO (XI XH))))))) :: ((Npos (XI (XO (XO (XI (XO (XI
    XH))))))) :: ((Npos (XO (XI (XO (XO (XI (XI XH))))))) :: []))

(** val t_cnt : text **)

let t_cnt =
  (Npos (XI (XI (XO (XO (XO (XI XH))))))) :: ((Npos (XO (XI (XI (XI (XO (XI
    XH))))))) :: ((Npos (XO (XO (XI (XO (XI (XI XH))))))) :: []))

(** val t_ori : text **)

let t_ori =
  (Npos (XI (XI (XI (XI (XO (XI XH))))))) :: ((Npos (XO (XI (XO (XO (XI (XI
    XH))))))) :: ((Npos (XI (XO (XO (XI (XO (XI XH))))))) :: []))

(** val visit_statuses : text list **)

let visit_statuses =
  ((Npos (XI (XI (XO (XO (XO (XI XH))))))) :: ((Npos (XO (XI (XO (XO (XI (XI
    XH))))))) :: ((Npos (XI (XO (XI (XO (XO (XI XH))))))) :: ((Npos (XI (XO
    (XO (XO (XO (XI XH))))))) :: ((Npos (XO (XO (XI (XO (XI (XI
    XH))))))) :: ((Npos (XI (XO (XI (XO (XO (XI XH))))))) :: ((Npos (XO (XO
    (XI (XO (XO (XI XH))))))) :: []))))))) :: (((Npos (XI (XI (XI (XI (XO (XI
    XH))))))) :: ((Npos (XO (XI (XI (XI (XO (XI XH))))))) :: ((Npos (XI (XI
    (XI (XO (XO (XI XH))))))) :: ((Npos (XI (XI (XI (XI (XO (XI
    XH))))))) :: ((Npos (XI (XO (XO (XI (XO (XI XH))))))) :: ((Npos (XO (XI
    (XI (XI (XO (XI XH))))))) :: ((Npos (XI (XI (XI (XO (XO (XI
    XH))))))) :: []))))))) :: (((Npos (XO (XI (XI (XO (XO (XI
    XH))))))) :: ((Npos (XI (XO (XI (XO (XI (XI XH))))))) :: ((Npos (XO (XO
    (XI (XI (XO (XI XH))))))) :: ((Npos (XO (XO (XI (XI (XO (XI
    XH))))))) :: [])))) :: (((Npos (XO (XO (XO (XO (XI (XI
    XH))))))) :: ((Npos (XI (XO (XO (XO (XO (XI XH))))))) :: ((Npos (XO (XI
    (XO (XO (XI (XI XH))))))) :: ((Npos (XO (XO (XI (XO (XI (XI
    XH))))))) :: ((Npos (XI (XO (XO (XI (XO (XI XH))))))) :: ((Npos (XI (XO
    (XO (XO (XO (XI XH))))))) :: ((Npos (XO (XO (XI (XI (XO (XI
    XH))))))) :: []))))))) :: (((Npos (XO (XI (XI (XI (XO (XI
    XH))))))) :: ((Npos (XI (XI (XI (XI (XO (XI XH))))))) :: ((Npos (XO (XO
    (XI (XO (XI (XI XH))))))) :: ((Npos (XI (XI (XI (XI (XI (XO
    XH))))))) :: ((Npos (XO (XI (XI (XO (XO (XI XH))))))) :: ((Npos (XI (XI
    (XI (XI (XO (XI XH))))))) :: ((Npos (XI (XO (XI (XO (XI (XI
    XH))))))) :: ((Npos (XO (XI (XI (XI (XO (XI XH))))))) :: ((Npos (XO (XO
    (XI (XO (XO (XI XH))))))) :: []))))))))) :: (((Npos (XO (XI (XI (XO (XO
    (XI XH))))))) :: ((Npos (XI (XO (XO (XO (XO (XI XH))))))) :: ((Npos (XI
    (XO (XO (XI (XO (XI XH))))))) :: ((Npos (XO (XO (XI (XI (XO (XI
    XH))))))) :: ((Npos (XI (XO (XI (XO (XO (XI XH))))))) :: ((Npos (XO (XO
    (XI (XO (XO (XI XH))))))) :: [])))))) :: [])))))

(** val revision_types : text list **)

let revision_types =
  ((Npos (XI (XI (XI (XO (XO (XI XH))))))) :: ((Npos (XI (XO (XO (XI (XO (XI
    XH))))))) :: ((Npos (XO (XO (XI (XO (XI (XI XH))))))) :: []))) :: (((Npos
    (XO (XO (XI (XO (XI (XI XH))))))) :: ((Npos (XI (XO (XO (XO (XO (XI
    XH))))))) :: ((Npos (XO (XI (XO (XO (XI (XI XH))))))) :: []))) :: (((Npos
    (XO (XO (XI (XO (XO (XI XH))))))) :: ((Npos (XI (XI (XO (XO (XI (XI
    XH))))))) :: ((Npos (XI (XI (XO (XO (XO (XI XH))))))) :: []))) :: (((Npos
    (XI (XI (XO (XO (XI (XI XH))))))) :: ((Npos (XO (XI (XI (XO (XI (XI
    XH))))))) :: ((Npos (XO (XI (XI (XI (XO (XI XH))))))) :: []))) :: (((Npos
    (XO (XO (XO (XI (XO (XI XH))))))) :: ((Npos (XI (XI (XI (XO (XO (XI
    XH))))))) :: [])) :: (((Npos (XI (XI (XO (XO (XO (XI XH))))))) :: ((Npos
    (XO (XI (XI (XO (XI (XI XH))))))) :: ((Npos (XI (XI (XO (XO (XI (XI
    XH))))))) :: []))) :: (((Npos (XO (XI (XO (XO (XO (XI XH))))))) :: ((Npos
    (XO (XI (XO (XI (XI (XI XH))))))) :: ((Npos (XO (XI (XO (XO (XI (XI
    XH))))))) :: []))) :: []))))))

(** val authority_types : text list **)

let authority_types =
  ((Npos (XO (XO (XI (XO (XO (XI XH))))))) :: ((Npos (XI (XO (XI (XO (XO (XI
    XH))))))) :: ((Npos (XO (XO (XO (XO (XI (XI XH))))))) :: ((Npos (XI (XI
    (XI (XI (XO (XI XH))))))) :: ((Npos (XI (XI (XO (XO (XI (XI
    XH))))))) :: ((Npos (XI (XO (XO (XI (XO (XI XH))))))) :: ((Npos (XO (XO
    (XI (XO (XI (XI XH))))))) :: ((Npos (XI (XI (XI (XI (XI (XO
    XH))))))) :: ((Npos (XI (XI (XO (XO (XO (XI XH))))))) :: ((Npos (XO (XO
    (XI (XI (XO (XI XH))))))) :: ((Npos (XI (XO (XO (XI (XO (XI
    XH))))))) :: ((Npos (XI (XO (XI (XO (XO (XI XH))))))) :: ((Npos (XO (XI
    (XI (XI (XO (XI XH))))))) :: ((Npos (XO (XO (XI (XO (XI (XI
    XH))))))) :: [])))))))))))))) :: (((Npos (XO (XI (XI (XO (XO (XI
    XH))))))) :: ((Npos (XI (XI (XI (XI (XO (XI XH))))))) :: ((Npos (XO (XI
    (XO (XO (XI (XI XH))))))) :: ((Npos (XI (XI (XI (XO (XO (XI
    XH))))))) :: ((Npos (XI (XO (XI (XO (XO (XI
    XH))))))) :: []))))) :: (((Npos (XO (XI (XO (XO (XI (XI
    XH))))))) :: ((Npos (XI (XO (XI (XO (XO (XI XH))))))) :: ((Npos (XI (XI
    (XI (XO (XO (XI XH))))))) :: ((Npos (XI (XO (XO (XI (XO (XI
    XH))))))) :: ((Npos (XI (XI (XO (XO (XI (XI XH))))))) :: ((Npos (XO (XO
    (XI (XO (XI (XI XH))))))) :: ((Npos (XO (XI (XO (XO (XI (XI
    XH))))))) :: ((Npos (XI (XO (XO (XI (XI (XI
    XH))))))) :: [])))))))) :: []))

(** val members : enum_ty -> text list **)

let members = function
| ESnapshotTarget -> sNAPSHOT_TARGET_TYPES
| EReleaseTarget -> map fst rELEASE_TARGET_TO_GIT
| ERevisionType -> revision_types
| EAuthorityType -> authority_types

(** val swhid_tags : swhid_kind -> text list **)

let swhid_tags = function
| Core -> sWHID_TYPES
| Extended -> eXTENDED_SWHID_TYPES

(** val is_key : text -> pyval -> bool **)

let is_key k = function
| VStr s -> beqb k s
| _ -> false

(** val dget : text -> dict -> pyval option **)

let rec dget k = function
| [] -> None
| p0 :: r -> let (p, v) = p0 in if is_key k p then Some v else dget k r

(** val ddel : text -> dict -> dict **)

let ddel k d =
  filter (fun kv -> negb (is_key k (fst kv))) d

(** val dset : text -> pyval -> dict -> dict **)

let rec dset k v = function
| [] -> ((VStr k), v) :: []
| p0 :: r ->
  let (p, x) = p0 in
  if is_key k p then (p, v) :: r else (p, x) :: (dset k v r)

(** val fget : text -> fields -> pyval **)

let rec fget k = function
| [] -> VNone
| p :: r -> let (n0, v) = p in if beqb k n0 then v else fget k r

(** val fset : text -> pyval -> fields -> fields **)

let rec fset k v = function
| [] -> []
| p :: r ->
  let (n0, x) = p in
  if beqb k n0 then (n0, v) :: r else (n0, x) :: (fset k v r)

(** val fdel : text -> fields -> fields **)

let fdel k fs =
  filter (fun nv -> negb (beqb k (fst nv))) fs

(** val as_kwargs : fields -> dict **)

let as_kwargs fs =
  map (fun nv -> ((VStr (fst nv)), (snd nv))) fs

(** val is_none : pyval -> bool **)

let is_none = function
| VNone -> true
| _ -> false

(** val truthy : pyval -> bool **)

let truthy = function
| VNone -> false
| VBool b -> b
| VInt z0 -> negb (Z.eqb z0 Z0)
| VBytes b -> (match b with
               | [] -> false
               | _ :: _ -> true)
| VStr s -> (match s with
             | [] -> false
             | _ :: _ -> true)
| VTuple l -> (match l with
               | [] -> false
               | _ :: _ -> true)
| VList l -> (match l with
              | [] -> false
              | _ :: _ -> true)
| VDict l -> (match l with
              | [] -> false
              | _ :: _ -> true)
| VIDict l -> (match l with
               | [] -> false
               | _ :: _ -> true)
| _ -> true

type ty =
| TBytes
| TStr
| TInt
| TBool
| TDate
| TAny
| TObject
| TOpt of ty
| TTupleOf of ty
| TPairBytes
| TObj of cls
| TEnum of enum_ty
| TIDict of ty * ty
| TSwhid of swhid_kind
| TCallable

type conv =
| CNone
| CFreeze
| CTuplifyHeaders
| CInt
| CDiscoveryDate

type field = { fname : text; fty : ty; fdefault : pyval option; fconv : 
               conv; fgeneric : bool; felide : bool }

(** val fld : text -> ty -> field **)

let fld n0 t =
  { fname = n0; fty = t; fdefault = None; fconv = CNone; fgeneric = true;
    felide = false }

(** val fldc : text -> ty -> field **)

let fldc n0 t =
  { fname = n0; fty = t; fdefault = None; fconv = CNone; fgeneric = false;
    felide = false }

(** val opt : text -> ty -> pyval -> field **)

let opt n0 t d =
  { fname = n0; fty = t; fdefault = (Some d); fconv = CNone; fgeneric = true;
    felide = false }

(** val md_ty : ty **)

let md_ty =
  TOpt (TIDict (TStr, TObject))

(** val md_any : ty **)

let md_any =
  TOpt (TIDict (TStr, TAny))

(** val schema : cls -> field list **)

let schema = function
| CPerson ->
  (fld k_fullname TBytes) :: ((fld k_name (TOpt TBytes)) :: ((fld k_email
                                                               (TOpt TBytes)) :: []))
| CTimestamp -> (fldc k_seconds TInt) :: ((fldc k_microseconds TInt) :: [])
| CTimestampWithTimezone ->
  (fld k_timestamp (TObj CTimestamp)) :: ((fld k_offset_bytes TBytes) :: [])
| COrigin -> (fld k_url TStr) :: ((opt k_id TBytes (VBytes [])) :: [])
| COriginVisit ->
  (fld k_origin TStr) :: ((fldc k_date TDate) :: ((fld k_type TStr) :: ({ fname =
    k_visit; fty = (TOpt TInt); fdefault = (Some VNone); fconv = CNone;
    fgeneric = true; felide = true } :: [])))
| COriginVisitStatus ->
  (fld k_origin TStr) :: ((fld k_visit TInt) :: ((fldc k_date TDate) :: (
    (fldc k_status TStr) :: ((fld k_snapshot (TOpt TBytes)) :: ((opt k_type
                                                                  (TOpt TStr)
                                                                  VNone) :: ({ fname =
    k_metadata; fty = md_ty; fdefault = (Some VNone); fconv = CFreeze;
    fgeneric = true; felide = false } :: []))))))
| CSnapshotBranch ->
  (fldc k_target TBytes) :: ((fld k_target_type (TEnum ESnapshotTarget)) :: [])
| CSnapshot ->
  { fname = k_branches; fty = (TIDict (TBytes, (TOpt (TObj
    CSnapshotBranch)))); fdefault = None; fconv = CFreeze; fgeneric = true;
    felide = false } :: ((opt k_id TBytes (VBytes [])) :: [])
| CRelease ->
  (fld k_name TBytes) :: ((fld k_message (TOpt TBytes)) :: ((fld k_target
                                                              (TOpt TBytes)) :: (
    (fld k_target_type (TEnum EReleaseTarget)) :: ((fld k_synthetic TBool) :: (
    (opt k_author (TOpt (TObj CPerson)) VNone) :: ((opt k_date (TOpt (TObj
                                                     CTimestampWithTimezone))
                                                     VNone) :: ({ fname =
    k_metadata; fty = md_ty; fdefault = (Some VNone); fconv = CFreeze;
    fgeneric = true; felide =
    true } :: ((opt k_id TBytes (VBytes [])) :: ({ fname = k_raw_manifest;
    fty = (TOpt TBytes); fdefault = (Some VNone); fconv = CNone; fgeneric =
    false; felide = true } :: [])))))))))
| CRevision ->
  (fld k_message (TOpt TBytes)) :: ((fld k_author (TOpt (TObj CPerson))) :: (
    (fld k_committer (TOpt (TObj CPerson))) :: ((fld k_date (TOpt (TObj
                                                  CTimestampWithTimezone))) :: (
    (fld k_committer_date (TOpt (TObj CTimestampWithTimezone))) :: ((fld
                                                                    k_type
                                                                    (TEnum
                                                                    ERevisionType)) :: (
    (fld k_directory TBytes) :: ((fld k_synthetic TBool) :: ({ fname =
    k_metadata; fty = md_ty; fdefault = (Some VNone); fconv = CFreeze;
    fgeneric = true; felide =
    false } :: ((opt k_parents (TTupleOf TBytes) (VTuple [])) :: ((opt k_id
                                                                    TBytes
                                                                    (VBytes
                                                                    [])) :: ({ fname =
    k_extra_headers; fty = (TTupleOf TPairBytes); fdefault = (Some (VTuple
    [])); fconv = CTuplifyHeaders; fgeneric = true; felide =
    false } :: ({ fname = k_raw_manifest; fty = (TOpt TBytes); fdefault =
    (Some VNone); fconv = CNone; fgeneric = false; felide =
    true } :: []))))))))))))
| CDirectoryEntry ->
  (fldc k_name TBytes) :: ((fldc k_type TStr) :: ((fld k_target TBytes) :: ({ fname =
    k_perms; fty = TInt; fdefault = None; fconv = CInt; fgeneric = true;
    felide = false } :: [])))
| CDirectory ->
  (fld k_entries (TTupleOf (TObj CDirectoryEntry))) :: ((opt k_id TBytes
                                                          (VBytes [])) :: ({ fname =
    k_raw_manifest; fty = (TOpt TBytes); fdefault = (Some VNone); fconv =
    CNone; fgeneric = false; felide = true } :: []))
| CContent ->
  (fld k_sha1 TBytes) :: ((fld k_sha1_git TBytes) :: ((fld k_sha256 TBytes) :: (
    (fld k_blake2s256 TBytes) :: ((fldc k_length TInt) :: ({ fname =
    k_status; fty = TStr; fdefault = (Some (VStr s_visible)); fconv = CNone;
    fgeneric = false; felide = false } :: ({ fname = k_data; fty = (TOpt
    TBytes); fdefault = (Some VNone); fconv = CNone; fgeneric = true;
    felide = true } :: ({ fname = k_get_data; fty = (TOpt TCallable);
    fdefault = (Some VNone); fconv = CNone; fgeneric = false; felide =
    true } :: ({ fname = k_ctime; fty = (TOpt TDate); fdefault = (Some
    VNone); fconv = CNone; fgeneric = false; felide = true } :: []))))))))
| CSkippedContent ->
  (fld k_sha1 (TOpt TBytes)) :: ((fld k_sha1_git (TOpt TBytes)) :: ((fld
                                                                    k_sha256
                                                                    (TOpt
                                                                    TBytes)) :: (
    (fld k_blake2s256 (TOpt TBytes)) :: ((fldc k_length (TOpt TInt)) :: (
    (fldc k_status TStr) :: ({ fname = k_reason; fty = (TOpt TStr);
    fdefault = (Some VNone); fconv = CNone; fgeneric = false; felide =
    false } :: ({ fname = k_origin; fty = (TOpt TStr); fdefault = (Some
    VNone); fconv = CNone; fgeneric = true; felide = true } :: ({ fname =
    k_ctime; fty = (TOpt TDate); fdefault = (Some VNone); fconv = CNone;
    fgeneric = true; felide = true } :: []))))))))
| CMetadataAuthority ->
  (fld k_type (TEnum EAuthorityType)) :: ((fld k_url TStr) :: ({ fname =
    k_metadata; fty = md_any; fdefault = (Some VNone); fconv = CFreeze;
    fgeneric = true; felide = true } :: []))
| CMetadataFetcher ->
  (fld k_name TStr) :: ((fld k_version TStr) :: ({ fname = k_metadata; fty =
    md_any; fdefault = (Some VNone); fconv = CFreeze; fgeneric = true;
    felide = true } :: []))
| CRawExtrinsicMetadata ->
  (fld k_target (TSwhid Extended)) :: ({ fname = k_discovery_date; fty =
    TDate; fdefault = None; fconv = CDiscoveryDate; fgeneric = false;
    felide =
    false } :: ((fld k_authority (TObj CMetadataAuthority)) :: ((fld
                                                                  k_fetcher
                                                                  (TObj
                                                                  CMetadataFetcher)) :: (
    (fld k_format TStr) :: ((fld k_metadata TBytes) :: ({ fname = k_origin;
    fty = (TOpt TStr); fdefault = (Some VNone); fconv = CNone; fgeneric =
    true; felide = true } :: ({ fname = k_visit; fty = (TOpt TInt);
    fdefault = (Some VNone); fconv = CNone; fgeneric = false; felide =
    true } :: ({ fname = k_snapshot; fty = (TOpt (TSwhid Core)); fdefault =
    (Some VNone); fconv = CNone; fgeneric = false; felide =
    true } :: ({ fname = k_release; fty = (TOpt (TSwhid Core)); fdefault =
    (Some VNone); fconv = CNone; fgeneric = false; felide =
    true } :: ({ fname = k_revision; fty = (TOpt (TSwhid Core)); fdefault =
    (Some VNone); fconv = CNone; fgeneric = false; felide =
    true } :: ({ fname = k_path; fty = (TOpt TBytes); fdefault = (Some
    VNone); fconv = CNone; fgeneric = false; felide = true } :: ({ fname =
    k_directory; fty = (TOpt (TSwhid Core)); fdefault = (Some VNone); fconv =
    CNone; fgeneric = false; felide =
    true } :: ((opt k_id TBytes (VBytes [])) :: [])))))))))))))
| CExtID ->
  (fld k_extid_type TStr) :: ((fld k_extid TBytes) :: ((fld k_target (TSwhid
                                                         Core)) :: ((opt
                                                                    k_extid_version
                                                                    TInt
                                                                    (VInt Z0)) :: (
    (opt k_payload_type (TOpt TStr) VNone) :: ((opt k_payload (TOpt TBytes)
                                                 VNone) :: ((opt k_id TBytes
                                                              (VBytes [])) :: []))))))

(** val elided : cls -> text list **)

let elided c =
  map (fun f -> f.fname) (filter (fun f -> f.felide) (schema c))

(** val hashable : cls -> bool **)

let hashable = function
| COrigin -> true
| CSnapshot -> true
| CRelease -> true
| CRevision -> true
| CDirectory -> true
| CRawExtrinsicMetadata -> true
| CExtID -> true
| _ -> false

(** val has_type : ty -> pyval -> bool **)

let rec has_type t v =
  match t with
  | TBytes -> (match v with
               | VBytes _ -> true
               | _ -> false)
  | TStr -> (match v with
             | VStr _ -> true
             | _ -> false)
  | TInt -> (match v with
             | VBool _ -> true
             | VInt _ -> true
             | _ -> false)
  | TBool -> (match v with
              | VBool _ -> true
              | _ -> false)
  | TDate -> (match v with
              | VDate (_, _) -> true
              | _ -> false)
  | TOpt t' -> (match v with
                | VNone -> true
                | _ -> has_type t' v)
  | TTupleOf t' ->
    (match v with
     | VTuple l -> forallb (has_type t') l
     | _ -> false)
  | TPairBytes ->
    (match v with
     | VTuple l ->
       (match l with
        | [] -> false
        | p :: l0 ->
          (match p with
           | VBytes _ ->
             (match l0 with
              | [] -> false
              | p0 :: l1 ->
                (match p0 with
                 | VBytes _ -> (match l1 with
                                | [] -> true
                                | _ :: _ -> false)
                 | _ -> false))
           | _ -> false))
     | _ -> false)
  | TObj c ->
    (match v with
     | VObj (c', _) ->
       (match c with
        | CPerson -> (match c' with
                      | CPerson -> true
                      | _ -> false)
        | CTimestamp -> (match c' with
                         | CTimestamp -> true
                         | _ -> false)
        | CTimestampWithTimezone ->
          (match c' with
           | CTimestampWithTimezone -> true
           | _ -> false)
        | COrigin -> (match c' with
                      | COrigin -> true
                      | _ -> false)
        | COriginVisit -> (match c' with
                           | COriginVisit -> true
                           | _ -> false)
        | COriginVisitStatus ->
          (match c' with
           | COriginVisitStatus -> true
           | _ -> false)
        | CSnapshotBranch ->
          (match c' with
           | CSnapshotBranch -> true
           | _ -> false)
        | CSnapshot -> (match c' with
                        | CSnapshot -> true
                        | _ -> false)
        | CRelease -> (match c' with
                       | CRelease -> true
                       | _ -> false)
        | CRevision -> (match c' with
                        | CRevision -> true
                        | _ -> false)
        | CDirectoryEntry ->
          (match c' with
           | CDirectoryEntry -> true
           | _ -> false)
        | CDirectory -> (match c' with
                         | CDirectory -> true
                         | _ -> false)
        | CContent -> (match c' with
                       | CContent -> true
                       | _ -> false)
        | CSkippedContent ->
          (match c' with
           | CSkippedContent -> true
           | _ -> false)
        | CMetadataAuthority ->
          (match c' with
           | CMetadataAuthority -> true
           | _ -> false)
        | CMetadataFetcher ->
          (match c' with
           | CMetadataFetcher -> true
           | _ -> false)
        | CRawExtrinsicMetadata ->
          (match c' with
           | CRawExtrinsicMetadata -> true
           | _ -> false)
        | CExtID -> (match c' with
                     | CExtID -> true
                     | _ -> false))
     | _ -> false)
  | TEnum e ->
    (match v with
     | VEnum (e', _) ->
       (match e with
        | ESnapshotTarget ->
          (match e' with
           | ESnapshotTarget -> true
           | _ -> false)
        | EReleaseTarget ->
          (match e' with
           | EReleaseTarget -> true
           | _ -> false)
        | ERevisionType -> (match e' with
                            | ERevisionType -> true
                            | _ -> false)
        | EAuthorityType ->
          (match e' with
           | EAuthorityType -> true
           | _ -> false))
     | _ -> false)
  | TIDict (kt, vt) ->
    (match v with
     | VIDict l ->
       forallb (fun kv -> (&&) (has_type kt (fst kv)) (has_type vt (snd kv)))
         l
     | _ -> false)
  | TSwhid k ->
    (match v with
     | VSwhid (k', _, _) ->
       (match k with
        | Core -> (match k' with
                   | Core -> true
                   | Extended -> false)
        | Extended -> (match k' with
                       | Core -> false
                       | Extended -> true))
     | _ -> false)
  | TCallable -> false
  | _ -> true

(** val utf8_len : text -> n **)

let utf8_len s =
  fold_left (fun a c ->
    N.add a
      (if N.ltb c (Npos (XO (XO (XO (XO (XO (XO (XO XH))))))))
       then Npos XH
       else if N.ltb c (Npos (XO (XO (XO (XO (XO (XO (XO (XO (XO (XO (XO
                 XH))))))))))))
            then Npos (XO XH)
            else if N.ltb c (Npos (XO (XO (XO (XO (XO (XO (XO (XO (XO (XO (XO
                      (XO (XO (XO (XO (XO XH)))))))))))))))))
                 then Npos (XI XH)
                 else Npos (XO (XO XH)))) s N0

(** val has_surrogate : text -> bool **)

let has_surrogate s =
  existsb (fun c ->
    (&&)
      (N.leb (Npos (XO (XO (XO (XO (XO (XO (XO (XO (XO (XO (XO (XI (XI (XO
        (XI XH)))))))))))))))) c)
      (N.leb c (Npos (XI (XI (XI (XI (XI (XI (XI (XI (XI (XI (XI (XI (XI (XO
        (XI XH)))))))))))))))))) s

(** val starts_with : text -> text -> bool **)

let rec starts_with p s =
  match p with
  | [] -> true
  | a :: p' ->
    (match s with
     | [] -> false
     | b :: s' -> (&&) (N.eqb a b) (starts_with p' s'))

(** val exact_int : pyval -> bool **)

let exact_int = function
| VInt _ -> true
| _ -> false

(** val int_of : pyval -> z **)

let int_of = function
| VBool b -> if b then Zpos XH else Z0
| VInt z0 -> z0
| _ -> Z0

(** val str_in : text list -> pyval -> bool **)

let str_in l = function
| VStr s -> mem_bytes s l
| _ -> false

(** val is_date_or_none : pyval -> bool **)

let is_date_or_none = function
| VNone -> true
| VDate (_, _) -> true
| _ -> false

(** val swhid_tag : pyval -> text **)

let swhid_tag = function
| VSwhid (_, t, _) -> t
| _ -> []

(** val entry_name : pyval -> pyval **)

let entry_name = function
| VObj (_, fs) -> fget k_name fs
| _ -> VNone

(** val bytes_nodup : bytes list -> bool **)

let rec bytes_nodup = function
| [] -> true
| x :: r -> (&&) (negb (mem_bytes x r)) (bytes_nodup r)

(** val name_bytes : pyval -> bytes **)

let name_bytes v =
  match entry_name v with
  | VBytes b -> b
  | _ -> []

(** val custom : cls -> fields -> bool **)

let custom c fs =
  let g = fun k -> fget k fs in
  (match c with
   | CTimestamp ->
     (&&)
       ((&&)
         ((&&)
           ((&&)
             ((&&) (exact_int (g k_seconds))
               (Z.leb tS_MIN_SECONDS (int_of (g k_seconds))))
             (Z.leb (int_of (g k_seconds)) tS_MAX_SECONDS))
           (exact_int (g k_microseconds)))
         (Z.leb tS_MIN_MICROSECONDS (int_of (g k_microseconds))))
       (Z.leb (int_of (g k_microseconds)) tS_MAX_MICROSECONDS)
   | COrigin ->
     (match g k_url with
      | VStr s ->
        (&&) (negb (has_surrogate s))
          (N.ltb (utf8_len s) (Npos (XO (XO (XO (XO (XO (XO (XO (XO (XO (XO
            (XO XH)))))))))))))
      | _ -> false)
   | COriginVisit -> (match g k_date with
                      | VDate (_, _) -> true
                      | _ -> false)
   | COriginVisitStatus ->
     (&&) (match g k_date with
           | VDate (_, _) -> true
           | _ -> false) (str_in visit_statuses (g k_status))
   | CSnapshotBranch ->
     (match g k_target with
      | VBytes b ->
        (match g k_target_type with
         | VEnum (e, v) ->
           (match e with
            | ESnapshotTarget ->
              if beqb v s_alias
              then true
              else Nat.eqb (length b) (S (S (S (S (S (S (S (S (S (S (S (S (S
                     (S (S (S (S (S (S (S O))))))))))))))))))))
            | _ ->
              Nat.eqb (length b) (S (S (S (S (S (S (S (S (S (S (S (S (S (S (S
                (S (S (S (S (S O)))))))))))))))))))))
         | _ ->
           Nat.eqb (length b) (S (S (S (S (S (S (S (S (S (S (S (S (S (S (S (S
             (S (S (S (S O)))))))))))))))))))))
      | _ -> false)
   | CRelease ->
     negb ((&&) (is_none (g k_author)) (negb (is_none (g k_date))))
   | CRevision ->
     (&&) (negb ((&&) (is_none (g k_author)) (negb (is_none (g k_date)))))
       (negb
         ((&&) (is_none (g k_committer))
           (negb (is_none (g k_committer_date)))))
   | CDirectoryEntry ->
     (&&)
       (match g k_name with
        | VBytes b -> negb (memb (Npos (XI (XI (XI (XI (XO XH)))))) b)
        | _ -> false) (str_in (s_file :: (s_dir :: (s_rev :: []))) (g k_type))
   | CDirectory ->
     (match g k_entries with
      | VTuple l -> bytes_nodup (map name_bytes l)
      | _ -> false)
   | CContent ->
     (&&)
       ((&&) ((&&) (exact_int (g k_length)) (Z.leb Z0 (int_of (g k_length))))
         (str_in (s_visible :: (s_hidden :: [])) (g k_status)))
       (is_date_or_none (g k_ctime))
   | CSkippedContent ->
     (&&)
       ((&&)
         ((&&)
           ((&&) (exact_int (g k_length))
             (Z.leb (Zneg XH) (int_of (g k_length))))
           (str_in (s_absent :: []) (g k_status)))
         (match g k_reason with
          | VStr _ -> true
          | _ -> false)) (is_date_or_none (g k_ctime))
   | CRawExtrinsicMetadata ->
     let tt = swhid_tag (g k_target) in
     let among = fun l -> mem_bytes tt l in
     let core_of = fun t v ->
       match v with
       | VNone -> true
       | VSwhid (k, t', _) ->
         (match k with
          | Core -> beqb t t'
          | Extended -> false)
       | _ -> false
     in
     (&&)
       ((&&)
         ((&&)
           ((&&)
             ((&&)
               ((&&)
                 (match g k_origin with
                  | VNone -> true
                  | VStr s ->
                    (&&)
                      (among
                        (t_snp :: (t_rel :: (t_rev :: (t_dir :: (t_cnt :: []))))))
                      (negb (starts_with s_swh_colon s))
                  | _ -> false)
                 (match g k_visit with
                  | VNone -> true
                  | VInt z0 ->
                    (&&)
                      ((&&)
                        (among
                          (t_snp :: (t_rel :: (t_rev :: (t_dir :: (t_cnt :: []))))))
                        (negb (is_none (g k_origin)))) (Z.ltb Z0 z0)
                  | _ -> false))
               ((||) (is_none (g k_snapshot))
                 ((&&) (among (t_rel :: (t_rev :: (t_dir :: (t_cnt :: [])))))
                   (core_of t_snp (g k_snapshot)))))
             ((||) (is_none (g k_release))
               ((&&) (among (t_rev :: (t_dir :: (t_cnt :: []))))
                 (core_of t_rel (g k_release)))))
           ((||) (is_none (g k_revision))
             ((&&) (among (t_dir :: (t_cnt :: [])))
               (core_of t_rev (g k_revision)))))
         (match g k_path with
          | VNone -> true
          | VBytes _ -> among (t_dir :: (t_cnt :: []))
          | _ -> false))
       ((||) (is_none (g k_directory))
         ((&&) (among (t_cnt :: [])) (core_of t_dir (g k_directory))))
   | CExtID ->
     (&&)
       (negb
         ((&&) (negb (is_none (g k_payload_type))) (is_none (g k_payload))))
       (negb
         ((&&) (negb (is_none (g k_payload))) (is_none (g k_payload_type))))
   | _ -> true)

(** val pair_of : pyval -> pyval result **)

let pair_of = function
| VBytes b0 ->
  (match b0 with
   | [] -> Err ValueError
   | a :: l ->
     (match l with
      | [] -> Err ValueError
      | b :: l0 ->
        (match l0 with
         | [] -> Ok (VTuple ((VInt (Z.of_N a)) :: ((VInt (Z.of_N b)) :: [])))
         | _ :: _ -> Err ValueError)))
| VStr s ->
  (match s with
   | [] -> Err ValueError
   | a :: l ->
     (match l with
      | [] -> Err ValueError
      | b :: l0 ->
        (match l0 with
         | [] -> Ok (VTuple ((VStr (a :: [])) :: ((VStr (b :: [])) :: [])))
         | _ :: _ -> Err ValueError)))
| VTuple l ->
  (match l with
   | [] -> Err ValueError
   | a :: l0 ->
     (match l0 with
      | [] -> Err ValueError
      | b :: l1 ->
        (match l1 with
         | [] -> Ok (VTuple (a :: (b :: [])))
         | _ :: _ -> Err ValueError)))
| VList l ->
  (match l with
   | [] -> Err ValueError
   | a :: l0 ->
     (match l0 with
      | [] -> Err ValueError
      | b :: l1 ->
        (match l1 with
         | [] -> Ok (VTuple (a :: (b :: [])))
         | _ :: _ -> Err ValueError)))
| VDict _ -> Err ValueError
| VIDict _ -> Err ValueError
| _ -> Err TypeError

(** val tuplify_extra_headers : pyval -> pyval result **)

let tuplify_extra_headers = function
| VBytes b ->
  rbind (rmap pair_of (map (fun c -> VInt (Z.of_N c)) b)) (fun l' -> Ok
    (VTuple l'))
| VStr s ->
  rbind (rmap pair_of (map (fun c -> VStr (c :: [])) s)) (fun l' -> Ok
    (VTuple l'))
| VTuple l -> rbind (rmap pair_of l) (fun l' -> Ok (VTuple l'))
| VList l -> rbind (rmap pair_of l) (fun l' -> Ok (VTuple l'))
| VDict l -> rbind (rmap pair_of (map fst l)) (fun l' -> Ok (VTuple l'))
| VIDict l -> rbind (rmap pair_of (map fst l)) (fun l' -> Ok (VTuple l'))
| _ -> Err TypeError

(** val apply_conv : conv -> pyval -> pyval result **)

let apply_conv c v =
  match c with
  | CNone -> Ok v
  | CFreeze -> (match v with
                | VDict l -> Ok (VIDict l)
                | _ -> Ok v)
  | CTuplifyHeaders -> tuplify_extra_headers v
  | CInt ->
    (match v with
     | VBool b -> Ok (VInt (if b then Zpos XH else Z0))
     | VInt z0 -> Ok (VInt z0)
     | VBytes s ->
       (match parse_dec_Z s with
        | Some z0 -> Ok (VInt z0)
        | None -> Err ValueError)
     | VStr s ->
       (match parse_dec_Z s with
        | Some z0 -> Ok (VInt z0)
        | None -> Err ValueError)
     | _ -> Err TypeError)
  | CDiscoveryDate ->
    (match v with
     | VDate (us, _) ->
       Ok (VDate
         ((Z.sub us
            (Z.modulo us (Zpos (XO (XO (XO (XO (XO (XO (XI (XO (XO (XI (XO
              (XO (XO (XO (XI (XO (XI (XI (XI XH)))))))))))))))))))))), Z0))
     | _ -> Err TypeError)

(** val keys_known : field list -> dict -> bool **)

let keys_known s kw =
  forallb (fun kv ->
    match fst kv with
    | VStr k -> mem_bytes k (map (fun f -> f.fname) s)
    | _ -> false) kw

(** val bind_field : dict -> field -> (text * pyval) result **)

let bind_field kw f =
  match dget f.fname kw with
  | Some v -> Ok (f.fname, v)
  | None ->
    (match f.fdefault with
     | Some v -> Ok (f.fname, v)
     | None -> Err TypeError)

(** val bind_args : field list -> dict -> fields result **)

let bind_args s kw =
  if keys_known s kw then rmap (bind_field kw) s else Err TypeError

(** val convert : field list -> fields -> fields result **)

let rec convert s fs =
  match s with
  | [] -> Ok []
  | f :: s' ->
    (match fs with
     | [] -> Ok []
     | p :: fs' ->
       let (n0, v) = p in
       (match apply_conv f.fconv v with
        | Ok v' ->
          (match convert s' fs' with
           | Ok r -> Ok ((n0, v') :: r)
           | Err e -> Err e)
        | Err e -> Err e))

(** val typecheck : field list -> fields -> bool **)

let rec typecheck s fs =
  match s with
  | [] -> true
  | f :: s' ->
    (match fs with
     | [] -> true
     | p :: fs' ->
       let (_, v) = p in
       (&&) (if f.fgeneric then has_type f.fty v else true) (typecheck s' fs'))

(** val validate : cls -> fields -> bool **)

let validate c fs =
  (&&) (typecheck (schema c) fs) (custom c fs)

(** val fill_id :
    (cls -> fields -> bytes result) -> cls -> fields -> fields result **)

let fill_id idf c fs =
  if hashable c
  then if truthy (fget k_id fs)
       then Ok fs
       else rbind (idf c (fdel k_id fs)) (fun i -> Ok
              (fset k_id (VBytes i) fs))
  else Ok fs

(** val migrate_extra_headers : fields -> fields result **)

let migrate_extra_headers fs =
  match fget k_metadata fs with
  | VIDict l0 ->
    (match l0 with
     | [] -> Ok fs
     | kv :: l ->
       let md = kv :: l in
       if negb (truthy (fget k_extra_headers fs))
       then (match dget k_extra_headers md with
             | Some eh ->
               rbind (tuplify_extra_headers eh) (fun eh' ->
                 let fs' = fset k_extra_headers eh' fs in
                 if validate CRevision fs'
                 then Ok
                        (fset k_metadata (VIDict (ddel k_extra_headers md))
                          fs')
                 else Err ValueError)
             | None -> Ok fs)
       else Ok fs)
  | _ -> Ok fs

(** val post_init :
    (cls -> fields -> bytes result) -> cls -> fields -> fields result **)

let post_init idf c fs =
  rbind (fill_id idf c fs) (fun fs' ->
    match c with
    | CRevision -> migrate_extra_headers fs'
    | _ -> Ok fs')

(** val construct :
    (cls -> fields -> bytes result) -> cls -> dict -> pyval result **)

let construct idf c kw =
  rbind (bind_args (schema c) kw) (fun fs0 ->
    rbind (convert (schema c) fs0) (fun fs1 ->
      if validate c fs1
      then rbind (post_init idf c fs1) (fun fs2 -> Ok (VObj (c, fs2)))
      else Err ValueError))

(** val elide : text list -> dict -> dict **)

let elide ns d =
  filter (fun kv ->
    negb
      ((&&) (match fst kv with
             | VStr k -> mem_bytes k ns
             | _ -> false) (is_none (snd kv)))) d

(** val dictify : (swhid_kind -> text -> bytes -> text) -> pyval -> pyval **)

let rec dictify swhid_str v = match v with
| VTuple l -> VTuple (map (dictify swhid_str) l)
| VDict l ->
  VDict (map (fun kv -> ((fst kv), (dictify swhid_str (snd kv)))) l)
| VIDict l ->
  VDict (map (fun kv -> ((fst kv), (dictify swhid_str (snd kv)))) l)
| VEnum (_, s) -> VStr s
| VSwhid (k, t, i) -> VStr (swhid_str k t i)
| VObj (c, fs) ->
  VDict
    (elide (elided c)
      (map (fun nv -> ((VStr (fst nv)), (dictify swhid_str (snd nv)))) fs))
| _ -> v

(** val to_dict : (swhid_kind -> text -> bytes -> text) -> pyval -> pyval **)

let to_dict =
  dictify

type dvar = { cur : dict; caller : dict; aliased : bool }

(** val dv_init : dict -> dvar **)

let dv_init d =
  { cur = d; caller = d; aliased = true }

type 'a m = dvar -> 'a result * dvar

(** val ret : 'a1 -> 'a1 m **)

let ret a s =
  ((Ok a), s)

(** val fail : err -> 'a1 m **)

let fail e s =
  ((Err e), s)

(** val lift : 'a1 result -> 'a1 m **)

let lift r s =
  (r, s)

(** val bind : 'a1 m -> ('a1 -> 'a2 m) -> 'a2 m **)

let bind m0 f s =
  let (r, s') = m0 s in (match r with
                         | Ok a -> f a s'
                         | Err e -> ((Err e), s'))

(** val copy : unit m **)

let copy s =
  ((Ok ()), { cur = s.cur; caller = s.caller; aliased = false })

(** val get_opt : text -> pyval option m **)

let get_opt k s =
  ((Ok (dget k s.cur)), s)

(** val get_req : text -> pyval m **)

let get_req k s =
  ((match dget k s.cur with
    | Some v -> Ok v
    | None -> Err KeyError), s)

(** val setk : text -> pyval -> unit m **)

let setk k v s =
  ((Ok ()), { cur = (dset k v s.cur); caller =
    (if s.aliased then dset k v s.caller else s.caller); aliased =
    s.aliased })

(** val pop_req : text -> pyval m **)

let pop_req k s =
  match dget k s.cur with
  | Some v ->
    ((Ok v), { cur = (ddel k s.cur); caller =
      (if s.aliased then ddel k s.caller else s.caller); aliased =
      s.aliased })
  | None -> ((Err KeyError), s)

(** val pop_opt : text -> pyval option m **)

let pop_opt k s =
  ((Ok (dget k s.cur)), { cur = (ddel k s.cur); caller =
    (if s.aliased then ddel k s.caller else s.caller); aliased = s.aliased })

(** val construct_d : (cls -> fields -> bytes result) -> cls -> pyval m **)

let construct_d idf c s =
  ((construct idf c s.cur), s)

(** val construct_with :
    (cls -> fields -> bytes result) -> cls -> dict -> pyval m **)

let construct_with idf c extra s =
  ((construct idf c (app extra s.cur)), s)

(** val run : 'a1 m -> dict -> 'a1 result * dict **)

let run m0 d =
  let (r, s) = m0 (dv_init d) in (r, s.caller)

(** val enum_of : enum_ty -> pyval -> pyval result **)

let enum_of e = function
| VStr s ->
  if mem_bytes s (members e) then Ok (VEnum (e, s)) else Err ValueError
| _ -> Err ValueError

(** val swhid_of :
    (swhid_kind -> text -> (text * bytes) result) -> swhid_kind -> pyval ->
    pyval result **)

let swhid_of swhid_parse k = function
| VStr s ->
  rbind (swhid_parse k s) (fun p -> Ok (VSwhid (k, (fst p), (snd p))))
| _ -> Err TypeError

(** val iter_values : pyval -> pyval list result **)

let iter_values = function
| VBytes b -> Ok (map (fun c -> VInt (Z.of_N c)) b)
| VStr s -> Ok (map (fun c -> VStr (c :: [])) s)
| VTuple l -> Ok l
| VList l -> Ok l
| VDict l -> Ok (map fst l)
| VIDict l -> Ok (map fst l)
| _ -> Err TypeError

(** val kw1 : text -> pyval -> pyval * pyval **)

let kw1 k v =
  ((VStr k), v)

(** val on_dict : err -> pyval -> 'a1 m -> 'a1 result * pyval **)

let on_dict e v m0 =
  match v with
  | VDict d -> let (r, d') = run m0 d in (r, (VDict d'))
  | _ -> ((Err e), v)

(** val fd_generic :
    (cls -> fields -> bytes result) -> cls -> pyval -> pyval result * pyval **)

let fd_generic idf c v =
  on_dict TypeError v (construct_d idf c)

(** val bytes_of : pyval -> bytes result **)

let bytes_of = function
| VBytes b -> Ok b
| _ -> Err TypeError

(** val fd_Person :
    (cls -> fields -> bytes result) -> pyval -> pyval result * pyval **)

let fd_Person idf v =
  on_dict TypeError v
    (bind (get_opt k_fullname) (fun fn ->
      bind
        (match fn with
         | Some _ -> ret ()
         | None ->
           bind (get_req k_name) (fun n0 ->
             bind (get_req k_email) (fun e ->
               bind
                 (lift
                   (match n0 with
                    | VNone -> Ok []
                    | _ -> rbind (bytes_of n0) (fun b -> Ok (b :: []))))
                 (fun parts_n ->
                 bind
                   (lift
                     (match e with
                      | VNone -> Ok []
                      | _ ->
                        rbind (bytes_of e) (fun b -> Ok
                          ((app ((Npos (XO (XO (XI (XI (XI XH)))))) :: [])
                             (app b ((Npos (XO (XI (XI (XI (XI
                               XH)))))) :: []))) :: [])))) (fun parts_e ->
                   let fullname =
                     match app parts_n parts_e with
                     | [] -> []
                     | a :: l ->
                       (match l with
                        | [] -> a
                        | b :: _ ->
                          app a
                            (app ((Npos (XO (XO (XO (XO (XO XH)))))) :: []) b))
                   in
                   bind copy (fun _ -> setk k_fullname (VBytes fullname)))))))
        (fun _ ->
        bind copy (fun _ ->
          bind (get_opt k_name) (fun n0 ->
            bind (match n0 with
                  | Some _ -> ret ()
                  | None -> setk k_name VNone) (fun _ ->
              bind (get_opt k_email) (fun e ->
                bind
                  (match e with
                   | Some _ -> ret ()
                   | None -> setk k_email VNone) (fun _ ->
                  construct_d idf CPerson))))))))

(** val mk_timestamp :
    (cls -> fields -> bytes result) -> pyval -> pyval -> pyval result **)

let mk_timestamp idf sec us =
  construct idf CTimestamp
    ((kw1 k_seconds sec) :: ((kw1 k_microseconds us) :: []))

(** val fmt_offset : z -> bool -> bytes **)

let fmt_offset offset negative =
  let a = Z.to_N (Z.abs offset) in
  (if negative
   then Npos (XI (XO (XI (XI (XO XH)))))
   else Npos (XI (XI (XO (XI (XO XH)))))) :: (app
                                               (dec_pad (S (S O))
                                                 (N.div a (Npos (XO (XO (XI
                                                   (XI (XI XH))))))))
                                               (dec_pad (S (S O))
                                                 (N.modulo a (Npos (XO (XO
                                                   (XI (XI (XI XH)))))))))

(** val parse_offset_bytes : bytes -> z result **)

let parse_offset_bytes = function
| [] -> Err ValueError
| sgn :: rest ->
  if (||) (N.eqb sgn (Npos (XI (XI (XO (XI (XO XH)))))))
       (N.eqb sgn (Npos (XI (XO (XI (XI (XO XH)))))))
  then let sign =
         if N.eqb sgn (Npos (XI (XO (XI (XI (XO XH))))))
         then Zneg XH
         else Zpos XH
       in
       let n0 = length rest in
       let hm =
         if Nat.leb n0 (S (S O))
         then ((parse_dec_N rest), (Some N0))
         else ((parse_dec_N (firstn (sub n0 (S (S O))) rest)),
                (parse_dec_N (skipn (sub n0 (S (S O))) rest)))
       in
       let (o, o0) = hm in
       (match o with
        | Some h ->
          (match o0 with
           | Some m0 ->
             let off =
               Z.mul sign
                 (Z.of_N
                   (N.add (N.mul h (Npos (XO (XO (XI (XI (XI XH))))))) m0))
             in
             if (&&)
                  ((&&) (N.leb m0 (Npos (XI (XI (XO (XI (XI XH)))))))
                    (Z.leb (Zneg (XO (XO (XO (XO (XO (XO (XO (XO (XO (XO (XO
                      (XO (XO (XO (XO XH)))))))))))))))) off))
                  (Z.ltb off (Zpos (XO (XO (XO (XO (XO (XO (XO (XO (XO (XO
                    (XO (XO (XO (XO (XO XH)))))))))))))))))
             then Ok off
             else Ok Z0
           | None -> Err ValueError)
        | None -> Err ValueError)
  else Err AssertionError

(** val from_numeric_offset :
    (cls -> fields -> bytes result) -> pyval -> pyval -> bool -> pyval result **)

let from_numeric_offset idf ts offset negative_utc =
  match offset with
  | VBool _ ->
    let off = int_of offset in
    let negative = (||) (Z.ltb off Z0) negative_utc in
    let ob = fmt_offset off negative in
    rbind
      (construct idf CTimestampWithTimezone
        ((kw1 k_timestamp ts) :: ((kw1 k_offset_bytes (VBytes ob)) :: [])))
      (fun o ->
      rbind (parse_offset_bytes ob) (fun back ->
        if Z.eqb back off then Ok o else Err AssertionError))
  | VInt _ ->
    let off = int_of offset in
    let negative = (||) (Z.ltb off Z0) negative_utc in
    let ob = fmt_offset off negative in
    rbind
      (construct idf CTimestampWithTimezone
        ((kw1 k_timestamp ts) :: ((kw1 k_offset_bytes (VBytes ob)) :: [])))
      (fun o ->
      rbind (parse_offset_bytes ob) (fun back ->
        if Z.eqb back off then Ok o else Err AssertionError))
  | _ -> Err TypeError

(** val fd_TimestampWithTimezone :
    (cls -> fields -> bytes result) -> pyval -> pyval result * pyval **)

let fd_TimestampWithTimezone idf v = match v with
| VBool _ ->
  ((rbind (mk_timestamp idf v (VInt Z0)) (fun ts ->
     construct idf CTimestampWithTimezone
       ((kw1 k_timestamp ts) :: ((kw1 k_offset_bytes (VBytes ((Npos (XI (XI
                                   (XO (XI (XO XH)))))) :: ((Npos (XO (XO (XO
                                   (XO (XI XH)))))) :: ((Npos (XO (XO (XO (XO
                                   (XI XH)))))) :: ((Npos (XO (XO (XO (XO (XI
                                   XH)))))) :: ((Npos (XO (XO (XO (XO (XI
                                   XH)))))) :: []))))))) :: [])))), v)
| VInt _ ->
  ((rbind (mk_timestamp idf v (VInt Z0)) (fun ts ->
     construct idf CTimestampWithTimezone
       ((kw1 k_timestamp ts) :: ((kw1 k_offset_bytes (VBytes ((Npos (XI (XI
                                   (XO (XI (XO XH)))))) :: ((Npos (XO (XO (XO
                                   (XO (XI XH)))))) :: ((Npos (XO (XO (XO (XO
                                   (XI XH)))))) :: ((Npos (XO (XO (XO (XO (XI
                                   XH)))))) :: ((Npos (XO (XO (XO (XO (XI
                                   XH)))))) :: []))))))) :: [])))), v)
| VDate (us, off) ->
  ((rbind
     (mk_timestamp idf (VInt
       (Z.div us (Zpos (XO (XO (XO (XO (XO (XO (XI (XO (XO (XI (XO (XO (XO
         (XO (XI (XO (XI (XI (XI XH)))))))))))))))))))))) (VInt
       (Z.modulo us (Zpos (XO (XO (XO (XO (XO (XO (XI (XO (XO (XI (XO (XO (XO
         (XO (XI (XO (XI (XI (XI XH))))))))))))))))))))))) (fun ts ->
     from_numeric_offset idf ts (VInt
       (Z.div
         (Z.quot off (Zpos (XO (XO (XO (XO (XO (XO (XI (XO (XO (XI (XO (XO
           (XO (XO (XI (XO (XI (XI (XI XH))))))))))))))))))))) (Zpos (XO (XO
         (XI (XI (XI XH)))))))) false)), v)
| VDict _ ->
  on_dict TypeError v
    (bind (get_req k_timestamp) (fun ts ->
      bind
        (lift
          (match ts with
           | VBool _ -> Ok (ts, (VInt Z0))
           | VInt _ -> Ok (ts, (VInt Z0))
           | VDict t ->
             Ok ((match dget k_seconds t with
                  | Some x -> x
                  | None -> VInt Z0),
               (match dget k_microseconds t with
                | Some x -> x
                | None -> VInt Z0))
           | _ -> Err ValueError)) (fun su ->
        bind (lift (mk_timestamp idf (fst su) (snd su))) (fun timestamp ->
          bind (get_opt k_offset_bytes) (fun ob ->
            match ob with
            | Some b ->
              lift
                (construct idf CTimestampWithTimezone
                  ((kw1 k_timestamp timestamp) :: ((kw1 k_offset_bytes b) :: [])))
            | None ->
              bind (get_req k_offset) (fun offset ->
                bind (get_opt k_negative_utc) (fun nu ->
                  lift
                    (from_numeric_offset idf timestamp offset
                      (match nu with
                       | Some x -> truthy x
                       | None -> false)))))))))
| _ -> ((Err ValueError), v)

(** val fd_SnapshotBranch :
    (cls -> fields -> bytes result) -> pyval -> pyval result * pyval **)

let fd_SnapshotBranch idf v =
  on_dict TypeError v
    (bind (get_req k_target) (fun t ->
      bind (get_req k_target_type) (fun tt ->
        bind (lift (enum_of ESnapshotTarget tt)) (fun e ->
          lift
            (construct idf CSnapshotBranch
              ((kw1 k_target t) :: ((kw1 k_target_type e) :: [])))))))

(** val items_of : pyval -> dict result **)

let items_of = function
| VDict l -> Ok l
| VIDict l -> Ok l
| _ -> Err AttributeError

(** val fd_Snapshot :
    (cls -> fields -> bytes result) -> pyval -> pyval result * pyval **)

let fd_Snapshot idf v =
  on_dict AttributeError v
    (bind copy (fun _ ->
      bind (pop_req k_branches) (fun b ->
        bind (lift (items_of b)) (fun items ->
          bind
            (lift
              (rmap (fun kv ->
                if truthy (snd kv)
                then rbind (fst (fd_SnapshotBranch idf (snd kv))) (fun o ->
                       Ok ((fst kv), o))
                else Ok ((fst kv), VNone)) items)) (fun br ->
            construct_with idf CSnapshot ((kw1 k_branches (VIDict br)) :: []))))))

(** val decode_if_truthy :
    text -> (pyval -> pyval result * pyval) -> unit m **)

let decode_if_truthy k decode =
  bind (get_opt k) (fun x ->
    match x with
    | Some a ->
      if truthy a
      then bind (lift (fst (decode a))) (fun o -> setk k o)
      else ret ()
    | None -> ret ())

(** val fd_Release :
    (cls -> fields -> bytes result) -> pyval -> pyval result * pyval **)

let fd_Release idf v =
  on_dict AttributeError v
    (bind copy (fun _ ->
      bind (decode_if_truthy k_author (fd_Person idf)) (fun _ ->
        bind (decode_if_truthy k_date (fd_TimestampWithTimezone idf))
          (fun _ ->
          bind (pop_req k_target_type) (fun tt ->
            bind (lift (enum_of EReleaseTarget tt)) (fun e ->
              construct_with idf CRelease ((kw1 k_target_type e) :: [])))))))

(** val pop_decode : text -> (pyval -> pyval result * pyval) -> pyval m **)

let pop_decode k decode =
  bind (pop_req k) (fun x ->
    if truthy x then lift (fst (decode x)) else ret x)

(** val fd_Revision :
    (cls -> fields -> bytes result) -> pyval -> pyval result * pyval **)

let fd_Revision idf v =
  on_dict AttributeError v
    (bind copy (fun _ ->
      bind (pop_decode k_date (fd_TimestampWithTimezone idf)) (fun date ->
        bind (pop_decode k_committer_date (fd_TimestampWithTimezone idf))
          (fun cdate ->
          bind (pop_decode k_author (fd_Person idf)) (fun author ->
            bind (pop_decode k_committer (fd_Person idf)) (fun committer ->
              bind (pop_req k_type) (fun ty0 ->
                bind (lift (enum_of ERevisionType ty0)) (fun e ->
                  bind (pop_req k_parents) (fun ps ->
                    bind (lift (iter_values ps)) (fun pl ->
                      construct_with idf CRevision
                        ((kw1 k_author author) :: ((kw1 k_committer committer) :: (
                        (kw1 k_date date) :: ((kw1 k_committer_date cdate) :: (
                        (kw1 k_type e) :: ((kw1 k_parents (VTuple pl)) :: []))))))))))))))))

(** val fd_Directory :
    (cls -> fields -> bytes result) -> pyval -> pyval result * pyval **)

let fd_Directory idf v =
  on_dict AttributeError v
    (bind copy (fun _ ->
      bind (pop_req k_entries) (fun es ->
        bind (lift (iter_values es)) (fun el ->
          bind
            (lift (rmap (fun e -> fst (fd_generic idf CDirectoryEntry e)) el))
            (fun entries ->
            construct_with idf CDirectory
              ((kw1 k_entries (VTuple entries)) :: []))))))

(** val fd_Content :
    (cls -> fields -> bytes result) -> (text -> pyval result) -> pyval ->
    pyval result * pyval **)

let fd_Content idf dateparse v =
  on_dict AttributeError v
    (bind (get_opt k_ctime) (fun ct ->
      bind
        (match ct with
         | Some p ->
           (match p with
            | VStr s ->
              bind copy (fun _ ->
                bind (lift (dateparse s)) (fun dt -> setk k_ctime dt))
            | _ -> ret ())
         | None -> ret ()) (fun _ -> construct_d idf CContent)))

(** val fd_SkippedContent :
    (cls -> fields -> bytes result) -> pyval -> pyval result * pyval **)

let fd_SkippedContent idf v =
  on_dict AttributeError v
    (bind copy (fun _ ->
      bind (pop_opt k_data) (fun dt ->
        match dt with
        | Some x ->
          if is_none x
          then construct_d idf CSkippedContent
          else fail ValueError
        | None -> construct_d idf CSkippedContent)))

(** val fd_BaseContent :
    (cls -> fields -> bytes result) -> (text -> pyval result) -> pyval ->
    pyval result * pyval **)

let fd_BaseContent idf dateparse v = match v with
| VDict d ->
  (match dget k_status d with
   | Some p ->
     (match p with
      | VStr s ->
        if beqb s s_absent
        then fd_SkippedContent idf v
        else fd_Content idf dateparse v
      | _ -> fd_Content idf dateparse v)
   | None -> ((Err KeyError), v))
| _ -> ((Err TypeError), v)

(** val fd_MetadataAuthority :
    (cls -> fields -> bytes result) -> pyval -> pyval result * pyval **)

let fd_MetadataAuthority idf v =
  on_dict TypeError v
    (bind (get_req k_type) (fun t ->
      bind (lift (enum_of EAuthorityType t)) (fun e ->
        bind copy (fun _ ->
          bind (setk k_type e) (fun _ -> construct_d idf CMetadataAuthority)))))

(** val origin_swhid_str :
    (cls -> fields -> bytes result) -> (swhid_kind -> text -> bytes -> text)
    -> pyval -> pyval result **)

let origin_swhid_str idf swhid_str url =
  rbind (construct idf COrigin ((kw1 k_url url) :: [])) (fun o ->
    match o with
    | VObj (_, fs) ->
      (match fget k_id fs with
       | VBytes i ->
         if Nat.eqb (length i) (S (S (S (S (S (S (S (S (S (S (S (S (S (S (S
              (S (S (S (S (S O))))))))))))))))))))
         then Ok (VStr (swhid_str Extended t_ori i))
         else Err ValidationError
       | _ -> Err TypeError)
    | _ -> Err TypeError)

(** val decode_swhid_if_truthy :
    (swhid_kind -> text -> (text * bytes) result) -> text -> unit m **)

let decode_swhid_if_truthy swhid_parse k =
  bind (get_opt k) (fun x ->
    match x with
    | Some s ->
      if truthy s
      then bind (lift (swhid_of swhid_parse Core s)) (fun w -> setk k w)
      else ret ()
    | None -> ret ())

(** val rem_tail :
    (cls -> fields -> bytes result) -> (swhid_kind -> text -> (text * bytes)
    result) -> pyval m **)

let rem_tail idf swhid_parse =
  bind (get_req k_target) (fun t ->
    bind (lift (swhid_of swhid_parse Extended t)) (fun t' ->
      bind (get_req k_authority) (fun a ->
        bind (lift (fst (fd_MetadataAuthority idf a))) (fun a' ->
          bind (get_req k_fetcher) (fun f ->
            bind (lift (fst (fd_generic idf CMetadataFetcher f))) (fun f' ->
              bind copy (fun _ ->
                bind (setk k_target t') (fun _ ->
                  bind (setk k_authority a') (fun _ ->
                    bind (setk k_fetcher f') (fun _ ->
                      bind
                        (fold_right (fun k rest ->
                          bind (decode_swhid_if_truthy swhid_parse k)
                            (fun _ -> rest)) (ret ())
                          (k_snapshot :: (k_release :: (k_revision :: (k_directory :: [])))))
                        (fun _ -> construct_d idf CRawExtrinsicMetadata)))))))))))

(** val rem_legacy :
    (cls -> fields -> bytes result) -> (swhid_kind -> text -> bytes -> text)
    -> bool -> unit m **)

let rem_legacy idf swhid_str copy_first =
  bind (get_opt k_type) (fun ty0 ->
    match ty0 with
    | Some _ ->
      bind (if copy_first then copy else ret ()) (fun _ ->
        bind (pop_req k_type) (fun type_ ->
          match type_ with
          | VStr s ->
            if beqb s s_origin
            then bind (get_req k_target) (fun u ->
                   bind (lift (origin_swhid_str idf swhid_str u)) (fun w ->
                     setk k_target w))
            else ret ()
          | _ -> ret ()))
    | None -> ret ())

(** val fd_RawExtrinsicMetadata :
    (cls -> fields -> bytes result) -> (swhid_kind -> text -> bytes -> text)
    -> (swhid_kind -> text -> (text * bytes) result) -> pyval -> pyval
    result * pyval **)

let fd_RawExtrinsicMetadata idf swhid_str swhid_parse v =
  on_dict TypeError v
    (bind (rem_legacy idf swhid_str true) (fun _ -> rem_tail idf swhid_parse))

(** val fd_RawExtrinsicMetadata_old :
    (cls -> fields -> bytes result) -> (swhid_kind -> text -> bytes -> text)
    -> (swhid_kind -> text -> (text * bytes) result) -> pyval -> pyval
    result * pyval **)

let fd_RawExtrinsicMetadata_old idf swhid_str swhid_parse v =
  on_dict TypeError v
    (bind (rem_legacy idf swhid_str false) (fun _ ->
      rem_tail idf swhid_parse))

(** val get_default : text -> pyval -> pyval m **)

let get_default k dflt =
  bind (get_opt k) (fun x -> ret (match x with
                                  | Some y -> y
                                  | None -> dflt))

(** val extid_prog :
    (cls -> fields -> bytes result) -> (swhid_kind -> text -> (text * bytes)
    result) -> bool -> pyval m **)

let extid_prog idf swhid_parse with_id =
  bind (get_req k_extid) (fun e ->
    bind (get_req k_extid_type) (fun et ->
      bind (get_req k_target) (fun t ->
        bind (lift (swhid_of swhid_parse Core t)) (fun t' ->
          bind (get_default k_extid_version (VInt Z0)) (fun ver ->
            bind (get_default k_payload_type VNone) (fun pt ->
              bind (get_default k_payload VNone) (fun p ->
                bind (get_default k_id (VBytes [])) (fun i ->
                  lift
                    (construct idf CExtID
                      (app
                        ((kw1 k_extid e) :: ((kw1 k_extid_type et) :: (
                        (kw1 k_target t') :: ((kw1 k_extid_version ver) :: (
                        (kw1 k_payload_type pt) :: ((kw1 k_payload p) :: []))))))
                        (if with_id then (kw1 k_id i) :: [] else [])))))))))))

(** val fd_ExtID :
    (cls -> fields -> bytes result) -> (swhid_kind -> text -> (text * bytes)
    result) -> pyval -> pyval result * pyval **)

let fd_ExtID idf swhid_parse v =
  on_dict TypeError v (extid_prog idf swhid_parse true)

(** val fd_ExtID_old :
    (cls -> fields -> bytes result) -> (swhid_kind -> text -> (text * bytes)
    result) -> pyval -> pyval result * pyval **)

let fd_ExtID_old idf swhid_parse v =
  on_dict TypeError v (extid_prog idf swhid_parse false)

(** val from_dict :
    (cls -> fields -> bytes result) -> (swhid_kind -> text -> bytes -> text)
    -> (swhid_kind -> text -> (text * bytes) result) -> (text -> pyval
    result) -> cls -> pyval -> pyval result * pyval **)

let from_dict idf swhid_str swhid_parse dateparse c v =
  match c with
  | CPerson -> fd_Person idf v
  | CTimestampWithTimezone -> fd_TimestampWithTimezone idf v
  | CSnapshotBranch -> fd_SnapshotBranch idf v
  | CSnapshot -> fd_Snapshot idf v
  | CRelease -> fd_Release idf v
  | CRevision -> fd_Revision idf v
  | CDirectory -> fd_Directory idf v
  | CContent -> fd_Content idf dateparse v
  | CSkippedContent -> fd_SkippedContent idf v
  | CMetadataAuthority -> fd_MetadataAuthority idf v
  | CRawExtrinsicMetadata ->
    fd_RawExtrinsicMetadata idf swhid_str swhid_parse v
  | CExtID -> fd_ExtID idf swhid_parse v
  | _ -> fd_generic idf c v

(** val from_dict_old :
    (cls -> fields -> bytes result) -> (swhid_kind -> text -> bytes -> text)
    -> (swhid_kind -> text -> (text * bytes) result) -> (text -> pyval
    result) -> cls -> pyval -> pyval result * pyval **)

let from_dict_old idf swhid_str swhid_parse dateparse c v =
  match c with
  | CRawExtrinsicMetadata ->
    fd_RawExtrinsicMetadata_old idf swhid_str swhid_parse v
  | CExtID -> fd_ExtID_old idf swhid_parse v
  | _ -> from_dict idf swhid_str swhid_parse dateparse c v

(** val swhid_str_c : swhid_kind -> text -> bytes -> text **)

let swhid_str_c _ tag oid =
  app sWHID_NAMESPACE
    (app sWHID_SEP
      (app ((Npos (XI (XO (XO (XO (XI XH)))))) :: [])
        (app sWHID_SEP (app tag (app sWHID_SEP (hexlify oid))))))

(** val swhid_parse_c : swhid_kind -> text -> (text * bytes) result **)

let swhid_parse_c k s =
  match strip_prefix
          (app sWHID_NAMESPACE
            (app sWHID_SEP
              (app ((Npos (XI (XO (XO (XO (XI XH)))))) :: []) sWHID_SEP))) s with
  | Some r ->
    let (tag, o) = cut (Npos (XO (XI (XO (XI (XI XH)))))) r in
    (match o with
     | Some h ->
       if mem_bytes tag (swhid_tags k)
       then (match unhex h with
             | Some oid ->
               if (&&)
                    (Nat.eqb (length oid) (S (S (S (S (S (S (S (S (S (S (S (S
                      (S (S (S (S (S (S (S (S O)))))))))))))))))))))
                    (forallb is_lower_hex h)
               then Ok (tag, oid)
               else Err ValidationError
             | None -> Err ValidationError)
       else Err ValidationError
     | None -> Err ValidationError)
  | None -> Err ValidationError

(** val dateparse_none : text -> pyval result **)

let dateparse_none _ =
  Err ValueError

(** val construct_x :
    bytes result -> bytes result -> cls -> dict -> pyval result **)

let construct_x oid origin_id =
  construct (fun c _ -> match c with
                        | COrigin -> origin_id
                        | _ -> oid)

(** val to_dict_x : pyval -> pyval **)

let to_dict_x =
  to_dict swhid_str_c

(** val from_dict_x :
    bytes result -> bytes result -> cls -> pyval -> pyval result * pyval **)

let from_dict_x oid origin_id =
  from_dict (fun c _ -> match c with
                        | COrigin -> origin_id
                        | _ -> oid) swhid_str_c swhid_parse_c dateparse_none

(** val from_dict_old_x :
    bytes result -> bytes result -> cls -> pyval -> pyval result * pyval **)

let from_dict_old_x oid origin_id =
  from_dict_old (fun c _ -> match c with
                            | COrigin -> origin_id
                            | _ -> oid) swhid_str_c swhid_parse_c
    dateparse_none

(** val fd_BaseContent_x : bytes result -> pyval -> pyval result * pyval **)

let fd_BaseContent_x oid =
  fd_BaseContent (fun _ _ -> oid) dateparse_none
