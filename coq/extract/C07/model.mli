
val negb : bool -> bool

type nat =
| O
| S of nat

val fst : ('a1 * 'a2) -> 'a1

val snd : ('a1 * 'a2) -> 'a2

val length : 'a1 list -> nat

val app : 'a1 list -> 'a1 list -> 'a1 list

type comparison =
| Eq
| Lt
| Gt

val add : nat -> nat -> nat

val eqb : nat -> nat -> bool

val divmod : nat -> nat -> nat -> nat -> nat * nat

val div : nat -> nat -> nat

type byte =
| X00
| X01
| X02
| X03
| X04
| X05
| X06
| X07
| X08
| X09
| X0a
| X0b
| X0c
| X0d
| X0e
| X0f
| X10
| X11
| X12
| X13
| X14
| X15
| X16
| X17
| X18
| X19
| X1a
| X1b
| X1c
| X1d
| X1e
| X1f
| X20
| X21
| X22
| X23
| X24
| X25
| X26
| X27
| X28
| X29
| X2a
| X2b
| X2c
| X2d
| X2e
| X2f
| X30
| X31
| X32
| X33
| X34
| X35
| X36
| X37
| X38
| X39
| X3a
| X3b
| X3c
| X3d
| X3e
| X3f
| X40
| X41
| X42
| X43
| X44
| X45
| X46
| X47
| X48
| X49
| X4a
| X4b
| X4c
| X4d
| X4e
| X4f
| X50
| X51
| X52
| X53
| X54
| X55
| X56
| X57
| X58
| X59
| X5a
| X5b
| X5c
| X5d
| X5e
| X5f
| X60
| X61
| X62
| X63
| X64
| X65
| X66
| X67
| X68
| X69
| X6a
| X6b
| X6c
| X6d
| X6e
| X6f
| X70
| X71
| X72
| X73
| X74
| X75
| X76
| X77
| X78
| X79
| X7a
| X7b
| X7c
| X7d
| X7e
| X7f
| X80
| X81
| X82
| X83
| X84
| X85
| X86
| X87
| X88
| X89
| X8a
| X8b
| X8c
| X8d
| X8e
| X8f
| X90
| X91
| X92
| X93
| X94
| X95
| X96
| X97
| X98
| X99
| X9a
| X9b
| X9c
| X9d
| X9e
| X9f
| Xa0
| Xa1
| Xa2
| Xa3
| Xa4
| Xa5
| Xa6
| Xa7
| Xa8
| Xa9
| Xaa
| Xab
| Xac
| Xad
| Xae
| Xaf
| Xb0
| Xb1
| Xb2
| Xb3
| Xb4
| Xb5
| Xb6
| Xb7
| Xb8
| Xb9
| Xba
| Xbb
| Xbc
| Xbd
| Xbe
| Xbf
| Xc0
| Xc1
| Xc2
| Xc3
| Xc4
| Xc5
| Xc6
| Xc7
| Xc8
| Xc9
| Xca
| Xcb
| Xcc
| Xcd
| Xce
| Xcf
| Xd0
| Xd1
| Xd2
| Xd3
| Xd4
| Xd5
| Xd6
| Xd7
| Xd8
| Xd9
| Xda
| Xdb
| Xdc
| Xdd
| Xde
| Xdf
| Xe0
| Xe1
| Xe2
| Xe3
| Xe4
| Xe5
| Xe6
| Xe7
| Xe8
| Xe9
| Xea
| Xeb
| Xec
| Xed
| Xee
| Xef
| Xf0
| Xf1
| Xf2
| Xf3
| Xf4
| Xf5
| Xf6
| Xf7
| Xf8
| Xf9
| Xfa
| Xfb
| Xfc
| Xfd
| Xfe
| Xff

val of_bits :
  (bool * (bool * (bool * (bool * (bool * (bool * (bool * bool))))))) -> byte

type positive =
| XI of positive
| XO of positive
| XH

type n =
| N0
| Npos of positive

type z =
| Z0
| Zpos of positive
| Zneg of positive

module Pos :
 sig
  type mask =
  | IsNul
  | IsPos of positive
  | IsNeg
 end

module Coq_Pos :
 sig
  val succ : positive -> positive

  val add : positive -> positive -> positive

  val add_carry : positive -> positive -> positive

  val pred_double : positive -> positive

  type mask = Pos.mask =
  | IsNul
  | IsPos of positive
  | IsNeg

  val succ_double_mask : mask -> mask

  val double_mask : mask -> mask

  val double_pred_mask : positive -> mask

  val sub_mask : positive -> positive -> mask

  val sub_mask_carry : positive -> positive -> mask

  val mul : positive -> positive -> positive

  val iter : ('a1 -> 'a1) -> 'a1 -> positive -> 'a1

  val compare_cont : comparison -> positive -> positive -> comparison

  val compare : positive -> positive -> comparison

  val eqb : positive -> positive -> bool

  val coq_Nsucc_double : n -> n

  val coq_Ndouble : n -> n

  val coq_lor : positive -> positive -> positive

  val coq_land : positive -> positive -> n

  val coq_lxor : positive -> positive -> n

  val shiftl : positive -> n -> positive

  val iter_op : ('a1 -> 'a1 -> 'a1) -> positive -> 'a1 -> 'a1

  val to_nat : positive -> nat

  val of_succ_nat : nat -> positive
 end

module N :
 sig
  val succ_double : n -> n

  val double : n -> n

  val add : n -> n -> n

  val sub : n -> n -> n

  val mul : n -> n -> n

  val compare : n -> n -> comparison

  val eqb : n -> n -> bool

  val leb : n -> n -> bool

  val ltb : n -> n -> bool

  val div2 : n -> n

  val pos_div_eucl : positive -> n -> n * n

  val div_eucl : n -> n -> n * n

  val modulo : n -> n -> n

  val coq_lor : n -> n -> n

  val coq_land : n -> n -> n

  val coq_lxor : n -> n -> n

  val shiftl : n -> n -> n

  val shiftr : n -> n -> n

  val to_nat : n -> nat

  val of_nat : nat -> n
 end

module Z :
 sig
  val of_N : n -> z
 end

val nth : nat -> 'a1 list -> 'a1 -> 'a1

val map : ('a1 -> 'a2) -> 'a1 list -> 'a2 list

val firstn : nat -> 'a1 list -> 'a1 list

val skipn : nat -> 'a1 list -> 'a1 list

val repeat : 'a1 -> nat -> 'a1 list

val to_N : byte -> n

type ascii =
| Ascii of bool * bool * bool * bool * bool * bool * bool * bool

val byte_of_ascii : ascii -> byte

type string =
| EmptyString
| String of ascii * string

val list_ascii_of_string : string -> ascii list

val list_byte_of_string : string -> byte list

type bytes = n list

val bs : string -> bytes

val beqb : bytes -> bytes -> bool

val mask32 : n

val add32 : n -> n -> n

val rotl : n -> n -> n

val not32 : n -> n

val word_of : n -> n -> n -> n -> n

val words_of : bytes -> n list

type st = { h0 : n; h1 : n; h2 : n; h3 : n; h4 : n }

val st_init : st

val rounds :
  nat -> n -> n list -> n -> n -> n -> n -> n -> (((n * n) * n) * n) * n

val compress : st -> bytes -> st

val blocks : nat -> bytes -> st -> st

val be_bytes : nat -> n -> bytes

val pad : bytes -> bytes

val sha1 : bytes -> bytes

val oBJECT_TYPES : (n list * n list) list

val eXTENDED_OBJECT_TYPES : (n list * n list) list

type kind =
| KOrigin
| KSnapshot
| KRelease
| KRevision
| KDirectory
| KRawExtrinsicMetadata
| KExtID

val all_kinds : kind list

val has_raw_field : kind -> bool

type err =
| TypeError
| ValueError
| ValidationError
| AttributeError

type 'a result =
| Ok of 'a
| Err of err

type hobj = { h_kind : kind; h_attrs : bytes option; h_raw : bytes option;
              h_id : bytes }

val set_id : bytes -> hobj -> hobj

val is_some : 'a1 option -> bool

val swhid_member : kind -> (bool * bytes) option

val lookup : bytes -> (bytes * bytes) list -> bytes option

val swhid_tag : kind -> bytes option

val hash_from_attributes : (bytes -> bytes) -> hobj -> bytes result

val compute_hash : (bytes -> bytes) -> hobj -> bytes result

val init : (bytes -> bytes) -> hobj -> hobj result

val construct :
  (bytes -> bytes) -> kind -> bytes option -> bytes option option -> bytes ->
  hobj result

type change = { ch_attrs : bytes option option; ch_raw : bytes option option;
                ch_id : bytes option }

val attr_evolve :
  (bytes -> bytes) -> hobj -> bytes option option -> bytes option option ->
  bytes -> hobj result

val evolve : (bytes -> bytes) -> hobj -> change -> hobj result

val check : (bytes -> bytes) -> hobj -> unit result

val swhid : hobj -> (bytes * bytes) result
