Require Extraction.
Require Import ExtrOcamlBasic.
From Coq Require Import ZArith NArith.
From SWH.lib Require Import Sha1 Hex.
From SWH.model Require Import Dir.
Extraction "extract/C02/model.ml" mk_dir_manifest dir_manifest git_tree_object decode_tree_object valid_dir dir_compute_hash sha1 Z.of_N N.to_nat.
