Require Extraction.
Require Import ExtrOcamlBasic.
From Coq Require Import ZArith NArith.
From SWH.lib Require Import Sha1.
From SWH.model Require Import Dir FromDisk FromDiskIter FromDiskPat.
Extraction "extract/C13/model.ml" from_disk from_disk_iter lid lrev mt_id mt_get node_id git_node_id prune_empty prune_named export norm_path wf_fs keys from_disk_pat pat_filter old_pass2 prune_pat glob_match rel_path sha1 Z.of_N N.to_nat.
