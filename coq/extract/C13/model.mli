
val negb : bool -> bool

type nat =
| O
| S of nat

val fst : ('a1 * 'a2) -> 'a1

val snd : ('a1 * 'a2) -> 'a2

val length : 'a1 list -> nat

val app : 'a1 list -> 'a1 list -> 'a1 list

type comparison =
| Eq
| Lt
| Gt

type uint =
| Nil
| D0 of uint
| D1 of uint
| D2 of uint
| D3 of uint
| D4 of uint
| D5 of uint
| D6 of uint
| D7 of uint
| D8 of uint
| D9 of uint

val revapp : uint -> uint -> uint

val rev : uint -> uint

module Little :
 sig
  val double : uint -> uint

  val succ_double : uint -> uint
 end

val add : nat -> nat -> nat

val divmod : nat -> nat -> nat -> nat -> nat * nat

val div : nat -> nat -> nat

type byte =
| X00
| X01
| X02
| X03
| X04
| X05
| X06
| X07
| X08
| X09
| X0a
| X0b
| X0c
| X0d
| X0e
| X0f
| X10
| X11
| X12
| X13
| X14
| X15
| X16
| X17
| X18
| X19
| X1a
| X1b
| X1c
| X1d
| X1e
| X1f
| X20
| X21
| X22
| X23
| X24
| X25
| X26
| X27
| X28
| X29
| X2a
| X2b
| X2c
| X2d
| X2e
| X2f
| X30
| X31
| X32
| X33
| X34
| X35
| X36
| X37
| X38
| X39
| X3a
| X3b
| X3c
| X3d
| X3e
| X3f
| X40
| X41
| X42
| X43
| X44
| X45
| X46
| X47
| X48
| X49
| X4a
| X4b
| X4c
| X4d
| X4e
| X4f
| X50
| X51
| X52
| X53
| X54
| X55
| X56
| X57
| X58
| X59
| X5a
| X5b
| X5c
| X5d
| X5e
| X5f
| X60
| X61
| X62
| X63
| X64
| X65
| X66
| X67
| X68
| X69
| X6a
| X6b
| X6c
| X6d
| X6e
| X6f
| X70
| X71
| X72
| X73
| X74
| X75
| X76
| X77
| X78
| X79
| X7a
| X7b
| X7c
| X7d
| X7e
| X7f
| X80
| X81
| X82
| X83
| X84
| X85
| X86
| X87
| X88
| X89
| X8a
| X8b
| X8c
| X8d
| X8e
| X8f
| X90
| X91
| X92
| X93
| X94
| X95
| X96
| X97
| X98
| X99
| X9a
| X9b
| X9c
| X9d
| X9e
| X9f
| Xa0
| Xa1
| Xa2
| Xa3
| Xa4
| Xa5
| Xa6
| Xa7
| Xa8
| Xa9
| Xaa
| Xab
| Xac
| Xad
| Xae
| Xaf
| Xb0
| Xb1
| Xb2
| Xb3
| Xb4
| Xb5
| Xb6
| Xb7
| Xb8
| Xb9
| Xba
| Xbb
| Xbc
| Xbd
| Xbe
| Xbf
| Xc0
| Xc1
| Xc2
| Xc3
| Xc4
| Xc5
| Xc6
| Xc7
| Xc8
| Xc9
| Xca
| Xcb
| Xcc
| Xcd
| Xce
| Xcf
| Xd0
| Xd1
| Xd2
| Xd3
| Xd4
| Xd5
| Xd6
| Xd7
| Xd8
| Xd9
| Xda
| Xdb
| Xdc
| Xdd
| Xde
| Xdf
| Xe0
| Xe1
| Xe2
| Xe3
| Xe4
| Xe5
| Xe6
| Xe7
| Xe8
| Xe9
| Xea
| Xeb
| Xec
| Xed
| Xee
| Xef
| Xf0
| Xf1
| Xf2
| Xf3
| Xf4
| Xf5
| Xf6
| Xf7
| Xf8
| Xf9
| Xfa
| Xfb
| Xfc
| Xfd
| Xfe
| Xff

val of_bits :
  (bool * (bool * (bool * (bool * (bool * (bool * (bool * bool))))))) -> byte

type positive =
| XI of positive
| XO of positive
| XH

type n =
| N0
| Npos of positive

type z =
| Z0
| Zpos of positive
| Zneg of positive

module Pos :
 sig
  type mask =
  | IsNul
  | IsPos of positive
  | IsNeg
 end

module Coq_Pos :
 sig
  val succ : positive -> positive

  val add : positive -> positive -> positive

  val add_carry : positive -> positive -> positive

  val pred_double : positive -> positive

  type mask = Pos.mask =
  | IsNul
  | IsPos of positive
  | IsNeg

  val succ_double_mask : mask -> mask

  val double_mask : mask -> mask

  val double_pred_mask : positive -> mask

  val sub_mask : positive -> positive -> mask

  val sub_mask_carry : positive -> positive -> mask

  val mul : positive -> positive -> positive

  val iter : ('a1 -> 'a1) -> 'a1 -> positive -> 'a1

  val compare_cont : comparison -> positive -> positive -> comparison

  val compare : positive -> positive -> comparison

  val eqb : positive -> positive -> bool

  val coq_Nsucc_double : n -> n

  val coq_Ndouble : n -> n

  val coq_lor : positive -> positive -> positive

  val coq_land : positive -> positive -> n

  val coq_lxor : positive -> positive -> n

  val shiftl : positive -> n -> positive

  val iter_op : ('a1 -> 'a1 -> 'a1) -> positive -> 'a1 -> 'a1

  val to_nat : positive -> nat

  val of_succ_nat : nat -> positive

  val to_little_uint : positive -> uint

  val to_uint : positive -> uint
 end

module N :
 sig
  val succ_double : n -> n

  val double : n -> n

  val succ : n -> n

  val add : n -> n -> n

  val sub : n -> n -> n

  val mul : n -> n -> n

  val compare : n -> n -> comparison

  val eqb : n -> n -> bool

  val leb : n -> n -> bool

  val ltb : n -> n -> bool

  val div2 : n -> n

  val pos_div_eucl : positive -> n -> n * n

  val div_eucl : n -> n -> n * n

  val div : n -> n -> n

  val modulo : n -> n -> n

  val coq_lor : n -> n -> n

  val coq_land : n -> n -> n

  val coq_lxor : n -> n -> n

  val shiftl : n -> n -> n

  val shiftr : n -> n -> n

  val to_nat : n -> nat

  val of_nat : nat -> n

  val to_uint : n -> uint
 end

module Z :
 sig
  val of_N : n -> z
 end

val nth : nat -> 'a1 list -> 'a1 -> 'a1

val last : 'a1 list -> 'a1 -> 'a1

val rev0 : 'a1 list -> 'a1 list

val concat : 'a1 list list -> 'a1 list

val map : ('a1 -> 'a2) -> 'a1 list -> 'a2 list

val flat_map : ('a1 -> 'a2 list) -> 'a1 list -> 'a2 list

val existsb : ('a1 -> bool) -> 'a1 list -> bool

val find : ('a1 -> bool) -> 'a1 list -> 'a1 option

val firstn : nat -> 'a1 list -> 'a1 list

val skipn : nat -> 'a1 list -> 'a1 list

val repeat : 'a1 -> nat -> 'a1 list

val to_N : byte -> n

type ascii =
| Ascii of bool * bool * bool * bool * bool * bool * bool * bool

val byte_of_ascii : ascii -> byte

type string =
| EmptyString
| String of ascii * string

val list_ascii_of_string : string -> ascii list

val list_byte_of_string : string -> byte list

type bytes = n list

val bs : string -> bytes

val beqb : bytes -> bytes -> bool

val memb : n -> bytes -> bool

val mem_bytes : bytes -> bytes list -> bool

val nUL : n

val sP : n

val sLASH : n

val oct_aux : nat -> n -> bytes -> bytes

val pos_len : positive -> nat

val n_len : n -> nat

val oct : n -> bytes

val mask32 : n

val add32 : n -> n -> n

val rotl : n -> n -> n

val not32 : n -> n

val word_of : n -> n -> n -> n -> n

val words_of : bytes -> n list

type st = { h0 : n; h1 : n; h2 : n; h3 : n; h4 : n }

val st_init : st

val rounds :
  nat -> n -> n list -> n -> n -> n -> n -> n -> (((n * n) * n) * n) * n

val compress : st -> bytes -> st

val blocks : nat -> bytes -> st -> st

val be_bytes : nat -> n -> bytes

val pad : bytes -> bytes

val sha1 : bytes -> bytes

val uint_bytes : uint -> bytes

val dec_N : n -> bytes

val bcompare : bytes -> bytes -> comparison

val bleb : bytes -> bytes -> bool

val insert : ('a1 -> 'a1 -> bool) -> 'a1 -> 'a1 list -> 'a1 list

val sort : ('a1 -> 'a1 -> bool) -> 'a1 list -> 'a1 list

val lenN : bytes -> n

val git_header : bytes -> n -> bytes

val from_parts : bytes -> bytes list -> bytes

val git_object : bytes -> bytes -> bytes

type ety =
| EFile
| EDir
| ERev

val ety_eqb : ety -> ety -> bool

type entry = { e_name : bytes; e_type : ety; e_target : bytes; e_perms : n }

val sort_key : entry -> bytes

val entry_leb : entry -> entry -> bool

val entry_parts : entry -> bytes list

val tree_parts : entry list -> bytes list

val dir_manifest : entry list -> bytes

val nodup_names : bytes list -> entry list -> bool

val term : bytes -> bool -> n

val git_cmp : bytes -> bool -> bytes -> bool -> comparison

val is_dir : entry -> bool

val git_entry_cmp : entry -> entry -> comparison

val git_leb : entry -> entry -> bool

val enc : entry -> bytes

val git_tree_payload : entry list -> bytes

val git_tree_object : entry list -> bytes

val pERMS_content : n

val pERMS_executable_content : n

val pERMS_symlink : n

val pERMS_directory : n

type fsnode =
| Reg of bytes * n
| Lnk of bytes
| Special of n
| FDir of (bytes * fsnode) list

val is_fdir : fsnode -> bool

val file_perms : n -> n

type cinfo = { ci_perms : n; ci_data : bytes; ci_skipped : bool }

type 'a fd_result =
| FdOk of 'a
| FdSymlinkTooLarge

val too_large : n option -> n -> bool

val from_file : n option -> fsnode -> cinfo fd_result

type filt =
| FAll
| FEmpty
| FNamed of bytes list * bool

val lower_byte : n -> n

val lower : bytes -> bytes

val filt_dir : filt -> bytes -> bytes list -> bool

type mtree =
| MLeaf of cinfo
| MNode of (bytes * mtree) list

val keys : mtree -> bytes list

val build :
  (bytes list -> (bytes * mtree) list -> (bytes * mtree) list) -> filt -> n
  option -> bytes list -> fsnode -> mtree fd_result

val prune2 : filt -> mtree -> mtree

val from_disk :
  (bytes list -> (bytes * mtree) list -> (bytes * mtree) list) -> filt -> n
  option -> fsnode -> mtree fd_result

val blob_id : (bytes -> bytes) -> bytes -> bytes

val mt_id : (bytes -> bytes) -> mtree -> bytes

val mt_entry : (bytes -> bytes) -> (bytes * mtree) -> entry

val mt_get : bytes list -> mtree -> mtree option

val node_id : (bytes -> bytes) -> fsnode -> bytes

val git_node_id : (bytes -> bytes) -> fsnode -> bytes

type exported =
| XDir of bytes * entry list
| XContent of bytes * bytes
| XSkipped of bytes * n

val iter_tree :
  (bytes -> bytes) -> bytes list -> mtree -> exported list * bytes list

val export : (bytes -> bytes) -> mtree -> exported list

val prune_empty : fsnode -> fsnode

val prune_named : bytes list -> bool -> fsnode -> fsnode

val rstrip_slash_rev : bytes -> bytes

val rstrip_slash : bytes -> bytes

val norm_path : bytes -> bytes

val wf_fs : fsnode -> bool
